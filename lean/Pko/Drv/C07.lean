import Pko.Util
import Pko.Model.Deployment
import Pko.Model.DeploymentSpec
/-! Line driver for C07: `model` prints what the model of the ObjectDeployment / ObjectSet revision
machinery does for a history (same format as the Go harness); `monitor` evaluates the property
(`Pko.Model.DeploymentSpec.stepOK`, written from the property's sentence) on every step of an
implementation trace. -/
namespace Pko.Drv.C07
open Lean Pko.Model.Deployment

structure JOp where
  op : String
  k : Nat
  b : Bool
  i : Nat
  fault : String
  hide : String
  sfail : Bool
  d : Nat
  owned : Bool
  arch : Bool
  spec : Nat
  rev : Nat
  p : Nat       -- squat: 0 = no previous, k+1 = spec.previous names the ObjectSet at index k
  auto : Bool   -- `arch` / `del` step derived by the harness from what the preceding pass's archiveReconciler wrote
  -- `od` step, derived by the harness: the pass's archiveReconciler (environment here, property C08) failed
  -- after its own garbage collection; the pass ended with that error before the status update
  afail : Option Bool
  deriving FromJson

/-- `lim` / the `k` of a `limit` operation encode spec.revisionHistoryLimit: 0 (or absent) = field not set
(the archiver's default of 10 applies), n+1 = limit n. -/
structure Scn where
  fl : String
  init : Nat
  lim : Option Nat
  ops : List JOp
  deriving FromJson

def decLimit (n : Nat) : Option Nat := if n = 0 then none else some (n - 1)

def limitStr : Option Nat → String
  | none => "nil"
  | some n => toString n

def maxVariant : Nat := 6
def maxCC : Nat := 12

/-- The driver's hash: an injective pairing (the Go harness maps real FNV strings back to pairs). -/
def hsh (v c : Nat) : Nat := v * 100 + c

def cfg : Cfg := { h := hsh, legacy := false, racy := false }

def toFault : String → Fault
  | "fail" => .fail | "lose" => .lose | _ => .none

def toView : String → View
  | "list" => .hideList | "both" => .hideBoth | _ => .fresh

/-- os/arch/del index: absolute (creation order) below 100, `100 + j` = the j-th newest ObjectSet. -/
def relIdx (s : State) (i : Nat) : Option Nat :=
  if i < 100 then some i
  else if i - 100 < s.sets.length then some (s.sets.length - 1 - (i - 100)) else none

/-- `none` = the harness ignores the operation (out of range), `some op` otherwise. -/
def toOp (s : State) (j : JOp) : Option Op :=
  match j.op with
  | "edit" => if j.k ≤ maxVariant then some (.edit j.k) else none
  | "pause" => some (.pause j.b)
  | "od" => some (.od (toFault j.fault) (toView j.hide) (j.sfail || j.afail.getD false))
  | "os" => (relIdx s j.i).map .os
  | "arch" => (relIdx s j.i).map .arch
  | "del" => (relIdx s j.i).map .del
  | "squat" =>
    let prev := if j.p = 0 then [] else match s.sets[j.p - 1]? with | some o => [o.name] | none => []
    if j.spec ≤ maxVariant ∧ s.cc + j.d ≤ maxCC then some (.squat j.d j.owned j.arch j.spec j.rev prev) else none
  | "restart" => some .restart
  | "limit" => some (.limit (decLimit j.k))
  | _ => none

def idStr (n : Nat) : String := s!"{n / 100}.{n % 100}"

def prevStr (p : List Nat) : String := "+".intercalate (p.map idStr)

def outcomeStr : Outcome → String
  | .ok => "ok" | .exists => "exists" | .fail => "fail" | .lost => "lost"

def reqStr (r : Req) : String :=
  s!"{idStr r.obj.name}/{idStr r.obj.hash}/s{r.obj.spec}/p{prevStr r.obj.prev}/{outcomeStr r.outcome}"

def setStr (s : State) (o : OSet) : String :=
  let fl := (if o.archived then "a" else "") ++ (if o.owned then "o" else "") ++
            (if o.member then "m" else "") ++ (if s.unseen.contains o.serial then "h" else "")
  s!"#{o.serial}:{idStr o.name}:s{o.spec}:r{o.rev}:{fl}:p{prevStr o.prev}"

def stateStr (s : State) : String :=
  let th := match s.th with | some n => idStr n | none => "-"
  s!"cc={s.cc} th={th} S[{",".intercalate (s.sets.map (setStr s))}]"

def model (sc : Scn) : String := Id.run do
  if sc.init > maxVariant then return "BAD-SCN"
  let mut s := init sc.init
  let mut outs : Array String := #[]
  for j in sc.ops do
    if s.cc + 2 ≥ maxCC then
      outs := outs.push "CC-LIMIT"
      break
    let mut res := "-"
    let mut reqs : List Req := []
    match toOp s j with
    | none => pure ()
    | some op =>
      let (s', rq, r) := exec cfg s op
      s := s'
      reqs := rq
      res := if j.op == "od" && j.afail.getD false && r == "e:inj" && rq.isEmpty then "e:arch" else r
    outs := outs.push s!"{res} C[{",".intercalate (reqs.map reqStr)}] {stateStr s}"
  return ";".intercalate outs.toList

/-! ### Monitor: parse an implementation trace back into observations and evaluate the spec -/

open Pko.Model.DeploymentSpec

def parseId (t : String) : Option Nat :=
  match t.splitOn "." with
  | [a, b] => do
    let x ← a.toNat?
    let y ← b.toNat?
    pure (x * 100 + y)
  | _ => none

def parsePrev (t : String) : Option (List Nat) :=
  if t.isEmpty then some [] else (t.splitOn "+").mapM parseId

def dropPrefix (t : String) (n : Nat) : String := (t.drop n).toString

/-- `#serial:name:s<spec>:r<rev>:<flags>:p<prev>` -/
def parseSet (t : String) : Option OSet :=
  match t.splitOn ":" with
  | [a, b, c, d, e, f] => do
    let serial ← (dropPrefix a 1).toNat?
    let name ← parseId b
    let spec ← (dropPrefix c 1).toNat?
    let rev ← (dropPrefix d 1).toNat?
    let prev ← parsePrev (dropPrefix f 1)
    pure { serial := serial, name := name, hash := name, spec := spec, prev := prev, rev := rev,
           archived := e.contains 'a', owned := e.contains 'o', member := e.contains 'm' }
  | _ => none

/-- `name/hash/s<spec>/p<prev>/<outcome>` -/
def parseReq (t : String) : Option Req :=
  match t.splitOn "/" with
  | [a, b, c, d, e] => do
    let name ← parseId a
    let hash ← parseId b
    let spec ← (dropPrefix c 1).toNat?
    let prev ← parsePrev (dropPrefix d 1)
    let oc ← match e with
      | "ok" => some Outcome.ok | "exists" => some Outcome.exists | "fail" => some Outcome.fail | "lost" => some Outcome.lost
      | _ => none
    pure ⟨{ serial := 0, name := name, hash := hash, spec := spec, prev := prev, rev := 0,
            archived := false, owned := true, member := true }, oc⟩
  | _ => none

def inBrackets (t : String) (pre : String) : Option String :=
  if t.startsWith (pre ++ "[") && t.endsWith "]" then some ((t.drop (pre.length + 1)).dropEnd 1).toString else none

def parseList {α} (f : String → Option α) (t : String) : Option (List α) :=
  if t.isEmpty then some [] else (t.splitOn ",").mapM f

/-- `<res> C[..] cc=<n> th=<id|-> S[..]` -/
def parseStep (t : String) : Option Obs :=
  match t.splitOn " " with
  | [r, c, cc, th, ss] => do
    let reqs ← (inBrackets c "C") >>= parseList parseReq
    let sets ← (inBrackets ss "S") >>= parseList parseSet
    let ccn ← (dropPrefix cc 3).toNat?
    let thn ← if th == "th=-" then some none else (parseId (dropPrefix th 3)).map some
    pure { res := r, reqs := reqs, cc := ccn, th := thn, sets := sets }
  | _ => none

def monitor (sc : Scn) (out : String) : String := Id.run do
  if out == "BAD-SCN" then
    return if sc.init > maxVariant then "ok" else "bad scenario-rejected"
  let steps := if out.isEmpty then [] else out.splitOn ";"
  let mut tmpl := sc.init
  let mut paused := false
  let mut pre : Before := { cc := 0, sets := [] }
  let mut epochCreates := 0
  let mut limit := decLimit (sc.lim.getD 0)   -- only reported in the verdict: the property does not depend on it
  let mut i := 0
  let mut ops := sc.ops
  -- the verdict names the FIRST step and clause that fail; clauses of other kinds that fail on later
  -- steps of the same trace (consequences, e.g. a wrong previous list followed by a repeated
  -- revision number) are appended as `also <kind> step=<n>`
  let mut first : Option String := none
  let mut kinds : List String := []
  let done := fun (first : Option String) (dflt : String) => match first with | some f => f | none => dflt
  for st in steps do
    if st == "CC-LIMIT" then return done first "ok"
    let j ← match ops with
      | [] => return done first s!"bad step-count impl has more steps than the scenario ({steps.length})"
      | j :: rest => do ops := rest; pure j
    let some post := parseStep st | return done first s!"bad unparsable step={i} {st.take 120}"
    -- the operation as the harness applies it (identical on both sides; environment ops only)
    let ms : State := { template := tmpl, paused := paused, cc := pre.cc, th := none, sets := pre.sets,
                        next := 0, unseen := [], created := 0, hi := 0, log := [] }
    let op := toOp ms j
    let chg := match op with | some (.edit k) => k != tmpl | _ => false
    if chg then epochCreates := 0
    match stepOK { template := tmpl, paused := paused, epochCreates := epochCreates } pre op post with
    | some why =>
      let nm := (mems pre.sets).length
      match first with
      | none =>
        first := some s!"bad {why} step={i} op={j.op} template={tmpl} cc-before={pre.cc} revisionHistoryLimit={limitStr limit} existing-objectsets={nm} observed: {st}"
        kinds := [why]
      | some f =>
        if !kinds.contains why then
          first := some (f ++ s!" | also {why} step={i} op={j.op}")
          kinds := why :: kinds
    | none => pure ()
    epochCreates := epochCreates + (post.reqs.filter (fun r => r.outcome == .ok || r.outcome == .lost)).length
    match op with
    | some (.edit k) => tmpl := k
    | some (.pause b) => paused := b
    | some (.limit l) => limit := l
    | _ => pure ()
    pre := { cc := post.cc, sets := post.sets }
    i := i + 1
  if !ops.isEmpty then return done first s!"bad step-count impl={steps.length} scn={sc.ops.length}"
  return done first "ok"

end Pko.Drv.C07

def main (args : List String) : IO UInt32 :=
  Pko.Util.driverMain Pko.Drv.C07.Scn Pko.Drv.C07.model Pko.Drv.C07.monitor args
