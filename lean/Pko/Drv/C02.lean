import Pko.Drv.PhaseCommon
import Pko.Drv.C02Judge
/-! Driver for C02 on the phase-level stream.  The monitor judges every apply of the
IMPLEMENTATION (revision recorded and number of controllers as stored by that very write) against
the object's state before the pass. -/
namespace Pko.Drv.C02
open Pko.Kube Pko.Model.Phase Pko.Drv.PhaseCommon

def monitor (s : Scn) (out : String) : String := Id.run do
  if s.mode ≠ "reconcile" then return "ok"
  if !(s.env.getD []).isEmpty then return "ok"
  let some io := parseOut out | return s!"bad unparsable-output {out.take 60}"
  let cfg := cfgOf s
  let ow := ownerOf s
  let objs := objsOf s
  let st0 := initStore s
  let keys := objs.map (keyOf cfg ow)
  if keys.eraseDups.length ≠ keys.length then return "ok"
  for e in io.events do
    if eventVerb e == "A" then
      match objs.find? (fun p => keyStr (keyOf cfg ow p) == eventKey e) with
      | none => return s!"bad write-on-unlisted-key {e}"
      | some p =>
        match Pko.Drv.C02Judge.judgeApply cfg.st ow (some ow.rev) (st0.get (keyOf cfg ow p)) e with
        | some b => return b
        | none => pure ()
  return "ok"

end Pko.Drv.C02

def main (args : List String) : IO UInt32 :=
  Pko.Util.driverMain Pko.Drv.PhaseCommon.Scn Pko.Drv.PhaseCommon.model Pko.Drv.C02.monitor args
