import Pko.Drv.PhaseCommon
/-! The per-apply judgement of C02 (shared by the phase-level and the controller-level driver). -/
namespace Pko.Drv.C02Judge
open Pko.Kube Pko.Model.Phase Pko.Drv.PhaseCommon

/-- `r=<rev>` and `c=<native>/<annotation>` of an apply event -/
def applyInfo (e : String) : Option (String × Nat × Nat) :=
  let toks := e.splitOn " "
  match toks.find? (·.startsWith "r="), toks.find? (·.startsWith "c=") with
  | some r, some c =>
    match ((c.drop 2).toString).splitOn "/" with
    | [a, b] => match a.toNat?, b.toNat? with
      | some x, some y => some ((r.drop 2).toString, x, y)
      | _, _ => none
    | _ => none
  | _, _ => none

/-- judge one apply event given the object's pre-state and the writing owner. -/
def judgeApply (st : Strategy) (ow : Owner) (ownRev : Option Nat) (pre : Option Obj) (e : String) : Option String :=
  match applyInfo e with
  | none => some s!"bad unparsable-apply {e}"
  | some (r, cn, ca) =>
    let nctl := match st with | .native => cn | .annotation => ca
    match pre with
    | none =>
      if nctl != 1 then some s!"bad created-object-without-single-controller {e}" else none
    | some cur =>
      let wasCtrl := isController st (ow.ref true) cur
      let preCtl := ((refs st cur).filter (·.ctrl)).length
      if !wasCtrl && cur.rev != .garbage && (match ownRev with | some n => decide (revNum cur.rev > n) | none => false) then
        some s!"bad adopted-object-of-newer-revision {e}"
      -- (excluded hypothesis of write_never_lowers_revision: the writer already controls an object that
      -- records a higher revision than its own — only a third party can create that state; when the
      -- writer's revision is only assigned in this pass it cannot be compared)
      else if !(wasCtrl && (match ownRev with | some n => decide (revNum cur.rev > n) | none => true)) &&
              cur.rev != .garbage && (match r.toNat? with | some n => decide (n < revNum cur.rev) | none => true) then
        some s!"bad recorded-revision-lowered {e} before={revNum cur.rev}"
      else if preCtl ≤ 1 && nctl != 1 then
        some s!"bad not-exactly-one-controller-after-write {e}"
      else none

end Pko.Drv.C02Judge
