import Pko.Drv.PhaseCommon
import Pko.Model.ObjectSet
import Pko.Model.Remote
import Pko.Model.RemoteNs
import Pko.Model.Slices
import Pko.Model.Converge
import Pko.Model.Handover
/-! Shared part of the controller-level ("sys") drivers: scenario decoding, running the
ObjectSet controller model over a schedule, canonical printing — the format of
`harness/verifsys/sys.go`. -/
namespace Pko.Drv.SysCommon
open Lean Pko.Kube Pko.Model.Phase Pko.Model.ObjectSet Pko.Model.Status Pko.Drv.PhaseCommon

structure JSlice where
  name : String
  objects : Option (List JPObj)
  deriving FromJson, Repr

structure JPhase where
  name : String
  «class» : String
  objects : Option (List JPObj)
  slices : Option (List JSlice) := none    -- C04 "slices" stream only
  deriving FromJson, Repr

structure JSet where
  name : String
  lifecycle : String
  previous : Option (List String)
  phases : Option (List JPhase)
  revision : Nat
  finCached : Bool
  pkgLabel : String
  later : Option Bool := none       -- handover stream: created by a `rollout` step
  deriving FromJson, Repr

/-- `ODSpec` of od.go: the sets are the revisions of one ObjectDeployment. -/
structure JOD where
  paused : Bool
  deriving FromJson, Repr

structure JSetEnv where
  «at» : Nat
  op : String
  set : String
  value : String
  deriving FromJson, Repr

structure JFault where
  call : Nat
  mode : String
  budget : Nat
  deriving FromJson, Repr

/-- `Step.WFault` of sys.go: the `at`-th write on a managed object of the pass is refused. -/
structure JWFault where
  «at» : Nat
  «class» : String
  deriving FromJson, Repr

structure JStep where
  op : String
  set : String
  value : String
  orphan : Bool
  phase : Nat
  obj : Nat
  env : Option (List JEnv)
  setEnv : Option (List JSetEnv)
  fault : Option JFault := none     -- C10 only
  drift : Option Bool := none       -- C10 only
  wfault : Option JWFault := none   -- op = reconcile | phase: a refused write on a managed object
  -- op = reconcile | phase: kinds whose REST-mapper lookups fail (transient, non-NoMatch) during this
  -- pass (`mapErrClass` — which error exactly — is not read)
  mapErr : Option (List String) := none
  deriving FromJson, Repr

structure Scn where
  cluster : Bool
  sets : Option (List JSet)
  store : Option (List JSObj)
  steps : Option (List JStep)
  rounds : Option Nat := none       -- C10 only
  od : Option JOD := none           -- handover stream only
  deriving FromJson, Repr

def toLifecycle : String → Lifecycle
  | "Paused" => .paused
  | "Archived" => .archived
  | _ => .active

def nsOf (s : Scn) : String := if s.cluster then "" else "ns1"
def setKindOf (s : Scn) : String := if s.cluster then "ClusterObjectSet" else "ObjectSet"

def cfgOf (_s : Scn) : Cfg :=
  { st := .native, flavour := ⟨true, true, true⟩, scope := scopeOf, force := false }

def toPhase (p : JPhase) : PhaseSpec :=
  { name := p.name, cls := p.class, objs := (p.objects.getD []).map toPObj }

/-- ObjectSets are created first (uid-1, uid-2, …; rv 1, 2, …), then the managed objects. -/
def initSys (s : Scn) : Sys :=
  let sets := (s.sets.getD []).filter fun js => !(js.later.getD false)   -- (`later` sets: see `rollout`)
  let n := sets.length
  let osets : List OSet := (sets.zipIdx).map fun (js, i) =>
    { kind := setKindOf s, ns := nsOf s, name := js.name, uid := s!"uid-{i+1}", gen := 1, rv := i + 1,
      deleting := false, finCached := js.finCached, finOrphan := false, pkgLabel := js.pkgLabel,
      lifecycle := toLifecycle js.lifecycle, phases := (js.phases.getD []).map toPhase,
      previous := js.previous.getD [], revision := js.revision, conds := [], controllerOf := [], remotePhases := [] }
  let store0 : Store := { objs := fun _ => none, nextUID := n + 1, nextRV := n + 1 }
  let store := (s.store.getD []).foldl (fun (st : Store) (o : JSObj) =>
    let k : Key := ⟨o.kind, o.ns, o.name⟩
    let obj : Obj := {
      uid := st.nextUID
      rv := st.nextRV
      gen := 1
      owners := (o.owners.getD []).map toRef
      annOwners := (o.annOwners.getD []).map toRef
      rev := parseRev o.rev
      cacheLabel := o.cache
      pkgLabel := o.pkg
      payload := o.payload
      ready := o.ready
      obsGen := obsGenOf o.obsGen
      finalizer := o.finalizer
      deleting := false }
    { (st.set k (some obj)) with nextUID := st.nextUID + 1, nextRV := st.nextRV + 1 }) store0
  -- ObjectSlices are fixtures: they consume no uid / resourceVersion numbers
  let slices := sets.flatMap fun js => (js.phases.getD []).flatMap fun ph =>
    (ph.slices.getD []).map fun sl => (sl.name, (sl.objects.getD []).map toPObj)
  -- the Namespace the harness creates (a fixture as well); only the remote-phase teardown reads it
  let store := store.set (Pko.Model.RemoteNs.nsKey "ns1") (some Pko.Model.RemoteNs.nsObj)
  { w := { store := store, writes := 0, env := [], events := [] }
    sets := fun nm => osets.find? (·.name = nm)
    setEvents := [], freed := [], setWrites := 0, setEnv := [], slices := slices,
    -- the ObjectDeployment's template is the one of the newest revision present at the start (od.go `newOD`)
    od := { paused := (s.od.map (·.paused)).getD false,
            template := match sets.getLast? with
              | some js => if s.od.isSome then (js.phases.getD []).map toPhase else []
              | none => [] } }

/-- `phase.Slices` per phase of the ObjectSet called `name` (spec, static). -/
def sliceRefs (s : Scn) (name : String) : List (List String) :=
  match (s.sets.getD []).find? (·.name = name) with
  | some js => (js.phases.getD []).map fun ph => (ph.slices.getD []).map (·.name)
  | none => []

/-- the objects of every slice that EVER belonged to a phase of the spec, per phase. -/
def sliceObjs (s : Scn) (name : String) : List (List PObj) :=
  match (s.sets.getD []).find? (·.name = name) with
  | some js => (js.phases.getD []).map fun ph =>
      (ph.slices.getD []).flatMap fun sl => (sl.objects.getD []).map toPObj
  | none => []

def toSetEnv (e : JSetEnv) : Nat × SetEnvOp :=
  (e.at, match e.op with
    | "lifecycle" => .lifecycle e.set (toLifecycle e.value)
    | "status" => .status e.set e.value
    | _ => .touch e.set)

/-- flavour of the same-cluster ObjectSetPhase controller serving the scenario's phases. -/
def phaseCfgOf (s : Scn) : Cfg :=
  { st := .native, flavour := if s.cluster then ⟨false, true, true⟩ else ⟨true, true, true⟩, scope := scopeOf, force := false }

def condStr (c : Cond) : String :=
  s!"{c.type}={c.status}/{c.reason}/{c.obsGen}" ++ (if c.type = "Available" && c.reason = "ProbeFailure" && c.msg ≠ "" then "/" ++ c.msg else "")
def condsStr (cs : List Cond) : String := ",".intercalate (sortStrings (cs.map condStr))
def crefStr (c : CRef) : String := s!"{c.kind}/{c.ns}/{c.name}"
def crefsStr (cs : List CRef) : String := ",".intercalate (cs.map crefStr)
/-- status.remotePhases as `name:uid`, in the order of the status list. -/
def rpStr (rs : List (String × String)) : String := ",".intercalate (rs.map fun r => s!"{r.1}:{r.2}")
def resOr (r : Option ApiErr) : String := match r with | none => "ok" | some e => "!" ++ errStr e

def setEventStr : SetEvent → String
  | .finalizerPatch n add r => s!"F {n} {if add then "+" else "-"} {resOr r}"
  | .statusUpdate n r rev conds co rp =>
    s!"S {n} {resOr r} rev={rev} conds=[{condsStr conds}] co=[{crefsStr co}] rp=[{rpStr rp}]"

def phaseEventStr (kind : String) : PhaseEvent → String
  | .create n r => s!"C {kind}/{n} {resOr r}"
  | .pausePatch n _ r => s!"P {kind}/{n} {resOr r}"
  | .delete n r => s!"X {kind}/{n} {resOr r}"
  | .finalizerPatch n add r => s!"F {n} {if add then "+" else "-"} {resOr r}"
  | .statusUpdate n r conds co => s!"S {n} {resOr r} rev=0 conds=[{condsStr conds}] co=[{crefsStr co}]"
  | .update n r => s!"U {kind}/{n} {resOr r}"

def ophaseStr (p : OPhase) : String :=
  s!"{p.name}\{g={p.gen},d={b01 p.deleting},f={if p.finCached then "c" else ""}{if p.finOrphan then "o" else ""},paused={b01 p.paused},rev={p.revision} conds=[{condsStr p.conds}] co=[{crefsStr p.controllerOf}]}"

def resStr : Res → String
  | .ok => "ok" | .requeue => "requeue" | .err => "err"

def lifeStr : Lifecycle → String
  | .active => "Active" | .paused => "Paused" | .archived => "Archived"

def osetStr (o : OSet) : String :=
  s!"{o.name}\{g={o.gen},d={b01 o.deleting},f={if o.finCached then "c" else ""}{if o.finOrphan then "o" else ""},life={lifeStr o.lifecycle}{if o.pbp then "+pbp" else ""},rev={o.revision} conds=[{condsStr o.conds}] co=[{crefsStr o.controllerOf}] rp=[{rpStr o.remotePhases}]}"

/-- (S1B) every key a managed object of the scenario can live under, in the order the store lists
its objects (`Store.Snapshot`: sorted by kind / namespace / name) — the order the garbage
collector visits dependents in (`gcPhase`). -/
def gcKeys (s : Scn) (cfg : Cfg) : List Key :=
  let fromStore := (s.store.getD []).map (fun o => (⟨o.kind, o.ns, o.name⟩ : Key))
  let fromSets := (s.sets.getD []).flatMap fun js =>
    (js.phases.getD []).flatMap fun ph => ((ph.objects.getD []) ++ (ph.slices.getD []).flatMap (·.objects.getD [])).map fun p =>
      let ow : Owner := { group := pkoGroup, kind := setKindOf s, ns := nsOf s, name := js.name, uid := "", rev := 0, paused := false, pkgLabel := "" }
      keyOf cfg ow (toPObj p)
  let ks := (fromStore ++ fromSets).eraseDups
  (sortStrings (ks.map keyStr)).filterMap fun x => ks.find? (keyStr · == x)

/-! ### The ObjectDeployment level (handover stream, od.go) -/

/-- the ObjectSets of the namespace as `client.List` of the store returns them: sorted by name. -/
def listingNames (scn : Scn) : List String := sortStrings ((scn.sets.getD []).map (·.name))

/-- the writes of an ObjectDeployment pass as od.go prints them: what each `Update` leaves in
`spec.lifecycleState` / the paused-by-parent annotation. -/
def odEventsStr (names : List String) (s : Sys) (ws : List Pko.Model.Archive.Write) : String :=
  let step (acc : Sys × List String) (w : Pko.Model.Archive.Write) : Sys × List String :=
    let s' := Pko.Model.Handover.applyWrite names acc.1 w
    let n := names.getD w.id "?"
    let ev := match w with
      | .delete _ => s!"X {n} ok"
      | _ => match s'.sets n with
        | some o => s!"U {n} {lifeStr o.lifecycle} pbp={b01 o.pbp} ok"
        | none => s!"U {n} ? !NotFound"
    (s', acc.2 ++ [ev])
  ";".intercalate (ws.foldl step (s, [])).2

/-- `od`: one pass of the ObjectDeployment controller (`Pko.Model.Handover.odPass` = the model of
property C08 (a), `Pko.Model.Archive.osr`, on the ObjectSets of the state). -/
def odStep (scn : Scn) (s : Sys) : Sys × String :=
  let names := listingNames scn
  let (s', ws, err) := Pko.Model.Handover.odPass names s
  (s', s!"O {if err then "err" else "ok"} | {odEventsStr names s ws}")

/-- `rollout`: the user updates the ObjectDeployment's template and the ObjectSet of the new revision
appears (uid / resourceVersion from the store-wide counters, like any object created later). -/
def rolloutStep (scn : Scn) (name : String) (s : Sys) : Sys × String :=
  match (scn.sets.getD []).find? (fun js => js.name = name && js.later.getD false) with
  | none => (s, "BAD-STEP")
  | some js =>
    if (s.sets name).isSome then (s, "BAD-STEP")
    else
      let st := s.w.store
      let o : OSet :=
        { kind := setKindOf scn, ns := nsOf scn, name := js.name, uid := s!"uid-{st.nextUID}", gen := 1, rv := st.nextRV,
          deleting := false, finCached := js.finCached, finOrphan := false, pkgLabel := js.pkgLabel,
          lifecycle := toLifecycle js.lifecycle, phases := (js.phases.getD []).map toPhase,
          previous := js.previous.getD [], revision := js.revision, conds := [], controllerOf := [], remotePhases := [] }
      let s := { s with w := { s.w with store := { st with nextUID := st.nextUID + 1, nextRV := st.nextRV + 1 } },
                        od := { s.od with template := o.phases } }
      (s.setSet name (some o), "-")

/-- one schedule step; returns the output token of the step. -/
def stepModel (scn : Scn) (cfg : Cfg) (st : JStep) (s : Sys) : Sys × String :=
  match st.op with
  | "od" => if scn.od.isSome then odStep scn s else (s, "BAD-STEP")
  | "odPause" => if scn.od.isSome then ({ s with od := { s.od with paused := st.value == "true" } }, "-") else (s, "BAD-STEP")
  | "rollout" => if scn.od.isSome then rolloutStep scn st.set s else (s, "BAD-STEP")
  | "reconcile" =>
    let s0 : Sys := { s with w := { s.w with writes := 0, env := (st.env.getD []).map toEnv, events := [], phaseEvents := [], applied := [] },
                             setEvents := [], setWrites := 0, setEnv := (st.setEnv.getD []).map toSetEnv }
    let refs := sliceRefs scn st.set
    -- a namespace that is there and not in deletion: the remote-phase teardown never takes the
    -- namespace branch (`Pko.Props.C04.remoteTeardownNs_live`) — such passes run `Remote.remotes` itself
    let rm := if Pko.Model.RemoteNs.nsLive s0.w.store (nsOf scn) then Pko.Model.Remote.remotes else Pko.Model.RemoteNs.remotesNs
    let (s1, r) := if refs.all (·.isEmpty) then reconcile cfg rm st.set s0
      else Pko.Model.Slices.reconcileSliced cfg rm refs st.set s0
    (s1, stepOut r s1)
  | "phase" =>
    let s0 : Sys := { s with w := { s.w with writes := 0, env := (st.env.getD []).map toEnv, events := [], phaseEvents := [], applied := [] },
                             setEvents := [], setWrites := 0, setEnv := [] }
    let (s1, r) := Pko.Model.Remote.reconcilePhaseCtl { phaseCfgOf scn with scope := cfg.scope, mapErr := cfg.mapErr } (setKindOf scn) (nsOf scn) st.set s0
    (s1, stepOut r s1)
  | "env" =>
    ({ s with w := { s.w with store := (st.env.getD []).foldl (fun acc e => acc.env (toEnv e).2) s.w.store } }, "-")
  | "lifecycle" => (s.applySetEnv (.lifecycle st.set (toLifecycle st.value)), "-")
  | "touch" => (s.applySetEnv (.touch st.set), "-")
  | "delete" => (s.applySetEnv (.delete st.set st.orphan), "-")
  | "editPayload" => (s.applySetEnv (.editPayload st.set st.phase st.obj st.value), "-")
  -- the operator process is replaced: what it held in memory — the dynamic cache's registrations — is gone
  | "restart" => ({ s with w := s.w.restart }, "-")
  | "delSlice" => ({ s with slices := s.slices.filter (·.1 != st.set) }, "-")   -- a third party deletes an ObjectSlice
  -- (S1B) third-party operations on a delegated phase's API object
  | "delPhase" => ({ s with w := Pko.Model.Remote.deletePhaseObject s.w st.set st.orphan (st.value == "force") (gcKeys scn cfg) }, "-")
  | "gcPhase" => ({ s with w := Pko.Model.Remote.gcPhaseObject s.w st.set (gcKeys scn cfg) }, "-")
  -- the scenario's Namespace as the controllers' client sees it from now on: in deletion
  -- ("terminating"), not there ("gone": NotFound), or there again ("live")
  | "namespace" =>
    let k := Pko.Model.RemoteNs.nsKey "ns1"
    let o : Option Obj := match st.value with
      | "gone" => none
      | "terminating" => some { Pko.Model.RemoteNs.nsObj with deleting := true, finalizer := true }
      | _ => some Pko.Model.RemoteNs.nsObj
    ({ s with w := { s.w with store := s.w.store.set k o } }, "-")
  | _ => (s, "BAD-STEP")
where
  stepOut (r : Res) (s1 : Sys) : String :=
    let pk := Pko.Model.Remote.phaseKindOf (setKindOf scn)
    s!"R {resStr r} | {eventsStr s1.w} | {";".intercalate (s1.setEvents.map setEventStr)} | {";".intercalate (s1.w.phaseEvents.map (phaseEventStr pk))}"


/-! ### Environment behaviour beyond edits of single objects (generators of `gen_env.go`)

* `rescope` steps: the REST mapper's answer for a kind changes during the history.  The overrides
  live in `Sys.scopeOv`; `cfgAt` builds the configuration a step runs with.
* REST-mapper faults (`Step.MapErr`): the lookups of some kinds fail with a transient error during
  one pass (`Cfg.mapErr`, set per step by `stepModelX`).
* refused writes (`Step.WFault`): the API answers the `at`-th write on a managed object of a pass
  with an error.  For every error class the harness injects, the code returns the error at once:
  the pass ends `err` and leaves behind what it had written before that request — the prefix
  state the ghost fields `crashAt` / `snap` / `trail` keep (see `Pko.Model.Converge`); the ghost
  `World.ticks` tells which request of the pass the refused write is. -/

def scopeWith (base : String → Scope) (ov : List (String × Scope)) : String → Scope :=
  fun k => match ov.find? (·.1 = k) with
    | some e => e.2
    | none => base k

/-- the configuration as the REST mapper answers when a step runs on state `s`. -/
def cfgAt (cfg : Cfg) (s : Sys) : Cfg := { cfg with scope := scopeWith cfg.scope s.scopeOv }

def toScope : String → Scope
  | "namespaced" => .namespaced
  | "cluster" => .cluster
  | _ => .unknown

/-- the API of `kind` is removed / registered again with scope `sc`: its objects go with it. -/
def rescope (kind : String) (sc : Scope) (s : Sys) : Sys :=
  { s with scopeOv := (kind, sc) :: s.scopeOv,
           w := { s.w with store := { s.w.store with objs := fun k => if k.kind = kind then none else s.w.store.objs k } } }

/-- third parties address an object of a cluster-scoped kind without namespace (the API ignores it). -/
def normEnv (cfg : Cfg) (e : JEnv) : JEnv := if cfg.scope e.kind = .cluster then { e with ns := "" } else e

def wfaultClasses : List String := ["Conflict", "Forbidden", "Invalid", "BadRequest", "Error"]

def refusedEventStr (cls : String) : Event → String
  | .apply k _ _ => s!"A {keyStr k} !{cls}"
  | .merge k _ owners _ => s!"M {keyStr k} !{cls} [{refsStr owners}]"
  | .delete k u _ _ => s!"D {keyStr k} u={u} rv {cls}"

/-- reset the per-pass ghost state (incl. the request log) and arm the crash point. -/
def armT (s : Sys) (c : Option Nat) : Sys :=
  let a := Pko.Model.Converge.arm s c
  { a with w := { a.w with ticks := [] } }

/-- per request of a completed pass: is it a write on a managed object / on a phase object
(otherwise: on the ObjectSet), and how many managed / phase-object writes preceded it. -/
def requestKinds (w : World) : List (Nat × Nat × Bool × Bool) :=
  let nexts := w.ticks.drop 1 ++ [(w.writes, w.phaseEvents.length)]
  (w.ticks.zip nexts).map fun (t, n) => (t.1, t.2, decide (n.1 = t.1 + 1), decide (n.2 = t.2 + 1))

/-- a pass in which write number `f.at` on a managed object is refused with class `f.class`. -/
def refusedStep (scn : Scn) (cfg : Cfg) (st : JStep) (f : JWFault) (s : Sys) : Sys × String :=
  let st := { st with setEnv := none }
  let (s1, _) := stepModel scn cfg st (armT s none)
  let reqs := requestKinds s1.w
  match reqs.zipIdx.find? (fun (r, _) => r.2.2.1 && r.1 = f.at) with
  | none => stepModel scn cfg st s                  -- the pass issues fewer writes: nothing is refused
  | some (r, c) =>
    if !wfaultClasses.contains f.class then stepModel scn cfg st s
    else
      let s0 := armT s (some c)
      let (s2, _) := stepModel scn cfg st s0
      let cut := Pko.Model.Converge.crashState s0 s2 c
      -- third-party operations scheduled right before the refused write did happen
      let due := ((st.env.getD []).map toEnv).filter (·.1 = f.at)
      let cut := { cut with w := { cut.w with store := due.foldl (fun acc e => acc.env e.2) cut.w.store } }
      let nset := ((reqs.take c).filter fun q => !q.2.2.1 && !q.2.2.2).length
      let evs := eventsStr { s1.w with events := s1.w.events.take f.at }
      let refused := match s1.w.events[f.at]? with
        | some e => refusedEventStr f.class e
        | none => "?"
      let evs := if evs.isEmpty then refused else evs ++ ";" ++ refused
      let pk := Pko.Model.Remote.phaseKindOf (setKindOf scn)
      (cut, s!"R err | {evs} | {";".intercalate ((s1.setEvents.take nset).map setEventStr)} | {";".intercalate ((s1.w.phaseEvents.take r.2.1).map (phaseEventStr pk))}")

/-- one schedule step of the sys stream, with the environment behaviour above. -/
def stepModelX (scn : Scn) (cfg0 : Cfg) (st : JStep) (s : Sys) : Sys × String :=
  -- the REST mapper as it answers during THIS step: scopes as registered now, lookups of the
  -- step's `mapErr` kinds failing
  let cfg := { cfgAt cfg0 s with mapErr := fun k => (st.mapErr.getD []).contains k }
  let st := if s.scopeOv.isEmpty then st else { st with env := st.env.map (·.map (normEnv cfg)) }
  if st.op = "rescope" then
    if st.set = "NsThing" ∨ st.set = "ClThing" then (rescope st.set (toScope st.value) s, "-") else (s, "BAD-STEP")
  else match st.wfault with
    | some f => if st.op = "reconcile" ∨ st.op = "phase" then refusedStep scn cfg st f s else stepModel scn cfg st s
    | none => stepModel scn cfg st s

def hasRescope (s : Scn) : Bool := (s.steps.getD []).any (·.op = "rescope")

def setNames (s : Scn) : List String := (s.sets.getD []).map (·.name)

def managedKeys (s : Scn) (cfg : Cfg) : List Key :=
  let fromStore := (s.store.getD []).map (fun o => (⟨o.kind, o.ns, o.name⟩ : Key))
  let fromSets := (s.sets.getD []).flatMap fun js =>
    (js.phases.getD []).flatMap fun ph => ((ph.objects.getD []) ++ (ph.slices.getD []).flatMap (·.objects.getD [])).map fun p =>
      let ow : Owner := { group := pkoGroup, kind := setKindOf s, ns := nsOf s, name := js.name, uid := "", rev := 0, paused := false, pkgLabel := "" }
      keyOf cfg ow (toPObj p)
  (fromStore ++ fromSets).eraseDups

def runModel (s : Scn) : List String × Sys :=
  let cfg := cfgOf s
  (s.steps.getD []).foldl (fun (acc : List String × Sys) st =>
    let (sys', o) := stepModelX s cfg st acc.2
    (acc.1 ++ [o], sys')) ([], initSys s)

def model (s : Scn) : String :=
  let (outs, sys) := runModel s
  let phaseNames := (s.sets.getD []).flatMap fun js => (js.phases.getD []).map fun ph => js.name ++ "-" ++ ph.name
  let sets := sortStrings (((setNames s).filterMap fun n => (sys.sets n).map osetStr) ++
    (phaseNames.filterMap fun n => (sys.w.phases n).map ophaseStr) ++
    (sys.slices.map fun sl => (if s.cluster then "ClusterObjectSlice/" else "ObjectSlice/") ++ sl.1))
  -- (after a `rescope` an object may live under the key of either scope)
  let keys := if hasRescope s then
      (managedKeys s (cfgOf s) ++ managedKeys s { cfgOf s with scope := fun _ => .namespaced } ++
        managedKeys s { cfgOf s with scope := fun _ => .cluster }).eraseDups
    else managedKeys s (cfgOf s)
  let objs := sortStrings (keys.filterMap fun k => (sys.w.store.get k).map (objStr k))
  " ## ".intercalate (outs ++ [";".intercalate sets, ";".intercalate objs])

end Pko.Drv.SysCommon
