import Pko.Drv.PhaseCommon
import Pko.Model.ObjectSet
import Pko.Model.Remote
import Pko.Model.Slices
/-! Shared part of the controller-level ("sys") drivers: scenario decoding, running the
ObjectSet controller model over a schedule, canonical printing — the format of
`harness/verifsys/sys.go`. -/
namespace Pko.Drv.SysCommon
open Lean Pko.Kube Pko.Model.Phase Pko.Model.ObjectSet Pko.Model.Status Pko.Drv.PhaseCommon

structure JSlice where
  name : String
  objects : Option (List JPObj)
  deriving FromJson, Repr

structure JPhase where
  name : String
  «class» : String
  objects : Option (List JPObj)
  slices : Option (List JSlice) := none    -- C04 "slices" stream only
  deriving FromJson, Repr

structure JSet where
  name : String
  lifecycle : String
  previous : Option (List String)
  phases : Option (List JPhase)
  revision : Nat
  finCached : Bool
  pkgLabel : String
  deriving FromJson, Repr

structure JSetEnv where
  «at» : Nat
  op : String
  set : String
  value : String
  deriving FromJson, Repr

structure JFault where
  call : Nat
  mode : String
  budget : Nat
  deriving FromJson, Repr

structure JStep where
  op : String
  set : String
  value : String
  orphan : Bool
  phase : Nat
  obj : Nat
  env : Option (List JEnv)
  setEnv : Option (List JSetEnv)
  fault : Option JFault := none     -- C10 only
  drift : Option Bool := none       -- C10 only
  deriving FromJson, Repr

structure Scn where
  cluster : Bool
  sets : Option (List JSet)
  store : Option (List JSObj)
  steps : Option (List JStep)
  rounds : Option Nat := none       -- C10 only
  deriving FromJson, Repr

def toLifecycle : String → Lifecycle
  | "Paused" => .paused
  | "Archived" => .archived
  | _ => .active

def nsOf (s : Scn) : String := if s.cluster then "" else "ns1"
def setKindOf (s : Scn) : String := if s.cluster then "ClusterObjectSet" else "ObjectSet"

def cfgOf (_s : Scn) : Cfg :=
  { st := .native, flavour := ⟨true, true, true⟩, scope := scopeOf, force := false }

def toPhase (p : JPhase) : PhaseSpec :=
  { name := p.name, cls := p.class, objs := (p.objects.getD []).map toPObj }

/-- ObjectSets are created first (uid-1, uid-2, …; rv 1, 2, …), then the managed objects. -/
def initSys (s : Scn) : Sys :=
  let sets := (s.sets.getD [])
  let n := sets.length
  let osets : List OSet := (sets.zipIdx).map fun (js, i) =>
    { kind := setKindOf s, ns := nsOf s, name := js.name, uid := s!"uid-{i+1}", gen := 1, rv := i + 1,
      deleting := false, finCached := js.finCached, finOrphan := false, pkgLabel := js.pkgLabel,
      lifecycle := toLifecycle js.lifecycle, phases := (js.phases.getD []).map toPhase,
      previous := js.previous.getD [], revision := js.revision, conds := [], controllerOf := [], remotePhases := [] }
  let store0 : Store := { objs := fun _ => none, nextUID := n + 1, nextRV := n + 1 }
  let store := (s.store.getD []).foldl (fun (st : Store) (o : JSObj) =>
    let k : Key := ⟨o.kind, o.ns, o.name⟩
    let obj : Obj := {
      uid := st.nextUID
      rv := st.nextRV
      gen := 1
      owners := (o.owners.getD []).map toRef
      annOwners := (o.annOwners.getD []).map toRef
      rev := parseRev o.rev
      cacheLabel := o.cache
      pkgLabel := o.pkg
      payload := o.payload
      ready := o.ready
      obsGen := obsGenOf o.obsGen
      finalizer := o.finalizer
      deleting := false }
    { (st.set k (some obj)) with nextUID := st.nextUID + 1, nextRV := st.nextRV + 1 }) store0
  -- ObjectSlices are fixtures: they consume no uid / resourceVersion numbers
  let slices := sets.flatMap fun js => (js.phases.getD []).flatMap fun ph =>
    (ph.slices.getD []).map fun sl => (sl.name, (sl.objects.getD []).map toPObj)
  { w := { store := store, writes := 0, env := [], events := [] }
    sets := fun nm => osets.find? (·.name = nm)
    setEvents := [], freed := [], setWrites := 0, setEnv := [], slices := slices }

/-- `phase.Slices` per phase of the ObjectSet called `name` (spec, static). -/
def sliceRefs (s : Scn) (name : String) : List (List String) :=
  match (s.sets.getD []).find? (·.name = name) with
  | some js => (js.phases.getD []).map fun ph => (ph.slices.getD []).map (·.name)
  | none => []

/-- the objects of every slice that EVER belonged to a phase of the spec, per phase. -/
def sliceObjs (s : Scn) (name : String) : List (List PObj) :=
  match (s.sets.getD []).find? (·.name = name) with
  | some js => (js.phases.getD []).map fun ph =>
      (ph.slices.getD []).flatMap fun sl => (sl.objects.getD []).map toPObj
  | none => []

def toSetEnv (e : JSetEnv) : Nat × SetEnvOp :=
  (e.at, match e.op with
    | "lifecycle" => .lifecycle e.set (toLifecycle e.value)
    | _ => .touch e.set)

/-- flavour of the same-cluster ObjectSetPhase controller serving the scenario's phases. -/
def phaseCfgOf (s : Scn) : Cfg :=
  { st := .native, flavour := if s.cluster then ⟨false, true, true⟩ else ⟨true, true, true⟩, scope := scopeOf, force := false }

def condStr (c : Cond) : String :=
  s!"{c.type}={c.status}/{c.reason}/{c.obsGen}" ++ (if c.type = "Available" && c.reason = "ProbeFailure" && c.msg ≠ "" then "/" ++ c.msg else "")
def condsStr (cs : List Cond) : String := ",".intercalate (sortStrings (cs.map condStr))
def crefStr (c : CRef) : String := s!"{c.kind}/{c.ns}/{c.name}"
def crefsStr (cs : List CRef) : String := ",".intercalate (cs.map crefStr)
/-- status.remotePhases as `name:uid`, in the order of the status list. -/
def rpStr (rs : List (String × String)) : String := ",".intercalate (rs.map fun r => s!"{r.1}:{r.2}")
def resOr (r : Option ApiErr) : String := match r with | none => "ok" | some e => "!" ++ errStr e

def setEventStr : SetEvent → String
  | .finalizerPatch n add r => s!"F {n} {if add then "+" else "-"} {resOr r}"
  | .statusUpdate n r rev conds co rp =>
    s!"S {n} {resOr r} rev={rev} conds=[{condsStr conds}] co=[{crefsStr co}] rp=[{rpStr rp}]"

def phaseEventStr (kind : String) : PhaseEvent → String
  | .create n r => s!"C {kind}/{n} {resOr r}"
  | .pausePatch n _ r => s!"P {kind}/{n} {resOr r}"
  | .delete n r => s!"X {kind}/{n} {resOr r}"
  | .finalizerPatch n add r => s!"F {n} {if add then "+" else "-"} {resOr r}"
  | .statusUpdate n r conds co => s!"S {n} {resOr r} rev=0 conds=[{condsStr conds}] co=[{crefsStr co}]"

def ophaseStr (p : OPhase) : String :=
  s!"{p.name}\{g={p.gen},d={b01 p.deleting},f={if p.finCached then "c" else ""},paused={b01 p.paused},rev={p.revision} conds=[{condsStr p.conds}] co=[{crefsStr p.controllerOf}]}"

def resStr : Res → String
  | .ok => "ok" | .requeue => "requeue" | .err => "err"

def lifeStr : Lifecycle → String
  | .active => "Active" | .paused => "Paused" | .archived => "Archived"

def osetStr (o : OSet) : String :=
  s!"{o.name}\{g={o.gen},d={b01 o.deleting},f={if o.finCached then "c" else ""}{if o.finOrphan then "o" else ""},life={lifeStr o.lifecycle},rev={o.revision} conds=[{condsStr o.conds}] co=[{crefsStr o.controllerOf}] rp=[{rpStr o.remotePhases}]}"

/-- one schedule step; returns the output token of the step. -/
def stepModel (scn : Scn) (cfg : Cfg) (st : JStep) (s : Sys) : Sys × String :=
  match st.op with
  | "reconcile" =>
    let s0 : Sys := { s with w := { s.w with writes := 0, env := (st.env.getD []).map toEnv, events := [], phaseEvents := [], applied := [] },
                             setEvents := [], setWrites := 0, setEnv := (st.setEnv.getD []).map toSetEnv }
    let refs := sliceRefs scn st.set
    let (s1, r) := if refs.all (·.isEmpty) then reconcile cfg Pko.Model.Remote.remotes st.set s0
      else Pko.Model.Slices.reconcileSliced cfg Pko.Model.Remote.remotes refs st.set s0
    (s1, stepOut r s1)
  | "phase" =>
    let s0 : Sys := { s with w := { s.w with writes := 0, env := (st.env.getD []).map toEnv, events := [], phaseEvents := [], applied := [] },
                             setEvents := [], setWrites := 0, setEnv := [] }
    let (s1, r) := Pko.Model.Remote.reconcilePhaseCtl (phaseCfgOf scn) (setKindOf scn) (nsOf scn) st.set s0
    (s1, stepOut r s1)
  | "env" =>
    ({ s with w := { s.w with store := (st.env.getD []).foldl (fun acc e => acc.env (toEnv e).2) s.w.store } }, "-")
  | "lifecycle" => (s.applySetEnv (.lifecycle st.set (toLifecycle st.value)), "-")
  | "touch" => (s.applySetEnv (.touch st.set), "-")
  | "delete" => (s.applySetEnv (.delete st.set st.orphan), "-")
  | "editPayload" => (s.applySetEnv (.editPayload st.set st.phase st.obj st.value), "-")
  | "restart" => (s, "-")
  | "delSlice" => ({ s with slices := s.slices.filter (·.1 != st.set) }, "-")   -- a third party deletes an ObjectSlice
  | _ => (s, "BAD-STEP")
where
  stepOut (r : Res) (s1 : Sys) : String :=
    let pk := Pko.Model.Remote.phaseKindOf (setKindOf scn)
    s!"R {resStr r} | {eventsStr s1.w} | {";".intercalate (s1.setEvents.map setEventStr)} | {";".intercalate (s1.w.phaseEvents.map (phaseEventStr pk))}"

def setNames (s : Scn) : List String := (s.sets.getD []).map (·.name)

def managedKeys (s : Scn) (cfg : Cfg) : List Key :=
  let fromStore := (s.store.getD []).map (fun o => (⟨o.kind, o.ns, o.name⟩ : Key))
  let fromSets := (s.sets.getD []).flatMap fun js =>
    (js.phases.getD []).flatMap fun ph => ((ph.objects.getD []) ++ (ph.slices.getD []).flatMap (·.objects.getD [])).map fun p =>
      let ow : Owner := { group := pkoGroup, kind := setKindOf s, ns := nsOf s, name := js.name, uid := "", rev := 0, paused := false, pkgLabel := "" }
      keyOf cfg ow (toPObj p)
  (fromStore ++ fromSets).eraseDups

def runModel (s : Scn) : List String × Sys :=
  let cfg := cfgOf s
  (s.steps.getD []).foldl (fun (acc : List String × Sys) st =>
    let (sys', o) := stepModel s cfg st acc.2
    (acc.1 ++ [o], sys')) ([], initSys s)

def model (s : Scn) : String :=
  let (outs, sys) := runModel s
  let phaseNames := (s.sets.getD []).flatMap fun js => (js.phases.getD []).map fun ph => js.name ++ "-" ++ ph.name
  let sets := sortStrings (((setNames s).filterMap fun n => (sys.sets n).map osetStr) ++
    (phaseNames.filterMap fun n => (sys.w.phases n).map ophaseStr) ++
    (sys.slices.map fun sl => (if s.cluster then "ClusterObjectSlice/" else "ObjectSlice/") ++ sl.1))
  let objs := sortStrings ((managedKeys s (cfgOf s)).filterMap fun k => (sys.w.store.get k).map (objStr k))
  " ## ".intercalate (outs ++ [";".intercalate sets, ";".intercalate objs])

end Pko.Drv.SysCommon
