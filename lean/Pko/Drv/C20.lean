import Pko.Util
import Pko.Model.ReqMgr
import Pko.Model.ReqMgrSpec
import Pko.Model.ReqMgrTrace
/-! Line driver for C20.

`model` runs the model of `RequestManager` (`Pko.Model.ReqMgr`) on a scenario and prints what the
Go harness prints for the real code.  `monitor` runs the *specification* (`Pko.Model.ReqMgrSpec`,
written from the property's sentence) on the scenario and checks the implementation's line
against it, naming the part of the sentence that fails (overlap / no-fresh-pull / lost-response /
wrong-result / aliased / timeout ...).  Both go through the same `ReqMgrTrace.trace` and
`renderRec`, differing only in the machine plugged in; `Pko.Props.C20.model_trace_eq_spec_trace`
proves `trace modelMachine steps = trace specMachine steps` for every scenario, i.e. the line
`model` prints is record for record the line `monitor` expects (`monitor s (model s) = "ok"` up
to the unverified string join/split).

Scenario (stream `seq`): `{"steps":[{"op":"req","c":0,"i":1,"r":""},{"op":"done","c":0,"i":1,"r":"ok"}]}`.
* `req c i`: caller `c` calls `Pull(image i)`; skipped (`b`) while `c` still waits for an answer.
* `done i ok|err`: the pull in flight for image `i` returns; nothing happens (`n`) if none is.
* `park i ok|err k mid` (stream `park`): `{"op":"park","c":0,"i":0,"r":"ok","k":1,"mid":[{"c":0,"i":0}]}` -
  the pull in flight for image `i` returns and the real `handleResponse` is parked after its first
  `k` sends (`P`), the requests `mid` arrive (`w` issued / `b` not issued), the broadcast finishes and
  the requests issued meanwhile go through (`U`).  `model` prints these records as the
  statement-level model `ReqMgrFine` produces them (with `l=1`: the lock is held at `P` and `w`);
  `monitor` judges the group once it is over (`ReqMgrTrace.collapse`, the same on the
  implementation's records): pulls started / in flight afterwards, everybody answered by the
  broadcast, nothing aliased - it does not look at `l`, nor at when a request issued meanwhile
  was served.
* `cancel c`: `{"op":"cancel","c":0,"i":0,"r":""}` - the context caller `c` passed to the real
  `Pull(ctx, image)` is cancelled (`x`; `y` if `c` is not in `Pull`).  Modelled behaviour of the code
  that exists: no effect (`Pull` ignores its context while it waits; `Props.C20.cancel_has_no_effect`).
  The monitor is more liberal than the model here: a cancelled caller may return early with the
  context's error (`cN:err:ctx`) at the `x` record instead of being answered by the completion - the
  property does not forbid a context-aware `Pull` - but everything else is judged as usual, first of
  all `at most one pull per image in flight` at EVERY record: a cancellation that makes the request
  manager forget a pull that is still running shows as `overlap` at the next request.
* `"n"`: number of images the harness scripts and reports on (default 2, at most 16): scenarios with
  many distinct images in flight at the same time.  A request that does not get through, or a
  completed pull whose callers are not answered, within the harness's deadline is `TIMEOUT ...
  inflight=k` = `bad timeout ... HANG`.
* after the last step every pull still in flight is completed with `ok`, in image order (`D`).
Scenario (streams `race`, `storm`; exploration):
`{"free":{"callers":8,"images":2,"rounds":50,"seed":1,"errmod":3}}` (+ `"files"`, `"fsize"`: size of the
pulled package).
-/
namespace Pko.Drv.C20
open Lean Pko.Model.ReqMgr Pko.Model.ReqMgrTrace
open Pko.Model.ReqMgrSpec (Spec)

structure JMid where
  c : Nat
  i : Nat
  deriving FromJson

structure JStep where
  op : String
  c : Nat
  i : Nat
  r : String
  k : Option Nat
  mid : Option (List JMid)
  deriving FromJson

structure Free where
  callers : Nat
  images : Nat
  rounds : Nat
  seed : Nat
  errmod : Nat
  files : Option Nat
  fsize : Option Nat
  burst : Option Nat
  cancelmod : Option Nat
  deriving FromJson

structure Scn where
  n : Option Nat
  steps : Option (List JStep)
  free : Option Free
  deriving FromJson

/-- most images a scenario may script -/
def maxImg : Nat := 16

def toSStep (n : Nat) (j : JStep) : SStep :=
  if j.i ≥ n then .bad   -- the harness only scripts `n` images
  else if j.op == "req" then .req j.c j.i
  else if j.op == "done" then .done j.i (j.r == "err")
  else if j.op == "cancel" then .cancel j.c
  else if j.op == "park" then
    let mid := j.mid.getD []
    if mid.any (fun m => m.i ≥ n) then .bad
    else .park j.i (j.r == "err") (j.k.getD 0) (mid.map fun m => (m.c, m.i))
  else .bad

def resStr : Result → String
  | .pkg p => s!"ok:i{p / 1000}g{p % 1000}"
  | .err p => s!"err:i{p / 1000}g{p % 1000}"

def natsStr (l : List Nat) : String := ",".intercalate (l.map toString)

def retStr (l : List (Caller × Result)) : String :=
  if l.isEmpty then "-" else
  let sorted := l.mergeSort (fun a b => a.1 ≤ b.1)
  ",".intercalate (sorted.map fun (c, r) => s!"c{c}:{resStr r}")

def render (tag : String) (o : Obs) : String :=
  s!"{tag} p={natsStr o.started} f={natsStr o.inflight} r={retStr o.returned} a={o.aliased}"

/-- A record as the specification prescribes it. -/
def renderSpec : Rec → String
  | .step tag o => render tag o
  | .bad => "BAD-OP"
  | .fin w => s!"end w={w}"

/-- A record as the harness prints it for the model of the Go code: additionally `o=0` - no
receiver is handed the object the pull function returned (`ReqMgr.copyOf`: nil or a fresh copy;
`Pko.Props.C20.sent_package_is_fresh_copy`) - and, inside a parked broadcast (`ReqMgrFine`:
`bc.isSome`), `l=1`: the lock is held.  The monitor looks at neither. -/
def renderRec : Rec → String
  | .step tag o =>
    if tag == "P" || tag == "w" then render tag o ++ " o=0 l=1" else render tag o ++ " o=0"
  | .bad => "BAD-OP"
  | .fin w => s!"end w={w}"

/-- Run a scenario on a machine (`ReqMgrTrace.trace`) and print one record per step (several for
a parked broadcast), then the drain records, then `end`. -/
def traceStr {σ : Type} (n : Nat) (m : Machine σ) (steps : List JStep) : List String :=
  (trace n m (steps.map (toSStep n))).map renderRec

/-- The same with parked broadcasts looked at once they are over (`ReqMgrTrace.traceC`). -/
def traceCStr {σ : Type} (n : Nat) (m : Machine σ) (steps : List JStep) : List String :=
  (traceC n m (steps.map (toSStep n))).map renderSpec

/-- The trivial model of the free-running exploration stream: everybody is answered once per
call, nothing wrong, nothing aliased, pulls never overlap and never outnumber the requests. -/
def freeLine (f : Free) : String :=
  s!"free answered={f.callers * f.rounds} wrong=0 aliased=0 overlap=0 pulls_le_requests=true pulls_ge_1=true"

def model (sc : Scn) : String :=
  match sc.free with
  | some f => freeLine f
  | none =>
    let n := sc.n.getD nImgDefault
    if n == 0 || n > maxImg then "BAD-SCN"
    else ";".intercalate (traceStr n modelMachine (sc.steps.getD []))

/-- `k=v` field of a record. -/
def field (rec : String) (k : String) : String :=
  match (rec.splitOn " ").find? (fun w => w.startsWith (k ++ "=")) with
  | some w => (w.drop (k.length + 1)).toString
  | none => "?"

def nats (s : String) : List Nat := (s.splitOn ",").map fun w => w.toNat?.getD 0

/-- `c0:ok:i0g1,c2:...` → [(c0, ok:i0g1), ...] -/
def rets (s : String) : List (String × String) :=
  if s == "-" || s == "?" then [] else
  (s.splitOn ",").map fun w =>
    match w.splitOn ":" with
    | c :: rest => (c, ":".intercalate rest)
    | [] => (w, "")

/-- drop the fields the property does not talk about (`o=`, `l=`) -/
def stripExtra (r : String) : String :=
  " ".intercalate ((r.splitOn " ").filter fun w => !(w.startsWith "o=" || w.startsWith "l="))

def callerNum (c : String) : Nat := ((c.drop 1).toString.toNat?).getD 0

/-- `ReqMgrTrace.collapse` on the implementation's records: the records of a parked broadcast
(`P`, then `w`/`b`, then `U`) become one `U` record - pulls started / in flight as at `U`, everybody
answered at `P` or `U`, aliased packages added up.  A group that does not end in `U` (the harness
gave up: `TIMEOUT`) is represented by the record that ended it. -/
def collapseGot (recs : List String) : List String := Id.run do
  let mut out : Array String := #[]
  let mut cur : Option String := none
  for r in recs do
    match cur with
    | none =>
      if r.startsWith "P " then cur := some r else out := out.push (stripExtra r)
    | some p =>
      if r.startsWith "w " || r.startsWith "b " then continue
      else if r.startsWith "U " then
        let rs := (rets (field p "r") ++ rets (field r "r")).mergeSort
          (fun a b => callerNum a.1 ≤ callerNum b.1)
        let rstr := if rs.isEmpty then "-" else ",".intercalate (rs.map fun (c, x) => s!"{c}:{x}")
        let a := ((field p "a").toNat?.getD 1) + ((field r "a").toNat?.getD 1)
        out := out.push s!"U p={field r "p"} f={field r "f"} r={rstr} a={a}"
        cur := none
      else
        out := out.push (stripExtra r)
        cur := none
  if let some p := cur then out := out.push (stripExtra p)
  return out.toList

/-- Compare one implementation record with the specified one; `none` = conforms. -/
def checkRec (k : Nat) (want got : String) : Option String :=
  if got == want then none else
  if got.startsWith "TIMEOUT" then
    some s!"timeout step={k} HANG with {field got "inflight"} image(s) in flight: a request did not get through or the callers of a completed pull were not answered (every request is answered once its pull completes, whatever the number of distinct images in flight): {got}" else
  if want.startsWith "end" || got.startsWith "end" then
    if got.startsWith "end" && want.startsWith "end" then
      some s!"waiting-forever step={k} want={want} got={got}"
    else some s!"step-count step={k} want={want} got={got}"
  else
  let fg := nats (field got "f")
  let pw := nats (field want "p")
  let pg := nats (field got "p")
  let rw := rets (field want "r")
  let rg := rets (field got "r")
  if fg.any (· > 1) then some s!"overlap step={k} more than one pull of an image in flight: {got}" else
  if (pw.zip pg).any (fun (a, b) => b > a) then some s!"extra-pull step={k} want={want} got={got}" else
  if (pw.zip pg).any (fun (a, b) => b < a) || pw.length != pg.length then
    some s!"no-fresh-pull step={k} want={want} got={got}" else
  if rw.any (fun (c, _) => !(rg.any fun (c', _) => c' == c)) then
    some s!"lost-response step={k} want={want} got={got}" else
  if rg.any (fun (c, _) => !(rw.any fun (c', _) => c' == c)) then
    some s!"spurious-response step={k} want={want} got={got}" else
  if rw != rg then some s!"wrong-result step={k} want={want} got={got}" else
  if field got "a" != "0" then some s!"aliased step={k} returned packages share memory: {got}" else
  some s!"step-kind step={k} want={want} got={got}"

def retsStr (l : List (String × String)) : String :=
  if l.isEmpty then "-" else ",".intercalate (l.map fun (c, x) => s!"{c}:{x}")

/-- replace the value of field `k` of a record -/
def setField (rec k v : String) : String :=
  " ".intercalate ((rec.splitOn " ").map fun w => if w.startsWith (k ++ "=") then s!"{k}={v}" else w)

/-- Monitor: replay the specification on the scenario and compare it, record by record, with what
the implementation did.  Two things are judged more liberally than "equal to the specification's
record": the fields `o=`/`l=` (not the property's business), and a caller whose context the
scenario cancelled may return the context's error early (`cN:err:ctx`, at the record where the
harness sees it) instead of being answered by the completion of the pull. -/
def monitor (sc : Scn) (out : String) : String :=
  match sc.free with
  | some f =>
    if out == freeLine f then "ok"
    else if out.startsWith "TIMEOUT" then s!"bad timeout free {out}"
    else s!"bad free-summary want={freeLine f} got={out}"
  | none => Id.run do
    let n := sc.n.getD nImgDefault
    if n == 0 || n > maxImg then
      return (if out == "BAD-SCN" then "ok" else s!"bad scenario-not-rejected {out}")
    let want := traceCStr n specMachine (sc.steps.getD [])
    let raw := if out.isEmpty then [] else out.splitOn ";"
    -- at most one pull per image in flight, at EVERY observation (after every request, completion
    -- and cancellation, and inside a parked broadcast)
    for g in raw do
      if (nats (field g "f")).any (· > 1) then
        return s!"bad overlap more than one pull of an image in flight: {g}"
    let got := collapseGot raw
    let mut k := 0
    let mut early : List String := []   -- cancelled callers that gave up before their pull completed
    for (w, g) in want.zip got do
      let rg := rets (field g "r")
      let e := (rg.filter fun (_, x) => x == "err:ctx").map (·.1)
      let rg' := rg.filter fun (_, x) => x != "err:ctx"
      let g' := if e.isEmpty then g else setField g "r" (retsStr rg')
      early := early ++ e
      let rw := rets (field w "r")
      let gone := (rw.filter fun (c, _) => early.contains c && !(rg'.any fun (c', _) => c' == c)).map (·.1)
      let w' := if gone.isEmpty then w else setField w "r" (retsStr (rw.filter fun (c, _) => !gone.contains c))
      early := early.filter fun c => !gone.contains c
      match checkRec k w' g' with
      | some e => return "bad " ++ e
      | none => k := k + 1
    if want.length != got.length then
      return s!"bad step-count impl={got.length} spec={want.length}"
    return "ok"

end Pko.Drv.C20

def main (args : List String) : IO UInt32 :=
  Pko.Util.driverMain Pko.Drv.C20.Scn Pko.Drv.C20.model Pko.Drv.C20.monitor args
