import Pko.Drv.SysMon
/-! Second driver for C02: revision chains through the real ObjectSet / ObjectSetPhase controllers. -/
def main (args : List String) : IO UInt32 :=
  Pko.Util.driverMain Pko.Drv.SysCommon.Scn Pko.Drv.SysCommon.model (Pko.Drv.SysMon.monitor .c02) args
