import Pko.Drv.SysMon
/-! Second driver for C05: controller-level histories (orphan propagation, delegated phases). -/
def main (args : List String) : IO UInt32 :=
  Pko.Util.driverMain Pko.Drv.SysCommon.Scn Pko.Drv.SysCommon.model (Pko.Drv.SysMon.monitor .c05) args
