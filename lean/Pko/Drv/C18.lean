import Pko.Drv.C18Common
/-! Line driver for C18: `model` and `monitor` live in `Pko.Drv.C18Common`. -/

def main (args : List String) : IO UInt32 :=
  Pko.Util.driverMain Pko.Drv.C18.Scn Pko.Drv.C18.model Pko.Drv.C18.monitor args
