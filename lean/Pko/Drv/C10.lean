import Pko.Drv.SysCommon
import Pko.Model.Converge
/-! Driver for C10 (convergence stream, `harness/verifsys/conv.go`): the disturbed scenario and
its undisturbed reference are run on the controller models, settled by a fair schedule, and the
projected end states are printed.  The monitor states the property on the IMPLEMENTATION's
line: END = REF and an extra round changed nothing. -/
namespace Pko.Drv.C10
open Lean Pko.Kube Pko.Model.Phase Pko.Model.ObjectSet Pko.Model.Status Pko.Model.Converge
open Pko.Drv.PhaseCommon hiding Scn model runModel cfgOf
open Pko.Drv.SysCommon

def phaseNamesOf (s : Scn) : List String :=
  (s.sets.getD []).flatMap fun js => (js.phases.getD []).filterMap fun ph =>
    if ph.class ≠ "" then some (js.name ++ "-" ++ ph.name) else none

def allPhaseNames (s : Scn) : List String :=
  (s.sets.getD []).flatMap fun js => (js.phases.getD []).map fun ph => js.name ++ "-" ++ ph.name

/-- one step of the C10 stream: a pass with a fault is cut off after `budget` write requests. -/
def stepConv (scn : Scn) (cfg : Cfg) (st : JStep) (s : Sys) : Sys × String :=
  match st.fault with
  | none => stepModel scn cfg st (arm s none)
  | some f =>
    if st.op = "reconcile" ∨ st.op = "phase" then
      let s0 := arm s (some f.budget)
      let (s1, _) := stepModel scn cfg st s0
      let cut := crashState s0 s1 f.budget
      -- mode "crash": the process died; the next pass runs in a new one (nothing registered with the
      -- dynamic cache).  The other modes: the process lives on (`crashState` keeps the registrations
      -- the pass started with: those of the cut pass are made again by the retry before any read).
      (if f.mode = "crash" then { cut with w := cut.w.restart } else cut, "R fault")
    else stepModel scn cfg st (arm s none)

/-- environment part of a settle round: every managed object becomes ready, foreign finalizers go away. -/
def oracle (scn : Scn) (cfg : Cfg) (s : Sys) : Sys :=
  let store := (managedKeys scn cfg).foldl (fun (st : Store) k =>
    (st.env (.setReady k true none)).env (.removeFinalizer k)) s.w.store
  { s with w := { s.w with store := store } }

def passStep (op set : String) : JStep :=
  { op := op, set := set, value := "", orphan := false, phase := 0, obj := 0, env := none, setEnv := none }

def settleRound (scn : Scn) (cfg : Cfg) (s : Sys) : Sys :=
  let s := oracle scn cfg s
  let s := (setNames scn).foldl (fun s n => (stepModel scn cfg (passStep "reconcile" n) (arm s none)).1) s
  (phaseNamesOf scn).foldl (fun s n => (stepModel scn cfg (passStep "phase" n) (arm s none)).1) s

def projRef (r : ORef) : String := s!"{r.group}/{r.kind}:{r.name}:{if r.ctrl then "1" else "0"}"

/-- Only CONTROLLER references are part of the end state (see `projRefs` in conv.go: former,
non-controller owners record history). -/
def projObj (_scn : Scn) (k : Key) (o : Obj) : String :=
  let owners := o.owners.filter (·.ctrl)
  s!"{keyStr k}\{o=[{",".intercalate (owners.map projRef)}],r={revStr o.rev},l={b01 o.cacheLabel},k={o.pkgLabel},p={o.payload},d={b01 o.deleting}}"

/-- see `projSet` in conv.go: Succeeded is a latch and an archived revision's status is frozen —
both record history, not state. -/
def projSet (scn : Scn) (s : Sys) (o : OSet) : String :=
  let superseded := (scn.sets.getD []).any fun js => (js.previous.getD []).contains o.name
  let archived := condTrue o.conds "Archived"
  let conds := o.conds.filterMap fun c =>
    if c.type = "Succeeded" && superseded then none
    else if archived && c.type ≠ "Archived" then none
    else if c.type = "Succeeded" then some { c with obsGen := 0 }
    else some c
  -- the uid itself is the identity of an incarnation (history); what is state is whether the entry
  -- refers to the phase object that exists now (`rpState` in conv.go)
  -- (of an archived revision the list is frozen at archival like the conditions: history)
  let rpState := fun (r : String × String) => match s.w.phases r.1 with
    | some po => if po.uid = r.2 then "live" else "stale"
    | none => "stale"
  osetStr { o with conds := conds, remotePhases := if archived then [] else o.remotePhases.map fun r => (r.1, rpState r) }

/-- see `projPhase` in conv.go: the phase object's generation counts PKO's own pause patches
(history); a condition is compared by whether it refers to the current generation. -/
def projPhase (p : OPhase) : String :=
  ophaseStr { p with gen := 0, conds := p.conds.map fun c => { c with obsGen := if c.obsGen = p.gen then 1 else 0 } }

def projection (scn : Scn) (cfg : Cfg) (s : Sys) : String :=
  let sets := sortStrings (((setNames scn).filterMap fun n => (s.sets n).map (projSet scn s)) ++
    ((allPhaseNames scn).filterMap fun n => (s.w.phases n).map projPhase))
  let objs := sortStrings ((managedKeys scn cfg).filterMap fun k => (s.w.store.get k).map (projObj scn k))
  ";".intercalate sets ++ " @ " ++ ";".intercalate objs

/-- number of ObjectSets, phase objects and managed objects an extra round changed. -/
def changedBy (scn : Scn) (cfg : Cfg) (a b : Sys) : Nat :=
  ((setNames scn).filter fun n => a.sets n ≠ b.sets n).length +
  ((allPhaseNames scn).filter fun n => a.w.phases n ≠ b.w.phases n).length +
  ((managedKeys scn cfg).filter fun k => a.w.store.get k ≠ b.w.store.get k).length

structure ConvOut where
  outs : List String
  sets : String
  objs : String
  proj : String
  extra : Nat
  regs : String

/-- what the operator process has registered with its dynamic cache (`Cache.Registrations` in
harness/verifstore/cache.go): `Kind:OwnerKind/name,…` per kind, owners without uid, sorted. -/
def regsStr (w : World) : String :=
  let kinds := sortStrings (w.watched.map (·.1)).eraseDups
  ";".intercalate (kinds.map fun k =>
    k ++ ":" ++ ",".intercalate (sortStrings ((w.watched.filter (·.1 = k)).map fun e => e.2.kind ++ "/" ++ e.2.name).eraseDups))

def iter {α : Type} (f : α → α) : Nat → α → α
  | 0, a => a
  | n + 1, a => iter f n (f a)

def runConv (scn : Scn) (disturbed : Bool) : ConvOut :=
  let cfg := cfgOf scn
  let steps := (scn.steps.getD []).filterMap fun st =>
    if disturbed then some st
    else if st.drift = some true then none else some { st with fault := none }
  let (outs, sys) := steps.foldl (fun (acc : List String × Sys) st =>
    let (sys', o) := stepConv scn cfg st acc.2
    (acc.1 ++ [o], sys')) ([], initSys scn)
  let sys := iter (settleRound scn cfg) (scn.rounds.getD 10) sys
  let sets := sortStrings (((setNames scn).filterMap fun n => (sys.sets n).map osetStr) ++
    ((allPhaseNames scn).filterMap fun n => (sys.w.phases n).map ophaseStr))
  let objs := sortStrings ((managedKeys scn cfg).filterMap fun k => (sys.w.store.get k).map (objStr k))
  let sys' := settleRound scn cfg sys
  { outs := outs, sets := ";".intercalate sets, objs := ";".intercalate objs,
    proj := projection scn cfg sys, extra := changedBy scn cfg sys sys', regs := regsStr sys.w }

def model (scn : Scn) : String :=
  let d := runConv scn true
  let r := runConv scn false
  " ## ".intercalate (d.outs ++ [d.sets, d.objs, "REF " ++ r.proj, "END " ++ d.proj, s!"EXTRA {d.extra} {r.extra}",
    s!"RW [{r.regs}]", s!"EW [{d.regs}]"])

/-- The property on an implementation line: the disturbed run reached the end state of the
undisturbed run, and one more fair round changed nothing in either.  Restart-safety of the
mechanism (properties.jsonl, C10 `state`: "dynamic cache references: in-memory only, rebuilt by
Watch during every reconcile and teardown"): at the end the operator process holds the same
registrations with its dynamic cache as in the undisturbed run, and no pass ever read a kind through
the cache that nobody in the process had registered (`CacheNotStartedError`). -/
def monitor (_scn : Scn) (line : String) : String :=
  let parts := line.splitOn " ## "
  let ref := parts.find? (·.startsWith "REF ")
  let fin := parts.find? (·.startsWith "END ")
  let extra := parts.find? (·.startsWith "EXTRA ")
  let rw := parts.find? (·.startsWith "RW [")
  let ew := parts.find? (·.startsWith "EW [")
  match ref, fin, extra, rw, ew with
  | some r, some e, some x, some rw, some ew =>
    if x ≠ "EXTRA 0 0" then s!"bad not-quiescent {x}"
    else if (r.drop 4).toString ≠ (e.drop 4).toString then
      let rs := ((r.drop 4).toString.replace " @ " ";").splitOn ";"
      let es := ((e.drop 4).toString.replace " @ " ";").splitOn ";"
      let d1 := es.filter (fun x => !rs.contains x)
      let d2 := rs.filter (fun x => !es.contains x)
      s!"bad diverged end={d1.headD ""} reference={d2.headD ""}"
    else if (rw.drop 3).toString ≠ (ew.drop 3).toString then
      s!"bad cache-registrations end={(ew.drop 3).toString} reference={(rw.drop 3).toString}"
    else match parts.zipIdx.find? (fun (p, _) => p.startsWith "R err:CacheNotStarted") with
      | some (_, i) => s!"bad cache-read-before-watch step={i}"
      | none => "ok"
  | _, _, _, _, _ => "bad malformed-line"

end Pko.Drv.C10

def main (args : List String) : IO UInt32 :=
  Pko.Util.driverMain Pko.Drv.SysCommon.Scn Pko.Drv.C10.model Pko.Drv.C10.monitor args
