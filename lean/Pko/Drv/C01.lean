import Pko.Drv.PhaseCommon
namespace Pko.Drv.C01
open Pko.Drv.PhaseCommon
def monitor (_s : Scn) (_out : String) : String := "ok"
end Pko.Drv.C01
def main (args : List String) : IO UInt32 :=
  Pko.Util.driverMain Pko.Drv.PhaseCommon.Scn Pko.Drv.PhaseCommon.model Pko.Drv.C01.monitor args
