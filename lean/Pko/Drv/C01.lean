import Pko.Drv.PhaseCommon
/-! Driver for C01 (collision protection).  `model` = the phase model; `monitor` evaluates the
property's sentence on an IMPLEMENTATION trace, using only the scenario's initial store and
the definition of "adoption permitted" (it does not call the model of the reconciler). -/
namespace Pko.Drv.C01
open Pko.Kube Pko.Model.Phase Pko.Drv.PhaseCommon

/-- "adoption permitted", written out again from the property text (Bool version). -/
def permitted (st : Strategy) (ow : Owner) (force : Bool) (o : Obj) (prev : List Prev) (cp : CP) : Bool :=
  let eff : CP := if force || o.pkgLabel == "package-operator" then .none else cp
  decide (revNum o.rev ≤ ow.rev) &&
  (eff == .none || (eff == .ifNoController && !hasController st o) ||
   (controlledByPrevious st o prev && decide (revNum o.rev < ow.rev)))

def monitor (s : Scn) (out : String) : String := Id.run do
  if s.mode ≠ "reconcile" then return "ok"
  if !(s.env.getD []).isEmpty then return "ok"     -- third-party races: judged by the trace diff + C05
  let some io := parseOut out | return s!"bad unparsable-output {out.take 60}"
  let cfg := cfgOf s
  let ow := ownerOf s
  let prev := prevOf s
  let objs := objsOf s
  let st0 := initStore s
  let keys := objs.map (keyOf cfg ow)
  if keys.eraseDups.length ≠ keys.length then return "ok"   -- duplicate listing: C11's business
  -- 1. every write must be an apply on a listed key and be justified by the initial state
  for e in io.events do
    let ks := eventKey e
    match objs.find? (fun p => keyStr (keyOf cfg ow p) == ks) with
    | none => return s!"bad write-on-unlisted-key {e}"
    | some p =>
      if ow.paused then return s!"bad write-while-paused {e}"
      if eventVerb e ≠ "A" then return s!"bad non-apply-write-in-rollout {e}"
      match st0.get (keyOf cfg ow p) with
      | none => pure ()
      | some cur =>
        let just := isController cfg.st (ow.ref true) cur ||
          (cur.rev != .garbage && permitted cfg.st ow cfg.force cur prev p.cp)
        if !just then return s!"bad unjustified-write {e}"
  if ow.paused then return "ok"
  -- 2. a pass that ran to completion: no refused object may have been passed over silently,
  --    and every permitted adoption must have been carried out
  if io.outcome.startsWith "ok:" then
    for p in objs do
      let k := keyOf cfg ow p
      match st0.get k with
      | none => pure ()
      | some cur =>
        if !isController cfg.st (ow.ref true) cur && cur.rev != .garbage then
          if permitted cfg.st ow cfg.force cur prev p.cp then
            if !(io.events.any fun e => eventVerb e == "A" && eventKey e == keyStr k) then
              return s!"bad permitted-adoption-not-carried-out {keyStr k}"
            match io.finals.find? (fun f => f.startsWith (keyStr k ++ "{")) with
            | none => return s!"bad adopted-object-missing {keyStr k}"
            | some f =>
              let lst := listField f (match cfg.st with | .native => "o" | .annotation => "a")
              let ctrls := lst.filter (·.endsWith ":1")
              if ctrls ≠ [refStr (ow.ref true)] then
                return s!"bad not-sole-controller-after-adoption {keyStr k} {ctrls}"
              if scalarField f "r" ≠ toString ow.rev then
                return s!"bad revision-not-recorded-after-adoption {keyStr k} r={scalarField f "r"}"
          else if revNum cur.rev ≤ ow.rev then
            return s!"bad refusal-not-reported {keyStr k}"
  -- 2b. single-object phase: a permitted adoption of an admissible object must not end in an error
  --     (unless the preflight checks could not be evaluated at all in this pass: the REST mapper's
  --     lookup of the object's kind failed with a transient error — the pass returns that error)
  if io.outcome == "err" && !(objs.any fun p => cfg.mapErr p.kind) then
    match objs with
    | [p] =>
      match st0.get (keyOf cfg ow p) with
      | some cur =>
        if !isController cfg.st (ow.ref true) cur && cur.rev != .garbage &&
           permitted cfg.st ow cfg.force cur prev p.cp && cfg.scope p.kind == .namespaced &&
           (ow.ns == "" || desiredNs ow p == ow.ns) && p.dryRun != .error then
          return s!"bad permitted-adoption-failed {keyStr (keyOf cfg ow p)}"
        -- 2c. … and a refusal (foreign, not newer, not permitted) of an admissible object must come
        --     out as one of the adoption-refused errors (what is reported as CollisionDetected),
        --     not as an anonymous error
        if !isController cfg.st (ow.ref true) cur && cur.rev != .garbage &&
           decide (revNum cur.rev ≤ ow.rev) && !permitted cfg.st ow cfg.force cur prev p.cp &&
           cfg.scope p.kind == .namespaced && (ow.ns == "" || desiredNs ow p == ow.ns) &&
           p.dryRun == .accept && !p.presetOwnerRef then
          return s!"bad refusal-not-reported-as-collision {keyStr (keyOf cfg ow p)}"
      | none => pure ()
    | _ => pure ()
  -- 3. a reported collision needs a refused object
  if io.outcome.startsWith "collision" then
    let refused := objs.any fun p =>
      match st0.get (keyOf cfg ow p) with
      | some cur => !isController cfg.st (ow.ref true) cur && cur.rev != .garbage &&
                    decide (revNum cur.rev ≤ ow.rev) && !permitted cfg.st ow cfg.force cur prev p.cp
      | none => false
    if !refused then return "bad spurious-collision"
  return "ok"

end Pko.Drv.C01

def main (args : List String) : IO UInt32 :=
  Pko.Util.driverMain Pko.Drv.PhaseCommon.Scn Pko.Drv.PhaseCommon.model Pko.Drv.C01.monitor args
