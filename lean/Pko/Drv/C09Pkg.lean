import Pko.Drv.C16Common
import Pko.Model.PkgPause
import Pko.Model.PkgPauseSpec
/-! C09, stream `pkgpause` (Package level): histories of the C16 `ctrl` harness — the REAL
`GenericPackageController.Reconcile` with the real unpack reconciler / `PackageDeployer` over the
in-memory API with fault injection — extended by the pause dimension: `spec.paused` of the Package
at creation, ops `pause` / `unpause` at any point, third parties pausing / un-pausing / deleting the
ObjectDeployment.  `model` = `PkgPause.cpass` along the history, `monitor` =
`PkgPauseSpec.checkPRun` on the parsed implementation trace.  Scenario format, leaf outcomes and
parsers are the ones of the C16 driver. -/
namespace Pko.Drv.C09Pkg
open Lean Pko.Model.Deploy Pko.Model.DeploySpec Pko.Model.PkgPause Pko.Model.PkgPauseSpec
open Pko.Drv.C16 (JOp Scn leavesOf renderId faultsOf specOf resStr odStr unpackedStr invCondStr writeStr
  fieldsOf getF parseOd parseInv)

structure PScn where
  base : Scn
  paused : Bool

instance : FromJson PScn where
  fromJson? j := do
    let b ← fromJson? j
    let p := match j.getObjVal? "paused" with
      | .ok (Json.bool v) => v
      | _ => false
    pure ⟨b, p⟩

/-- The spec hash covers `spec.paused`: a hash is identified by the spec and the pause flag it was
computed with.  The unchanged controller only ever hashes un-paused specs. -/
abbrev PHash := Spec × Bool

def phash (s : Spec) : PHash := (s, false)

/-- History of a pkgpause scenario (`none` = malformed). -/
def popsOf (sc : Scn) : Spec → List JOp → Option (List POp)
  | _, [] => some []
  | s, j :: js =>
    match j.op with
    | "edit" =>
      let s' : Option Spec := match j.f with
        | "image" => some { s with image := j.v }
        | "config" => some { s with config := j.v }
        | "component" => some { s with component := j.v }
        | "meta" => some s
        | _ => none
      match s' with
      | none => none
      | some s' => if s'.image < sc.pkgs.length then (popsOf sc s' js).map (POp.edit s' :: ·) else none
    | "pass" => (popsOf sc s js).map (POp.pass (faultsOf j.fault) :: ·)
    | "pause" => (popsOf sc s js).map (POp.setPaused true :: ·)
    | "unpause" => (popsOf sc s js).map (POp.setPaused false :: ·)
    | "tp" =>
      match j.f with
      | "odpause" => (popsOf sc s js).map (POp.tpPaused true :: ·)
      | "odunpause" => (popsOf sc s js).map (POp.tpPaused false :: ·)
      | "oddel" => (popsOf sc s js).map (POp.tpDelete :: ·)
      | _ => none
    | _ => none

def pwriteStr : PWrite → String
  | .sync .ok => "P" | .sync .fail => "P!" | .sync .conflict => "P~"
  | .dep w => writeStr w

def phashStr : Option PHash → String
  | none => "-"
  | some (s, p) => s!"{s.image}.{s.config}.{s.component}{if p then "p" else ""}"

def podpStr : Option Bool → String
  | none => "-" | some true => "1" | some false => "0"

def stepStr (sp : Spec) (paused : Bool) (r : PPassRes PHash String) : String :=
  let p := pobsOf r
  s!"r={resStr p.o.res} pull={if p.o.pulls == 0 then "" else toString sp.image} dep={p.o.deploys} w={",".intercalate (r.writes.map pwriteStr)} t={odStr p.o.od} h={phashStr p.o.hash} un={unpackedStr p.o.unpacked} inv={invCondStr p.o.invalid} pp={if paused then 1 else 0} odp={podpStr p.odPaused} sw={",".intercalate ((p.sync.filter (· == .ok)).map fun _ => "p")}"

def start (sc : PScn) : Option (Spec × List POp) :=
  match specOf sc.base.spec with
  | none => none
  | some s0 =>
    if s0.image ≥ sc.base.pkgs.length then none else
    (popsOf sc.base s0 sc.base.ops).map fun ops => (s0, ops)

def model (sc : PScn) : String :=
  match start sc with
  | none => "BAD-SCN"
  | some (s0, ops) =>
    let tr := ptrace phash (renderId sc.base) (leavesOf sc.base false) (pfresh s0 sc.paused) ops
    let rec go (sp : Spec) (paused : Bool) : List POp → List (Option (PPassRes PHash String)) → List String
      | .edit s :: ops, _ :: rs => "e" :: go s paused ops rs
      | .setPaused v :: ops, _ :: rs => (if v then "p+" else "p-") :: go sp v ops rs
      | .tpPaused _ :: ops, _ :: rs => "tp" :: go sp paused ops rs
      | .tpDelete :: ops, _ :: rs => "tp" :: go sp paused ops rs
      | .pass _ :: ops, some r :: rs => stepStr sp paused r :: go sp paused ops rs
      | _, _ => []
    ";".intercalate (go s0 sc.paused ops tr)

/-! ### parsing the implementation's line -/

def parsePWrites (s : String) : Option (List PWrite) :=
  if s.isEmpty then some [] else
  (s.splitOn ",").mapM fun
    | "P" => some (.sync .ok) | "P!" => some (.sync .fail) | "P~" => some (.sync .conflict)
    | "C" => some (.dep .create) | "C!" => some (.dep .createFail) | "U" => some (.dep .update)
    | "U!" => some (.dep .updateFail) | "U~" => some (.dep .updateConflict)
    | _ => none

def parsePHash (s : String) : Option (Option PHash) :=
  if s == "-" then some none else
  let p := s.endsWith "p"
  let s := if p then (s.dropEnd 1).toString else s
  match (s.splitOn ".").map String.toNat? with
  | [some a, some b, some c] => some (some (⟨a, b, c⟩, p))
  | _ => none

def parsePPObs (st : String) : Option (PPObs PHash String) := do
  let fs := fieldsOf st
  let r ← match (← getF fs "r") with
    | "ok" => some Res.ok | "requeue" => some Res.requeue | "err" => some Res.err | _ => none
  let pull ← getF fs "pull"
  let dep ← (← getF fs "dep").toNat?
  let ws ← (← getF fs "w") |> parsePWrites
  let t ← getF fs "t"
  let h ← (← getF fs "h") |> parsePHash
  let un ← match (← getF fs "un") with
    | "-" => some none
    | u => if u.startsWith "T/" then some (some true) else if u.startsWith "F/" then some (some false)
           else if u.startsWith "U/" then some none
           else none
  let inv ← (← getF fs "inv") |> parseInv
  let odp ← match (← getF fs "odp") with
    | "-" => some none | "0" => some (some false) | "1" => some (some true) | _ => none
  let sw ← getF fs "sw"
  some { o := { res := r, pulls := if pull.isEmpty then 0 else (pull.splitOn ",").length, deploys := dep,
                writes := depsOf ws, od := parseOd t, hash := h, unpacked := un, invalid := inv },
         sync := syncsOf ws, odPaused := odp,
         syncOnlyPaused := sw.isEmpty || (sw.splitOn ",").all fun d => d == "p" || d == "0" }

def isPassLine (st : String) : Bool := st.startsWith "r="

def monitor (sc : PScn) (out : String) : String :=
  match start sc with
  | none => if out == "BAD-SCN" then "ok" else s!"bad shape expected BAD-SCN got {out.take 60}"
  | some (s0, ops) =>
    let steps := if out.isEmpty then [] else out.splitOn ";"
    let obs : Option (List (Option (PPObs PHash String))) :=
      steps.mapM fun st => if isPassLine st then (parsePPObs st).map some else some none
    match obs with
    | none => s!"bad unparsable {out.take 100}"
    | some obs =>
      match checkPRun phash (renderId sc.base) (leavesOf sc.base false)
          { spec := s0, paused := sc.paused, ph := none, pod := none, podp := none, lateSeen := false, idx := 0 }
          ops obs with
      | [] => "ok"
      | (i, v) :: r =>
        let vs := v :: (r.filter (·.1 == i)).map (·.2)
        s!"bad {"+".intercalate vs} step={i} got={steps.getD i ""}"

end Pko.Drv.C09Pkg
