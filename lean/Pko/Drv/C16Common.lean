import Pko.Util
import Pko.Model.Deploy
import Pko.Model.DeploySpec
import Pko.Model.DeployRetry
import Pko.Model.DeployMulti
/-! Line driver for C16 (everything but `main`, so that the C09 driver can reuse the scenario
format, the leaf outcomes and the parsers for its stream `pkgpause`).  `model` prints what the model of `Deploy` / the Package controller does
for a scenario (same format as the Go harnesses); `monitor` parses the IMPLEMENTATION's line into
observations and evaluates the property (`DeploySpec.checkDeploy` / `checkRun`) on them.

The only knowledge about the leaves that lives here is `leavesOf`: which outcome each leaf has
for the concrete inputs the harness builds (e.g. "Kubernetes >=1.20.x against 1.19.2 is unmet").
It is confirmed by the correspondence run, where the real loader / semver / schema / renderer
evaluate those inputs. -/
namespace Pko.Drv.C16
open Lean Pko.Model.Deploy Pko.Model.DeploySpec Pko.Model.DeployRetry Pko.Model.DeployMulti

structure JPkg where
  load : String
  cons : Option (List String)
  render : String
  comps : Bool
  badlock : Bool
  name : Option String      -- package name family: images with the same name are versions of ONE package
  schema : Option String    -- config schema variant of the manifest (`verifc16.Schemas`)
  deriving FromJson

structure JEnv where
  ocp : Bool
  k8snew : Bool
  ocpnew : Bool
  k8sbad : Bool
  deriving FromJson

structure JOp where
  op : String
  f : String
  v : Nat
  fault : String
  p : Option Nat            -- ctrl stream: the Package the op is about (0 = the one with the initial spec `spec`)
  deriving FromJson

structure Scn where
  mode : String
  scope : String
  env : JEnv
  uniq : String
  prior : String
  od : String
  pkgs : List JPkg
  spec : List Nat
  ops : List JOp
  more : Option (List (List Nat))   -- ctrl stream: initial specs of the Packages 1, 2, ...
  deriving FromJson

/-! ### leaf outcomes of the harness's concrete inputs -/

def conOut (e : JEnv) : String → List COut
  | "platform" => [if e.ocp then .met else .unmet]
  | "k8s" => [if e.k8sbad then .err else if e.k8snew then .met else .unmet]
  | "ocp" => [if !e.ocp then .met else if e.ocpnew then .met else .unmet]
  | "badrange" => [.err]
  -- one manifest entry with both fields: the loop body checks platform, then platformVersion
  | "platform+k8s" =>
    [if e.ocp then .met else .unmet, if e.k8sbad then .err else if e.k8snew then .met else .unmet]
  | _ => []

def uniqOut (sc : Scn) (cons : List String) : UOut :=
  if cons.contains "unique" then
    match sc.uniq with
    | "0" => .zero | "1" => .one | "2" => .many | _ => .listErr
  else .absent

/-- Config admission for the harness's concrete schemas and configs (`verifc16.Schemas`, `verifc16.ConfigRaw`):
0 none, 1 {x:a}, 2 {x:b}, 3 {x:7}, 4 {x:a,y:z}.  A function of the manifest's schema and the config alone. -/
def admitOf (schema : String) (config : Nat) : Admit :=
  let bad : List Nat := match schema with
    | "enum" => [2, 3]      -- x: string, enum [none, a]
    | "int" => [1, 2, 4]    -- x: integer
    | "req" => [0, 3]       -- x: string, required, no default
    | _ => [3]              -- x: string ("" / dflt / open)
  if bad.contains config then .invalid else .ok

def schemaOf (sc : Scn) (image : Nat) : String :=
  match sc.pkgs[image]? with
  | some p => p.schema.getD ""
  | none => ""

def leavesOf (sc : Scn) (loaderFault : Bool) (s : Spec) : Leaves :=
  match sc.pkgs[s.image]? with
  | none => { load := false, cons := [], uniq := .absent, cfgJson := true, admission := .ok, images := true,
              render := true, desired := true }
  | some p =>
    let cons := p.cons.getD []
    let compOk := match s.component with
      | 0 => true
      | 1 => p.comps
      | _ => false
    { load := !loaderFault && p.load == "ok" && compOk
      cons := (cons.map (conOut sc.env)).flatten
      uniq := uniqOut sc cons
      cfgJson := s.config != 5
      admission := admitOf (p.schema.getD "") s.config
      images := !p.badlock
      render := p.render == "ok"
      desired := true }

/-- `.config.x` (and, schema `open`, `/` + `.config.y`) as the templates see it after pruning and defaulting
against the manifest's schema. -/
def xOf (schema : String) : Nat → String
  | 0 => (match schema with | "int" => "0" | "dflt" => "other" | _ => "none") ++ (if schema == "open" then "/dy" else "")
  | 1 => "a" ++ (if schema == "open" then "/dy" else "")
  | 2 => "b" ++ (if schema == "open" then "/dy" else "")
  | 3 => "7" ++ (if schema == "open" then "/dy" else "")
  | 4 => "a" ++ (if schema == "open" then "/z" else "")
  | _ => "?"

/-- What a fresh render of a spec looks like in the stored template (`verifc16.TemplateID`). -/
def renderId (sc : Scn) (s : Spec) : String :=
  s!"p{s.image}{if s.component == 1 then "c1" else ""}.{s.image}.{xOf (schemaOf sc s.image) s.config}"

/-- "conflict<N>": a third party writes before each of the next N Updates. -/
def conflictOf (f : String) : Option Nat :=
  if f.startsWith "conflict" then (f.drop 8).toNat? else none

def faultsOf : String → Faults
  | "pull" => { pull := true }
  | "env" => { env := true }
  | "pkgget" => { pkgGet := true }
  | "odget0" => { odGet0 := true }
  | "odget" => { recon := .get }
  | "odcreate" => { recon := .create }
  | "odupdate" => { recon := .update }
  | "gc" => { recon := .late }
  | "odget2" => { odGet2 := true }
  | "status" => { status := true }
  | f => match conflictOf f with
    | some (n + 1) => { recon := .conflict (n + 1) }
    | _ => {}

def specOf (l : List Nat) : Option Spec :=
  match l with
  | [a, b, c] => some ⟨a, b, c⟩
  | _ => none

/-- History of a ctrl scenario (`none` = malformed: BAD-OP / BAD-SCN): `specs` = the current spec of every
Package of the process. -/
def mopsOf (sc : Scn) : List Spec → List JOp → Option (List MOp)
  | _, [] => some []
  | specs, j :: js =>
    let k := j.p.getD 0
    match specs[k]? with
    | none => none
    | some s =>
      match j.op with
      | "edit" =>
        let s' : Option Spec := match j.f with
          | "image" => some { s with image := j.v }
          | "config" => some { s with config := j.v }
          | "component" => some { s with component := j.v }
          | "meta" => some s
          | _ => none
        match s' with
        | none => none
        | some s' =>
          if s'.image < sc.pkgs.length then (mopsOf sc (specs.set k s') js).map (MOp.on k (.edit s') :: ·) else none
      | "pass" => (mopsOf sc specs js).map (MOp.on k (.pass (faultsOf j.fault)) :: ·)
      | "restart" => if k == 0 then (mopsOf sc specs js).map (MOp.restart :: ·) else none
      | _ => none

/-- The initial specs of the Packages of a ctrl scenario. -/
def specsOf (sc : Scn) : Option (List Spec) := do
  let s0 ← specOf sc.spec
  let more ← (sc.more.getD []).mapM specOf
  let specs := s0 :: more
  if specs.all (·.image < sc.pkgs.length) then some specs else none

/-! ### printing -/

def invStr : Inv → String
  | .none => "-" | .loadError => "LoadError" | .constraintsFailed => "ConstraintsFailed"

def writeStr : Write → String
  | .create => "C" | .createFail => "C!" | .update => "U" | .updateFail => "U!" | .updateConflict => "U~"

def writesStr (ws : List Write) : String := ",".intercalate (ws.map writeStr)

def odStr : OD String → String
  | none => "-" | some none => "empty" | some (some t) => t

def resStr : Res → String
  | .ok => "ok" | .requeue => "requeue" | .err => "err"

def hashStr : Option Spec → String
  | none => "-" | some s => s!"{s.image}.{s.config}.{s.component}"

def unpackedStr : Option Bool → String
  | none => "-" | some true => "T/UnpackSuccess" | some false => "F/ImagePullBackOff"

def invCondStr : Inv → String
  | .none => "-" | i => "T/" ++ invStr i

/-- The ObjectDeployment the harness puts into the API at the start (`c16OD`). -/
def srvOf : String → Option (Obj String)
  | "empty" => some ⟨1, none, [], []⟩
  | "old" => some ⟨1, some "old", [], []⟩
  | "prev" => some ⟨1, some "old", [("img", "0"), ("cfg", "1"), ("cc", "inst")], [("pkg", "pkg0"), ("inst", "p")]⟩
  | _ => none

def odOf (s : String) : OD String := absOD (srvOf s)

/-- Annotations / labels of `desiredObjectDeployment` for a spec, in the vocabulary of
`verifc16.MetaID`. -/
def desiredOf (sc : Scn) (s : Spec) : Obj String :=
  let name := match sc.pkgs[s.image]? with
    | some p => (match p.name with | some n => if n.isEmpty then s!"pkg{s.image}" else s!"fam-{n}" | none => s!"pkg{s.image}")
    | none => s!"pkg{s.image}"
  ⟨0, none, [("img", toString s.image), ("cfg", toString s.config), ("cc", "inst")],
   -- the manifest name of a component is the component's name (the structural loader renames it)
   [("pkg", if s.component == 1 then "c1" else name), ("inst", "p")]⟩

/-- Key of the i-th third-party write of a pass (`verifc16.Client.thirdPartyWrite`). -/
def tpKey (i : Nat) : String := s!"tp{i + 1}"

def dedupKV : KV → List String → KV
  | [], _ => []
  | (k, v) :: r, seen => if seen.contains k then dedupKV r seen else (k, v) :: dedupKV r (k :: seen)

/-- Canonical print of a map: `k:v` strings sorted, `-` when empty. -/
def kvStr (m : KV) : String :=
  let xs := ((dedupKV m []).map fun kv => kv.1 ++ ":" ++ kv.2).mergeSort (fun a b => !(b < a))
  if xs.isEmpty then "-" else ",".intercalate xs

def metaStr (s : Option (Obj String)) : String :=
  match s with
  | none => "ann=- lab=-"
  | some o => s!"ann={kvStr o.ann} lab={kvStr o.lab}"

def priorOf : String → Inv
  | "LoadError" => .loadError | "ConstraintsFailed" => .constraintsFailed | _ => .none

/-! ### deploy stream -/

structure DeployCase where
  L : Leaves
  f : RFault
  inv : Inv
  od : OD String
  t : String
  srv : Option (Obj String)
  desired : Obj String

def deployCase (sc : Scn) : Option DeployCase := do
  let s ← specOf sc.spec
  if s.image ≥ sc.pkgs.length then none
  let fault := (sc.ops.filter (·.op == "pass")).getLast?.map (·.fault) |>.getD ""
  some { L := leavesOf sc (fault == "loader") s, f := (faultsOf fault).recon, inv := priorOf sc.prior,
         od := odOf sc.od, t := renderId sc s, srv := srvOf sc.od, desired := desiredOf sc s }

def listsOf (L : Leaves) : Nat :=
  if L.load && (consLoop L.cons).isSome && L.uniq != .absent then 1 else 0

def modelDeploy (sc : Scn) : String :=
  match deployCase sc with
  | none => "BAD-SCN"
  | some c =>
    let r := deployObj c.t c.desired c.L c.f c.inv c.srv tpKey
    let d := r.1
    s!"ret={if d.err then "err" else "nil"} inv={invStr d.inv} w={writesStr d.writes} t={odStr (absOD r.2)} rec={if d.reconciled then 1 else 0} lists={listsOf c.L} {metaStr r.2}"

/-! ### ctrl stream -/

def modelCtrl (sc : Scn) : String :=
  match specsOf sc with
  | none => "BAD-SCN"
  | some specs =>
    match mopsOf sc specs sc.ops with
    | none => "BAD-SCN"
    | some ops =>
      let tr := traceM (H := Spec) id (renderId sc) (leavesOf sc false) (specs.map fresh) ops
      let rec go (specs : List Spec) : List MOp → List (Option (PassRes Spec String)) → List String
        | .restart :: ops, _ :: rs => "R" :: go specs ops rs
        | .on k (.edit s) :: ops, _ :: rs => "e" :: go (specs.set k s) ops rs
        | .on k (.pass _) :: ops, some r :: rs =>
          let o := obsOf r
          let img := match specs[k]? with | some sp => toString sp.image | none => "?"
          s!"r={resStr o.res} pull={if o.pulls == 0 then "" else img} dep={o.deploys} w={writesStr o.writes} t={odStr o.od} h={hashStr o.hash} un={unpackedStr o.unpacked} inv={invCondStr o.invalid}"
            :: go specs ops rs
        | _, _ => []
      ";".intercalate (go specs ops tr)

def model (sc : Scn) : String :=
  if sc.mode == "deploy" then modelDeploy sc else modelCtrl sc

/-! ### parsing the implementation's line -/

def fieldsOf (st : String) : List (String × String) :=
  (st.splitOn " ").filterMap fun kv =>
    match kv.splitOn "=" with
    | [k, v] => some (k, v)
    | _ => none

def getF (fs : List (String × String)) (k : String) : Option String := (fs.find? (·.1 == k)).map (·.2)

def parseWrites (s : String) : Option (List Write) :=
  if s.isEmpty then some [] else
  (s.splitOn ",").mapM fun
    | "C" => some .create | "C!" => some .createFail | "U" => some .update | "U!" => some .updateFail
    | "U~" => some .updateConflict
    | _ => none

def parseOd : String → OD String
  | "-" => none | "empty" => some none | t => some (some t)

def parseInv : String → Option Inv
  | "-" => some .none | "LoadError" => some .loadError | "ConstraintsFailed" => some .constraintsFailed
  | "T/LoadError" => some .loadError | "T/ConstraintsFailed" => some .constraintsFailed
  | _ => none

def parseHash (s : String) : Option (Option Spec) :=
  if s == "-" then some none else
  match (s.splitOn ".").map String.toNat? with
  | [some a, some b, some c] => some (some ⟨a, b, c⟩)
  | _ => none

def parseKV (s : String) : Option KV :=
  if s == "-" then some [] else
  (s.splitOn ",").mapM fun e =>
    match e.splitOn ":" with
    | [k, v] => some (k, v)
    | _ => none

def parseMObs (line : String) : Option MObs := do
  let fs := fieldsOf line
  let a ← (← getF fs "ann") |> parseKV
  let l ← (← getF fs "lab") |> parseKV
  some ⟨a, l⟩

def premOf (s : Option (Obj String)) : MObs :=
  match s with
  | none => ⟨[], []⟩
  | some o => ⟨o.ann, o.lab⟩

def parseDObs (line : String) : Option (DObs String) := do
  let fs := fieldsOf line
  let ret ← getF fs "ret"
  let inv ← (← getF fs "inv") |> parseInv
  let ws ← (← getF fs "w") |> parseWrites
  let t ← getF fs "t"
  let rc ← getF fs "rec"
  if ret != "nil" && ret != "err" then none
  some { err := ret == "err", inv := inv, writes := ws, od := parseOd t, reconciled := rc != "0" }

def parsePObs (st : String) : Option (PObs Spec String) := do
  let fs := fieldsOf st
  let r ← match (← getF fs "r") with
    | "ok" => some Res.ok | "requeue" => some Res.requeue | "err" => some Res.err | _ => none
  let pull ← getF fs "pull"
  let dep ← (← getF fs "dep").toNat?
  let ws ← (← getF fs "w") |> parseWrites
  let t ← getF fs "t"
  let h ← (← getF fs "h") |> parseHash
  let un ← match (← getF fs "un") with
    | "-" => some none
    | u => if u.startsWith "T/" then some (some true) else if u.startsWith "F/" then some (some false)
           else if u.startsWith "U/" then some none  -- status Unknown: neither True nor False is shown
           else none
  let inv ← (← getF fs "inv") |> parseInv
  some { res := r, pulls := if pull.isEmpty then 0 else (pull.splitOn ",").length, deploys := dep, writes := ws,
         od := parseOd t, hash := h, unpacked := un, invalid := inv }

def monitorDeploy (sc : Scn) (out : String) : String :=
  match deployCase sc with
  | none => if out == "BAD-SCN" then "ok" else s!"bad shape expected BAD-SCN got {out.take 60}"
  | some c =>
    match parseDObs out with
    | none => s!"bad unparsable {out.take 100}"
    | some o =>
      match parseMObs out with
      | none => s!"bad unparsable-metadata {out.take 160}"
      | some m =>
        match checkDeploy c.t c.L c.f c.od o ++
            checkMeta c.L c.desired.ann c.desired.lab ((List.range c.f.conflicts).map tpKey) (premOf c.srv) o m with
        | [] => "ok"
        | v :: _ => s!"bad {v} expected-template={c.t} out={out}"

/-- The last clause of the property at FULL strength on a history: after a fault-free pass over an
admissible spec the ObjectDeployment carries the fresh render — also when an EARLIER pass of the
history lost its status write (`checkRun` arms its `stale-template` clause only for loss-free
histories, which is what `changed_spec_history_ends_fresh_partial` proves).  A hit here that
`checkRun` does not report is the known finding C16-c (lost status write + revert of the spec). -/
def staleRun {H T : Type} [DecidableEq H] [DecidableEq T] (hash : Spec → H) (render : Spec → T)
    (W : Spec → Leaves) : MState H T → List Op → List (Option (PObs H T)) → List (Nat × String)
  | m, .edit s :: ops, none :: obs => staleRun hash render W { m with spec := s, idx := m.idx + 1 } ops obs
  | m, .pass F :: ops, some o :: obs =>
    (((checkStep hash render (W m.spec) F m.spec m.ph m.pod (clean F) o).filter (· == "stale-template")).map
      fun _ => (m.idx, "stale-template-after-lost-status")) ++
      staleRun hash render W { m with ph := o.hash, pod := o.od, idx := m.idx + 1 } ops obs
  | _, _, _ => []

/-- `staleRun` for every Package of a process history (see `checkRunM`). -/
def staleRunM (sc : Scn) (specs : List Spec) (ops : List MOp) (obs : List (Option (PObs Spec String))) :
    List (Nat × Nat × String) :=
  (List.range specs.length).flatMap fun k =>
    (staleRun (H := Spec) id (renderId sc) (leavesOf sc false)
      { spec := specs.getD k default, ph := none, pod := none, lateSeen := false, idx := 0 }
      (proj k ops) (projObs k ops obs)).map fun v => (k, v)

def monitorCtrl (sc : Scn) (out : String) : String :=
  let bad := if out == "BAD-SCN" then "ok" else s!"bad shape expected BAD-SCN got {out.take 60}"
  match specsOf sc with
  | none => bad
  | some specs =>
    match mopsOf sc specs sc.ops with
    | none => bad
    | some ops =>
      let steps := if out.isEmpty then [] else out.splitOn ";"
      let obs : Option (List (Option (PObs Spec String))) :=
        steps.mapM fun st => if st == "e" || st == "R" then some none else (parsePObs st).map some
      match obs with
      | none => s!"bad unparsable {out.take 100}"
      | some obs =>
        if obs.length != ops.length then s!"bad shape steps={obs.length} ops={ops.length}" else
        -- the property, Package by Package: each Package's own edits and passes and what was observed about it
        let msg := fun (kv : Nat × Nat × String) =>
          let i := globalIdx kv.1 ops kv.2.1
          s!"bad {kv.2.2} step={i} got={steps.getD i ""}" ++ (if specs.length > 1 then s!" package={kv.1}" else "")
        match checkRunM (H := Spec) id (renderId sc) (leavesOf sc false) specs ops obs with
        | [] =>
          match staleRunM sc specs ops obs with
          | [] => "ok"
          | kv :: _ => msg kv
        | kv :: _ => msg kv

def monitor (sc : Scn) (out : String) : String :=
  if sc.mode == "deploy" then monitorDeploy sc out else monitorCtrl sc out

end Pko.Drv.C16
