import Pko.Drv.SysMon
import Pko.Drv.HistCommon
import Pko.Model.PauseSpec
import Pko.Drv.C09Pkg
/-! Driver for C09.

* stream `sys` (controller-level histories of the ObjectSet controller): model = ObjectSet controller
  model, monitor = `Pko.Drv.SysMon.judge .c09`.
* stream `odpause` (histories of one ObjectDeployment and its revisions, recognised by the `ops`
  field; harness/C08 executor, harness/C09 generator): model = `ArchiveHist.observe` (the pass is
  `Archive.osr`), monitor = `PauseSpec.verdict` on every observed pass of the implementation trace:
  what the harness saw in its store before the pass, the writes, what it saw after the pass.
* stream `pkgpause` (histories of one Package through the real Package controller with the pause
  dimension, recognised by `"mode":"pkgpause"`; executor harness/C16/ctrl, generator harness/C09):
  model = `PkgPause.cpass` along the history, monitor = `PkgPauseSpec.checkPRun` (see
  `Pko.Drv.C09Pkg`). -/
namespace Pko.Drv.C09
open Lean Pko.Drv.HistCommon

inductive AnyScn where
  | sys (s : Pko.Drv.SysCommon.Scn)
  | od (h : HistScn)
  | pkg (p : Pko.Drv.C09Pkg.PScn)

instance : FromJson AnyScn where
  fromJson? j :=
    match j.getObjVal? "mode" with
    | .ok (Json.str "pkgpause") => AnyScn.pkg <$> fromJson? j
    | _ =>
      match j.getObjVal? "ops" with
      | .ok _ => AnyScn.od <$> fromJson? j
      | .error _ => AnyScn.sys <$> fromJson? j

def model : AnyScn → String
  | .sys s => Pko.Drv.SysCommon.model s
  | .od h => histModel h
  | .pkg p => Pko.Drv.C09Pkg.model p

def passVerdict (_k : Nat) (p : Pko.Model.ArchiveHist.PassObs) : String :=
  Pko.Model.PauseSpec.verdict p.pre p.odPaused p.writes p.post

def monitor (s : AnyScn) (out : String) : String :=
  match s with
  | .sys s => Pko.Drv.SysMon.monitor .c09 s out
  | .od _ => judgeTrace out passVerdict
  | .pkg p => Pko.Drv.C09Pkg.monitor p out

end Pko.Drv.C09

def main (args : List String) : IO UInt32 :=
  Pko.Util.driverMain Pko.Drv.C09.AnyScn Pko.Drv.C09.model Pko.Drv.C09.monitor args
