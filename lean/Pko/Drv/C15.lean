import Pko.Drv.SysMon
/-! Driver for C15 on the controller-level stream (delegated phases + the real same-cluster
ObjectSetPhase controller): model = ObjectSet + Remote models, monitor = `judge .c15` /
`judgePhaseStep`. -/
def main (args : List String) : IO UInt32 :=
  Pko.Util.driverMain Pko.Drv.SysCommon.Scn Pko.Drv.SysCommon.model (Pko.Drv.SysMon.monitor .c15) args
