import Pko.Util
import Pko.Model.Probe
import Pko.Model.ProbeSpec
/-! Line driver for C17.  `model` prints what the model of `internal/probing.Parse(..).Probe(obj)`
yields for a scenario (same format as the Go harness); `monitor` evaluates the property
(`ProbeSpec.checkOut`: conjunction over the selecting probes, all failures reported in order,
object unchanged, non-boolean CEL rules rejected) on an implementation output line.

Scenario: `{"specs":[{"kind":{"group","kind"}?,"sel":{"ml":[{"k","v"}],"me":[{"key","op","vals"}]}?,
"probes":[{"cond":{"a","b"}?,"fe":{"a","b"}?,"cel":{"a","b"}?}]}], "cel":[{"rule","cls","compile",
"eval","err"}], "obj": <JSON object; a float64 is written {"$f":"<%v rendering>"}>}`.
`cel` is the oracle table recorded from the real cel-go (`compile`: ok|type|err, `eval`:
true|false|err|na for this object) plus the generator's claim `cls` (bool|nonbool|syntax|"").
Output: `parse-error probe#i/celtype|probe#i/cel|selector#i` or `res <ok> <pure> <n> <msg>…`
(messages escaped like `verifkit.Esc`). -/
namespace Pko.Drv.C17
open Lean Pko.Model.Probe Pko.Model.ProbeSpec

structure JPair where
  k : String
  v : String
  deriving FromJson

structure JExpr where
  key : String
  op : String
  vals : List String
  deriving FromJson

structure JSel where
  ml : List JPair
  me : List JExpr
  deriving FromJson

structure JKind where
  group : String
  kind : String
  deriving FromJson

structure JAB where
  a : String
  b : String
  deriving FromJson

structure JProbe where
  cond : Option JAB
  fe : Option JAB
  cel : Option JAB
  deriving FromJson

structure JSpec where
  kind : Option JKind
  sel : Option JSel
  probes : List JProbe
  deriving FromJson

structure JCel where
  rule : String
  cls : String
  compile : String
  eval : String
  err : String
  deriving FromJson

structure Scn where
  specs : List JSpec
  cel : List JCel
  obj : Json
  deriving FromJson

partial def toJVal : Json → JVal
  | .null => .null
  | .bool b => .bool b
  | .num n => if n.exponent == 0 then .int n.mantissa else .float (toString n)
  | .str s => .str s
  | .arr a => .arr (a.toList.map toJVal)
  | .obj m =>
    match m.toList with
    | [("$f", .str r)] => .float r
    | kvs => .obj (kvs.map fun (k, v) => (k, toJVal v))

def toSpec (j : JSpec) : Spec :=
  { probes := j.probes.map fun p =>
      { condition := p.cond.map fun x => (x.a, x.b)
        fieldsEqual := p.fe.map fun x => (x.a, x.b)
        cel := p.cel.map fun x => (x.a, x.b) }
    kind := j.kind.map fun k => (k.group, k.kind)
    selector := j.sel.map fun s =>
      { matchLabels := s.ml.map fun p => (p.k, p.v)
        matchExprs := s.me.map fun e => { key := e.key, op := e.op, vals := e.vals } } }

def mkOracle (tbl : List JCel) : Oracle :=
  { compile := fun r =>
      match tbl.find? (·.rule == r) with
      | some e => if e.compile == "ok" then .ok else if e.compile == "type" then .notBool else .error
      | none => .error
    eval := fun r _ =>
      match tbl.find? (·.rule == r) with
      | some e =>
        if e.eval == "true" then .val true else if e.eval == "false" then .val false else .err e.err
      | none => .err "no oracle entry" }

def hex2 (b : UInt8) : String :=
  String.ofList [hexDigit (b.toNat / 16), hexDigit (b.toNat % 16)]

/-- `verifkit.Esc`. -/
def esc (s : String) : String :=
  if s.isEmpty then "%e"
  else String.join (s.toUTF8.toList.map fun b =>
    if b ≤ 32 || b == 37 || b ≥ 127 || b == 59 || b == 44 || b == 124 then "%" ++ hex2 b
    else String.ofList [Char.ofNat b.toNat])

def hexVal (c : Char) : Option Nat :=
  if c.isDigit then some (c.toNat - '0'.toNat)
  else if 'a'.toNat ≤ c.toNat ∧ c.toNat ≤ 'f'.toNat then some (c.toNat - 'a'.toNat + 10)
  else none

def unescBytes : List Char → Option (List UInt8)
  | [] => some []
  | '%' :: h :: l :: rest => do
    let a ← hexVal h
    let b ← hexVal l
    let r ← unescBytes rest
    pure (UInt8.ofNat (a * 16 + b) :: r)
  | '%' :: _ => none
  | c :: rest => do
    let r ← unescBytes rest
    pure (UInt8.ofNat c.toNat :: r)

def unesc (s : String) : Option String :=
  if s == "%e" then some ""
  else match unescBytes s.toList with
    | some bs => String.fromUTF8? (ByteArray.mk bs.toArray)
    | none => none

def render : Out → String
  | .parseErr e => "parse-error " ++ errStr e
  | .result ok pure msgs =>
    " ".intercalate (["res", if ok then "1" else "0", if pure then "1" else "0", toString msgs.length]
      ++ msgs.map esc)
  | .other t => t

def parseErrOf (s : String) : Option ParseErr :=
  match s.splitOn "#" with
  | ["probe", r] =>
    match r.splitOn "/" with
    | [i, "celtype"] => i.toNat?.map .celType
    | [i, "cel"] => i.toNat?.map .celOther
    | _ => none
  | ["selector", i] => i.toNat?.map .selector
  | _ => none

def parseOut (line : String) : Out :=
  match line.splitOn " " with
  | ["parse-error", e] =>
    match parseErrOf e with
    | some pe => .parseErr pe
    | none => .other line
  | "res" :: ok :: pure :: n :: ms =>
    if (ok == "0" || ok == "1") && (pure == "0" || pure == "1") && n.toNat? == some ms.length then
      match ms.mapM unesc with
      | some msgs => .result (ok == "1") (pure == "1") msgs
      | none => .other line
    else .other line
  | _ => .other line

def model (sc : Scn) : String :=
  render (modelOut (mkOracle sc.cel) (sc.specs.map toSpec) (toJVal sc.obj))

/-- the generator's classification of a CEL rule must agree with what the real `NewCELProbe`
did: boolean rules compile, non-boolean rules are rejected with `ErrCELInvalidEvaluationType`,
ill-formed ones with another error ("CEL rules must be boolean", Go side). -/
def checkCelTable : List JCel → String
  | [] => "ok"
  | e :: rest =>
    let want := if e.cls == "bool" then "ok" else if e.cls == "nonbool" then "type"
      else if e.cls == "syntax" then "err" else e.compile
    if e.compile != want then s!"bad cel-class rule={esc e.rule} cls={e.cls} want={want} got={e.compile}"
    else checkCelTable rest

def monitor (sc : Scn) (out : String) : String :=
  match checkCelTable sc.cel with
  | "ok" => checkOut (mkOracle sc.cel) (sc.specs.map toSpec) (toJVal sc.obj) (parseOut out)
  | bad => bad

end Pko.Drv.C17

def main (args : List String) : IO UInt32 :=
  Pko.Util.driverMain Pko.Drv.C17.Scn Pko.Drv.C17.model Pko.Drv.C17.monitor args
