import Pko.Util
import Pko.Model.Render
import Pko.Model.RenderSpec
/-! Line driver for C13.

`model`   runs the model of the rendering pipeline (`Pko.Model.Render.render`) on the per-file leaf
          results contained in the scenario, iterating every Go map in the order given by the
          scenario's `perm` / `ord` fields, and prints the final phase → object list exactly like
          the Go harness prints the real `ObjectSetTemplateSpec`.
`monitor` checks the IMPLEMENTATION's line against the specification `Pko.Model.RenderSpec.spec`
          facet by facet (determinism, failure status, conservation, placement, phase order,
          object order, annotations, labels).  One clause, `vanished`, is stated without the
          validator at all: with validation on, a successful render contains EVERY object that
          survived the path and CEL filters — an object whose phase annotation is not (exactly) the
          name of a manifest phase can only end in a validation error, never silently disappear. -/
namespace Pko.Drv.C13
open Lean Pko.Model.Render

structure JObj where
  id : Int
  e : Bool
  l : List (String × String)
  a : List (String × String)
  cel : Nat
  v : Bool
  k : String
  deriving FromJson

structure JDocs where
  ok : Bool
  objs : List JObj
  deriving FromJson

structure JFile where
  p : String
  tp : Bool
  tx : Bool
  own : JDocs
  out : JDocs
  deriving FromJson

structure JCPath where
  r : Nat
  deriving FromJson

structure JGlob where
  p : String
  r : List Nat
  deriving FromJson

structure Scn where
  name : String
  inst : String
  phases : List String
  cpaths : List JCPath
  validate : Bool
  files : List JFile
  perm : List Nat
  ord : List Nat
  celctx : Bool
  globs : List JGlob
  deriving FromJson

def toObj (j : JObj) : Obj :=
  { id := j.id, empty := j.e, labels := j.l, anns := j.a, cel := j.cel, valid := j.v, key := j.k }

def toDocs (j : JDocs) : Docs := { ok := j.ok, objs := j.objs.map toObj }

def toPkg (s : Scn) : Pkg :=
  { name := s.name, inst := s.inst, phases := s.phases, celCtxOk := s.celctx,
    cpaths := s.cpaths.map fun c => { res := c.r },
    globs := s.globs.map fun g => (g.p.toList, g.r),
    validate := s.validate,
    files := s.files.map fun f =>
      { path := f.p.toList, tmplParses := f.tp, tmplExecs := f.tx, own := toDocs f.own, out := toDocs f.out } }

/-- Visit the entries in the order of the keys `perm[i]` attached to their positions `i`
(any list of numbers gives a permutation of `l`). -/
def applyPerm {α : Type} (perm : List Nat) (l : List α) : List α :=
  ((withIdx 0 l).mergeSort fun a b => decide (perm.getD a.1 0 ≤ perm.getD b.1 0)).map fun e => e.2

/-- rotation -/
def rot {α : Type} (k : Nat) (l : List α) : List α := l.drop (k % (l.length + 1)) ++ l.take (k % (l.length + 1))

/-- The iteration orders of the scenario: loop 0 visits the file map in the order given by `perm`,
the other loops rotate (and reverse, for odd numbers) by `ord[n]`. -/
def oracle (s : Scn) : Oracle := fun n _ l =>
  if n == 0 then applyPerm s.perm l
  else if s.ord.getD n 0 % 2 == 1 then (rot (s.ord.getD n 0 / 2) l).reverse else rot (s.ord.getD n 0 / 2) l

/-! ### canonical output (same format as `harness/C13`) -/

def hexDigit (n : Nat) : Char := if n < 10 then Char.ofNat (48 + n) else Char.ofNat (87 + n)

/-- `verifkit.Esc` (ASCII). -/
def esc (s : String) : String :=
  if s.isEmpty then "%e" else
  String.join (s.toList.map fun c =>
    let n := c.toNat
    if n ≤ 32 || c == '%' || n ≥ 127 || c == ';' || c == ',' || c == '|' then
      String.ofList ['%', hexDigit (n / 16), hexDigit (n % 16)]
    else String.singleton c)

structure OObj where
  id : Int
  lab : String
  anns : String
  deriving BEq, Repr

structure OPhase where
  name : String
  objs : List OObj
  deriving BEq, Repr

inductive Out where
  | err (kind : String)
  | ok (phases : List OPhase)
  deriving BEq, Repr

def errStr : Err → String
  | .celctx => "celctx" | .tmplparse => "tmplparse" | .tmplexec => "tmplexec" | .yaml => "yaml"
  | .validate => "validate" | .condpath => "condpath" | .filter => "filter"

def toOObj (name inst : String) (o : OutObj) : OObj :=
  let flag := if o.labels.lookup pkgLabel == some name && o.labels.lookup instLabel == some inst then "L" else "X"
  let anns := match o.anns with
    | none => "-"
    | some kvs => "{" ++ "+".intercalate ((kvs.map fun kv => esc kv.1).mergeSort (· ≤ ·)) ++ "}"
  { id := o.id, lab := flag ++ toString o.labels.length, anns := anns }

def toOut (name inst : String) : Except Err (List Phase) → Out
  | .error e => .err (errStr e)
  | .ok ps => .ok (ps.map fun p => { name := esc p.name, objs := p.objs.map (toOObj name inst) })

def fmtObj (o : OObj) : String := s!"{o.id}|{o.lab}|{o.anns}"

def fmt : Out → String
  | .err k => "err " ++ k
  | .ok ps => "ok [" ++ ";".intercalate (ps.map fun p => p.name ++ "=" ++ ",".intercalate (p.objs.map fmtObj)) ++ "]"

/-- structured model output -/
def modelOut (s : Scn) : Out := toOut s.name s.inst (render (oracle s) (toPkg s))

def model (s : Scn) : String := fmt (modelOut s)

/-! ### parsing the implementation's line -/

def parseObj (t : String) : Option OObj :=
  match t.splitOn "|" with
  | [i, l, a] => (fun id => { id := id, lab := l, anns := a }) <$> i.toInt?
  | _ => none

def parsePhase (t : String) : Option OPhase :=
  match t.splitOn "=" with
  | [n, os] =>
    if os.isEmpty then some { name := n, objs := [] }
    else (fun objs => { name := n, objs := objs }) <$> (os.splitOn ",").mapM parseObj
  | _ => none

def parseOut (line : String) : Option Out :=
  if line.startsWith "err " then some (.err (line.drop 4).toString)
  else if line.startsWith "ok [" && line.endsWith "]" then
    let body := ((line.drop 4).dropEnd 1).toString
    if body.isEmpty then some (.ok []) else Out.ok <$> (body.splitOn ";").mapM parsePhase
  else none

/-! ### the monitored predicate -/

def sortInts (l : List Int) : List Int := l.mergeSort (· ≤ ·)

def idsOf (ps : List OPhase) : List Int := (ps.map fun p => p.objs.map fun o => o.id).flatten

def showInts (l : List Int) : String := ",".intercalate (l.map toString)

/-- multiset difference `a − b` -/
def msub (a b : List Int) : List Int := b.foldl List.erase a

/-- `none` = the output satisfies the property w.r.t. the expected (specified) output. -/
def check (want got : Out) : Option String :=
  match want, got with
  | .err _, .err _ => none      -- the property speaks about the failure status only
  | .err k, .ok _ => some s!"status want=err-{k} got=ok"
  | .ok _, .err k => some s!"status want=ok got=err-{k}"
  | .ok w, .ok g =>
    if sortInts (idsOf w) != sortInts (idsOf g) then
      some s!"conservation objects-lost-or-duplicated lost={showInts (sortInts (msub (idsOf w) (idsOf g)))} extra={showInts (sortInts (msub (idsOf g) (idsOf w)))} want={showInts (sortInts (idsOf w))} got={showInts (sortInts (idsOf g))}"
    else if (w.map fun p => p.name) != (g.map fun p => p.name) then
      some s!"phase-order want={",".intercalate (w.map fun p => p.name)} got={",".intercalate (g.map fun p => p.name)}"
    else if (w.map fun p => sortInts (p.objs.map fun o => o.id)) != (g.map fun p => sortInts (p.objs.map fun o => o.id)) then
      some "placement object-in-wrong-phase"
    else if (w.map fun p => p.objs.map fun o => o.id) != (g.map fun p => p.objs.map fun o => o.id) then
      some s!"object-order want={";".intercalate (w.map fun p => showInts (p.objs.map fun o => o.id))} got={";".intercalate (g.map fun p => showInts (p.objs.map fun o => o.id))}"
    else if (w.map fun p => p.objs.map fun o => o.anns) != (g.map fun p => p.objs.map fun o => o.anns) then
      some "annotations control-annotation-left-or-annotation-lost-or-empty-map"
    else if (w.map fun p => p.objs.map fun o => o.lab) != (g.map fun p => p.objs.map fun o => o.lab) then
      some "labels package-labels-missing-or-labels-lost"
    else none

/-- expected output according to the specification -/
def specOut (s : Scn) : Out := toOut s.name s.inst (Pko.Model.RenderSpec.spec (toPkg s))

/-- where the objects that survive the path and CEL filters come from: `id@path[phase annotation]` -/
def whereabouts (pkg : Pkg) (ids : List Int) : String :=
  let tbl := (Pko.Model.RenderSpec.filtered pkg).flatMap fun e => e.2.map fun o => (o.id, e.1, phaseOf o)
  ",".intercalate (ids.map fun i =>
    match tbl.find? (fun t => t.1 == i) with
    | some t => s!"{i}@{esc (String.ofList t.2.1)}[{esc t.2.2}]"
    | none => s!"{i}@?")

/-- The clause "a validated object never silently disappears", stated WITHOUT the validator.

Premises: validation is on; every stage other than validation succeeds on this package (so the set of
objects that pass the path and CEL filters, `survivors`, is defined); the implementation reports
success.  Conclusion: every survivor is in the output, as often as it survived — whatever its phase
annotation says.  The collector can only place an object whose annotation is EXACTLY the name of a
manifest phase, so for an object whose annotation names none (unknown name, padded with white space,
empty, missing) the only outcome compatible with this clause is a validation error. -/
def vanished (s : Scn) (got : Out) : Option String :=
  match got with
  | .err _ => none
  | .ok g =>
    let pkg := toPkg s
    if !pkg.validate then none
    else match Pko.Model.RenderSpec.mustFail { pkg with validate := false } with
      | some _ => none      -- has to fail in another stage: reported by the status clause of `check`
      | none =>
        let lost := msub ((Pko.Model.RenderSpec.survivors pkg).map fun o => o.id) (idsOf g)
        if lost.isEmpty then none
        else some s!"conservation validated-objects-vanished lost={whereabouts pkg (sortInts lost)} phases={",".intercalate (pkg.phases.map esc)}"

/-- additional detail for a conservation failure: which file every lost object came from -/
def lostDetail (s : Scn) (got : Out) : String :=
  match specOut s, got with
  | .ok w, .ok g =>
    let lost := msub (idsOf w) (idsOf g)
    if lost.isEmpty then "" else s!" lost-from={whereabouts (toPkg s) (sortInts lost)}"
  | _, _ => ""

def monitor (s : Scn) (out : String) : String :=
  if out.startsWith "nondet" then "bad nondet repeated-renders-differ " ++ (out.take 300).toString
  else if out.startsWith "PANIC" then "bad panic " ++ (out.take 200).toString
  else match parseOut out with
    | none => "bad parse " ++ (out.take 200).toString
    | some got =>
      match vanished s got with
      | some why => "bad " ++ why
      | none =>
        match check (specOut s) got with
        | none => "ok"
        | some why => "bad " ++ why ++ lostDetail s got

end Pko.Drv.C13

def main (args : List String) : IO UInt32 :=
  Pko.Util.driverMain Pko.Drv.C13.Scn Pko.Drv.C13.model Pko.Drv.C13.monitor args
