import Pko.Drv.PhaseCommon
/-! Driver for C05 (deletes only what PKO controls, pinned to the inspected version).
The monitor replays ONLY the third-party operations of the scenario on the initial store (using
the environment model) and judges every teardown write of the implementation against the state
PKO must have read and the state at the moment of the write. -/
namespace Pko.Drv.C05
open Pko.Kube Pko.Model.Phase Pko.Drv.PhaseCommon

/-- store after the third-party operations scheduled before PKO writes `< n` (lt) or `≤ n`. -/
def envUpTo (s : Scn) (n : Nat) (incl : Bool) : Store :=
  let ops := (s.env.getD []).map toEnv
  -- operations are applied in write-index order, then scenario order
  let idxs := List.range (n + 1)
  idxs.foldl (fun st i =>
    if i < n || incl then (ops.filter (·.1 = i)).foldl (fun st e => st.env e.2) st else st) (initStore s)

def natField (e tag : String) : Option Nat :=
  match e.splitOn (" " ++ tag ++ "=") with
  | _ :: rest :: _ => ((rest.splitOn " ").headD "").toNat?
  | _ => none

def lastTok (e : String) : String := (e.splitOn " ").getLastD ""

def monitor (s : Scn) (out : String) : String := Id.run do
  if s.mode ≠ "teardown" then return "ok"
  let some io := parseOut out | return s!"bad unparsable-output {out.take 60}"
  let cfg := cfgOf s
  let ow := ownerOf s
  let objs := objsOf s
  let keys := objs.map (keyOf cfg ow)
  if keys.eraseDups.length ≠ keys.length then return "ok"
  let mut i := 0
  for e in io.events do
    let ks := eventKey e
    match objs.find? (fun p => keyStr (keyOf cfg ow p) == ks) with
    | none => return s!"bad write-on-unlisted-key {e}"
    | some p =>
      let k := keyOf cfg ow p
      let read := (envUpTo s i false).get k      -- what PKO read before issuing write i
      let atWrite := (envUpTo s i true).get k    -- the object when write i arrives
      match eventVerb e with
      | "D" =>
        match read with
        | none => return s!"bad delete-of-absent-object {e}"
        | some cur =>
          if !isController cfg.st (ow.ref true) cur then return s!"bad delete-of-uncontrolled-object {e}"
          if natField e "u" ≠ some cur.uid then return s!"bad delete-not-pinned-to-uid {e}"
          if lastTok e == "ok" && atWrite ≠ some cur then
            return s!"bad delete-succeeded-on-changed-object {e}"
          if lastTok e != "ok" && atWrite == some cur then
            return s!"bad delete-failed-on-unchanged-object {e}"
      | "M" =>
        match read with
        | none => return s!"bad patch-of-absent-object {e}"
        | some cur =>
          if isController cfg.st (ow.ref true) cur || !isOwner cfg.st (ow.ref true) cur then
            return s!"bad deref-of-not-coowned-object {e}"
          let want := (match cfg.st with
            | .native => cur.owners.filter (fun r => !sameObj (ow.ref true) r)
            | .annotation => cur.owners).map refStr
          let got := listField (e ++ "]") " "   -- the list after the flag
          let got := match e.splitOn " [" with
            | _ :: rest :: _ => let inner := (rest.splitOn "]").headD ""; if inner.isEmpty then [] else inner.splitOn ","
            | _ => got
          -- boxcutter's RemoveOwner drops the FIRST matching reference only and does not keep order
          let wantFirst := (match cfg.st with
            | .native => removeFirst (sameObj (ow.ref true)) cur.owners
            | .annotation => cur.owners).map refStr
          if sortStrings got ≠ sortStrings wantFirst then
            return s!"bad deref-changes-other-references {e} want={want}"
      | _ => return s!"bad unexpected-write-in-teardown {e}"
    i := i + 1
  -- objects PKO neither controls nor co-owns must be byte-for-byte what third parties left
  -- third-party operations fire right before an actual PKO write, so only indices < #writes happened
  let final := envUpTo s io.events.length false
  for p in objs do
    let k := keyOf cfg ow p
    if io.events.any (fun e => eventKey e == keyStr k) then continue
    let want := (final.get k).map (objStrI (instInit s) k)   -- untouched: still the label it started with
    let got := io.finals.find? (fun f => f.startsWith (keyStr k ++ "{"))
    -- rv is not printed; uid / owners / labels / payload are
    if want ≠ got then
      return s!"bad untouched-object-changed {keyStr k}"
  return "ok"

end Pko.Drv.C05

def main (args : List String) : IO UInt32 :=
  Pko.Util.driverMain Pko.Drv.PhaseCommon.Scn Pko.Drv.PhaseCommon.model Pko.Drv.C05.monitor args
