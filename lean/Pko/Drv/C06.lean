import Pko.Drv.SysMon
/-! Driver for C06 on the controller-level stream: model = ObjectSet controller model,
monitor = `Pko.Drv.SysMon.judge .c06`. -/
def main (args : List String) : IO UInt32 :=
  Pko.Util.driverMain Pko.Drv.SysCommon.Scn Pko.Drv.SysCommon.model (Pko.Drv.SysMon.monitor .c06) args
