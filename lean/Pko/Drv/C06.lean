import Pko.Drv.SysCommon
namespace Pko.Drv.C06
open Pko.Drv.SysCommon
def monitor (_s : Scn) (_out : String) : String := "ok"
end Pko.Drv.C06
def main (args : List String) : IO UInt32 :=
  Pko.Util.driverMain Pko.Drv.SysCommon.Scn Pko.Drv.SysCommon.model Pko.Drv.C06.monitor args
