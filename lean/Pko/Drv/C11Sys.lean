import Pko.Drv.SysMon
/-! Second driver for C11: namespace confinement on the controller-level stream (real ObjectSet
and same-cluster ObjectSetPhase controllers end to end, incl. how the phase adapters hand the
phase to the reconciler). -/
def main (args : List String) : IO UInt32 :=
  Pko.Util.driverMain Pko.Drv.SysCommon.Scn Pko.Drv.SysCommon.model (Pko.Drv.SysMon.monitor .c11) args
