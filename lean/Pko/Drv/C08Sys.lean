import Pko.Drv.SysMon
/-! Monitor of the C08 `handover` stream: the REAL ObjectDeployment controller interleaved with the
REAL ObjectSet / ObjectSetPhase controllers on one store (harness/verifsys/od.go).

The monitor states C08's sentence on what IS in the store, not on what the revisions report:

* `archived-before-paused-confirmed` — an ObjectDeployment pass sets `lifecycleState: Archived` on a
  revision that has not reported `Paused=True`;
* `newest-revision-archived` — … on the newest revision of the chain;
* `archived-without-cause` — … on a revision r although no newer revision reports Available and
  (r reports Available, or some existing object that the next newer revision contains is controlled —
  controller ownerReference — by r or by one of r's delegated phase objects);
* `shared-object-deleted-during-handover` — the teardown of an archived revision (its own pass or a
  pass of the ObjectSetPhase controller on one of its phase objects) deletes an object that a newer,
  not archived revision of the chain contains (unless a still newer revision that dropped the object
  reports Available, or did when the revision was archived: then the object is on its way out
  legitimately).

As in `Pko.Drv.SysMon` the state BEFORE a step is the model's state after the preceding steps, which
is the implementation's as long as the implementation's outputs equal the model's (the walk stops
after the first step that differs); the step itself is judged on the IMPLEMENTATION's events.
Every verdict names the cause it can see (`cause=…`), `cause=other` otherwise. -/
namespace Pko.Drv.C08Sys
open Pko.Kube Pko.Model.Phase Pko.Model.ObjectSet Pko.Model.Status Pko.Drv.PhaseCommon Pko.Drv.SysCommon

/-- the revisions of the ObjectDeployment that exist. -/
def chain (scn : SysCommon.Scn) (pre : Sys) : List OSet := (setNames scn).filterMap pre.sets

/-- store keys of the objects a revision contains (all phases, local and delegated). -/
def containsKeys (cfg : Cfg) (o : OSet) : List Key := (o.phases.flatMap (·.objs)).map (keyOf cfg o.owner)

/-- `o` controls the stored object `c`: the controller reference names `o` itself or one of the
phase objects `o` delegates to. -/
def controlsObj (scn : SysCommon.Scn) (cfg : Cfg) (pre : Sys) (o : OSet) (c : Obj) : Bool :=
  isController cfg.st (o.owner.ref true) c ||
  o.phases.any fun ph => ph.cls != "" &&
    (match pre.w.phases (o.name ++ "-" ++ ph.name) with
     | some po => po.ctrlName == o.name && po.ctrlUID == o.uid &&
         isController cfg.st ((Pko.Model.Remote.phaseOwner po (setKindOf scn) (nsOf scn)).ref true) c
     | none => false)

/-- the keys among `ks` that exist and are controlled by `o`. -/
def controlledAmong (scn : SysCommon.Scn) (cfg : Cfg) (pre : Sys) (o : OSet) (ks : List Key) : List Key :=
  ks.eraseDups.filter fun k => match pre.w.store.get k with
    | some c => controlsObj scn cfg pre o c
    | none => false

def keysStr (ks : List Key) : String := ",".intercalate (ks.map keyStr)

/-- the next newer revision of the chain. -/
def nextNewer (ch : List OSet) (r : OSet) : Option OSet :=
  (ch.filter (·.revision > r.revision)).foldl (fun acc n => match acc with
    | none => some n
    | some m => if n.revision < m.revision then some n else some m) none

/-- index of the phase of `o` that lists the object stored under `k`. -/
def phaseIdxOf (cfg : Cfg) (o : OSet) (k : Key) : Option Nat :=
  (o.phases.zipIdx.find? fun (ph, _) => ph.objs.any fun p => keyOf cfg o.owner p == k).map (·.2)

/-- the phase the last status-deriving pass of `o` stopped at (`Available=False/ProbeFailure`). -/
def failingPhase (o : OSet) : Option String :=
  (o.conds.find? fun c => c.type == "Available" && c.status == "False" && c.reason == "ProbeFailure").map (·.msg)

/-- Why does `status.controllerOf` of `r` miss objects `r` controls?  The cause the monitor can see. -/
def archiveCause (scn : SysCommon.Scn) (cfg : Cfg) (pre : Sys) (r : OSet) : String :=
  let controls := controlledAmong scn cfg pre r (containsKeys cfg r)
  let reported := r.controllerOf.map crefStr
  let missing := controls.filter fun k => !reported.contains (keyStr k)
  let stopped := failingPhase r
  let stoppedIdx := stopped.bind fun f => (r.phases.zipIdx.find? fun (ph, _) => ph.name == f).map (·.2)
  if !missing.isEmpty then
    match stopped, stoppedIdx with
    | some f, some fi =>
      if missing.all fun k => match phaseIdxOf cfg r k with | some i => decide (i > fi) | none => false then
        s!"cause=controllerOf-truncated({r.name} reports [{",".intercalate reported}], controls [{keysStr controls}]; its last pass stopped at failing phase {f})"
      else s!"cause=other({r.name} reports [{",".intercalate reported}], controls [{keysStr controls}])"
    | _, _ => s!"cause=other({r.name} reports [{",".intercalate reported}], controls [{keysStr controls}])"
  else
    -- everything it controls is reported: is it reported under an identifier the ObjectDeployment
    -- controller does not compare equal (namespace of a cluster-scoped kind)?
    let specIds := Pko.Model.Handover.specIds
    match nextNewer (chain scn pre) r with
    | some nx =>
      let repIds := Pko.Model.Handover.reportedIds r
      if (controlledAmong scn cfg pre r (containsKeys cfg nx)).isEmpty then "cause=other"
      else if (specIds nx).all fun i => !repIds.contains i then
        s!"cause=controllerOf-identifier-mismatch({r.name} reports [{",".intercalate repIds}], {nx.name} lists [{",".intercalate (specIds nx)}])"
      else "cause=other"
    | none => "cause=other"

structure OdOut where
  res : String
  events : List String

def parseOd (tok : String) : Option OdOut :=
  if !tok.startsWith "O " then none
  else match tok.splitOn " | " with
    | [a, b] => some { res := (a.drop 2).toString, events := if b.isEmpty then [] else b.splitOn ";" }
    | _ => none

/-- One ObjectDeployment pass, judged on the implementation's writes. -/
def judgeOd (scn : SysCommon.Scn) (cfg : Cfg) (pre : Sys) (out : OdOut) : Option String := Id.run do
  let ch := chain scn pre
  for e in out.events do
    let toks := e.splitOn " "
    if toks.getD 0 "" == "U" && toks.getD 2 "" == "Archived" && toks.getLastD "" == "ok" then
      let some r := pre.sets (toks.getD 1 "") | return some s!"bad archived-unknown-objectset {e}"
      if r.lifecycle != .archived then
        let newest := ch.foldl (fun m o => max m o.revision) 0
        if r.revision == newest then
          return some s!"bad newest-revision-archived {r.name} (revision {r.revision})"
        if !condTrue r.conds "Paused" then
          return some s!"bad archived-before-paused-confirmed {r.name} (conds=[{condsStr r.conds}])"
        let newerAvail := ch.any fun n => n.revision > r.revision && condTrue n.conds "Available"
        if !newerAvail then
          if condTrue r.conds "Available" then
            return some s!"bad archived-without-cause {r.name} (no newer revision reports Available and {r.name} reports Available) cause=other"
          match nextNewer ch r with
          | none => pure ()
          | some nx =>
            let shared := controlledAmong scn cfg pre r (containsKeys cfg nx)
            if !shared.isEmpty then
              return some s!"bad archived-without-cause {r.name} (no newer revision reports Available; {r.name} controls [{keysStr shared}] which the next newer revision {nx.name} contains) {archiveCause scn cfg pre r}"
  return none

/-- A newer revision `n` reports `Available=True` from a PAUSED pass (the pass that wrote `Available`
also wrote `Paused=True`: same observedGeneration) — a paused pass reads its objects from the cache
whoever controls them. -/
def availableFromPausedPass (n : OSet) : Bool :=
  match findCond n.conds "Available", findCond n.conds "Paused" with
  | some a, some p => a.status == "True" && p.status == "True" && a.obsGen == p.obsGen
  | _, _ => false

/-- the objects `n` contains that it does not control (absent ones included). -/
def uncontrolledOf (scn : SysCommon.Scn) (cfg : Cfg) (pre : Sys) (n : OSet) : List Key :=
  (containsKeys cfg n).eraseDups.filter fun k => match pre.w.store.get k with
    | some c => !controlsObj scn cfg pre n c
    | none => true

/-- GHOST of the walk: what an ObjectDeployment pass that archives `r` BECAUSE a newer revision reports
Available could have seen about that report — the newer revision does not control everything it
contains (its Available=True is not a statement about objects it has taken over). -/
def archiveBasis (scn : SysCommon.Scn) (cfg : Cfg) (pre : Sys) (out : OdOut) : List (String × String) :=
  let ch := chain scn pre
  out.events.filterMap fun e =>
    let toks := e.splitOn " "
    if toks.getD 0 "" == "U" && toks.getD 2 "" == "Archived" && toks.getLastD "" == "ok" then
      match pre.sets (toks.getD 1 "") with
      | none => none
      | some r =>
        let avail := ch.filter fun n => n.revision > r.revision && condTrue n.conds "Available"
        match avail.find? (fun n => !(uncontrolledOf scn cfg pre n).isEmpty) with
        | some n =>
          let un := uncontrolledOf scn cfg pre n
          if availableFromPausedPass n then
            some (r.name, s!"cause=newer-revision-available-while-paused-without-control({r.name} was archived because {n.name} reported Available=True from a paused pass; {n.name} did not control [{keysStr un}])")
          else
            some (r.name, s!"cause=newer-revision-available-without-control({r.name} was archived because {n.name} reported Available=True; {n.name} did not control [{keysStr un}])")
        | none => none
    else none

/-- GHOST of the walk: for every revision an ObjectDeployment pass archives, the newer revisions that
reported Available in the state the pass read. -/
def availableAtArchive (scn : SysCommon.Scn) (pre : Sys) (out : OdOut) : List (String × List String) :=
  let ch := chain scn pre
  out.events.filterMap fun e =>
    let toks := e.splitOn " "
    if toks.getD 0 "" == "U" && toks.getD 2 "" == "Archived" && toks.getLastD "" == "ok" then
      (pre.sets (toks.getD 1 "")).map fun r =>
        (r.name, (ch.filter fun n => n.revision > r.revision && condTrue n.conds "Available").map (·.name))
    else none

/-- Deletes of managed objects issued by a pass on behalf of revision `r` (its own pass, or a pass
of the ObjectSetPhase controller on one of its phase objects). -/
def judgeDeletes (scn : SysCommon.Scn) (cfg : Cfg) (pre : Sys) (basis : List (String × String))
    (availAt : List (String × List String)) (r : OSet) (by_ : String) (events : List String) : Option String := Id.run do
  if r.lifecycle != .archived then return none
  let ch := chain scn pre
  -- the newer revisions that reported Available when `r` was archived (GHOST of the walk)
  let wasAvail := ((availAt.find? (·.1 == r.name)).map (·.2)).getD []
  for e in events do
    if eventVerb e == "D" && (e.splitOn " ").getLastD "" == "ok" then
      let ks := eventKey e
      let holder := ch.find? fun n =>
        n.revision > r.revision && n.lifecycle != .archived && !n.deleting &&
        (containsKeys cfg n).any (keyStr · == ks) &&
        !(ch.any fun n' => n'.revision > n.revision && (condTrue n'.conds "Available" || wasAvail.contains n'.name) &&
            !(containsKeys cfg n').any (keyStr · == ks))
      match holder with
      | none => pure ()
      | some n =>
        let uncontrolled := uncontrolledOf scn cfg pre n
        let cause :=
          if let some b := basis.find? (·.1 == r.name) then b.2
          else if condTrue n.conds "Available" && availableFromPausedPass n && uncontrolled.any (keyStr · == ks) then
            s!"cause=newer-revision-available-while-paused-without-control({n.name} reports Available=True from a paused pass, does not control [{keysStr uncontrolled}])"
          else if condTrue n.conds "Available" && uncontrolled.any (keyStr · == ks) then
            s!"cause=newer-revision-available-without-control({n.name} reports Available=True, does not control [{keysStr uncontrolled}])"
          else archiveCause scn cfg pre r
        return some s!"bad shared-object-deleted-during-handover {ks} by {by_} (teardown of archived revision {r.name}) while the newer revision {n.name} contains it {cause}"
  return none

def monitor (s : SysCommon.Scn) (out : String) : String := Id.run do
  let toks := out.splitOn " ## "
  let steps := s.steps.getD []
  if toks.length < steps.length then return s!"bad unparsable-output tokens={toks.length} steps={steps.length}"
  let cfg := SysCommon.cfgOf s
  let mut sys := initSys s
  let mut i := 0
  let mut basis : List (String × String) := []
  let mut availAt : List (String × List String) := []
  for (st, tok) in steps.zip toks do
    let (sys', mtok) := stepModelX s cfg st sys
    let cfgS := cfgAt cfg sys
    if st.op == "od" && tok != "BAD-STEP" then
      match parseOd tok with
      | none => return s!"bad unparsable-step {i} {tok.take 40}"
      | some oo =>
        match judgeOd s cfgS sys oo with
        | some b => return s!"{b} step={i}"
        | none => pure ()
        basis := archiveBasis s cfgS sys oo ++ basis
        availAt := availableAtArchive s sys oo ++ availAt
    if st.op == "reconcile" then
      match SysMon.parseStep tok, sys.sets st.set with
      | some so, some r =>
        match judgeDeletes s cfgS sys basis availAt r s!"{r.kind}/{r.name}" so.events with
        | some b => return s!"{b} step={i}"
        | none => pure ()
      | _, _ => pure ()
    if st.op == "phase" then
      match SysMon.parseStep tok, sys.w.phases st.set with
      | some so, some po =>
        match sys.sets po.ctrlName with
        | some r =>
          if r.uid == po.ctrlUID then
            match judgeDeletes s (cfgAt (phaseCfgOf s) sys) sys basis availAt r s!"phase object {po.name}" so.events with
            | some b => return s!"{b} step={i}"
            | none => pure ()
        | none => pure ()
      | _, _ => pure ()
    if mtok != tok then return "ok"      -- diverged: later pre-states are not the implementation's
    sys := sys'
    i := i + 1
  return "ok"

end Pko.Drv.C08Sys
