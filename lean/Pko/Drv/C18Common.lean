import Pko.Util
import Pko.Model.Template
import Pko.Model.TemplateSpec
/-! Line driver for C18 (everything but `main`; also used by the ObjectTemplate stream of C11,
`Pko.Drv.C11Tmpl`).  `model` replays a history on `Pko.Model.Template` with the concrete
leaves that mirror the harness's template family (`harness/C18`) and prints what the Go harness
prints; `monitor` evaluates `Pko.Model.TemplateSpec.checkPass` (the property) on the
IMPLEMENTATION's trace: the state before each pass is the last state the implementation reported
plus the environment steps since. -/
namespace Pko.Drv.C18
open Lean Pko.Model.Template Pko.Model.TemplateSpec

structure JItem where
  kf : String
  kk : String
  d : String
  deriving FromJson

structure JSrc where
  kind : String
  ns : String
  name : String
  opt : Bool
  items : List JItem
  deriving FromJson

structure JRef where
  d : String
  strict : Bool
  deriving FromJson

/-- `c18Sw` of the harness: while config key `d` holds `v`, the manifest is rendered with another
kind (`kind`, "" = unchanged), another metadata.namespace (`ns`, "=" = unchanged, "" = line
absent) and / or an ownerReference (`own`). -/
structure JSw where
  d : String
  v : String
  kind : String
  ns : String
  own : Bool
  deriving FromJson

structure JTmpl where
  form : String
  kind : String
  ns : String
  own : Bool
  env : Bool
  refs : List JRef
  sw : Option JSw := none
  deriving FromJson

structure JKV where
  k : String
  v : String
  deriving FromJson

structure JOCond where
  t : String
  s : Bool
  og : String
  deriving FromJson

structure JStep where
  op : String
  kind : String
  ns : String
  name : String
  vals : List JKV
  l : Bool
  obsGen : Int
  conds : List JOCond
  v : String
  deriving FromJson

structure Scn where
  cluster : Bool
  peer : Bool
  env : String
  tmpl : JTmpl
  srcs : List JSrc
  steps : List JStep
  deriving FromJson

/-! ### concrete leaves: the harness's keyUniverse and template family -/

def scopeOf : String → Scope
  | "NK" => .namespaced | "NK2" => .namespaced | "CK" => .cluster | _ => .unknown

def lookup (l : List (String × String)) (k : String) : Option String :=
  (l.find? (fun e => e.1 == k)).map (·.2)

def setKV (l : List (String × String)) (k v : String) : List (String × String) :=
  if l.any (fun e => e.1 == k) then l.map (fun e => if e.1 == k then (k, v) else e) else l ++ [(k, v)]

/-- canonical form of a payload: last value per key, sorted by key (what a Go map prints as). -/
def canon (l : List (String × String)) : List (String × String) :=
  (l.foldl (fun acc e => setKV acc e.1 e.2) []).mergeSort (fun a b => a.1 ≤ b.1)

/-- `copySourceItem` on the harness's key forms (`Item.key` = "<form>:<data key>"). -/
def copyLeaf (it : Item) (k : Key) (o : Obj) (cfg : Config) : Option Config :=
  let value : Option String := match it.key.splitOn ":" with
    | [kf, kk] =>
      if kf == "dot" || kf == "bare" || kf == "brace" || kf == "bbare" then lookup o.data kk
      else if kf == "name" then some k.name
      else none                       -- "bad": not a JSONPath; "empty": yields no JSON
    | _ => none
  match value with
  | none => none
  | some v =>
    if it.dest.startsWith "." then some (setKV cfg (it.dest.drop 1).toString v)
    else none                         -- JSONPathFormatError

def renderLeaf (t : JTmpl) (cfg : Config) (env : String) : RenderRes :=
  if t.form == "parse" then .templateErr
  else if t.refs.any (fun r => r.strict && (lookup cfg r.d).isNone) then .templateErr  -- missingkey=error
  else if t.form != "ok" then .unmarshalErr
  else
    let envPart : Data := if t.env then [("env", env)] else []
    let refPart : Data := (List.range t.refs.length).zip t.refs |>.map fun (i, r) =>
      (s!"f{i}", (lookup cfg r.d).getD "none")
    -- the switch: `eq (print (index .config d)) v` — a missing key prints as "<nil>"
    let on := match t.sw with
      | some sw => (lookup cfg sw.d).getD "<nil>" == sw.v
      | none => false
    let (kind, ns, own) := match t.sw with
      | some sw =>
        if on then (if sw.kind == "" then t.kind else sw.kind, if sw.ns == "=" then t.ns else sw.ns, t.own || sw.own)
        else (t.kind, t.ns, t.own)
      | none => (t.kind, t.ns, t.own)
    .ok { kind := kind, ns := ns, name := "t", data := canon (envPart ++ refPart), hasOwner := own }

def leaves : Leaves JTmpl := { scope := scopeOf, copy := copyLeaf, render := renderLeaf }

def tmplNS : String := "ns1"

def toSpec (s : Scn) : Spec JTmpl :=
  { ns := if s.cluster then "" else tmplNS, template := s.tmpl,
    sources := s.srcs.map fun j =>
      { kind := j.kind, ns := j.ns, name := j.name, optional := j.opt,
        items := j.items.map fun i => { key := s!"{i.kf}:{i.kk}", dest := i.d } } }

def initWorld (s : Scn) : World :=
  { objs := fun _ => none,
    tmpl := some { finalizer := false, deleting := false, status := ⟨.none, [], none⟩ },
    watches := if s.peer then [("CK", .peer), ("NK", .peer)] else [],
    env := s.env }

inductive Step where
  | env (op : EnvOp) (isObj : Bool)
  | reconcile
  | bad

def toStep (j : JStep) : Step :=
  let k : Key := ⟨j.kind, j.ns, j.name⟩
  match j.op with
  | "put" => .env (.put k (canon (j.vals.map fun e => (e.k, e.v))) j.l) true
  | "del" => .env (.del k) true
  | "unlabel" => .env (.unlabel k) true
  | "status" =>
    .env (.setStatus k (if j.obsGen < 0 then none else some j.obsGen.toNat)
      (j.conds.map fun c => (c.t, c.s, "R", c.og == "cur"))) true
  | "deltmpl" => .env .delTmpl false
  | "restart" => .env .restart false
  | "setenv" => .env (.setEnv j.v) false
  | "rec" => .reconcile
  | _ => .bad

/-- every key an object of the history can live at -/
def keyUniverse (s : Scn) : List Key :=
  let stepKeys := s.steps.filterMap fun j =>
    if j.kind == "" || scopeOf j.kind == .unknown then none else some (norm scopeOf ⟨j.kind, j.ns, j.name⟩)
  -- (with a switch the templated object can also live under the switched kind / namespace)
  let swKinds := match s.tmpl.sw with | some sw => [sw.kind] | none => []
  let swNss := match s.tmpl.sw with | some sw => [sw.ns] | none => []
  let tgt := ([s.tmpl.kind] ++ swKinds).flatMap fun kind => ([s.tmpl.ns, tmplNS, ""] ++ swNss).filterMap fun ns =>
    if scopeOf kind == .unknown then none else some (norm scopeOf ⟨kind, ns, "t"⟩)
  (stepKeys ++ tgt).eraseDups

/-! ### printing -/

def keyStr (k : Key) : String := s!"{k.kind}/{k.ns}/{k.name}"

def dataStr (d : Data) : String := "+".intercalate (d.map fun e => s!"{e.1}={e.2}")

def sortStr (l : List String) : List String := l.mergeSort (fun a b => a ≤ b)

def outStr : Outcome → String
  | .ok => "ok" | .requeueOpt => "requeue-opt" | .requeueRes => "requeue-res" | .err => "err"

def invStr : Invalid → String
  | .none => "-" | .source => "SourceError" | .template => "TemplateError"

def verbStr : Verb → String
  | .create => "create" | .update => "update" | .merge => "merge" | .status => "status"

def writeStr (spec : Spec JTmpl) (x : Write) : String :=
  let sc := if x.key = tmplKey spec then "T" else match scopeOf x.key.kind with
    | .namespaced => "N" | .cluster => "C" | .unknown => "U"
  s!"{verbStr x.verb}:{sc}:{keyStr x.key}" ++ (if x.failed then "!AlreadyExists" else "")

def watchStr (ws : List (String × Owner)) : String :=
  let kinds := (ws.map (·.1)).eraseDups
  let entries := kinds.map fun k =>
    let os := sortStr ((ws.filter (·.1 == k)).map fun e => match e.2 with | .tmpl => "T" | .peer => "P")
    s!"{k}:{"+".intercalate os}"
  ",".intercalate (sortStr entries)

def objsStr (keys : List Key) (objs : Objs) : String :=
  ",".intercalate <| sortStr <| keys.filterMap fun k => (objs k).map fun o =>
    s!"{keyStr k}\{{dataStr o.data}}{if o.label then "L" else "-"}g{o.gen}"

def recStr (spec : Spec JTmpl) (keys : List Key) (r : PassRes) : String :=
  let w := r.world
  let (inv, conds, ctl, ts) := match w.tmpl with
    | none => ("-", "", "-", "gone")
    | some t =>
      (invStr t.status.invalid,
       ",".intercalate (sortStr (t.status.conds.map fun (c : Cond) => s!"{c.type}={if c.status then "T" else "F"}:{c.reason}")),
       (match t.status.controllerOf with | some k => keyStr k | none => "-"),
       if t.deleting then "del" else if t.finalizer then "fin" else "new")
  s!"R {outStr r.out} inv={inv} conds={conds} ctl={ctl} w={",".intercalate (r.writes.map (writeStr spec))} objs={objsStr keys w.objs} watch={watchStr w.watches} tmpl={ts}"

def model (s : Scn) : String := Id.run do
  let spec := toSpec s
  let keys := keyUniverse s
  let mut w := initWorld s
  let mut outs : Array String := #[]
  for j in s.steps do
    match toStep j with
    | .bad => return "BAD-OP"
    | .env op isObj =>
      let (w', n) := envStep leaves w op
      w := w'
      outs := outs.push (if isObj then s!"E enq={n}" else "E")
    | .reconcile =>
      let r := reconcile leaves spec w
      w := r.world
      outs := outs.push (recStr spec keys r)
  return ";".intercalate outs.toList

/-! ### monitor -/

def field (fs : List String) (name : String) : Option String :=
  fs.findSome? fun f => if f.startsWith (name ++ "=") then some (f.drop (name.length + 1)).toString else none

def parseOut : String → Option Outcome
  | "ok" => some .ok | "requeue-opt" => some .requeueOpt | "requeue-res" => some .requeueRes
  | "err" => some .err | _ => none

def parseInv : String → Option Invalid
  | "-" => some .none | "SourceError" => some .source | "TemplateError" => some .template | _ => none

def parseKey (s : String) : Option Key :=
  match s.splitOn "/" with
  | [a, b, c] => some ⟨a, b, c⟩
  | _ => none

def parseWrite (s : String) : Option Write :=
  match s.splitOn ":" with
  | [v, _, rest] =>
    let (ks, failed) := match rest.splitOn "!" with
      | [k] => (k, false)
      | k :: _ => (k, true)
      | [] => ("", false)
    let verb : Option Verb := match v with
      | "create" => some .create | "update" => some .update | "merge" => some .merge
      | "status" => some .status | _ => none
    match verb, parseKey ks with
    | some vb, some k => some ⟨vb, k, failed⟩
    | _, _ => none
  | _ => none

def parseData (s : String) : Data :=
  if s.isEmpty then [] else (s.splitOn "+").map fun e =>
    match e.splitOn "=" with
    | k :: rest => (k, "=".intercalate rest)
    | [] => ("", "")

/-- `Kind/ns/name{a=x+b=y}Lg3` -/
def parseObj (s : String) : Option (Key × Obj) :=
  match s.splitOn "{" with
  | [ks, rest] =>
    match rest.splitOn "}" with
    | [ds, tail] =>
      match parseKey ks with
      | some k =>
        let label := tail.startsWith "L"
        let gen := ((tail.drop 2).toString.toNat?).getD 1
        some (k, ⟨parseData ds, label, gen, none, []⟩)
      | none => none
    | _ => none
  | _ => none

def parseWatch (s : String) : List (String × Owner) :=
  if s.isEmpty then [] else (s.splitOn ",").flatMap fun e =>
    match e.splitOn ":" with
    | [k, os] => (os.splitOn "+").map fun o => (k, if o == "T" then Owner.tmpl else Owner.peer)
    | _ => []

def listAll {α} (l : List (Option α)) : Option (List α) :=
  l.foldr (fun x acc => match x, acc with | some a, some as => some (a :: as) | _, _ => none) (some [])

structure Parsed where
  obs : Obs
  objs : Objs
  tmplState : String

def parseRec (line : String) : Option Parsed := do
  let fs := line.splitOn " "
  guard (fs.head? == some "R")
  let out ← parseOut (fs.getD 1 "")
  let inv ← parseInv (← field fs "inv")
  let wsS ← field fs "w"
  let ws ← listAll (if wsS.isEmpty then [] else (wsS.splitOn ",").map parseWrite)
  let osS ← field fs "objs"
  let os ← listAll (if osS.isEmpty then [] else (osS.splitOn ",").map parseObj)
  let watch := parseWatch (← field fs "watch")
  let ts ← field fs "tmpl"
  let objs : Objs := fun k => (os.find? (fun e => e.1 = k)).map (·.2)
  some { obs := { out := out, invalid := inv, writes := ws,
                  objs := fun k => (objs k).map fun o => (o.data, o.label), watches := watch },
         objs := objs, tmplState := ts }

def monitor (s : Scn) (out : String) : String := Id.run do
  let spec := toSpec s
  let keys := keyUniverse s
  let lines := if out.isEmpty then [] else out.splitOn ";"
  if lines.length != s.steps.length then
    return s!"bad step-count impl={lines.length} scn={s.steps.length} out={(out.take 120).toString}"
  let mut w := initWorld s
  let mut i := 0
  for (j, line) in s.steps.zip lines do
    match toStep j with
    | .bad => return "bad BAD-OP"
    | .env op isObj =>
      if isObj then
        -- a visible change of an object whose kind the template watches must enqueue the template
        let k := norm scopeOf ⟨j.kind, j.ns, j.name⟩
        let before := w.objs k
        let w' := (envStep leaves w op).1
        -- (status edits are exempt: the implementation's report does not carry the status the
        -- comparison would need)
        let need := j.op != "status" && scopeOf j.kind != .unknown &&
          mustEnqueue w.watches k.kind before (w'.objs k)
        let got := (field (line.splitOn " ") "enq").bind (·.toNat?)
        match got with
        | none => return s!"bad unparsable step={i} line={line}"
        | some n =>
          if need && n == 0 then return s!"bad not-enqueued step={i} op={j.op} key={keyStr k}"
        w := w'
      else
        w := (envStep leaves w op).1
    | .reconcile =>
      match parseRec line with
      | none => return s!"bad unparsable step={i} line={(line.take 160).toString}"
      | some p =>
        if !checkPass leaves spec keys w p.obs then
          let why := match w.tmpl with
            | none => "gone"
            | some t =>
              if t.deleting then "watches-kept-after-deletion"
              else if !bounded leaves spec p.obs then "write-out-of-bounds"
              else match specGather leaves spec w.objs spec.sources [] false with
                | .srcErr m => if m then "missing-required-source" else "source-error"
                | .ok cfg retry =>
                  match renderLeaf spec.template cfg w.env with
                  | .templateErr => "template-error"
                  | .unmarshalErr => "unrenderable-template"
                  | .ok r =>
                    if !admissible scopeOf spec.ns r.kind r.ns r.hasOwner then "target-out-of-bounds"
                    else if p.obs.out = Outcome.err then "error-without-api-refusal"
                    else if !retried retry p.obs then "optional-not-retried"
                    else if p.obs.invalid ≠ Invalid.none then "invalid-on-valid-template"
                    else if !sourcesObserved leaves spec p.obs then "source-unwatched-or-unlabelled"
                    else s!"target-differs want={dataStr r.data}"
          return s!"bad pass {why} step={i} got={(line.take 200).toString}"
        -- continue from the state the implementation reported
        let tm : Option Tmpl := match p.tmplState with
          | "gone" => none
          | "del" => some ⟨true, true, ⟨p.obs.invalid, [], none⟩⟩
          | "fin" => some ⟨true, false, ⟨p.obs.invalid, [], none⟩⟩
          | _ => some ⟨false, false, ⟨p.obs.invalid, [], none⟩⟩
        w := { w with objs := p.objs, watches := p.obs.watches, tmpl := tm }
    i := i + 1
  return "ok"

end Pko.Drv.C18
