import Pko.Util
import Pko.Model.Archive
import Pko.Model.ArchiveHist
/-! Shared by the C08 and C09 line drivers: JSON shape of revisions / histories of
`harness/C08`, the trace format of a history (what the Go harness OBSERVES in its store before and
after every pass of the real ObjectDeployment controller), its printer (model side) and its parser
(monitor side).  Library module (no `main`), core Lean only.

Trace of a history: passes joined by `|`, followed by `|F<snapshot>` (the final store):

    S<snapshot>;<spec.paused 0|1>;<revisionHistoryLimit | n>;<writes>;<ok|err>;S<snapshot>

snapshot = listed ObjectSets joined by `,`, each
`<name>/<status.revision>/<flags>/<controllerOf>/<inline objects>/<objects in ObjectSlices>`
with flags = lifecycle `A|P|X`, then `0|1` for: paused-by-parent annotation, Available=True,
Paused=True, deletionTimestamp set, hash annotation equals status.templateHash, some ObjectSlice the
phases reference does not exist; key lists joined by `.`, a nil controllerOf is `-`.  The sliced
objects are what the harness reads from the ObjectSlice objects in its store that the ObjectSet's
`spec.phases[*].slices` name. -/
namespace Pko.Drv.HistCommon
open Lean Pko.Model.Archive Pko.Model.ArchiveHist

/-- One revision as written by the harness; in a single-pass scenario its name (`id`) is its
position in `revs`. -/
structure JRev where
  rev : Int
  av : Bool                     -- Available condition True
  sp : Bool                     -- Paused condition True
  lc : String                   -- "A" | "P" | "X"
  pbp : Bool                    -- paused-by-parent annotation
  co : Option (List Nat)        -- status.controllerOf keys, null = nil slice
  obj : List Nat                -- keys of the objects inline in spec.phases[*].objects
  sl : Option (List Nat)        -- keys of the objects in the ObjectSlices named by spec.phases[*].slices (absent = none)
  sm : Option Bool              -- an ObjectSlice named by spec.phases[*].slices does not exist
  hm : Bool                     -- hash annotation matches
  dt : Bool                     -- deletionTimestamp set (terminating, still listed)
  deriving FromJson

def toLc : String → Lifecycle
  | "P" => .paused | "X" => .archived | _ => .active

def toRevs (l : List JRev) : List Rev :=
  (List.range l.length).zip l |>.map fun (i, j) =>
    { id := i, rev := j.rev, available := j.av, statusPaused := j.sp, lc := toLc j.lc, pbp := j.pbp,
      controllerOf := j.co, objects := j.obj, hashMatch := j.hm, terminating := j.dt,
      sliced := j.sl.getD [], sliceMissing := j.sm.getD false }

def writeStr : Write → String
  | .pause i => s!"p{i}" | .ppause i => s!"pp{i}" | .activate i => s!"u{i}"
  | .archive i => s!"a{i}" | .delete i => s!"d{i}"

def parseWrite (t : String) : Option Write :=
  let num (k : Nat) : Option Nat := (t.drop k).toString.toNat?
  if t.startsWith "pp" then (num 2).map .ppause
  else if t.startsWith "p" then (num 1).map .pause
  else if t.startsWith "u" then (num 1).map .activate
  else if t.startsWith "a" then (num 1).map .archive
  else if t.startsWith "d" then (num 1).map .delete
  else none

def parseWrites (ws : String) : Option (List Write) :=
  if ws.isEmpty then some [] else (ws.splitOn ",").mapM parseWrite

/-! ### histories -/

structure JOp where
  op : String
  i : Option Nat
  rev0 : Option Bool
  av : Option Bool
  sp : Option Bool
  co : Option (List Nat)
  obj : Option (List Nat)
  sl : Option (List Nat)
  sm : Option Bool
  lc : Option String
  pbp : Option Bool
  b : Option Bool
  l : Option Int
  deriving FromJson

structure HistScn where
  fin : Bool
  odp : Bool
  limit : Option Int
  init : List JRev
  ops : List JOp
  deriving FromJson

def toOp (j : JOp) : Option Op :=
  match j.op with
  | "od" => some .od
  | "new" => some (.new (j.rev0.getD false) (j.av.getD false) (j.sp.getD false) j.co (j.obj.getD [])
                    (j.sl.getD []) (j.sm.getD false))
  | "st" => some (.status (j.i.getD 0) (j.av.getD false) (j.sp.getD false) j.co)
  | "edit" => some (.edit (j.i.getD 0) (j.lc.map toLc) j.pbp)
  | "del" => some (.del (j.i.getD 0))
  | "fin" => some (.finish (j.i.getD 0))
  | "pause" => some (.pause (j.b.getD false))
  | "limit" => some (.limit j.l)
  | _ => none

def maxRev (l : List Rev) : Int := l.foldl (fun a r => if a < r.rev then r.rev else a) 0

def initState (h : HistScn) : State :=
  let revs := toRevs h.init
  { revs := revs, next := revs.length, hi := maxRev revs, odPaused := h.odp, limit := h.limit, fin := h.fin }

def toOps (h : HistScn) : List Op := h.ops.filterMap toOp

def b01 (b : Bool) : String := if b then "1" else "0"

def keysStr (l : List Nat) : String := ".".intercalate (l.map toString)

def revStr (r : Rev) : String :=
  let lc := match r.lc with | .active => "A" | .paused => "P" | .archived => "X"
  let co := match r.controllerOf with | none => "-" | some l => keysStr l
  s!"{r.id}/{r.rev}/{lc}{b01 r.pbp}{b01 r.available}{b01 r.statusPaused}{b01 r.terminating}{b01 r.hashMatch}{b01 r.sliceMissing}/{co}/{keysStr r.objects}/{keysStr r.sliced}"

def snapStr (l : List Rev) : String := ",".intercalate (l.map revStr)

def limitStr : Option Int → String
  | none => "n" | some l => toString l

def passStr (p : PassObs) : String :=
  s!"S{snapStr p.pre};{b01 p.odPaused};{limitStr p.limit};{",".intercalate (p.writes.map writeStr)};" ++
    (if p.err then "err" else "ok") ++ s!";S{snapStr p.post}"

/-- model side: the trace of a history -/
def histModel (h : HistScn) : String :=
  let r := observe (initState h) (toOps h)
  "|".intercalate (r.1.map passStr ++ ["F" ++ snapStr r.2])

/-! ### parsing an implementation trace -/

def parseKeys (s : String) : Option (List Nat) :=
  if s.isEmpty then some [] else (s.splitOn ".").mapM (·.toNat?)

def parseRev (s : String) : Option Rev :=
  match s.splitOn "/" with
  | [id, rev, fl, co, obj, sl] => do
    let id ← id.toNat?
    let rev ← rev.toInt?
    let f := fl.toList
    match f with
    | [lc, pbp, av, sp, dt, hm, sm] =>
      let lc ← (match lc with | 'A' => some Lifecycle.active | 'P' => some .paused | 'X' => some .archived | _ => none)
      let co ← (if co == "-" then some none else (parseKeys co).map some)
      let obj ← parseKeys obj
      let sl ← parseKeys sl
      some { id := id, rev := rev, available := av == '1', statusPaused := sp == '1', lc := lc,
             pbp := pbp == '1', controllerOf := co, objects := obj, hashMatch := hm == '1',
             terminating := dt == '1', sliced := sl, sliceMissing := sm == '1' }
    | _ => none
  | _ => none

def parseSnap (s : String) : Option (List Rev) :=
  if s.isEmpty then some [] else (s.splitOn ",").mapM parseRev

def parsePass (s : String) : Option PassObs :=
  match s.splitOn ";" with
  | [pre, odp, lim, ws, res, post] => do
    if !pre.startsWith "S" || !post.startsWith "S" then none
    let pre ← parseSnap (pre.drop 1).toString
    let post ← parseSnap (post.drop 1).toString
    let limit ← (if lim == "n" then some none else lim.toInt?.map some)
    let ws ← parseWrites ws
    some { pre := pre, odPaused := odp == "1", limit := limit, writes := ws, err := res != "ok", post := post }
  | _ => none

/-- the passes of an implementation trace (the trailing `F…` segment is dropped) -/
def parseTrace (out : String) : Option (List PassObs) :=
  let segs := out.splitOn "|"
  (segs.filter (fun s => !s.startsWith "F")).mapM parsePass

/-- Evaluate a per-pass verdict on every pass of an implementation trace. -/
def judgeTrace (out : String) (v : Nat → PassObs → String) : String :=
  match parseTrace out with
  | none => s!"bad parse out={out.take 80}"
  | some ps =>
    let rec go (k : Nat) : List PassObs → String
      | [] => "ok"
      | p :: rest =>
        let r := v k p
        if r == "ok" then go (k + 1) rest else r ++ s!" pass={k}"
    go 0 ps

end Pko.Drv.HistCommon
