import Pko.Util
import Pko.Model.Chunk
import Pko.Model.ChunkSpec
import Pko.Model.ChunkRun
/-! Line driver for C14 (both streams; the scenario's `t` field selects the stream).

`model` prints what `Pko.Model.Chunk` does, in the format of the Go harnesses
(`harness/C14/deploy`, `harness/C14/load`).  `monitor` parses an implementation output line into the
observations of `Pko.Model.ChunkSpec` and evaluates the specification predicates on them; it never
consults the model of the encoder / loader / controller. -/
namespace Pko.Drv.C14
open Lean Pko.Model.Chunk Pko.Model.ChunkSpec Pko.Model.ChunkRun

/-! ### scenarios -/

structure JPre where
  slot : List Nat
  c : Nat
  objs : List Nat
  ctl : Bool
  lbl : Bool
  deriving FromJson

/-- A declared real hash collision: the content `b` hashes to the same name as the content `a`, at every
collision count (FNV-1a is iterative: equal state after the content, equal state after the count). -/
structure JColl where
  a : List Nat
  b : List Nat
  sa : List Nat   -- the sizes of `a`'s / `b`'s objects the collision holds for (the hash covers the padding)
  sb : List Nat
  deriving FromJson

structure JOp where
  op : String
  phases : List (List Nat)
  i : Int
  st : Option String      -- op "life": the `.spec.lifecycleState` to set (active | paused | archived)
  fault : Option String   -- op "deploy": the API fault that hits the call (`toFault`); absent / "" = none
  deriving FromJson

structure JLPhase where
  inl : List Nat
  chunks : List (List Nat)
  cls : Option Bool        -- the phase carries a class (delegated to an ObjectSetPhase controller)
  deriving FromJson

structure Scn where
  t : String
  -- stream "deploy"
  strat : Option String
  limit : Option Nat
  sizes : Option (List Nat)
  pre : Option (List JPre)
  coll : Option (List JColl)
  ops : Option (List JOp)
  -- both streams: the rest of every ObjectSetObject.  Object `id` carries collisionProtection number `cps[id]`
  -- (0 unset, 1 Prevent, 2 IfNoController, 3 None) and conditionMappings table entry `cms[id]` (0 = none); stream
  -- "deploy": by object id, missing = 0; stream "load": by object id modulo the list's length
  cps : Option (List Nat)
  cms : Option (List Nat)
  -- stream "load"
  mode : Option String
  phs : Option (List JLPhase)
  missing : Option (List (List Nat))
  owned : Option (List (List Nat))
  wait : Option Int
  rem : Option (List Nat)  -- per phase index: state of the ObjectSetPhase object of a delegated phase
  deriving FromJson

/-- What a content hash covers of a slice content: every object with ALL its fields (identity and fingerprint;
the size is a function of the identity within one scenario). -/
abbrev Key := List (Nat × Nat)
def keyOf (content : List Obj) : Key := content.map fun o => (o.id, o.fp)

/-- Symbolic slice name: the hashed content and the collision count. -/
structure SName where
  key : Key
  c : Nat
  deriving DecidableEq, Repr

/-- A declared collision on content keys. -/
structure KColl where
  a : Key
  b : Key

/-- The representative of a content key under the scenario's declared hash collisions. -/
def canonKey (coll : List KColl) (key : Key) : Key :=
  match coll.find? (fun e => e.b == key) with
  | some e => e.a
  | none => key

/-- The abstract hash, instantiated injectively — on whole contents: ids AND fingerprints — UP TO the real FNV-32
collisions the scenario declares (the Go harness checks that every declared collision is real and that no
undeclared one occurs); name clashes with other content are also scripted through the `pre` oracle. -/
def symHash (coll : List KColl) (content : List Obj) (c : Nat) : SName := ⟨canonKey coll (keyOf content), c⟩
def isSymHashOf (coll : List KColl) (n : SName) (content : List Obj) : Bool :=
  n.key == canonKey coll (keyOf content)

/-! ### rendering (must agree with the Go harnesses) -/

def join (sep : String) (l : List String) : String := sep.intercalate l

/-- An object is printed as its id when it is — in every field — the object the scenario builds for that id
(`fpOf id` is that object's fingerprint), otherwise as `id~fp` with the fingerprint the harness found. -/
def tokStr (fpOf : Nat → Nat) (id fp : Nat) : String := if fp == fpOf id then toString id else s!"{id}~{fp}"
def idsStr (fpOf : Nat → Nat) (sep : String) (l : List Obj) : String := join sep (l.map fun o => tokStr fpOf o.id o.fp)
def keyStr (fpOf : Nat → Nat) (k : Key) : String :=
  if k.isEmpty then "e" else join "_" (k.map fun p => tokStr fpOf p.1 p.2)
def nameStr (fpOf : Nat → Nat) (n : SName) : String := s!"{keyStr fpOf n.key}.{n.c}"
def sortStrs (l : List String) : List String := l.mergeSort fun a b => !(b < a)

def chunkObsStr (fpOf : Nat → Nat) : ChunkObs → String
  | .err => "err"
  | .bypass => "nil"
  | .chunks cs => join "+" (cs.map (idsStr fpOf ","))

def tmplStr (fpOf : Nat → Nat) : Option (Template SName) → String
  | none => "-"
  | some t => "@" ++ join "/" (t.map fun ph =>
      idsStr fpOf "," ph.objects ++ "|" ++ join "," (ph.slices.map (nameStr fpOf)))

def entryStr (fpOf : Nat → Nat) (e : SName × Slice) : String :=
  let ids := if e.2.objects.isEmpty then "e" else idsStr fpOf "_" e.2.objects
  s!"{nameStr fpOf e.1}={ids}:{if e.2.ctl then "c" else "-"}{if e.2.lbl then "l" else "-"}"

def lifeStr : Life → String
  | .active => "a" | .paused => "p" | .archived => "r"

/-- The ObjectSets that exist, as the harness reads them off the fake API after a `life` / `markdel` op. -/
def setsStr (l : List (OSet SName)) : String :=
  if l.isEmpty then "-" else join "," (l.map fun os => lifeStr os.life ++ (if os.deleting then "d" else ""))

/-! ### stream "deploy": model -/

def minSize : Nat := 128
def maxC : Nat := 8

def toLife : String → Option Life
  | "active" => some .active
  | "paused" => some .paused
  | "archived" => some .archived
  | _ => none

/-- The API faults of the harness (`c14Client.fault`). -/
def toFault : String → Option DFault
  | "get" => some .get
  | "create" => some .create
  | "update" => some .update
  | "updatelost" => some .updateLost
  | "conflict" => some .conflict
  | "conflict+update" => some .conflictUpdate
  | "oslist" => some .osList
  | "slicelist" => some .sliceList
  | "gcdel" => some .gcDelete
  | _ => none

def JOp.faultStr (op : JOp) : String := op.fault.getD ""

def toStrategy : String → Option Strategy
  | "binpack" | "default" | "junk" => some .binpack
  | "each" => some .each
  | "noop" => some .noop
  | _ => none

structure Dep where
  strat : Strategy
  limit : Nat
  sizes : List Nat
  pre : List JPre
  coll : List JColl
  ops : List JOp
  cps : List Nat
  cms : List Nat

/-- Number of collisionProtection values / conditionMappings tables the harness knows (`c14CPs`, `c14CMs`). -/
def nMeta : Nat := 4

/-- The fingerprint of the object the scenario builds for `id`: its collisionProtection and conditionMappings. -/
def Dep.fpOf (d : Dep) (id : Nat) : Nat := d.cps[id]?.getD 0 + 10 * d.cms[id]?.getD 0

def Dep.obj (d : Dep) (id : Nat) : Obj :=
  { id, size := (match d.sizes[id]? with | some 0 => none | some n => some n | none => some 0), fp := d.fpOf id }
def Dep.objs (d : Dep) (ids : List Nat) : List Obj := ids.map d.obj

/-- The declared collisions on whole contents. -/
def Dep.kcoll (d : Dep) : List KColl := d.coll.map fun e => { a := keyOf (d.objs e.a), b := keyOf (d.objs e.b) }

/-- Mirrors `c14Valid` of the Go harness. -/
def Dep.valid (d : Dep) : Bool :=
  let okIds (ids : List Nat) (allowBad : Bool) : Bool :=
    ids.all fun id => match d.sizes[id]? with | none => false | some 0 => allowBad | some _ => true
  d.sizes.all (fun sz => sz == 0 || sz ≥ minSize) &&
  d.cps.all (· < nMeta) && d.cms.all (· < nMeta) &&
  d.pre.all (fun p => okIds p.slot false && okIds p.objs false && p.c < maxC) &&
  -- declared collisions: two different measurable contents; a representative is nobody's alias; one entry per alias
  d.coll.all (fun e => okIds e.a false && okIds e.b false && e.a != e.b &&
    e.sa == e.a.map (fun id => d.sizes[id]?.getD 0) && e.sb == e.b.map (fun id => d.sizes[id]?.getD 0) &&
    !(d.coll.any fun e' => e'.b == e.a) && (d.coll.filter fun e' => e'.b == e.b).length == 1) &&
  d.ops.all fun op =>
    match op.op with
    | "chunk" => op.phases.all (okIds · true)
    | "deploy" => op.phases.all (okIds · (d.strat == .binpack)) && (op.faultStr.isEmpty || (toFault op.faultStr).isSome)
    | "snap" | "delos" | "markdel" => true
    | "life" => (op.st.bind toLife).isSome
    | _ => false

def toDep (s : Scn) : Option Dep := do
  let strat ← toStrategy (← s.strat)
  some { strat, limit := ← s.limit, sizes := ← s.sizes, pre := ← s.pre, coll := s.coll.getD [], ops := ← s.ops,
         cps := s.cps.getD [], cms := s.cms.getD [] }

/-- The slices that exist before the first op: the first entry scripted for a slot wins. -/
def Dep.initStore (d : Dep) : Store SName :=
  d.pre.foldl (fun st p =>
    let n := symHash d.kcoll (d.objs p.slot) p.c
    match getSlice st n with
    | some _ => st
    | none => st ++ [(n, { objects := d.objs p.objs, ctl := p.ctl, lbl := p.lbl, owned := false })]) []

def Dep.initWorld (d : Dep) : World SName :=
  { deploy := if d.pre.isEmpty then none else some [], slices := d.initStore, objectSets := [] }

def delosIdx {α : Type} (w : List α) (i : Int) : Nat := if i < 0 then w.length else i.toNat

/-- Scenario op → op of `Pko.Model.ChunkRun` (`none`: unknown op). -/
def Dep.toOp (d : Dep) (nSets : Nat) (op : JOp) : Option Op :=
  match op.op with
  | "chunk" => some (.chunk (op.phases.map d.objs))
  | "deploy" =>
    if op.faultStr.isEmpty then some (.deploy (op.phases.map d.objs))
    else (toFault op.faultStr).map (.deployF · (op.phases.map d.objs))
  | "snap" => some .snap
  | "delos" => some (.delos (if op.i < 0 then nSets else op.i.toNat))
  | "life" => (op.st.bind toLife).map (.life (if op.i < 0 then nSets else op.i.toNat))
  | "markdel" => some (.markdel (if op.i < 0 then nSets else op.i.toNat))
  | _ => none

/-- Print one step of the model the way the Go harness prints it. -/
def renderStep (fpOf : Nat → Nat) (w w' : World SName) : Op → Obs SName → String
  | .chunk _, .chunk outs => "K " ++ join "/" (outs.map (chunkObsStr fpOf))
  | .deploy _, .deploy o | .deployF _ _, .deploy o =>
    let created := (names w'.slices).filter fun n => (getSlice w.slices n).isNone
    s!"D {if o.ok then "ok" else "err"} T={tmplStr fpOf o.tmpl} C={join "," (created.map (nameStr fpOf))} " ++
    s!"X={join "," (sortStrs (o.deleted.map (nameStr fpOf)))} S={join "," (sortStrs (o.store.map (entryStr fpOf)))}"
  | .snap, _ => match w.deploy with | none => "S -" | some _ => s!"S {w'.objectSets.length}"
  | .delos _, _ => s!"O {w'.objectSets.length}"
  | .life _ _, _ => s!"E {setsStr w'.objectSets}"
  | .markdel _, _ => s!"E {setsStr w'.objectSets}"
  | _, _ => "STUCK"

def modelDep (d : Dep) : String :=
  if !d.valid then "BAD-SCN" else
  let (_, outs) := d.ops.foldl (fun (acc : World SName × List String) jop =>
    match d.toOp acc.1.objectSets.length jop with
    | none => (acc.1, acc.2 ++ ["BAD-OP"])
    | some op =>
      let (w', ob) := modelStep d.limit d.strat (symHash d.kcoll) acc.1 op
      (w', acc.2 ++ [renderStep d.fpOf acc.1 w' op ob])) (d.initWorld, [])
  join ";" outs

/-! ### stream "load": model -/

structure Ld where
  mode : String
  phs : List JLPhase
  missing : List (List Nat)
  owned : List (List Nat)
  wait : Option Nat
  rem : List Nat
  cps : List Nat
  cms : List Nat

def toLd (s : Scn) : Option Ld := do
  let w ← s.wait
  some { mode := ← s.mode, phs := ← s.phs, missing := ← s.missing, owned := ← s.owned,
         wait := if w < 0 then none else some w.toNat, rem := s.rem.getD [],
         cps := s.cps.getD [], cms := s.cms.getD [] }

def Ld.metaValid (l : Ld) : Bool := l.cps.all (· < nMeta) && l.cms.all (· < nMeta)

def toRState : Nat → Option RState
  | 0 => some .absent
  | 1 => some .noStatus
  | 2 => some .available
  | 3 => some .unavailable
  | 4 => some .orphaned
  | _ => none

def Ld.rstates (l : Ld) : Option (List RState) := l.rem.mapM toRState

def cyc (l : List Nat) (i : Nat) : Nat := if l.isEmpty then 0 else l[i % l.length]?.getD 0

/-- The fingerprint of the object the load harness builds for `id` (collisionProtection, conditionMappings). -/
def Ld.fpOf (l : Ld) (id : Nat) : Nat := cyc l.cps id + 10 * cyc l.cms id
def Ld.obj (l : Ld) (id : Nat) : Obj := { id, size := some 1, fp := l.fpOf id }
def Ld.objs (l : Ld) (ids : List Nat) : List Obj := ids.map l.obj

/-- Slices of the load stream are named by their content (the list of ids). -/
def Ld.template (l : Ld) : Template (List Nat) :=
  l.phs.map fun p => { objects := l.objs p.inl, slices := p.chunks, cls := p.cls.getD false }

def Ld.store (l : Ld) : Store (List Nat) :=
  (l.phs.flatMap (·.chunks)).foldl (fun st ch =>
    if l.missing.contains ch then st else
    match getSlice st ch with
    | some _ => st
    | none => st ++ [(ch, { objects := l.objs ch, ctl := false, lbl := false, owned := l.owned.contains ch })]) []

def Ld.inline (l : Ld) : List (List Obj) := l.phs.map fun p => l.objs (p.inl ++ p.chunks.flatten)

/-- The inline twin the harness builds: the same phases (names, classes) with all objects inline. -/
def Ld.twin (l : Ld) : Template (List Nat) := inlineTwinOf l.template l.inline

def toMode : String → Option Mode
  | "active" => some .active
  | "archived" => some .archived
  | "deleted" => some .deleted
  | _ => none

def sliceNameStr (k : List Nat) : String := "s" ++ (if k.isEmpty then "e" else join "_" (k.map toString))

def callStr (fpOf : Nat → Nat) (c : Call) : String :=
  let k := match c.remote, c.teardown with
    | false, false => "R"   -- ReconcilePhase (in-process worker)
    | false, true => "T"    -- TeardownPhase (in-process worker)
    | true, false => "Q"    -- ObjectSetPhase created with these .spec.objects
    | true, true => "X"     -- ObjectSetPhase deleted
  s!"{k}:p{c.phase}:{idsStr fpOf "," c.objects}"

def resStr : CRes → String
  | .ok => "ok" | .err => "err" | .preflight => "pf"

def ctlStr (fpOf : Nat → Nat) (withU : Bool) (o : CtlOut (List Nat)) : String :=
  let a := match o.archived with | none => "-" | some true => "True" | some false => "False"
  let u := if withU then s!" U={join "," (o.updates.map sliceNameStr)}" else ""
  let v := match o.available with | none => "-" | some true => "True" | some false => "False"
  s!"{resStr o.res} K={join "+" (o.calls.map (callStr fpOf))}{u} A={a} F={if o.finalizerRemoved then "removed" else "kept"}" ++
  s!" V={v} I={if o.inTransition then "True" else "-"}"

def modelLd (l : Ld) : String :=
  if !l.metaValid then "BAD-SCN"
  else if l.mode == "load" then
    let (_, upd, phases, ok) := loadPhases l.store [] l.template
    s!"L {if ok then "ok" else "err"} P={join "/" (phases.map (idsStr l.fpOf ","))} U={join "," (upd.map sliceNameStr)}"
  else match toMode l.mode, l.rstates with
    | some m, some rem =>
      let sliced := controller m l.store l.template rem l.wait
      let inline := controller m ([] : Store (List Nat)) l.twin rem l.wait
      s!"C {ctlStr l.fpOf true sliced} ~ {ctlStr l.fpOf false inline}"
    | _, _ => "BAD-SCN"

def model (s : Scn) : String :=
  match s.t with
  | "dep" => match toDep s with | some d => modelDep d | none => "BAD-SCN"
  | "load" => match toLd s with | some l => modelLd l | none => "BAD-SCN"
  | _ => "BAD-SCN"

/-! ### parsing implementation output -/

def parseNat? (s : String) : Option Nat := s.toNat?

def parseList (sep : String) (s : String) : List String := if s.isEmpty then [] else s.splitOn sep

def parseIds? (sep : String) (s : String) : Option (List Nat) := (parseList sep s).mapM parseNat?

/-- An object token: `id` (the scenario's object, fingerprint `fpOf id`) or `id~fp`. -/
def parseTok? (fpOf : Nat → Nat) (s : String) : Option (Nat × Nat) :=
  match s.splitOn "~" with
  | [a] => do let id ← parseNat? a; some (id, fpOf id)
  | [a, f] => do some (← parseNat? a, ← parseNat? f)
  | _ => none

def parseToks? (fpOf : Nat → Nat) (sep : String) (s : String) : Option (List (Nat × Nat)) :=
  (parseList sep s).mapM (parseTok? fpOf)

def parseName? (fpOf : Nat → Nat) (s : String) : Option SName :=
  match s.splitOn "." with
  | [k, c] => do
    let key ← if k == "e" then some [] else parseToks? fpOf "_" k
    some ⟨key, ← parseNat? c⟩
  | _ => none

def field? (pfx : String) (f : String) : Option String :=
  if f.startsWith pfx then some (f.drop pfx.length).toString else none

/-- The objects an implementation trace names: the scenario's object `id`, with the fingerprint found. -/
def Dep.parseObjs? (d : Dep) (sep : String) (s : String) : Option (List Obj) :=
  (parseToks? d.fpOf sep s).map fun l => l.map fun p => { d.obj p.1 with fp := p.2 }

def parseChunkObs? (d : Dep) (s : String) : Option ChunkObs :=
  if s == "err" then some .err
  else if s == "nil" then some .bypass
  else do
    let cs ← (s.splitOn "+").mapM fun c => d.parseObjs? "," c
    some (.chunks cs)

def parseTmpl? (d : Dep) (s : String) : Option (Option (Template SName)) :=
  if s == "-" then some none
  else do
    let body ← field? "@" s
    let phs ← (parseList "/" body).mapM fun p =>
      match p.splitOn "|" with
      | [a, b] => do
        let objs ← d.parseObjs? "," a
        let ns ← (parseList "," b).mapM (parseName? d.fpOf)
        some ({ objects := objs, slices := ns } : Phase SName)
      | _ => none
    some (some phs)

def parseEntry? (d : Dep) (s : String) : Option (SName × Slice) :=
  match s.splitOn "=" with
  | [n, rest] =>
    match rest.splitOn ":" with
    | [ids, flags] => do
      let name ← parseName? d.fpOf n
      let objs ← if ids == "e" then some [] else d.parseObjs? "_" ids
      let (ctl, lbl) ← match flags with
        | "cl" => some (true, true) | "c-" => some (true, false)
        | "-l" => some (false, true) | "--" => some (false, false) | _ => none
      some (name, { objects := objs, ctl, lbl, owned := false })
    | _ => none
  | _ => none

def parseDeploy? (d : Dep) (step : String) : Option (DeployObs SName) :=
  match step.splitOn " " with
  | ["D", res, t, _c, x, s] => do
    let ok ← match res with | "ok" => some true | "err" => some false | _ => none
    let tmpl ← parseTmpl? d (← field? "T=" t)
    let deleted ← (parseList "," (← field? "X=" x)).mapM (parseName? d.fpOf)
    let store ← (parseList "," (← field? "S=" s)).mapM (parseEntry? d)
    some { ok, tmpl, deleted, store }
  | _ => none

/-! ### stream "deploy": monitor -/

def chunkWhy (limit : Nat) (strat : Strategy) (objs : List Obj) : ChunkObs → String
  | .err => "error-without-unmeasurable-object"
  | .bypass => "bypass-although-something-overflowed-or-strategy-chunks"
  | .chunks cs =>
    if cs.flatten ≠ objs then
      -- same objects in the same order, but not equal in every field (id~fp: see `tokStr`)
      if cs.flatten.map Obj.id == objs.map Obj.id then "concat objects-altered(collisionProtection/conditionMappings/payload)"
      else "concat"
    else if cs.any (·.isEmpty) then "empty-chunk"
    else if strat == .binpack && !overflows limit objs then "chunked-although-nothing-overflowed"
    else "shape-or-limit"

/-- Where `lossless` fails (message only): the first phase whose slices do not hold exactly its objects. -/
def losslessWhy (fpOf : Nat → Nat) (desired : List (List Obj)) (o : DeployObs SName) : String :=
  match o.tmpl with
  | none => "no-template"
  | some t =>
    if t.length != desired.length then s!"phase-count tmpl={t.length} desired={desired.length}"
    else
      match (List.range t.length).find? (fun i =>
          (t[i]?.bind fun ph => decodePhase o.store ph) != desired[i]?) with
      | some i =>
        let ph : Phase SName := t[i]?.getD { objects := [], slices := [] }
        let gotObjs := decodePhase o.store ph
        let got := match gotObjs with | some l => idsStr fpOf "," l | none => "missing-slice"
        let held := ph.slices.map fun n =>
          s!"{nameStr fpOf n}=" ++ (match getSlice o.store n with | some sl => idsStr fpOf "_" sl.objects | none => "?")
        let altered := match gotObjs with
          | some l => if l.map Obj.id == (desired.getD i []).map Obj.id then
              " objects-altered(collisionProtection/conditionMappings/payload; id~fp = fingerprint found)" else ""
          | none => ""
        s!"phase={i} want={idsStr fpOf "," (desired.getD i [])} referenced-slices-hold={got}{altered} [{join " " held}]"
      | none => "slice-not-controlled-by-deployment"

/-- Which slice `gcSafe` misses and who still references it (message only). -/
def gcWhy (fpOf : Nat → Nat) (s : SpecState SName) (o : DeployObs SName) : String :=
  let gone := o.deleted ++ (names s.store).filter fun n => (getSlice o.store n).isNone
  let inTmpl := refs (o.tmpl.getD [])
  match gone.find? (fun n => inTmpl.contains n || s.objectSets.any fun os => (osRefs os).contains n) with
  | some n =>
    let by_ := if inTmpl.contains n then "the-deployment-template" else
      match (indexed s.objectSets).find? (fun ios => (osRefs ios.2).contains n) with
      | some (i, os) =>
        s!"existing-ObjectSet#{i}(lifecycleState={match os.life with | .active => "Active" | .paused => "Paused" | .archived => "Archived"}" ++
        s!"{if os.deleting then ",deletionTimestamp-set" else ""})"
      | none => "?"
    s!"deleted-slice={nameStr fpOf n} still-referenced-by={by_}"
  | none => "deleted-slice-not-in-gc-scope(no owner label)"

/-- Which clause of `deployOkF` fails (message only).  The clause of the property's sentence first. -/
def deployWhyF (d : Dep) (f : DFault) (s : SpecState SName) (desired : List (List Obj)) (o : DeployObs SName) : String :=
  if !gcSafe s o then "gc " ++ gcWhy d.fpOf s o
  else if !storedLoadable s o then "stored-template-references-missing-slice"
  else if !lossless desired o then "lossless " ++ losslessWhy d.fpOf desired o
  else if !failSafeF f s desired o then
    (if !o.deleted.isEmpty then "fail-safe failed-call-deleted-slices" else "fail-safe template-neither-old-nor-new")
  else if !namedByContent (isSymHashOf d.kcoll) s o then "named-by-content"
  else if !noReuse s o then "name-reused"
  else if !sameContentSameName o then "same-content-different-name"
  else "?"

def deployWhy (d : Dep) (s : SpecState SName) (desired : List (List Obj)) (o : DeployObs SName) : String :=
  if !lossless desired o then "lossless " ++ losslessWhy d.fpOf desired o
  else if !failSafe s o then "fail-safe"
  else if !namedByContent (isSymHashOf d.kcoll) s o then "named-by-content"
  else if !noReuse s o then "name-reused"
  else if !sameContentSameName o then "same-content-different-name"
  else if !gcSafe s o then "gc " ++ gcWhy d.fpOf s o
  else "?"

/-- Parse one implementation step into the observation the specification judges. -/
def parseObs? (d : Dep) (op : JOp) (st : String) : Option (Obs SName) :=
  match op.op with
  | "chunk" => do
    let body ← field? "K " st
    let parts := if op.phases.isEmpty then [] else body.splitOn "/"
    some (.chunk (← parts.mapM (parseChunkObs? d)))
  | "deploy" => (parseDeploy? d st).map .deploy
  | "snap" => if st.startsWith "S " then some .env else none
  | "delos" => if st.startsWith "O " then some .env else none
  | "life" | "markdel" => if st.startsWith "E " then some .env else none
  | _ => none

/-- Which clause of the specification fails first (for the message only; the verdict is `checkRun`). -/
def diagnoseDep (d : Dep) (ops : List (JOp × Op)) (obs : List (Obs SName)) : String := Id.run do
  let w0 := d.initWorld
  let mut s : SpecState SName := stateOf w0
  let mut i := 0
  for ((jop, op), ob) in ops.zip obs do
    let (s', ok) := specStep (isSymHashOf d.kcoll) d.limit d.strat s op ob
    if !ok then
      match op, ob with
      | .chunk phases, .chunk outs =>
        let mut j := 0
        for (p, o) in phases.zip outs do
          if !chunkOk d.limit d.strat p o then
            return s!"bad chunk step={i} phase={j} {chunkWhy d.limit d.strat p o} want={idsStr d.fpOf "," p} got={chunkObsStr d.fpOf o}"
          j := j + 1
        return s!"bad chunk step={i} phase-count"
      | .deploy desired, .deploy o => return s!"bad {deployWhy d s desired o} step={i} op={jop.op}"
      | .deployF f desired, .deploy o =>
        return s!"bad {deployWhyF d f s desired o} step={i} op={jop.op} fault={jop.faultStr} result={if o.ok then "ok" else "err"}"
      | _, _ => return s!"bad shape step={i} op={jop.op}"
    s := s'
    i := i + 1
  return "bad unknown"

def monitorDep (d : Dep) (out : String) : String := Id.run do
  if !d.valid then return (if out == "BAD-SCN" then "ok" else "bad bad-scn-expected")
  -- the harness aborts when the real hash function disagrees with the scenario's declared collision structure
  if out.startsWith "BAD-COLL" then return s!"bad declared-collision-not-real {out.take 120}"
  if out.startsWith "UNDECLARED-COLLISION" then return s!"bad undeclared-hash-collision {out.take 120}"
  if out.contains '!' then return s!"bad touched {out.take 120}"
  if out.startsWith "PANIC" then return s!"bad panic {out.take 160}"
  let steps := if d.ops.isEmpty then [] else out.splitOn ";"
  if steps.length != d.ops.length then return s!"bad step-count impl={steps.length} scn={d.ops.length} out={out.take 80}"
  -- scenario ops (the number of ObjectSets, needed to resolve `delos`, is tracked from the scenario alone)
  let mut ops : List (JOp × Op) := []
  let mut obs : List (Obs SName) := []
  let mut nSets := 0
  let mut haveDeploy := !d.pre.isEmpty
  let mut i := 0
  for (jop, st) in d.ops.zip steps do
    match d.toOp nSets jop, parseObs? d jop st with
    | some op, some ob =>
      ops := ops ++ [(jop, op)]
      obs := obs ++ [ob]
      match op with
      | .deploy _ => haveDeploy := true
      | .deployF f _ => if f != .get && f != .create then haveDeploy := true
      | .snap => if haveDeploy then nSets := nSets + 1
      | .delos k => if k < nSets then nSets := nSets - 1
      | _ => pure ()
    | _, _ => return s!"bad parse step={i} {st.take 120}"
    i := i + 1
  if checkRun (isSymHashOf d.kcoll) d.limit d.strat (stateOf d.initWorld) (ops.map (·.2)) obs then return "ok"
  return diagnoseDep d ops obs ++ s!" out={out.take 160}"

/-! ### stream "load": monitor -/

def parseSliceName? (s : String) : Option (List Nat) := do
  let k ← field? "s" s
  if k == "e" then some [] else parseIds? "_" k

def Ld.parseObjs? (l : Ld) (sep : String) (s : String) : Option (List Obj) :=
  (parseToks? l.fpOf sep s).map fun ts => ts.map fun p => { l.obj p.1 with fp := p.2 }

def parseCall? (l : Ld) (s : String) : Option Call :=
  match s.splitOn ":" with
  | [k, p, ids] => do
    let (teardown, remote) ← match k with
      | "T" => some (true, false) | "R" => some (false, false)
      | "X" => some (true, true) | "Q" => some (false, true) | _ => none
    let phase ← parseNat? (← field? "p" p)
    some { teardown, phase, objects := ← l.parseObjs? "," ids, remote }
  | _ => none

def parseCtl? (l : Ld) (fs : List String) : Option (CtlOut (List Nat)) :=
  let go (res k u a f v i : String) : Option (CtlOut (List Nat)) := do
    let res ← match res with | "ok" => some CRes.ok | "err" => some .err | "pf" => some .preflight | _ => none
    let calls ← (parseList "+" (← field? "K=" k)).mapM (parseCall? l)
    let updates ← (parseList "," (← field? "U=" u)).mapM parseSliceName?
    let archived ← match ← field? "A=" a with
      | "-" => some none | "True" => some (some true) | "False" => some (some false) | _ => none
    let finalizerRemoved ← match ← field? "F=" f with | "removed" => some true | "kept" => some false | _ => none
    let available ← match ← field? "V=" v with
      | "-" => some none | "True" => some (some true) | "False" => some (some false) | _ => none
    let inTransition ← match ← field? "I=" i with | "True" => some true | "-" => some false | _ => none
    some { res, calls, updates, archived, finalizerRemoved, available, inTransition }
  match fs with
  | [res, k, u, a, f, v, i] => go res k u a f v i
  | [res, k, a, f, v, i] => go res k "U=" a f v i
  | _ => none

/-- Which part of `loadOk` fails (for the message only; the verdict is `loadOk`). -/
def loadWhy (l : Ld) (o : LoadObs (List Nat)) : String :=
  match decode l.store l.template with
  | none => "load-succeeded-although-a-slice-is-missing"
  | some d =>
    if !o.ok then "load-failed-although-all-slices-exist"
    else
      match (List.range d.length).find? (fun i => o.phases[i]? != d[i]?) with
      | some i =>
        let cls := match l.template[i]? with | some ph => ph.cls | none => false
        s!"load-not-inverse phase={i} delegated={cls} want={idsStr l.fpOf "," (d.getD i [])} loaded={idsStr l.fpOf "," (o.phases.getD i [])}"
      | none =>
        if o.phases.length != d.length then "load-not-inverse phase-count"
        else
          match (refs l.template).find? (fun n =>
              !((match getSlice l.store n with | some s => s.owned | none => false) || o.updates.contains n)) with
          | some n => s!"load-ownerref-missing slice={sliceNameStr n}"
          | none => "load-not-inverse ?"

/-- Which visible component differs between the sliced run and the inline twin (message only). -/
def ctlWhy (l : Ld) (sliced inline : CtlOut (List Nat)) : String :=
  match decode l.store l.template with
  | none => "missing-slice-not-a-clean-failure"
  | some _ =>
    if sliced.calls != inline.calls then
      match (List.range (max sliced.calls.length inline.calls.length)).find? (fun i => sliced.calls[i]? != inline.calls[i]?) with
      | some i =>
        let str := fun (c : Option Call) => match c with | some c => callStr l.fpOf c | none => "-"
        s!"calls call={i} sliced={str sliced.calls[i]?} inline={str inline.calls[i]?}"
      | none => "calls"
    else if sliced.res != inline.res then "result"
    else if sliced.available != inline.available then "available-condition"
    else if sliced.inTransition != inline.inTransition then "in-transition-condition"
    else if sliced.archived != inline.archived then "archived-condition"
    else "finalizer"

def monitorLd (l : Ld) (out : String) : String :=
  if !l.metaValid then (if out == "BAD-SCN" then "ok" else "bad bad-scn-expected")
  else if out.contains '!' then s!"bad touched {out.take 120}"
  else if out.startsWith "PANIC" then s!"bad panic {out.take 160}"
  else if l.mode == "load" then
    match out.splitOn " " with
    | ["L", res, p, u] =>
      let obs : Option (LoadObs (List Nat)) := do
        let ok ← match res with | "ok" => some true | "err" => some false | _ => none
        let body ← field? "P=" p
        let phases ← (if l.phs.isEmpty then [] else body.splitOn "/").mapM fun x => l.parseObjs? "," x
        let updates ← (parseList "," (← field? "U=" u)).mapM parseSliceName?
        some { ok, phases, updates }
      match obs with
      | none => s!"bad load-parse {out.take 120}"
      | some o => if loadOk l.store l.template o then "ok" else s!"bad {loadWhy l o} got={out.take 160}"
    | _ => s!"bad load-parse {out.take 120}"
  else match toMode l.mode, l.rstates with
    | none, _ | _, none => if out == "BAD-SCN" then "ok" else "bad bad-scn-expected"
    | some _, some _ =>
      match out.splitOn " ~ " with
      | [a, b] =>
        match parseCtl? l ((a.splitOn " ").drop 1), parseCtl? l (b.splitOn " ") with
        | some sliced, some inline =>
          if ctlOk l.store l.template sliced inline then "ok"
          else s!"bad sliced-differs-from-inline {ctlWhy l sliced inline} mode={l.mode} got={out.take 200}"
        | _, _ => s!"bad ctl-parse {out.take 120}"
      | _ => s!"bad ctl-parse {out.take 120}"

def monitor (s : Scn) (out : String) : String :=
  match s.t with
  | "dep" => match toDep s with | some d => monitorDep d out | none => if out == "BAD-SCN" then "ok" else "bad bad-scn-expected"
  | "load" => match toLd s with | some l => monitorLd l out | none => if out == "BAD-SCN" then "ok" else "bad bad-scn-expected"
  | _ => if out == "BAD-SCN" then "ok" else "bad bad-scn-expected"

end Pko.Drv.C14

def main (args : List String) : IO UInt32 :=
  Pko.Util.driverMain Pko.Drv.C14.Scn Pko.Drv.C14.model Pko.Drv.C14.monitor args
