import Pko.Util
import Pko.Kube.Store
import Pko.Model.Phase
/-! Shared part of the phase-level drivers (C01, C03, C05, C09, C11 …): scenario decoding,
running the model, canonical printing — the format of `harness/verifphase/phase.go`. -/
namespace Pko.Drv.PhaseCommon
open Lean Pko.Kube Pko.Model.Phase

structure JRef where
  group : String
  kind : String
  name : String
  uid : String
  ctrl : Bool
  deriving FromJson, Repr

structure JOwner where
  kind : String
  ns : String
  name : String
  uid : String
  rev : Nat
  paused : Bool
  pkgLabel : String
  instLabel : Option String     -- package-instance label ("xlabels" / "xann" of the scenario are not read at all)
  deriving FromJson, Repr

structure JPrev where
  kind : String
  name : String
  uid : String
  remotes : Option (List (List String))
  deriving FromJson, Repr

structure JPObj where
  kind : String
  ns : String
  name : String
  cp : String
  payload : String
  preset : Bool
  dryRun : String
  -- the `.status` stanza the MANIFEST carries ("" / absent = none, else "<Ready status>[:<observedGeneration>]").
  -- Deliberately dropped by `toPObj`: the managed kinds have a status subresource, the API ignores the
  -- stanza on every write and answers with the stored object — the model's probes (`probeOk`) only
  -- ever see the status of the STORED object.
  status : Option String := none
  -- annotations / labels in PKO's own namespace carried by the MANIFEST (revision annotation, cache label):
  -- deliberately dropped by `toPObj`: what PKO writes is its own value, whatever the manifest says.
  mann : Option String := none
  deriving FromJson, Repr

structure JSObj where
  kind : String
  ns : String
  name : String
  owners : Option (List JRef)
  annOwners : Option (List JRef)
  rev : String
  cache : Bool
  pkg : String
  payload : String
  ready : Bool
  obsGen : Int
  finalizer : Bool
  inst : Option String          -- package-instance label ("xlabels" / "xann" are not read at all)
  deriving FromJson, Repr

structure JEnv where
  «at» : Nat
  op : String
  kind : String
  ns : String
  name : String
  owners : Option (List JRef)
  rev : String
  payload : String
  ready : Bool
  obsGen : Int
  pkg : String
  deriving FromJson, Repr

structure Scn where
  flavour : String
  mode : String
  force : Bool
  owner : JOwner
  prev : Option (List JPrev)
  «class» : String
  objects : Option (List JPObj)
  store : Option (List JSObj)
  env : Option (List JEnv)
  -- kinds whose REST-mapper lookups fail with a transient (non-NoMatch) error during this pass
  -- (`mapErrClass` of the scenario — which error exactly — is not read)
  mapErr : Option (List String) := none
  deriving FromJson, Repr

def toRef (r : JRef) : ORef := ⟨r.group, r.kind, r.name, r.uid, r.ctrl⟩

def parseRev (s : String) : Rev :=
  if s = "" then .absent
  else match s.toNat? with
    | some n => .num n
    | none => .garbage

def toCP : String → CP
  | "IfNoController" => .ifNoController
  | "None" => .none
  | _ => .prevent

/-- "accept" | "reject[:Reason]" (a reason preflight.DryRun lists as a violation) |
"error[:Reason]" (any other API error). -/
def toDryRun (s : String) : DryRun :=
  if s.startsWith "reject" then .reject
  else if s.startsWith "error" then .error
  else .accept

def toPObj (p : JPObj) : PObj :=
  { kind := p.kind, ns := p.ns, name := p.name, cp := toCP p.cp, payload := p.payload, presetOwnerRef := p.preset, dryRun := toDryRun p.dryRun }

def scopeOf : String → Scope
  | "NsThing" => .namespaced
  | "ClThing" => .cluster
  | _ => .unknown

/-- Checker composition per controller flavour — mirrors the constructors in
objectset_controller.go / objectsetphase_controller.go (order of checkers does not matter for
the verdict). -/
def flavourOf : String → Flavour × Strategy
  | "objectset" => (⟨true, true, true⟩, .native)
  | "clusterobjectset" => (⟨true, true, true⟩, .native)
  | "samecluster-phase" => (⟨true, true, true⟩, .native)
  | "samecluster-clusterphase" => (⟨false, true, true⟩, .native)
  | "multicluster-phase" => (⟨false, true, true⟩, .annotation)
  | "multicluster-clusterphase" => (⟨false, true, true⟩, .annotation)
  | _ => (⟨true, true, true⟩, .native)

def cfgOf (s : Scn) : Cfg :=
  let (fl, st) := flavourOf s.flavour
  { st := st, flavour := fl, scope := scopeOf, force := s.force, mapErr := fun k => (s.mapErr.getD []).contains k }

def ownerOf (s : Scn) : Owner :=
  { group := pkoGroup, kind := s.owner.kind, ns := s.owner.ns, name := s.owner.name, uid := s.owner.uid, rev := s.owner.rev, paused := s.owner.paused, pkgLabel := s.owner.pkgLabel }

def prevOf (s : Scn) : List Prev :=
  (s.prev.getD []).map fun p =>
    { kind := p.kind, name := p.name, uid := p.uid, remotes := (p.remotes.getD []).filterMap fun l => match l with | [a, b] => some (a, b) | _ => none }

def objsOf (s : Scn) : List PObj := (s.objects.getD []).map toPObj

def obsGenOf (i : Int) : Option Nat := if i < 0 then none else some i.toNat

/-- initial store: objects are created in scenario order, uid = rv = position (dense counters). -/
def initStore (s : Scn) : Store :=
  (s.store.getD []).foldl (fun (st : Store) (o : JSObj) =>
    let k : Key := ⟨o.kind, o.ns, o.name⟩
    let obj : Obj := {
      uid := st.nextUID
      rv := st.nextRV
      gen := 1
      owners := (o.owners.getD []).map toRef
      annOwners := (o.annOwners.getD []).map toRef
      rev := parseRev o.rev
      cacheLabel := o.cache
      pkgLabel := o.pkg
      payload := o.payload
      ready := o.ready
      obsGen := obsGenOf o.obsGen
      finalizer := o.finalizer
      deleting := false }
    { (st.set k (some obj)) with nextUID := st.nextUID + 1, nextRV := st.nextRV + 1 })
    { objs := fun _ => none, nextUID := 1, nextRV := 1 }

def toEnv (e : JEnv) : Nat × EnvOp :=
  let k : Key := ⟨e.kind, e.ns, e.name⟩
  (e.at, match e.op with
    | "reown" => .reown k ((e.owners.getD []).map toRef)
    | "setRev" => .setRev k (parseRev e.rev)
    | "setPayload" => .setPayload k e.payload
    | "setReady" => .setReady k e.ready (obsGenOf e.obsGen)
    | "delete" => .delete k
    | "recreate" => .recreate k
    | "removeFinalizer" => .removeFinalizer k
    | _ => .relabel k e.pkg)

def worldOf (s : Scn) : World :=
  { store := initStore s, writes := 0, env := (s.env.getD []).map toEnv, events := [] }

/-- all keys a scenario can touch (for printing the final store). -/
def keysOf (s : Scn) : List Key :=
  let ks := (s.store.getD []).map (fun o => (⟨o.kind, o.ns, o.name⟩ : Key)) ++
            (objsOf s).map (keyOf (cfgOf s) (ownerOf s))
  ks.eraseDups

def refStr (r : ORef) : String := s!"{r.group}/{r.kind}:{r.name}:{r.uid}:{if r.ctrl then "1" else "0"}"
def refsStr (rs : List ORef) : String := ",".intercalate (rs.map refStr)
def keyStr (k : Key) : String := s!"{k.kind}/{k.ns}/{k.name}"

def revStr : Rev → String
  | .absent => "-" | .num n => toString n | .garbage => "!"

def b01 (b : Bool) : String := if b then "1" else "0"

def objStr (k : Key) (o : Obj) : String :=
  let og := match o.obsGen with | none => "-" | some g => toString g
  s!"{keyStr k}\{u={o.uid},o=[{refsStr o.owners}],a=[{refsStr o.annOwners}],r={revStr o.rev},l={b01 o.cacheLabel},k={o.pkgLabel},p={o.payload},g={o.gen},f={b01 o.finalizer},d={b01 o.deleting},s={b01 o.ready}:{og}}"

def errStr : ApiErr → String
  | .notFound => "NotFound" | .alreadyExists => "AlreadyExists" | .conflict => "Conflict"
  | .invalid => "Invalid" | .other => "Error"

def eventStr : Event → String
  | .apply k created changed => s!"A {keyStr k} {if created then "+" else if changed then "c" else "n"}"
  | .merge k changed owners res => s!"M {keyStr k} {match res with | some e => "!" ++ errStr e | none => if changed then "c" else "n"} [{refsStr owners}]"
  | .delete k u _ res => s!"D {keyStr k} u={u} rv {match res with | none => "ok" | some e => errStr e}"

def outcomeStr : Outcome → String
  | .ok failed => "ok:" ++ ",".intercalate failed
  | .preflight => "preflight"
  | .collision false => "collision:notowned"
  | .collision true => "collision:rev"
  | .err => "err"

def tresStr : TRes → String
  | .done => "done" | .notDone => "notdone" | .err => "err"

def sortStrings (l : List String) : List String := l.mergeSort (· ≤ ·)

/-- run the model; returns (outcome string, final world). -/
def runModel (s : Scn) : String × World :=
  let cfg := cfgOf s
  let ow := ownerOf s
  let w := worldOf s
  if s.mode = "teardown" then
    let (w', r) := teardownPhase cfg ow (objsOf s) w
    (tresStr r, w')
  else
    let (w', r) := reconcilePhase cfg ow (prevOf s) s.class (objsOf s) w
    (outcomeStr r, w')

def finalStr (s : Scn) (w : World) : String :=
  ";".intercalate (sortStrings ((keysOf s).filterMap fun k => (w.store.get k).map (objStr k)))

/-- events with, for every apply, the recorded revision and the number of controllers (native /
annotation list) of the object as stored by that apply. -/
def eventsStr (w : World) : String :=
  let rec go (evs : List Event) (ap : List (Key × Obj)) : List String :=
    match evs with
    | [] => []
    | (.apply k c ch) :: rest =>
      match ap with
      | (_, o) :: ap' =>
        s!"{eventStr (.apply k c ch)} r={revStr o.rev} c={(o.owners.filter (·.ctrl)).length}/{(o.annOwners.filter (·.ctrl)).length}" :: go rest ap'
      | [] => eventStr (.apply k c ch) :: go rest []
    | e :: rest => eventStr e :: go rest ap
  ";".intercalate (go w.events w.applied)

/-! ### the package-instance label

`desiredObject` stamps the owner's `package-operator.run/instance` label onto every object it
applies, exactly as it does with the package label, and NOTHING in the modelled code reads it —
which is what the C01 decision table guards: the concrete realisations of one abstract row differ
in this label (and in further labels / annotations / controller kinds the model never sees).  The
label is carried beside the model state: it can only make an otherwise unchanged apply a
changing one, and it shows in the final objects (`~i=` suffix, printed only when present). -/

/-- printed key ↦ value of the label ("" = absent) -/
abbrev InstMap := List (String × String)

def instOf (m : InstMap) (k : Key) : String := ((m.find? (·.1 == keyStr k)).map (·.2)).getD ""
def instSet (m : InstMap) (k : Key) (v : String) : InstMap := (keyStr k, v) :: m.filter (·.1 != keyStr k)

def instInit (s : Scn) : InstMap :=
  (s.store.getD []).foldl (fun m o => instSet m ⟨o.kind, o.ns, o.name⟩ (o.inst.getD "")) []

def ownerInst (s : Scn) : String := s.owner.instLabel.getD ""

/-- effect of one apply by PKO: a created object carries what PKO applied only; on an existing
one the owner's label (if it has one) replaces the object's.  Returns whether the label changed. -/
def instApply (oi : String) (m : InstMap) (k : Key) (created : Bool) : InstMap × Bool :=
  let cur := if created then "" else instOf m k
  let new := if oi = "" then cur else oi
  (instSet m k new, !created && new != cur)

def instSuffix (v : String) : String := if v = "" then "" else "~i=" ++ v

/-- `eventsStr` with the instance label tracked along the applies. -/
def eventsStrI (s : Scn) (w : World) : String × InstMap :=
  let oi := ownerInst s
  let rec go (evs : List Event) (ap : List (Key × Obj)) (m : InstMap) : List String × InstMap :=
    match evs with
    | [] => ([], m)
    | (.apply k c ch) :: rest =>
      let (m', lch) := instApply oi m k c
      let e := eventStr (.apply k c (ch || lch))
      match ap with
      | (_, o) :: ap' =>
        let (r, mf) := go rest ap' m'
        (s!"{e} r={revStr o.rev} c={(o.owners.filter (·.ctrl)).length}/{(o.annOwners.filter (·.ctrl)).length}" :: r, mf)
      | [] =>
        let (r, mf) := go rest [] m'
        (e :: r, mf)
    | e :: rest =>
      let (r, mf) := go rest ap m
      (eventStr e :: r, mf)
  let (l, m) := go w.events w.applied (instInit s)
  (";".intercalate l, m)

def objStrI (m : InstMap) (k : Key) (o : Obj) : String := objStr k o ++ instSuffix (instOf m k)

def finalStrI (s : Scn) (w : World) (m : InstMap) : String :=
  ";".intercalate (sortStrings ((keysOf s).filterMap fun k => (w.store.get k).map (objStrI m k)))

def model (s : Scn) : String :=
  let (o, w) := runModel s
  let (evs, m) := eventsStrI s w
  s!"{o} # {evs} # {finalStrI s w m}"

/-! ### helpers for monitors: parse an implementation output line -/

structure ImplOut where
  outcome : String
  events : List String
  finals : List String

def parseOut (line : String) : Option ImplOut :=
  match line.splitOn " # " with
  | [a, b, c] => some { outcome := a, events := (if b.isEmpty then [] else b.splitOn ";"), finals := (if c.isEmpty then [] else c.splitOn ";") }
  | _ => none

/-- the key string an event refers to (second token). -/
def eventKey (e : String) : String := (e.splitOn " ").getD 1 ""
def eventVerb (e : String) : String := (e.splitOn " ").getD 0 ""

/-- between the brackets of `tag=[...]` in a printed object. -/
def listField (objStr tag : String) : List String :=
  match objStr.splitOn (tag ++ "=[") with
  | _ :: rest :: _ =>
    let inner := (rest.splitOn "]").headD ""
    if inner.isEmpty then [] else inner.splitOn ","
  | _ => []

def scalarField (objStr tag : String) : String :=
  match objStr.splitOn ("," ++ tag ++ "=") with
  | _ :: rest :: _ => ((rest.splitOn ",").headD "").takeWhile (· ≠ '}') |>.toString
  | _ => ""

end Pko.Drv.PhaseCommon
