import Pko.Util
import Pko.Model.Cache
import Pko.Model.CacheSpec
import Pko.Model.InformerMap
import Pko.Model.InformerLive
import Pko.Model.LiveSpec
/-! Line driver for C12: `model` prints what the model of `Cache` does (same format as the Go
harness); `monitor` checks an implementation output line against the abstract spec.

Streams (field `t` of the scenario): absent/`seq` = real Cache over a scripted informer-map fake,
model `Pko.Model.Cache`; `im` = real Cache over the real InformerMap over a counting API fake, model
`Pko.Model.InformerMap`; `live` = real Cache + real cacheSource (two handlers) over the real InformerMap over
an API fake that honours request contexts, ops carry context tokens that can be cancelled and objects
are created while kinds are watched, model `Pko.Model.InformerLive` (code's policy), monitor =
`Pko.Model.LiveSpec`; `conc`/`ilv` = concurrency exploration, whose harness prints a summary
(`ok` or what went wrong) and whose model is the constant `ok`. -/
namespace Pko.Drv.C12
open Lean Pko.Model.Cache

structure JOp where
  op : String
  o : Nat
  k : Nat
  f : String
  c : Nat            -- context token of a Watch call (stream `live`)

/-- `op` is required; absent `o`/`k`/`c` default to 0 and `f` to "ok" (the streams do not all use all fields). -/
instance : FromJson JOp where
  fromJson? j := do
    let op ← j.getObjValAs? String "op"
    let nat (key : String) : Nat := (j.getObjValAs? Nat key).toOption.getD 0
    let f := (j.getObjValAs? String "f").toOption.getD "ok"
    return { op := op, o := nat "o", k := nat "k", f := f, c := nat "c" }

structure Scn where
  t : Option String := none
  ops : Option (List JOp) := none
  deriving FromJson

def Scn.opList (sc : Scn) : List JOp := sc.ops.getD []

def nKinds : Nat := 3

def toFail : String → Fail
  | "get" => .get | "sync" => .sync | "handler" => .handler | _ => .ok

def toOp (j : JOp) : Option Op :=
  match j.op with
  | "watch" => some (.watch j.o j.k (toFail j.f))
  | "free" => some (.free j.o)
  | "get" => some (.get j.k (toFail j.f))
  | "list" => some (.get j.k (toFail j.f))
  | "owners" => some (.owners j.k)
  | _ => none

def resStr : Res → String
  | .ok => "ok" | .err => "err" | .notStarted => "notstarted"

def sortNat (l : List Nat) : List Nat := l.mergeSort (· ≤ ·)

def ownersStr (os : List Nat) : String := ",".intercalate ((sortNat os).map toString)

def stateStr (s : State) : String :=
  String.join ((List.range nKinds).map fun k =>
    let i := match s.infs k with | none => "-" | some false => "i" | some true => "I"
    s!"{i}[{ownersStr (owners s k)}]")

/-- calls that reach the informer map / handler registration during one op (mirrors the fake). -/
def callLog (s : State) : Op → List String
  | .watch _ k f =>
    match s.refs k with
    | some _ => []
    | none =>
      match s.infs k, f with
      | some _, .handler => [s!"GK{k}", s!"HK{k}!", s!"DK{k}"]
      | some _, _ => [s!"GK{k}", s!"HK{k}"]
      | none, .get => [s!"GK{k}!", s!"DK{k}-"]
      | none, .sync => [s!"GK{k}+!", s!"DK{k}"]
      | none, .handler => [s!"GK{k}+", s!"HK{k}!", s!"DK{k}"]
      | none, .ok => [s!"GK{k}+", s!"HK{k}"]
  | .free o =>
    (List.range nKinds).filterMap fun k =>
      match s.refs k with
      | some os => if o ∈ os && (os.filter (· ≠ o)).isEmpty then some s!"DK{k}" else none
      | none => none
  | .get k f =>
    match s.refs k with
    | none => []
    | some _ =>
      match s.infs k, f with
      | some _, _ => [s!"GK{k}"]
      | none, .get => [s!"GK{k}!"]
      | none, .sync => [s!"GK{k}+!"]
      | none, _ => [s!"GK{k}+"]
  | .owners _ => []

def modelSeq (sc : Scn) : String := Id.run do
  let mut s := init
  let mut outs : Array String := #[]
  for j in sc.opList do
    match toOp j with
    | none => return "BAD-OP"
    | some op =>
      let log := callLog s op
      let (s', r) := step s op
      s := s'
      outs := outs.push s!"{resStr r} {",".intercalate log} {stateStr s}"
  return ";".intercalate outs.toList

open Pko.Model.CacheSpec in
def specStateStr (s : Spec) : String :=
  String.join ((List.range nKinds).map fun k =>
    let ob := obs s k
    let i := if ob.informer then (if ob.handlers then "I" else "i") else "-"
    s!"{i}[{ownersStr ob.owners}]")

/-- Monitor: replay the abstract spec and compare result + observable state of every step
(the call log in the middle field is not part of the property). -/
def monitorSeq (sc : Scn) (out : String) : String := Id.run do
  let steps := if out.isEmpty then [] else out.splitOn ";"
  if steps.length != sc.opList.length then return s!"bad step-count impl={steps.length} scn={sc.opList.length} out={out.take 80}"
  let mut s := Pko.Model.CacheSpec.init
  let mut i := 0
  for (j, st) in sc.opList.zip steps do
    match toOp j with
    | none => return "bad BAD-OP"
    | some op =>
      let (s', r) := Pko.Model.CacheSpec.step s op
      s := s'
      let want := (resStr r, specStateStr s)
      let got := match st.splitOn " " with
        | [a, _, c] => (a, c)
        | _ => ("?", st)
      if got != want then
        return s!"bad step={i} op={j.op} want={want.1}/{want.2} got={got.1}/{got.2}"
      i := i + 1
  return "ok"

/-! ### stream `im`: real Cache over real InformerMap -/

def nKindsIM : Nat := 2

def toFailIM : String → Fail
  | "nomap" => .get | "slow" => .sync | _ => .ok

def toOpIM (j : JOp) : Option Op :=
  if j.k ≥ nKindsIM then none else
  match j.op with
  | "watch" => some (.watch j.o j.k (toFailIM j.f))
  | "free" => some (.free j.o)
  | "get" => some (.get j.k .ok)
  | "list" => some (.get j.k .ok)
  | "owners" => some (.owners j.k)
  | _ => none

open Pko.Model in
/-- per kind: LIST calls . WATCH streams opened . still open . map entry . create events [owners] -/
def imKindStr (s : InformerMap.State) (k : Nat) : String :=
  let m := if (s.im.map k).isSome then 1 else 0
  s!"{InformerMap.startedCount s k}.{InformerMap.syncedCount s k}.{(InformerMap.runningIds s k).length}.{m}.{InformerMap.handlerCount s k}[{ownersStr (InformerMap.owners s k)}]"

open Pko.Model in
def modelIM (sc : Scn) : String := Id.run do
  let mut s := InformerMap.init
  let mut outs : Array String := #[]
  for j in sc.opList do
    match toOpIM j with
    | none => return "BAD-OP"
    | some op =>
      let (s', r) := InformerMap.step s op
      s := s'
      outs := outs.push s!"{resStr r} {"|".intercalate ((List.range nKindsIM).map (imKindStr s))}"
  return ";".intercalate outs.toList

/-- parse `l.w.o.m.e[owners]` -/
def parseKindIM (t : String) : Option (List Nat × String) :=
  match t.splitOn "[" with
  | [nums, os] =>
    let ns := (nums.splitOn ".").filterMap String.toNat?
    if ns.length = 5 ∧ os.endsWith "]" then some (ns, (os.dropEnd 1).toString) else none
  | _ => none

/-- Monitor of the `im` stream.  Replays the who-watches-what spec and checks on the implementation's
observation after every op: result and owner sets as specified; a kind has exactly one open WATCH
stream if it has an owner and none otherwise (open > 0 ⇔ owned, ≤ 1); the informer map has an entry
exactly for owned kinds; WATCH streams ever opened and create events seen by the controller handler
both equal the number of successful informer starts the spec demands (so every started informer
delivered to the handlers, and nothing else ever opened a stream); quiescence was reached. -/
def monitorIM (sc : Scn) (out : String) : String := Id.run do
  let steps := if out.isEmpty then [] else out.splitOn ";"
  if steps.length != sc.opList.length then return s!"bad step-count impl={steps.length} scn={sc.opList.length} out={out.take 80}"
  let mut s := Pko.Model.CacheSpec.init
  let mut starts : List Nat := List.replicate nKindsIM 0
  let mut i := 0
  for (j, st) in sc.opList.zip steps do
    match toOpIM j with
    | none => return "bad BAD-OP"
    | some op =>
      let (s', r) := Pko.Model.CacheSpec.step s op
      match op with
      | .watch _ k _ =>
        if (s.w k).isEmpty && r == .ok then starts := starts.set k (starts.getD k 0 + 1)
      | _ => pure ()
      s := s'
      let toks := st.splitOn " "
      let (res, obs, timeout) := match toks with
        | [a, b] => (a, b, false)
        | [a, b, "TIMEOUT"] => (a, b, true)
        | _ => ("?", "", false)
      let kinds := obs.splitOn "|"
      if kinds.length != nKindsIM then return s!"bad format step={i} got={st.take 80}"
      for (k, kt) in (List.range nKindsIM).zip kinds do
        match parseKindIM kt with
        | some ([_, w, o, m, e], os) =>
          let owned := !(s.w k).isEmpty
          let want := if owned then 1 else 0
          if o != want then return s!"bad open-streams step={i} op={j.op} kind={k} open={o} owners=[{ownersStr (s.w k)}]"
          if m != want then return s!"bad map-entry step={i} op={j.op} kind={k} entry={m} owners=[{ownersStr (s.w k)}]"
          if os != ownersStr (s.w k) then return s!"bad owners step={i} op={j.op} kind={k} want=[{ownersStr (s.w k)}] got=[{os}]"
          if w != starts.getD k 0 then return s!"bad streams-opened step={i} op={j.op} kind={k} opened={w} starts={starts.getD k 0}"
          if e != starts.getD k 0 then return s!"bad handler-events step={i} op={j.op} kind={k} events={e} starts={starts.getD k 0}"
        | _ => return s!"bad format step={i} kind={k} got={kt.take 40}"
      if res != resStr r then return s!"bad result step={i} op={j.op} want={resStr r} got={res}"
      if timeout then return s!"bad no-quiescence step={i} op={j.op}"
      i := i + 1
  return "ok"

/-! ### stream `live`: context lifetimes and event delivery -/

def nKindsLive : Nat := 2

open Pko.Model in
def toOpLive (j : JOp) : Option InformerLive.Op :=
  if j.k ≥ nKindsLive then none else
  match j.op with
  | "watch" => some (.watch j.o j.k j.c)
  | "free" => some (.free j.o)
  | "get" => some (.get j.k)
  | "cancel" => some (.cancel j.c)
  | "create" => some (.create j.k)
  | _ => none

open Pko.Model in
def lresStr : InformerLive.LRes → String
  | .ok => "ok" | .err => "err" | .notStarted => "notstarted" | .notFound => "notfound"

def listedStr : Option Nat → String
  | none => "-" | some n => toString n

open Pko.Model in
/-- per kind: map entry . open WATCH streams . create events handler 0 . handler 1 . items listed [owners] -/
def liveKindStr (s : InformerLive.State) (k : Nat) : String :=
  let m := if (s.base.im.map k).isSome then 1 else 0
  s!"{m}.{InformerLive.liveCount s k}.{s.events k}.{s.events k}.{listedStr (InformerLive.listed s k)}[{ownersStr (InformerLive.owners s k)}]"

open Pko.Model in
def modelLive (sc : Scn) : String := Id.run do
  let mut s := InformerLive.init
  let mut outs : Array String := #[]
  for j in sc.opList do
    match toOpLive j with
    | none => return "BAD-OP"
    | some op =>
      let (s', r) := InformerLive.step InformerLive.codePolicy s op
      s := s'
      outs := outs.push s!"{lresStr r} {"|".intercalate ((List.range nKindsLive).map (liveKindStr s))}"
  return ";".intercalate outs.toList

/-- parse `m.o.e0.e1.l[owners]` (`l` = number or `-`) -/
def parseKindLive (t : String) : Option (List Nat × String × String) :=
  match t.splitOn "[" with
  | [nums, os] =>
    match nums.splitOn "." with
    | [m, o, e0, e1, l] =>
      let ns := [m, o, e0, e1].filterMap String.toNat?
      if ns.length = 4 ∧ os.endsWith "]" then some (ns, l, (os.dropEnd 1).toString) else none
    | _ => none
  | _ => none

open Pko.Model in
/-- Monitor of the `live` stream.  Replays the specification `Pko.Model.LiveSpec` (who watches what,
which call contexts have ended, objects per kind, create events every handler must have received)
and checks the implementation's observation after every op, for every kind:
* delivery (`streams = false`, checked first over the whole scenario): the result of the call; every
  handler has received exactly the create events specified — in particular an object created while at
  least one owner watches the kind has reached every handler within the wait bound, whichever `Watch`
  contexts have ended; `Cache.List` returns every object of a watched kind and refuses unwatched kinds;
  `Get` of the newest object of a watched kind succeeds;
* informers (`streams = true`): owner sets; an informer-map entry and exactly one open WATCH stream
  iff the kind has an owner; quiescence was reached within the wait bound.
A `Watch` under an already ended context that has to start an informer may succeed or fail (the call
cannot wait for the first sync); the spec follows the implementation's answer. -/
def monitorLivePass (sc : Scn) (steps : List String) (streams : Bool) : String := Id.run do
  let mut s := LiveSpec.init
  let mut i := 0
  for (j, st) in sc.opList.zip steps do
    match toOpLive j with
    | none => return "bad BAD-OP"
    | some op =>
      let toks := st.splitOn " "
      let (res, obs, timeout) := match toks with
        | [a, b] => (a, b, false)
        | [a, b, "TIMEOUT"] => (a, b, true)
        | _ => ("?", "", false)
      if st == "HANG" then return s!"bad call-hangs step={i} op={j.op} kind={j.k} owner={j.o} ctx={j.c}"
      let (s', r) := match op with
        | .watch o k c =>
          if (s.w k).isEmpty && s.done c && res == "ok" then (LiveSpec.start s o k, InformerLive.LRes.ok)
          else LiveSpec.step s op
        | _ => LiveSpec.step s op
      s := s'
      let kinds := obs.splitOn "|"
      if kinds.length != nKindsLive then return s!"bad format step={i} got={st.take 80}"
      if !streams && res != lresStr r then
        return s!"bad result step={i} op={j.op} kind={j.k} want={lresStr r} got={res} owners=[{ownersStr (s.w j.k)}] objects={s.objs j.k}"
      for (k, kt) in (List.range nKindsLive).zip kinds do
        match parseKindLive kt with
        | some ([m, o, e0, e1], l, os) =>
          let ob := LiveSpec.obs s k
          if !streams then
            for (h, e) in [(0, e0), (1, e1)] do
              if e < ob.events then
                return s!"bad not-delivered step={i} op={j.op} kind={k} handler={h} events={e} want={ob.events} objects={s.objs k} owners=[{ownersStr (s.w k)}]"
              if e > ob.events then
                return s!"bad spurious-events step={i} op={j.op} kind={k} handler={h} events={e} want={ob.events} owners=[{ownersStr (s.w k)}]"
            if l != listedStr ob.listed then
              return s!"bad not-visible step={i} op={j.op} kind={k} listed={l} want={listedStr ob.listed} owners=[{ownersStr (s.w k)}]"
          else
            if os != ownersStr ob.owners then return s!"bad owners step={i} op={j.op} kind={k} want=[{ownersStr ob.owners}] got=[{os}]"
            if o != ob.streams then return s!"bad open-streams step={i} op={j.op} kind={k} open={o} want={ob.streams} owners=[{ownersStr (s.w k)}]"
            if (m == 1) != ob.entry then return s!"bad map-entry step={i} op={j.op} kind={k} entry={m} owners=[{ownersStr (s.w k)}]"
        | _ => return s!"bad format step={i} kind={k} got={kt.take 40}"
      if streams && timeout then return s!"bad no-quiescence step={i} op={j.op}"
      i := i + 1
  return "ok"

def monitorLive (sc : Scn) (out : String) : String :=
  let steps := if out.isEmpty then [] else out.splitOn ";"
  if steps.getLast? != some "HANG" && steps.length != sc.opList.length then s!"bad step-count impl={steps.length} scn={sc.opList.length} out={out.take 80}"
  else
    match monitorLivePass sc steps false with
    | "ok" => monitorLivePass sc steps true
    | bad => bad

/-! ### dispatch -/

def stripBad (out : String) : String :=
  ((if out.startsWith "bad " then (out.drop 4).toString else out).take 200).toString

def model (sc : Scn) : String :=
  match sc.t with
  | none | some "seq" => modelSeq sc
  | some "im" => modelIM sc
  | some "live" => modelLive sc
  | some "conc" | some "ilv" => "ok"
  | some t => s!"BAD-STREAM {t}"

def monitor (sc : Scn) (out : String) : String :=
  match sc.t with
  | none | some "seq" => monitorSeq sc out
  | some "im" => monitorIM sc out
  | some "live" => monitorLive sc out
  | some "conc" => if out == "ok" then "ok" else s!"bad concurrent: {stripBad out}"
  | some "ilv" => if out == "ok" then "ok" else s!"bad interleaving: {stripBad out}"
  | some t => s!"bad BAD-STREAM {t}"

end Pko.Drv.C12

def main (args : List String) : IO UInt32 :=
  Pko.Util.driverMain Pko.Drv.C12.Scn Pko.Drv.C12.model Pko.Drv.C12.monitor args
