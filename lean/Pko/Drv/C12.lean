import Pko.Util
import Pko.Model.Cache
import Pko.Model.CacheSpec
/-! Line driver for C12: `model` prints what the model of `Cache` does (same format as the Go
harness); `monitor` checks an implementation output line against the abstract spec. -/
namespace Pko.Drv.C12
open Lean Pko.Model.Cache

structure JOp where
  op : String
  o : Nat
  k : Nat
  f : String
  deriving FromJson

structure Scn where
  ops : List JOp
  deriving FromJson

def nKinds : Nat := 3

def toFail : String → Fail
  | "get" => .get | "sync" => .sync | "handler" => .handler | _ => .ok

def toOp (j : JOp) : Option Op :=
  match j.op with
  | "watch" => some (.watch j.o j.k (toFail j.f))
  | "free" => some (.free j.o)
  | "get" => some (.get j.k (toFail j.f))
  | "list" => some (.get j.k (toFail j.f))
  | "owners" => some (.owners j.k)
  | _ => none

def resStr : Res → String
  | .ok => "ok" | .err => "err" | .notStarted => "notstarted"

def sortNat (l : List Nat) : List Nat := l.mergeSort (· ≤ ·)

def ownersStr (os : List Nat) : String := ",".intercalate ((sortNat os).map toString)

def stateStr (s : State) : String :=
  String.join ((List.range nKinds).map fun k =>
    let i := match s.infs k with | none => "-" | some false => "i" | some true => "I"
    s!"{i}[{ownersStr (owners s k)}]")

/-- calls that reach the informer map / handler registration during one op (mirrors the fake). -/
def callLog (s : State) : Op → List String
  | .watch _ k f =>
    match s.refs k with
    | some _ => []
    | none =>
      match s.infs k, f with
      | some _, .handler => [s!"GK{k}", s!"HK{k}!", s!"DK{k}"]
      | some _, _ => [s!"GK{k}", s!"HK{k}"]
      | none, .get => [s!"GK{k}!", s!"DK{k}-"]
      | none, .sync => [s!"GK{k}+!", s!"DK{k}"]
      | none, .handler => [s!"GK{k}+", s!"HK{k}!", s!"DK{k}"]
      | none, .ok => [s!"GK{k}+", s!"HK{k}"]
  | .free o =>
    (List.range nKinds).filterMap fun k =>
      match s.refs k with
      | some os => if o ∈ os && (os.filter (· ≠ o)).isEmpty then some s!"DK{k}" else none
      | none => none
  | .get k f =>
    match s.refs k with
    | none => []
    | some _ =>
      match s.infs k, f with
      | some _, _ => [s!"GK{k}"]
      | none, .get => [s!"GK{k}!"]
      | none, .sync => [s!"GK{k}+!"]
      | none, _ => [s!"GK{k}+"]
  | .owners _ => []

def model (sc : Scn) : String := Id.run do
  let mut s := init
  let mut outs : Array String := #[]
  for j in sc.ops do
    match toOp j with
    | none => return "BAD-OP"
    | some op =>
      let log := callLog s op
      let (s', r) := step s op
      s := s'
      outs := outs.push s!"{resStr r} {",".intercalate log} {stateStr s}"
  return ";".intercalate outs.toList

open Pko.Model.CacheSpec in
def specStateStr (s : Spec) : String :=
  String.join ((List.range nKinds).map fun k =>
    let ob := obs s k
    let i := if ob.informer then (if ob.handlers then "I" else "i") else "-"
    s!"{i}[{ownersStr ob.owners}]")

/-- Monitor: replay the abstract spec and compare result + observable state of every step
(the call log in the middle field is not part of the property). -/
def monitor (sc : Scn) (out : String) : String := Id.run do
  let steps := if out.isEmpty then [] else out.splitOn ";"
  if steps.length != sc.ops.length then return s!"bad step-count impl={steps.length} scn={sc.ops.length} out={out.take 80}"
  let mut s := Pko.Model.CacheSpec.init
  let mut i := 0
  for (j, st) in sc.ops.zip steps do
    match toOp j with
    | none => return "bad BAD-OP"
    | some op =>
      let (s', r) := Pko.Model.CacheSpec.step s op
      s := s'
      let want := (resStr r, specStateStr s)
      let got := match st.splitOn " " with
        | [a, _, c] => (a, c)
        | _ => ("?", st)
      if got != want then
        return s!"bad step={i} op={j.op} want={want.1}/{want.2} got={got.1}/{got.2}"
      i := i + 1
  return "ok"

end Pko.Drv.C12

def main (args : List String) : IO UInt32 :=
  Pko.Util.driverMain Pko.Drv.C12.Scn Pko.Drv.C12.model Pko.Drv.C12.monitor args
