import Pko.Drv.PhaseCommon
/-! Driver for C11 (no write before preflight; never outside the owner's namespace). -/
namespace Pko.Drv.C11
open Pko.Kube Pko.Model.Phase Pko.Drv.PhaseCommon

/-- flavours the namespace rule of the property speaks about -/
def nsBound (fl : String) : Bool := fl == "objectset" || fl == "samecluster-phase"

/-- the REST mapper cannot answer for the object's kind in this pass (transient lookup error):
whether its API exists and what its scope is cannot be established -/
def mapFault (s : Scn) (p : PObj) : Bool := (s.mapErr.getD []).contains p.kind

/-- the property's list, written from its sentence -/
def passesPreflight (s : Scn) (ow : Owner) (p : PObj) : Bool :=
  !mapFault s p &&                         -- the checks could be evaluated at all
  scopeOf p.kind != .unknown &&            -- its API exists
  !p.presetOwnerRef &&                     -- it carries no ownerReferences of its own
  p.dryRun == .accept &&                   -- a server-side dry run accepts it
  (!(nsBound s.flavour && ow.ns != "") ||  -- the namespace rule
    (desiredNs ow p == ow.ns && scopeOf p.kind == .namespaced))

def monitor (s : Scn) (out : String) : String := Id.run do
  let some io := parseOut out | return s!"bad unparsable-output {out.take 60}"
  let ow := ownerOf s
  let objs := objsOf s
  -- namespace confinement, rollout and teardown alike
  if nsBound s.flavour && ow.ns != "" then
    for e in io.events do
      match (eventKey e).splitOn "/" with
      | [kind, ns, _] =>
        if ns != ow.ns || scopeOf kind != .namespaced then
          return s!"bad write-outside-owner-namespace {e}"
      | _ => return s!"bad unparsable-event {e}"
  if s.mode == "reconcile" then
    if objs.any (fun p => !passesPreflight s ow p) then
      if !io.events.isEmpty then return s!"bad write-despite-preflight-violation {io.events.headD ""}"
      -- a plain error is only acceptable when the dry run itself failed for an unlisted reason, or
      -- when the REST mapper could not answer (the check could not be evaluated: retried)
      let dryRunErrored := objs.any (fun p => p.dryRun == .error && scopeOf p.kind != .unknown)
      let mapperErrored := objs.any (mapFault s)
      if io.outcome != "preflight" && !(io.outcome == "err" && (dryRunErrored || mapperErrored)) then
        return s!"bad preflight-violation-not-reported outcome={io.outcome}"
    else if io.outcome == "preflight" then return "bad spurious-preflight-error"
  return "ok"

end Pko.Drv.C11

def main (args : List String) : IO UInt32 :=
  Pko.Util.driverMain Pko.Drv.PhaseCommon.Scn Pko.Drv.PhaseCommon.model Pko.Drv.C11.monitor args
