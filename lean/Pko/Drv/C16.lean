import Pko.Drv.C16Common
/-! Line driver for C16: `Pko.Drv.C16.model` / `Pko.Drv.C16.monitor` live in `Pko.Drv.C16Common`. -/

def main (args : List String) : IO UInt32 :=
  Pko.Util.driverMain Pko.Drv.C16.Scn Pko.Drv.C16.model Pko.Drv.C16.monitor args
