import Pko.Drv.SysMon
/-! Driver for C04 on the controller-level stream: model = ObjectSet controller model,
monitor = `Pko.Drv.SysMon.judge .c04`. -/
def main (args : List String) : IO UInt32 :=
  Pko.Util.driverMain Pko.Drv.SysCommon.Scn Pko.Drv.SysCommon.model (Pko.Drv.SysMon.monitor .c04) args
