import Pko.Util
import Pko.Model.Archive
import Pko.Model.ArchiveSpec
import Pko.Model.ArchiveHist
import Pko.Drv.HistCommon
import Pko.Drv.C08Sys
/-! Line driver for C08 (a).

* stream `decide` (scenario = one pass): `model` prints the ordered client writes of one pass of the
  ObjectDeployment controller's archive logic (same format as the Go harness); `monitor` evaluates
  the property's sentence (`ArchiveSpec.verdict`) on the write list the REAL code produced.
* stream `hist` (scenario = multi-round history, recognised by its `ops` field): `model` prints the
  trace of `ArchiveHist.observe`; `monitor` evaluates the same `ArchiveSpec.verdict` on EVERY pass of
  the implementation's trace, against the revisions the harness observed in its store right before
  that pass (terminating revisions included).

Revisions may keep (some of) their objects in ObjectSlices (`sl`, `sm` of a revision record, see
`Pko.Drv.HistCommon.JRev`); `cl` (cluster-scoped kinds) only selects the Go types the harness runs —
model and specification are the same for both scopes. -/
namespace Pko.Drv.C08
open Lean Pko.Model.Archive Pko.Drv.HistCommon

structure Scn where
  via : String                  -- "arch" (archiveReconciler.Reconcile) | "ctrl" (objectSetReconciler.Reconcile)
  revs : List JRev
  cur : Bool
  odp : Bool
  limit : Option Int
  fin : Bool
  deriving FromJson

inductive AnyScn where
  | one (s : Scn)
  | hist (h : HistScn)
  | sys (s : Pko.Drv.SysCommon.Scn)     -- stream `handover` (scenario of the system harness: has `steps`)

instance : FromJson AnyScn where
  fromJson? j :=
    match j.getObjVal? "ops" with
    | .ok _ => AnyScn.hist <$> fromJson? j
    | .error _ =>
      match j.getObjVal? "steps" with
      | .ok _ => AnyScn.sys <$> fromJson? j
      | .error _ => AnyScn.one <$> fromJson? j

def toInput (s : Scn) : Input :=
  { ctrl := s.via == "ctrl", revs := toRevs s.revs, hasCur := s.cur, odPaused := s.odp,
    limit := s.limit, fin := s.fin }

def outStr (o : List Write × Bool) : String :=
  ",".intercalate (o.1.map writeStr) ++ (if o.2 then ";err" else ";ok")

def model : AnyScn → String
  | .one s => outStr (run (toInput s))
  | .hist h => histModel h
  | .sys s => Pko.Drv.SysCommon.model s

def parseOut (out : String) : Option (List Write) :=
  match out.splitOn ";" with
  | [ws, _] => parseWrites ws
  | _ => none

/-- The property on one observed pass of a history. -/
def passVerdict (fin : Bool) (_k : Nat) (p : Pko.Model.ArchiveHist.PassObs) : String :=
  Pko.Model.ArchiveSpec.verdict (Pko.Model.ArchiveHist.inputOf p.pre p.odPaused p.limit fin) p.writes

/-- Monitor: the property evaluated on the implementation's write list(s). -/
def monitor (s : AnyScn) (out : String) : String :=
  match s with
  | .one s =>
    match parseOut out with
    | none => s!"bad parse out={out.take 80}"
    | some ws => Pko.Model.ArchiveSpec.verdict (toInput s) ws
  | .hist h => judgeTrace out (passVerdict h.fin)
  | .sys s => Pko.Drv.C08Sys.monitor s out

end Pko.Drv.C08

def main (args : List String) : IO UInt32 :=
  Pko.Util.driverMain Pko.Drv.C08.AnyScn Pko.Drv.C08.model Pko.Drv.C08.monitor args
