import Pko.Util
import Pko.Model.Archive
import Pko.Model.ArchiveSpec
/-! Line driver for C08 (a): `model` prints the ordered client writes of one pass of the
ObjectDeployment controller's archive logic (same format as the Go harness); `monitor` evaluates
the property's sentence (`ArchiveSpec.verdict`) on the write list the REAL code produced. -/
namespace Pko.Drv.C08
open Lean Pko.Model.Archive

/-- One revision as written by the harness; its name (`id`) is its position in `revs`. -/
structure JRev where
  rev : Int
  av : Bool                     -- Available condition True
  sp : Bool                     -- Paused condition True
  lc : String                   -- "A" | "P" | "X"
  pbp : Bool                    -- paused-by-parent annotation
  co : Option (List Nat)        -- status.controllerOf keys, null = nil slice
  obj : List Nat                -- keys of spec.phases objects
  hm : Bool                     -- hash annotation matches
  deriving FromJson

structure Scn where
  via : String                  -- "arch" (archiveReconciler.Reconcile) | "ctrl" (objectSetReconciler.Reconcile)
  revs : List JRev
  cur : Bool
  odp : Bool
  limit : Option Int
  fin : Bool
  deriving FromJson

def toLc : String → Lifecycle
  | "P" => .paused | "X" => .archived | _ => .active

def toRevs (l : List JRev) : List Rev :=
  (List.range l.length).zip l |>.map fun (i, j) =>
    { id := i, rev := j.rev, available := j.av, statusPaused := j.sp, lc := toLc j.lc, pbp := j.pbp,
      controllerOf := j.co, objects := j.obj, hashMatch := j.hm }

def toInput (s : Scn) : Input :=
  { ctrl := s.via == "ctrl", revs := toRevs s.revs, hasCur := s.cur, odPaused := s.odp,
    limit := s.limit, fin := s.fin }

def writeStr : Write → String
  | .pause i => s!"p{i}" | .ppause i => s!"pp{i}" | .activate i => s!"u{i}"
  | .archive i => s!"a{i}" | .delete i => s!"d{i}"

def outStr (o : List Write × Bool) : String :=
  ",".intercalate (o.1.map writeStr) ++ (if o.2 then ";err" else ";ok")

def model (s : Scn) : String := outStr (run (toInput s))

def parseWrite (t : String) : Option Write :=
  let num (k : Nat) : Option Nat := (t.drop k).toString.toNat?
  if t.startsWith "pp" then (num 2).map .ppause
  else if t.startsWith "p" then (num 1).map .pause
  else if t.startsWith "u" then (num 1).map .activate
  else if t.startsWith "a" then (num 1).map .archive
  else if t.startsWith "d" then (num 1).map .delete
  else none

def parseOut (out : String) : Option (List Write) :=
  match out.splitOn ";" with
  | [ws, _] => if ws.isEmpty then some [] else (ws.splitOn ",").mapM parseWrite
  | _ => none

/-- Monitor: the property evaluated on the implementation's write list. -/
def monitor (s : Scn) (out : String) : String :=
  match parseOut out with
  | none => s!"bad parse out={out.take 80}"
  | some ws => Pko.Model.ArchiveSpec.verdict (toInput s) ws

end Pko.Drv.C08

def main (args : List String) : IO UInt32 :=
  Pko.Util.driverMain Pko.Drv.C08.Scn Pko.Drv.C08.model Pko.Drv.C08.monitor args
