import Pko.Drv.SysMon
/-! Driver for C03 on the controller-level stream: model = ObjectSet controller model,
monitor = `Pko.Drv.SysMon.judge .c03`. -/
def main (args : List String) : IO UInt32 :=
  Pko.Util.driverMain Pko.Drv.SysCommon.Scn Pko.Drv.SysCommon.model (Pko.Drv.SysMon.monitor .c03) args
