import Pko.Drv.SysMon
/-! Second driver for C01: collision protection on the controller-level stream — the adoption basis
a revision hands to the next one (status.remotePhases names the phase objects that exist, under
their current uid) and "a permitted adoption is never refused" for passes of the real ObjectSet /
ObjectSetPhase controllers (`SysMon.judge .c01`, `SysMon.judgePhaseCollision`). -/
def main (args : List String) : IO UInt32 :=
  Pko.Util.driverMain Pko.Drv.SysCommon.Scn Pko.Drv.SysCommon.model (Pko.Drv.SysMon.monitor .c01) args
