import Pko.Util
import Pko.Model.PanicScn
/-! Line driver for C19: `model` / `monitor` live in `Pko.Model.PanicScn` (namespace `Pko.Drv.C19`). -/

def main (args : List String) : IO UInt32 :=
  Pko.Util.driverMain Pko.Drv.C19.Scn Pko.Drv.C19.model Pko.Drv.C19.monitor args
