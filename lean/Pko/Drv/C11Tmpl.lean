import Pko.Drv.C18Common
import Pko.Model.TemplateNsSpec
/-! Driver of the ObjectTemplate stream of C11 (harness/C18/zz_verif_c11tmpl_test.go).  `model` is
the C18 model driver (same scenario format, same stateless model `Pko.Model.Template`); `monitor`
evaluates C11's predicate `Pko.Model.TemplateNsSpec.checkPassNs` on every pass of the
IMPLEMENTATION: the state before a pass is the last state the implementation reported plus the
environment steps since, and the verdict that licenses the writes of a pass is the one on the
object rendered from the sources AS THEY ARE at that pass. -/
namespace Pko.Drv.C11Tmpl
open Pko.Model.Template Pko.Model.TemplateSpec Pko.Model.TemplateNsSpec Pko.Drv.C18

def renderedStr (r : Rendered) : String :=
  s!"{r.kind}/{r.ns}/{r.name}{if r.hasOwner then "+ownerReferences" else ""}"

def firstTargetWrite (spec : Spec JTmpl) (obs : Obs) : String :=
  match obs.writes.find? isTargetWrite with
  | some x => writeStr spec x
  | none => "-"

def outOfBounds (spec : Spec JTmpl) (obs : Obs) : String :=
  match obs.writes.find? (fun x => !(decide (x.key = tmplKey spec) ||
      (decide (x.key.ns = spec.ns) && decide (scopeOf x.key.kind = .namespaced)))) with
  | some x => writeStr spec x
  | none => "-"

def monitor (s : Scn) (out : String) : String := Id.run do
  let spec := toSpec s
  let keys := keyUniverse s
  let lines := if out.isEmpty then [] else out.splitOn ";"
  if lines.length != s.steps.length then
    return s!"bad step-count impl={lines.length} scn={s.steps.length} out={(out.take 120).toString}"
  let mut w := initWorld s
  let mut i := 0
  for (j, line) in s.steps.zip lines do
    match toStep j with
    | .bad => return "bad BAD-OP"
    | .env op _ => w := (envStep leaves w op).1
    | .reconcile =>
      match parseRec line with
      | none => return s!"bad unparsable step={i} line={(line.take 160).toString}"
      | some p =>
        if !checkPassNs leaves spec keys w p.obs then
          if !bounded leaves spec p.obs then
            return s!"bad objecttemplate-write-outside-namespace {outOfBounds spec p.obs} step={i}"
          let why := match renderingOf leaves spec w.objs w.env with
            | .inadmissible r =>
              if !untouched keys w.objs p.obs then
                s!"objecttemplate-write-despite-preflight-violation rendered={renderedStr r} write={firstTargetWrite spec p.obs}"
              else s!"objecttemplate-preflight-violation-not-reported rendered={renderedStr r} invalid={invStr p.obs.invalid}"
            | .none => s!"objecttemplate-write-without-rendered-object write={firstTargetWrite spec p.obs}"
            | .admissible _ => "?"
          return s!"bad {why} step={i}"
        let tm : Option Tmpl := match p.tmplState with
          | "gone" => none
          | "del" => some ⟨true, true, ⟨p.obs.invalid, [], none⟩⟩
          | "fin" => some ⟨true, false, ⟨p.obs.invalid, [], none⟩⟩
          | _ => some ⟨false, false, ⟨p.obs.invalid, [], none⟩⟩
        w := { w with objs := p.objs, watches := p.obs.watches, tmpl := tm }
    i := i + 1
  return "ok"

end Pko.Drv.C11Tmpl

def main (args : List String) : IO UInt32 :=
  Pko.Util.driverMain Pko.Drv.C18.Scn Pko.Drv.C18.model Pko.Drv.C11Tmpl.monitor args
