package probing

// Correspondence harness for property C17 (availability probing is a pure conjunction over
// selected, up-to-date status).  Injected by `go test -overlay`; nothing here re-implements
// probing: every scenario goes through the REAL Parse(ctx, probes).Probe(obj).
//
// Scenario = generated []corev1alpha1.ObjectSetProbe + one generated unstructured object (as
// JSON; float64 values are written {"$f":"<%v>"} so that int64/float64 survive the round trip)
// + the CEL oracle table: for every CEL rule in the scenario what the real NewCELProbe returned
// and what the real cel.Program evaluated to on this object (cel-go is an opaque leaf of the
// Lean model), plus the generator's claim about the rule's static type (bool|nonbool|syntax).
//
// Output = "parse-error probe#i/celtype|probe#i/cel|selector#i" or
//          "res <success> <object unchanged> <n> <escaped message>...".

import (
	"bytes"
	"context"
	"crypto/sha1"
	"encoding/json"
	"errors"
	"fmt"
	"math/rand"
	"reflect"
	"sort"
	"strconv"
	"strings"
	"testing"

	metav1 "k8s.io/apimachinery/pkg/apis/meta/v1"
	"k8s.io/apimachinery/pkg/apis/meta/v1/unstructured"
	"k8s.io/apimachinery/pkg/runtime"

	corev1alpha1 "package-operator.run/apis/core/v1alpha1"
	"package-operator.run/internal/verifkit"
	"package-operator.run/pkg/probing"
)

type c17AB struct {
	A string `json:"a"`
	B string `json:"b"`
}

type c17Probe struct {
	Cond *c17AB `json:"cond,omitempty"` // type, status
	Fe   *c17AB `json:"fe,omitempty"`   // fieldA, fieldB
	Cel  *c17AB `json:"cel,omitempty"`  // rule, message
}

type c17Pair struct {
	K string `json:"k"`
	V string `json:"v"`
}

type c17Expr struct {
	Key  string   `json:"key"`
	Op   string   `json:"op"`
	Vals []string `json:"vals"`
}

type c17Sel struct {
	Ml []c17Pair `json:"ml"`
	Me []c17Expr `json:"me"`
}

type c17Kind struct {
	Group string `json:"group"`
	Kind  string `json:"kind"`
}

type c17Spec struct {
	Kind   *c17Kind   `json:"kind,omitempty"`
	Sel    *c17Sel    `json:"sel,omitempty"`
	Probes []c17Probe `json:"probes"`
}

type c17Cel struct {
	Rule    string `json:"rule"`
	Cls     string `json:"cls"`     // generator's claim: bool | nonbool | syntax | ""
	Compile string `json:"compile"` // observed: ok | type | err
	Eval    string `json:"eval"`    // observed on this object: true | false | err | na
	Err     string `json:"err"`
}

type c17Scn struct {
	Specs []c17Spec       `json:"specs"`
	Cel   []c17Cel        `json:"cel"`
	Obj   json.RawMessage `json:"obj"`
}

// ---------------------------------------------------------------- object <-> JSON

func c17Enc(v any) any {
	switch x := v.(type) {
	case float64:
		return map[string]any{"$f": fmt.Sprintf("%v", x)}
	case []any:
		out := make([]any, len(x))
		for i := range x {
			out[i] = c17Enc(x[i])
		}
		return out
	case map[string]any:
		out := make(map[string]any, len(x))
		for k, e := range x {
			out[k] = c17Enc(e)
		}
		return out
	default:
		return v
	}
}

func c17Dec(v any) (any, error) {
	switch x := v.(type) {
	case json.Number:
		if i, err := strconv.ParseInt(string(x), 10, 64); err == nil {
			return i, nil
		}
		f, err := strconv.ParseFloat(string(x), 64)
		return f, err
	case []any:
		out := make([]any, len(x))
		for i := range x {
			e, err := c17Dec(x[i])
			if err != nil {
				return nil, err
			}
			out[i] = e
		}
		return out, nil
	case map[string]any:
		if len(x) == 1 {
			if s, ok := x["$f"].(string); ok {
				return strconv.ParseFloat(s, 64)
			}
		}
		out := make(map[string]any, len(x))
		for k, e := range x {
			d, err := c17Dec(e)
			if err != nil {
				return nil, err
			}
			out[k] = d
		}
		return out, nil
	default:
		return v, nil
	}
}

func c17ObjJSON(obj map[string]any) json.RawMessage {
	b, err := json.Marshal(c17Enc(obj))
	if err != nil {
		panic(err)
	}
	return b
}

func c17ObjFromJSON(raw json.RawMessage) (map[string]any, error) {
	d := json.NewDecoder(bytes.NewReader(raw))
	d.UseNumber()
	var v any
	if err := d.Decode(&v); err != nil {
		return nil, err
	}
	dv, err := c17Dec(v)
	if err != nil {
		return nil, err
	}
	m, ok := dv.(map[string]any)
	if !ok {
		return nil, fmt.Errorf("object is not a JSON object")
	}
	return m, nil
}

// ---------------------------------------------------------------- CEL oracle (real cel-go)

// rule -> static class as claimed by the generator
var c17CelPool = []struct{ rule, cls string }{
	{`true`, "bool"},
	{`false`, "bool"},
	{`self.metadata.name == "x"`, "bool"},
	{`has(self.status)`, "bool"},
	{`has(self.status) && has(self.status.replicas)`, "bool"},
	{`self.status.replicas == self.spec.replicas`, "bool"},
	{`self.metadata.generation == self.status.observedGeneration`, "bool"},
	{`self.status.conditions.exists(c, c.type == "Available" && c.status == "True")`, "bool"},
	{`self.metadata.labels["app"] == "a"`, "bool"},
	{`self.kind.startsWith("Dep")`, "bool"},
	{`size(self.status.conditions) > 1`, "bool"},
	{`1 + 1`, "nonbool"},
	{`"abc"`, "nonbool"},
	{`self.metadata.name`, "nonbool"},
	{`self.status`, "nonbool"},
	{`[1, 2]`, "nonbool"},
	{`size(self.metadata.name)`, "nonbool"},
	{`self.`, "syntax"},
	{`1 +`, "syntax"},
	{`foo == 1`, "syntax"},
	{`"a" == 1`, "syntax"},
	{``, "syntax"},
}

type c17Compiled struct {
	probe *probing.CELProbe
	res   string
}

var c17CelCache = map[string]c17Compiled{}

func c17Compile(rule string) c17Compiled {
	if c, ok := c17CelCache[rule]; ok {
		return c
	}
	p, err := probing.NewCELProbe(rule, "")
	c := c17Compiled{probe: p}
	switch {
	case err == nil:
		c.res = "ok"
	case errors.Is(err, probing.ErrCELInvalidEvaluationType):
		c.res = "type"
	default:
		c.res = "err"
	}
	c17CelCache[rule] = c
	return c
}

func c17Oracle(s *c17Scn, obj map[string]any) {
	cls := map[string]string{}
	for _, p := range c17CelPool {
		cls[p.rule] = p.cls
	}
	for _, e := range s.Cel { // a replayed scenario keeps its claims
		cls[e.Rule] = e.Cls
	}
	seen := map[string]bool{}
	tbl := []c17Cel{}
	for _, sp := range s.Specs {
		for _, p := range sp.Probes {
			if p.Cel == nil || seen[p.Cel.A] {
				continue
			}
			seen[p.Cel.A] = true
			e := c17Cel{Rule: p.Cel.A, Cls: cls[p.Cel.A], Eval: "na"}
			c := c17Compile(p.Cel.A)
			e.Compile = c.res
			if c.res == "ok" {
				// evaluate on a private copy: the oracle must not disturb the run under test
				val, _, err := c.probe.Program.Eval(map[string]any{"self": runtime.DeepCopyJSON(obj)})
				switch {
				case err != nil:
					e.Eval, e.Err = "err", err.Error()
				default:
					b, ok := val.Value().(bool)
					switch {
					case !ok:
						e.Eval, e.Err = "err", fmt.Sprintf("non-bool value %T", val.Value())
					case b:
						e.Eval = "true"
					default:
						e.Eval = "false"
					}
				}
			}
			tbl = append(tbl, e)
		}
	}
	s.Cel = tbl
}

// ---------------------------------------------------------------- run the real code

func c17Normalize(s *c17Scn) {
	if s.Specs == nil {
		s.Specs = []c17Spec{}
	}
	for i := range s.Specs {
		sp := &s.Specs[i]
		if sp.Probes == nil {
			sp.Probes = []c17Probe{}
		}
		if sp.Sel != nil {
			if sp.Sel.Ml == nil {
				sp.Sel.Ml = []c17Pair{}
			}
			if sp.Sel.Me == nil {
				sp.Sel.Me = []c17Expr{}
			}
			for j := range sp.Sel.Me {
				if sp.Sel.Me[j].Vals == nil {
					sp.Sel.Me[j].Vals = []string{}
				}
			}
		}
	}
}

func c17Build(s *c17Scn) []corev1alpha1.ObjectSetProbe {
	out := make([]corev1alpha1.ObjectSetProbe, 0, len(s.Specs))
	for _, sp := range s.Specs {
		var o corev1alpha1.ObjectSetProbe
		if sp.Kind != nil {
			o.Selector.Kind = &corev1alpha1.PackageProbeKindSpec{Group: sp.Kind.Group, Kind: sp.Kind.Kind}
		}
		if sp.Sel != nil {
			ls := &metav1.LabelSelector{}
			for _, p := range sp.Sel.Ml {
				if ls.MatchLabels == nil {
					ls.MatchLabels = map[string]string{}
				}
				ls.MatchLabels[p.K] = p.V
			}
			for _, e := range sp.Sel.Me {
				ls.MatchExpressions = append(ls.MatchExpressions, metav1.LabelSelectorRequirement{
					Key: e.Key, Operator: metav1.LabelSelectorOperator(e.Op), Values: append([]string(nil), e.Vals...),
				})
			}
			o.Selector.Selector = ls
		}
		for _, p := range sp.Probes {
			var pr corev1alpha1.Probe
			if p.Cond != nil {
				pr.Condition = &corev1alpha1.ProbeConditionSpec{Type: p.Cond.A, Status: p.Cond.B}
			}
			if p.Fe != nil {
				pr.FieldsEqual = &corev1alpha1.ProbeFieldsEqualSpec{FieldA: p.Fe.A, FieldB: p.Fe.B}
			}
			if p.Cel != nil {
				pr.CEL = &corev1alpha1.ProbeCELSpec{Rule: p.Cel.A, Message: p.Cel.B}
			}
			o.Probes = append(o.Probes, pr)
		}
		out = append(out, o)
	}
	return out
}

// c17Exec completes the scenario's oracle table and returns the canonical output of the real code.
func c17Exec(s *c17Scn) string {
	if s.Cel == nil {
		s.Cel = []c17Cel{}
	}
	obj, err := c17ObjFromJSON(s.Obj)
	if err != nil {
		return "BAD-SCENARIO " + verifkit.Esc(err.Error())
	}
	c17Normalize(s)
	s.Obj = c17ObjJSON(obj)
	c17Oracle(s, obj)
	probes := c17Build(s)
	before := runtime.DeepCopyJSON(obj)
	u := &unstructured.Unstructured{Object: obj}

	prober, err := Parse(context.Background(), probes)
	if err != nil {
		msg := err.Error()
		var i int
		switch {
		case strings.HasPrefix(msg, "parsing selector of probe #"):
			fmt.Sscanf(msg, "parsing selector of probe #%d:", &i)
			return fmt.Sprintf("parse-error selector#%d", i)
		case strings.HasPrefix(msg, "parsing probe #"):
			fmt.Sscanf(msg, "parsing probe #%d:", &i)
			if errors.Is(err, probing.ErrCELInvalidEvaluationType) {
				return fmt.Sprintf("parse-error probe#%d/celtype", i)
			}
			return fmt.Sprintf("parse-error probe#%d/cel", i)
		default:
			return "parse-error unknown " + verifkit.Esc(msg)
		}
	}
	ok, msgs := prober.Probe(u)
	pure := reflect.DeepEqual(before, u.Object)
	toks := []string{"res", c17Bit(ok), c17Bit(pure), strconv.Itoa(len(msgs))}
	for _, m := range msgs {
		toks = append(toks, verifkit.Esc(m))
	}
	return strings.Join(toks, " ")
}

func c17Bit(b bool) string {
	if b {
		return "1"
	}
	return "0"
}

func c17Tags(s *c17Scn, out string) []string {
	set := map[string]bool{}
	add := func(t string) { set[t] = true }
	add(fmt.Sprintf("specs=%d", min(len(s.Specs), 5)))
	for _, sp := range s.Specs {
		if sp.Kind != nil {
			add("sel:kind")
		}
		if sp.Sel != nil {
			add("sel:labels")
			if len(sp.Sel.Ml)+len(sp.Sel.Me) == 0 {
				add("sel:everything")
			}
			if len(sp.Sel.Ml) > 0 {
				add("sel:matchLabels")
			}
			for _, e := range sp.Sel.Me {
				add("sel:op=" + verifkit.Esc(e.Op))
			}
		}
		if sp.Kind == nil && sp.Sel == nil {
			add("sel:none")
		}
		if len(sp.Probes) == 0 {
			add("probes=0")
		}
		for _, p := range sp.Probes {
			n := 0
			if p.Fe != nil {
				add("probe:fe")
				n++
			}
			if p.Cond != nil {
				add("probe:cond")
				n++
			}
			if p.Cel != nil {
				add("probe:cel")
				n++
			}
			if n == 0 {
				add("probe:noconfig")
			}
			if n > 1 {
				add("probe:multiconfig")
			}
		}
	}
	for _, e := range s.Cel {
		add("cel:compile=" + e.Compile)
		add("cel:eval=" + e.Eval)
		add("cel:cls=" + e.Cls)
	}
	switch {
	case strings.HasPrefix(out, "parse-error"):
		switch {
		case strings.Contains(out, "celtype"):
			add("out:parse-error/celtype")
		case strings.Contains(out, "/cel"):
			add("out:parse-error/cel")
		case strings.Contains(out, "selector#"):
			add("out:parse-error/selector")
		default:
			add("out:parse-error/unknown")
		}
	case strings.HasPrefix(out, "res 1"):
		add("out:pass")
		if len(s.Specs) == 0 {
			add("trivial")
		}
	case strings.HasPrefix(out, "res 0"):
		add("out:fail")
		f := strings.Fields(out)
		add(fmt.Sprintf("msgs=%d", min(len(f)-4, 6)))
		for _, w := range []struct{ sub, tag string }{
			{".status%20outdated", "msg:status-outdated"},
			{"missing%20.status.conditions", "msg:cond-missing"},
			{":%20malformed", "msg:cond-malformed"},
			{":%20outdated", "msg:cond-outdated"},
			{"wrong%20status", "msg:cond-wrong-status"},
			{"not%20reported", "msg:cond-not-reported"},
			{"\"%20missing", "msg:fe-missing"},
			{"\"%20!=%20\"", "msg:fe-differ"},
			{"CEL%20program%20failed", "msg:cel-error"},
		} {
			for _, m := range f[4:] {
				if strings.HasSuffix(m, w.sub) || (strings.Contains(m, w.sub) && !strings.HasPrefix(w.sub, ":")) {
					add(w.tag)
				}
			}
		}
	default:
		add("out:other")
	}
	tags := make([]string, 0, len(set))
	for t := range set {
		tags = append(tags, t)
	}
	sort.Strings(tags)
	return tags
}

// ---------------------------------------------------------------- generators

type c17Gen struct{ r *rand.Rand }

func (g c17Gen) pick(xs ...any) any      { return xs[g.r.Intn(len(xs))] }
func (g c17Gen) str(xs ...string) string { return xs[g.r.Intn(len(xs))] }
func (g c17Gen) chance(n int) bool       { return g.r.Intn(n) == 0 }

var c17Absent = struct{}{} // marker: leave the key out

func c17Set(m map[string]any, k string, v any) {
	if v != c17Absent {
		m[k] = v
	}
}

var (
	c17CondTypes    = []string{"Available", "Progressing", "Ready", "", `Av"ail\able`, "Rëady"}
	c17CondStatuses = []string{"True", "False", "Unknown", ""}
	c17LabelKeys    = []string{"app", "tier", "example.com/name"}
	c17LabelVals    = []string{"a", "b", "db", ""}
	c17Paths        = []string{
		".spec.replicas", ".status.replicas", "status.readyReplicas", ".status.updatedReplicas", ".status.missing",
		".status.conditions", ".status", "", ".", "..spec..replicas", ".spec.replicas.", ".metadata.labels",
		".status.nested.a", ".spec.nested.a", ".status.nested", ".spec.nested", ".status.f", ".spec.f",
		".status.observedGeneration.x", ".status.nullish", ".status.nullish.deeper", ".spec.list", ".status.list",
		".metadata.generation", ".status.observedGeneration", ".spec.empty", ".status.empty",
	}
)

// a value for a spec/status leaf field
func (g c17Gen) value(depth int) any {
	switch g.r.Intn(12) {
	case 0:
		return nil
	case 1:
		return g.chance(2)
	case 2, 3:
		return int64(g.r.Intn(4))
	case 4:
		return g.pick(1.0, 2.0, 0.5, 1e21, -3.25, 3.0).(float64)
	case 5:
		return g.str("a", "b", "1", "")
	case 6:
		if depth > 1 {
			return []any{}
		}
		n := g.r.Intn(3)
		l := make([]any, n)
		for i := range l {
			l[i] = g.value(depth + 1)
		}
		return l
	case 7:
		if depth > 1 {
			return map[string]any{}
		}
		m := map[string]any{}
		for _, k := range []string{"a", "b"} {
			if g.chance(2) {
				m[k] = g.value(depth + 1)
			}
		}
		return m
	default:
		return int64(1 + g.r.Intn(2))
	}
}

// an observedGeneration declaration relative to the object's generation
func (g c17Gen) obsGen(gen int64) any {
	switch g.r.Intn(12) {
	case 0, 1, 2:
		return c17Absent
	case 3, 4, 5:
		return gen
	case 6, 7:
		return gen + int64(1+g.r.Intn(2))
	case 8:
		return gen - 1
	case 9:
		return float64(gen) + g.pick(0.0, 1.0, 0.5).(float64)
	case 10:
		return g.pick(strconv.FormatInt(gen, 10), "stale", nil, map[string]any{})
	default:
		return int64(0)
	}
}

func (g c17Gen) condEntry(gen int64) any {
	if g.chance(12) {
		return g.pick("Available", nil, int64(1), []any{}, true)
	}
	c := map[string]any{}
	switch g.r.Intn(10) {
	case 0:
		c["type"] = int64(1)
	case 1: // no type
	default:
		c["type"] = c17CondTypes[g.r.Intn(len(c17CondTypes))]
	}
	switch g.r.Intn(10) {
	case 0:
		c["status"] = true
	case 1: // no status
	default:
		c["status"] = c17CondStatuses[g.r.Intn(len(c17CondStatuses))]
	}
	c17Set(c, "observedGeneration", g.obsGen(gen))
	if g.chance(3) {
		c["reason"] = "R"
	}
	return c
}

func (g c17Gen) object() map[string]any {
	o := map[string]any{}
	c17Set(o, "apiVersion", g.pick("apps/v1", "apps/v1", "apps/v1", "v1", "v1", "example.com/v1beta1", "a/b/c", "/", "", c17Absent, int64(1)))
	c17Set(o, "kind", g.pick("Deployment", "Deployment", "Deployment", "ConfigMap", "Widget", "", c17Absent, int64(3)))
	var gen int64
	switch g.r.Intn(10) {
	case 0:
		o["metadata"] = g.pick(nil, "meta", []any{}, map[string]any{})
	case 1: // no metadata at all
	default:
		md := map[string]any{"name": g.str("x", "y")}
		switch g.r.Intn(8) {
		case 0: // missing => 0
		case 1:
			md["generation"] = g.pick(2.0, "2", nil)
		default:
			gen = int64(g.r.Intn(4))
			md["generation"] = gen
		}
		switch g.r.Intn(10) {
		case 0: // missing
		case 1:
			md["labels"] = g.pick(nil, "labels", []any{}, map[string]any{})
		case 2:
			md["labels"] = map[string]any{"app": "a", "tier": g.pick(int64(1), nil, true, map[string]any{})}
		default:
			l := map[string]any{}
			for _, k := range c17LabelKeys {
				if g.chance(2) {
					l[k] = c17LabelVals[g.r.Intn(len(c17LabelVals))]
				}
			}
			md["labels"] = l
		}
		if g.chance(2) { // what a live object read from the API server carries besides
			c17Live(md)
		}
		o["metadata"] = md
	}
	if !g.chance(6) {
		sp := map[string]any{"replicas": int64(g.r.Intn(3))}
		for _, k := range []string{"f", "nested", "list", "empty"} {
			if g.chance(2) {
				sp[k] = g.value(0)
			}
		}
		if g.chance(3) {
			sp["nested"] = map[string]any{"a": g.value(1)}
		}
		o["spec"] = sp
	}
	switch g.r.Intn(14) {
	case 0: // no status
	case 1:
		o["status"] = g.pick(nil, "Running", []any{}, int64(1), map[string]any{})
	default:
		st := map[string]any{}
		c17Set(st, "observedGeneration", g.obsGen(gen))
		for _, k := range []string{"replicas", "readyReplicas", "updatedReplicas"} {
			if g.chance(2) {
				st[k] = int64(g.r.Intn(3))
			}
		}
		for _, k := range []string{"f", "nested", "list", "empty", "nullish"} {
			if g.chance(2) {
				st[k] = g.value(0)
			}
		}
		if g.chance(3) {
			st["nested"] = map[string]any{"a": g.value(1)}
		}
		if g.chance(4) {
			st["nullish"] = nil
		}
		switch g.r.Intn(12) {
		case 0: // no conditions
		case 1:
			st["conditions"] = g.pick(nil, "none", map[string]any{}, int64(0))
		default:
			n := g.r.Intn(5)
			l := make([]any, n)
			for i := range l {
				l[i] = g.condEntry(gen)
			}
			st["conditions"] = l
		}
		o["status"] = st
	}
	return o
}

func (g c17Gen) selector() *c17Sel {
	s := &c17Sel{Ml: []c17Pair{}, Me: []c17Expr{}}
	if g.chance(6) {
		return s // Everything()
	}
	badKey := func() string {
		return g.str("-bad", "a/b/c", "", "Example.com/x", "/x", "x/", strings.Repeat("k", 64), "ex ample")
	}
	badVal := func() string { return g.str("a b", strings.Repeat("v", 64), "-x", "x/") }
	if g.chance(2) {
		ks := g.r.Perm(len(c17LabelKeys))[:1+g.r.Intn(2)]
		for _, i := range ks {
			p := c17Pair{K: c17LabelKeys[i], V: c17LabelVals[g.r.Intn(len(c17LabelVals))]}
			if g.chance(25) {
				p.V = badVal()
			}
			s.Ml = append(s.Ml, p)
		}
		if g.chance(25) {
			s.Ml = append(s.Ml, c17Pair{K: badKey(), V: "a"})
		}
		sort.Slice(s.Ml, func(i, j int) bool { return s.Ml[i].K < s.Ml[j].K })
		// a Go map cannot hold duplicate keys
		for i := len(s.Ml) - 1; i > 0; i-- {
			if s.Ml[i].K == s.Ml[i-1].K {
				s.Ml = append(s.Ml[:i], s.Ml[i+1:]...)
			}
		}
	}
	n := g.r.Intn(3)
	if len(s.Ml) == 0 && n == 0 {
		n = 1
	}
	for i := 0; i < n; i++ {
		e := c17Expr{Key: c17LabelKeys[g.r.Intn(len(c17LabelKeys))], Vals: []string{}}
		e.Op = g.str("In", "NotIn", "Exists", "DoesNotExist")
		if e.Op == "In" || e.Op == "NotIn" {
			for j := 0; j < 1+g.r.Intn(2); j++ {
				e.Vals = append(e.Vals, c17LabelVals[g.r.Intn(len(c17LabelVals))])
			}
		}
		switch g.r.Intn(40) {
		case 0:
			e.Op = g.str("in", "Gt", "", "Equals", "exists")
		case 1:
			if len(e.Vals) > 0 {
				e.Vals = []string{}
			} else {
				e.Vals = []string{"a"}
			}
		case 2:
			e.Key = badKey()
		case 3:
			e.Vals = append(e.Vals, badVal())
		}
		s.Me = append(s.Me, e)
	}
	return s
}

func (g c17Gen) probe() c17Probe {
	var p c17Probe
	cond := func() *c17AB {
		return &c17AB{c17CondTypes[g.r.Intn(len(c17CondTypes))], c17CondStatuses[g.r.Intn(len(c17CondStatuses))]}
	}
	fe := func() *c17AB {
		return &c17AB{c17Paths[g.r.Intn(len(c17Paths))], c17Paths[g.r.Intn(len(c17Paths))]}
	}
	cel := func() *c17AB {
		var c struct{ rule, cls string }
		for {
			c = c17CelPool[g.r.Intn(len(c17CelPool))]
			if c.cls == "bool" || g.chance(8) {
				break
			}
		}
		return &c17AB{c.rule, g.str("cel says no", "", "CEL program failed: fake", "a|b, c;d %")}
	}
	switch x := g.r.Intn(20); {
	case x < 7:
		p.Cond = cond()
	case x < 13:
		p.Fe = fe()
	case x < 17:
		p.Cel = cel()
	case x < 18: // no known config
	default: // several configs: the switch in ParseProbes decides
		if g.chance(2) {
			p.Fe = fe()
		}
		if g.chance(2) {
			p.Cond = cond()
		}
		if g.chance(2) {
			p.Cel = cel()
		}
	}
	return p
}

func (g c17Gen) spec() c17Spec {
	sp := c17Spec{Probes: []c17Probe{}}
	if !g.chance(4) {
		sp.Kind = g.pick(&c17Kind{"apps", "Deployment"}, &c17Kind{"apps", "Deployment"}, &c17Kind{"", "ConfigMap"},
			&c17Kind{"example.com", "Widget"}, &c17Kind{"", ""}, &c17Kind{"apps", "ConfigMap"}, &c17Kind{"", "Deployment"}).(*c17Kind)
	}
	if g.chance(2) {
		sp.Sel = g.selector()
	}
	n := g.r.Intn(5)
	for i := 0; i < n; i++ {
		sp.Probes = append(sp.Probes, g.probe())
	}
	return sp
}

func (g c17Gen) scenario() c17Scn {
	s := c17Scn{Specs: []c17Spec{}}
	n := 0
	switch x := g.r.Intn(20); {
	case x == 0:
	case x < 9:
		n = 1
	case x < 15:
		n = 2
	default:
		n = 3 + g.r.Intn(3)
	}
	for i := 0; i < n; i++ {
		s.Specs = append(s.Specs, g.spec())
	}
	s.Obj = c17ObjJSON(g.object())
	return s
}

// ---------------------------------------------------------------- small exhaustive tables

// c17Live adds the metadata a live object carries (probing must leave all of it alone).
func c17Live(md map[string]any) {
	md["uid"] = "7d2c1a52-0000-4000-8000-000000000001"
	md["resourceVersion"] = "4711"
	md["creationTimestamp"] = "2024-01-01T00:00:00Z"
	md["annotations"] = map[string]any{"package-operator.run/revision": "3"}
	md["finalizers"] = []any{"example.com/keep"}
	md["ownerReferences"] = []any{map[string]any{"apiVersion": "package-operator.run/v1alpha1", "kind": "ObjectSet", "name": "os1", "uid": "u1", "controller": true}}
	md["managedFields"] = []any{map[string]any{
		"manager": "package-operator", "operation": "Apply", "apiVersion": "apps/v1", "time": "2024-01-01T00:00:00Z",
		"fieldsType": "FieldsV1", "fieldsV1": map[string]any{"f:spec": map[string]any{"f:replicas": map[string]any{}}},
	}}
}

func c17BaseObj(gen any, status any) map[string]any {
	o := map[string]any{
		"apiVersion": "apps/v1", "kind": "Deployment",
		"metadata": map[string]any{"name": "x", "labels": map[string]any{"app": "a", "tier": "db"}},
		"spec":     map[string]any{"replicas": int64(2)},
	}
	c17Set(o["metadata"].(map[string]any), "generation", gen)
	c17Live(o["metadata"].(map[string]any))
	c17Set(o, "status", status)
	return o
}

func c17One(kind *c17Kind, sel *c17Sel, probes ...c17Probe) []c17Spec {
	if probes == nil {
		probes = []c17Probe{}
	}
	return []c17Spec{{Kind: kind, Sel: sel, Probes: probes}}
}

func c17Tables(thorough bool, emit func(c17Scn)) map[string]int {
	counts := map[string]int{}
	put := func(tbl string, specs []c17Spec, obj map[string]any) {
		counts[tbl]++
		emit(c17Scn{Specs: specs, Obj: c17ObjJSON(obj)})
	}
	dep := &c17Kind{"apps", "Deployment"}
	avail := c17Probe{Cond: &c17AB{"Available", "True"}}

	// T1: object-wide observedGeneration x generation x {no probes, one passing probe, one failing probe}
	gens := []any{c17Absent, int64(0), int64(2), 2.0, "2", nil}
	ogs := []any{c17Absent, int64(0), int64(1), int64(2), int64(3), 2.0, 1.0, "2", nil, map[string]any{}, []any{}}
	for _, gen := range gens {
		for _, og := range ogs {
			st := map[string]any{"conditions": []any{map[string]any{"type": "Available", "status": "True"}}}
			c17Set(st, "observedGeneration", og)
			put("T1", c17One(dep, nil), c17BaseObj(gen, st))
			put("T1", c17One(dep, nil, avail), c17BaseObj(gen, st))
			put("T1", c17One(nil, nil, c17Probe{Cond: &c17AB{"Available", "False"}}, c17Probe{}), c17BaseObj(gen, st))
		}
	}

	// T2: condition probe x every short list over the entry alphabet, plus non-list shapes
	entry := func(typ, status, og any) map[string]any {
		m := map[string]any{}
		c17Set(m, "type", typ)
		c17Set(m, "status", status)
		c17Set(m, "observedGeneration", og)
		return m
	}
	alphabet := []any{
		entry("Available", "True", c17Absent), entry("Available", "False", c17Absent),
		entry("Available", "True", int64(2)), entry("Available", "True", int64(1)), entry("Available", "False", int64(3)),
		entry("Available", "True", 2.0), entry("Available", "True", 1.0), entry("Available", "True", "1"), entry("Available", "True", nil),
		entry("Progressing", "True", c17Absent), entry("Progressing", "True", int64(1)),
		entry(int64(7), "True", c17Absent), entry(c17Absent, "True", c17Absent), entry(nil, "True", int64(1)),
		entry("Available", true, c17Absent), entry("Available", c17Absent, c17Absent), entry("Available", nil, int64(2)),
		"Available", nil, int64(1), []any{}, map[string]any{},
	}
	var lists [][]any
	lists = append(lists, []any{})
	maxLen := 2
	if thorough {
		maxLen = 3
	}
	var rec func(prefix []any)
	rec = func(prefix []any) {
		if len(prefix) > 0 {
			lists = append(lists, append([]any(nil), prefix...))
		}
		if len(prefix) == maxLen {
			return
		}
		for _, a := range alphabet {
			rec(append(prefix, a))
		}
	}
	rec(nil)
	for _, l := range lists {
		put("T2", c17One(dep, nil, avail), c17BaseObj(int64(2), map[string]any{"conditions": l}))
	}
	for _, st := range []any{c17Absent, nil, "Running", []any{}, int64(1), true, 1.5, map[string]any{},
		map[string]any{"conditions": nil}, map[string]any{"conditions": "x"}, map[string]any{"conditions": map[string]any{}},
		map[string]any{"conditions": int64(1)}, map[string]any{"conditions": map[string]any{"type": "Available", "status": "True"}}} {
		put("T2", c17One(dep, nil, avail), c17BaseObj(int64(2), st))
		put("T2", c17One(dep, nil, c17Probe{Fe: &c17AB{".status.conditions", ".status.conditions"}}), c17BaseObj(int64(2), st))
	}
	for _, typ := range c17CondTypes {
		for _, stt := range c17CondStatuses {
			st := map[string]any{"conditions": []any{entry("Available", "True", c17Absent), entry(typ, stt, int64(2)), entry("", "", c17Absent)}}
			for _, pt := range c17CondTypes {
				put("T2", c17One(nil, nil, c17Probe{Cond: &c17AB{pt, "True"}}, c17Probe{Cond: &c17AB{pt, stt}}), c17BaseObj(int64(2), st))
			}
		}
	}

	// T3: label selectors x label shapes
	labelShapes := []any{c17Absent, nil, "x", []any{}, map[string]any{}, map[string]any{"app": "a"}, map[string]any{"app": "b"},
		map[string]any{"app": ""}, map[string]any{"tier": "db"}, map[string]any{"app": "a", "tier": "db"},
		map[string]any{"app": "a", "tier": int64(1)}, map[string]any{"app": nil}}
	var sels []*c17Sel
	sels = append(sels, nil, &c17Sel{})
	for _, v := range []string{"a", "b", ""} {
		sels = append(sels, &c17Sel{Ml: []c17Pair{{"app", v}}})
	}
	sels = append(sels, &c17Sel{Ml: []c17Pair{{"app", "a"}, {"tier", "db"}}})
	for _, op := range []string{"In", "NotIn", "Exists", "DoesNotExist", "in", "Gt", ""} {
		for _, vals := range [][]string{{}, {"a"}, {"b", "a"}, {""}, {"a b"}} {
			sels = append(sels, &c17Sel{Me: []c17Expr{{Key: "app", Op: op, Vals: vals}}})
		}
	}
	for _, k := range []string{"-bad", "a/b/c", "", "Example.com/x", "example.com/x", "/x", "x/", strings.Repeat("k", 63), strings.Repeat("k", 64),
		"a.b-c_d", "a_", strings.Repeat("p", 253) + "/x", strings.Repeat("p", 254) + "/x", "ex..ample/x", "ex-.a/x", "1.2/x"} {
		sels = append(sels, &c17Sel{Me: []c17Expr{{Key: k, Op: "Exists"}}}, &c17Sel{Ml: []c17Pair{{k, "a"}}})
	}
	for _, v := range []string{strings.Repeat("v", 63), strings.Repeat("v", 64), "-x", "x-", "x.y_z-1", "X", "é"} {
		sels = append(sels, &c17Sel{Me: []c17Expr{{Key: "app", Op: "In", Vals: []string{v}}}}, &c17Sel{Ml: []c17Pair{{"app", v}}})
	}
	sels = append(sels, &c17Sel{Ml: []c17Pair{{"app", "a"}}, Me: []c17Expr{{Key: "tier", Op: "NotIn", Vals: []string{"db"}}, {Key: "app", Op: "Exists"}}})
	fail := c17Probe{Cond: &c17AB{"Nope", "True"}}
	for _, sel := range sels {
		for _, ls := range labelShapes {
			o := c17BaseObj(int64(1), map[string]any{})
			md := o["metadata"].(map[string]any)
			delete(md, "labels")
			c17Set(md, "labels", ls)
			put("T3", c17One(nil, sel, fail), o)
		}
	}
	for _, md := range []any{c17Absent, nil, "m", []any{}} {
		o := c17BaseObj(int64(1), map[string]any{"observedGeneration": int64(0)})
		delete(o, "metadata")
		c17Set(o, "metadata", md)
		put("T3", c17One(nil, &c17Sel{Me: []c17Expr{{Key: "app", Op: "DoesNotExist"}}}, fail), o)
		put("T3", c17One(nil, &c17Sel{Me: []c17Expr{{Key: "app", Op: "Exists"}}}, fail), o)
	}

	// T4: kind selectors x apiVersion x kind
	for _, k := range []*c17Kind{nil, {"apps", "Deployment"}, {"", "ConfigMap"}, {"example.com", "Widget"}, {"", ""}, {"", "Deployment"}, {"apps", ""}, {"a", "Deployment"}, {"a/b", "Deployment"}} {
		for _, av := range []any{"apps/v1", "v1", "example.com/v1", "a/b/c", "/", "", "apps/", "/v1", "a/b", c17Absent, int64(1), nil} {
			for _, kd := range []any{"Deployment", "ConfigMap", "Widget", "", c17Absent, int64(1)} {
				o := c17BaseObj(int64(1), map[string]any{})
				delete(o, "apiVersion")
				delete(o, "kind")
				c17Set(o, "apiVersion", av)
				c17Set(o, "kind", kd)
				put("T4", c17One(k, nil, fail), o)
			}
		}
	}

	// T5: fieldsEqual, all pairs of paths on two rich objects
	rich := func(alt bool) map[string]any {
		st := map[string]any{
			"observedGeneration": int64(2), "replicas": int64(2), "readyReplicas": int64(1), "f": 1.0, "nullish": nil,
			"nested": map[string]any{"a": []any{int64(1), nil, "x", 2.5}, "b": map[string]any{}}, "list": []any{int64(1), int64(2)}, "empty": []any{},
			"conditions": []any{map[string]any{"type": "Available", "status": "True"}},
		}
		sp := map[string]any{"replicas": int64(2), "f": int64(1), "nested": map[string]any{"b": map[string]any{}, "a": []any{int64(1), nil, "x", 2.5}},
			"list": []any{int64(1), 2.0}, "empty": map[string]any{}}
		if alt {
			st["updatedReplicas"] = int64(2)
			st["f"] = 1e21
			sp["f"] = 1e21
			sp["list"] = []any{int64(1), int64(2)}
			sp["empty"] = []any{}
			st["nested"] = map[string]any{"a": true}
			sp["nested"] = map[string]any{"a": false}
		}
		o := c17BaseObj(int64(2), st)
		o["spec"] = sp
		return o
	}
	for _, a := range c17Paths {
		for _, b := range c17Paths {
			put("T5", c17One(dep, nil, c17Probe{Fe: &c17AB{a, b}}), rich(false))
			if thorough || a <= b {
				put("T5", c17One(dep, nil, c17Probe{Fe: &c17AB{a, b}}), rich(true))
			}
		}
	}

	// T6: every CEL rule of the pool x objects; precedence of the three configs
	celObjs := []map[string]any{rich(false), rich(true), c17BaseObj(int64(1), c17Absent), c17BaseObj(c17Absent, "Running"), {}}
	for _, c := range c17CelPool {
		for _, o := range celObjs {
			put("T6", c17One(nil, nil, c17Probe{Cel: &c17AB{c.rule, "rule " + c.rule}}), o)
			put("T6", c17One(dep, nil, avail, c17Probe{Cel: &c17AB{c.rule, ""}}, c17Probe{Cel: &c17AB{"true", "t"}}), o)
		}
		put("T6", append(c17One(dep, nil, avail), c17One(nil, &c17Sel{Me: []c17Expr{{Key: "x", Op: "bad"}}}, c17Probe{Cel: &c17AB{c.rule, ""}})...), rich(false))
		put("T6", append(c17One(nil, &c17Sel{Me: []c17Expr{{Key: "x", Op: "bad"}}}), c17One(nil, nil, c17Probe{Cel: &c17AB{c.rule, ""}})...), rich(false))
	}
	for m := 0; m < 8; m++ {
		for _, rule := range []string{"false", "1 + 1", "self."} {
			var p c17Probe
			if m&1 != 0 {
				p.Fe = &c17AB{".spec.replicas", ".status.readyReplicas"}
			}
			if m&2 != 0 {
				p.Cond = &c17AB{"Available", "False"}
			}
			if m&4 != 0 {
				p.Cel = &c17AB{rule, "cel"}
			}
			put("T7", c17One(dep, nil, p, avail), rich(false))
		}
	}
	// T8: the empty list and lists of empty entries
	for _, o := range celObjs {
		put("T8", []c17Spec{}, o)
		put("T8", c17One(nil, nil), o)
		put("T8", []c17Spec{{Probes: []c17Probe{}}, {Probes: []c17Probe{{}, {}}}}, o)
	}
	return counts
}

// ---------------------------------------------------------------- test

func TestVerifC17(t *testing.T) {
	r := verifkit.Open(t, "C17")
	defer r.Close()
	seen := map[[20]byte]bool{}
	run := func(s c17Scn) {
		out := verifkit.Guard(func() string { return c17Exec(&s) })
		line, err := json.Marshal(s)
		if err != nil {
			t.Fatal(err)
		}
		h := sha1.Sum(line)
		if seen[h] {
			r.Extra["duplicates"] = r.Extra["duplicates"].(int) + 1
			return
		}
		seen[h] = true
		r.Emit(line, out, c17Tags(&s, out)...)
	}
	r.Extra["duplicates"] = 0
	for _, line := range r.Fixed() {
		var s c17Scn
		if err := json.Unmarshal([]byte(line), &s); err != nil {
			// shrink candidates may be ill-formed: report, do not abort the batch
			r.Emit(line, "BAD-SCENARIO "+verifkit.Esc(err.Error()), "bad-scenario")
			continue
		}
		run(s)
	}
	if r.ReplayOnly() {
		return
	}
	// NewCELProbe on the whole rule pool: the oracle-table consistency check of the monitor then
	// covers "CEL rules must be boolean" for every rule, independent of any probe list
	for _, c := range c17CelPool {
		run(c17Scn{Specs: c17One(nil, nil, c17Probe{Cel: &c17AB{c.rule, "m"}}), Obj: json.RawMessage(`{}`)})
	}
	counts := c17Tables(r.Thorough(), run)
	for k, v := range counts {
		r.Extra["table_"+k] = v
	}
	g := c17Gen{r.Rng}
	n := r.Pick(25000, 300000)
	for i := 0; i < n; i++ {
		run(g.scenario())
	}
	r.Extra["random"] = n
	r.Extra["cel_rules"] = len(c17CelPool)
}
