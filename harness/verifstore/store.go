// Package verifstore is an in-memory Kubernetes API stand-in used by the correspondence
// harnesses (injected into /repo by `go test -overlay`, never committed there).
//
// It implements client.Client (typed and unstructured objects), server-side apply with a single
// field manager, optimistic locking on resourceVersion, delete preconditions, finalizers and
// deletionTimestamp, dry-run, generation bumps on spec changes and "no-op writes leave the
// resourceVersion unchanged".  Its assumed semantics are listed in DESIGN.md §4 and are mirrored
// by lean/Pko/Kube/Store.lean; every correspondence run diffs the two.
//
// Everything that is non-deterministic in a real API server (uids, resourceVersions, timestamps)
// is a dense counter here, so the Go and the Lean side agree by construction.
package verifstore

import (
	"context"
	"encoding/json"
	"fmt"
	"reflect"
	"sort"
	"strconv"
	"strings"
	"sync"
	"time"

	jsonpatch "github.com/evanphx/json-patch/v5"
	apierrors "k8s.io/apimachinery/pkg/api/errors"
	"k8s.io/apimachinery/pkg/api/meta"
	metav1 "k8s.io/apimachinery/pkg/apis/meta/v1"
	"k8s.io/apimachinery/pkg/apis/meta/v1/unstructured"
	"k8s.io/apimachinery/pkg/runtime"
	"k8s.io/apimachinery/pkg/runtime/schema"
	"k8s.io/apimachinery/pkg/types"
	utiljson "k8s.io/apimachinery/pkg/util/json"
	"sigs.k8s.io/controller-runtime/pkg/client"
	"sigs.k8s.io/controller-runtime/pkg/client/apiutil"
)

// Key identifies an object independent of its API version.
type Key struct{ Group, Kind, Namespace, Name string }

func (k Key) String() string { return k.Group + "/" + k.Kind + "/" + k.Namespace + "/" + k.Name }

// Request is one mutating API request as seen by the store (reads are not logged here).
type Request struct {
	Verb   string // create | update | merge | jsonpatch | apply | delete | status
	Key    Key
	DryRun bool
	Force  bool
	Body   map[string]interface{} // request body (apply configuration / patch / object)
	PreUID *types.UID
	PreRV  *string
	// outcome
	Err     string // "" | NotFound | AlreadyExists | Conflict | Invalid | Forbidden | BadRequest | NoMatch | Injected...
	Changed bool
	Created bool
	Removed bool
	Before  *unstructured.Unstructured
	After   *unstructured.Unstructured
}

// Fault lets a scenario fail a request: before it takes effect, or after (lost response).
type Fault struct {
	Before error
	After  error
}

type managedSet struct {
	top         map[string]bool
	labels      map[string]bool
	annotations map[string]bool
	ownerUIDs   map[types.UID]bool
}

type Store struct {
	mu      sync.Mutex
	scheme  *runtime.Scheme
	scopes  map[schema.GroupKind]meta.RESTScopeName
	objs    map[Key]*unstructured.Unstructured
	managed map[Key]*managedSet
	nextUID int
	nextRV  int

	Log []*Request
	// BeforeWrite is called (without the store lock) right before a non-dry-run mutating request
	// is processed: third parties can be interleaved "between PKO's read and its write" here.
	BeforeWrite func(*Request)
	// InjectFault may fail a request.
	InjectFault func(*Request) Fault
	// DryRunVerdict scripts admission for dry-run requests (nil = accept).
	DryRunVerdict func(obj *unstructured.Unstructured) error
	// Reads counts Get/List calls (for "no reads" style assertions).
	Reads int
	// Calls counts every API call (Get, List and every mutating request incl. dry runs);
	// CallFault, if set, is asked with the 0-based index of the call (req == nil for reads) and may
	// fail it before or after it takes effect (C10: every API call is an injection point).
	Calls     int
	CallFault func(idx int, req *Request) Fault
	// MapperFault, if set, is asked on every REST-mapper lookup (the mapper handed to the preflight
	// checkers and the client's RESTMapper()); a non-nil error answers the lookup — a transient
	// discovery failure as opposed to "no such kind" (NoMatch), which is what an unregistered kind gives.
	// The API server itself (scopes, storage keys) is unaffected: only the lookup fails.
	MapperFault func(gk schema.GroupKind) error
}

// callFault numbers the call and asks the scenario's fault hook.
func (s *Store) callFault(req *Request) Fault {
	s.mu.Lock()
	idx := s.Calls
	s.Calls++
	hook := s.CallFault
	s.mu.Unlock()
	if hook == nil {
		return Fault{}
	}
	return hook(idx, req)
}

func New(scheme *runtime.Scheme) *Store {
	return &Store{
		scheme: scheme, scopes: map[schema.GroupKind]meta.RESTScopeName{},
		objs: map[Key]*unstructured.Unstructured{}, managed: map[Key]*managedSet{},
		nextUID: 1, nextRV: 1,
	}
}

// RegisterKind declares an API (kind + scope); unknown kinds have no REST mapping.
func (s *Store) RegisterKind(gk schema.GroupKind, namespaced bool) {
	if namespaced {
		s.scopes[gk] = meta.RESTScopeNameNamespace
	} else {
		s.scopes[gk] = meta.RESTScopeNameRoot
	}
}

func (s *Store) UnregisterKind(gk schema.GroupKind) { delete(s.scopes, gk) }

// DropKind removes every stored object of a GroupKind (all namespaces) without consuming uid /
// resourceVersion numbers: the API (CRD) is removed or re-registered and its objects go with it.
func (s *Store) DropKind(gk schema.GroupKind) {
	s.mu.Lock()
	defer s.mu.Unlock()
	for k := range s.objs {
		if k.Group == gk.Group && k.Kind == gk.Kind {
			delete(s.objs, k)
			delete(s.managed, k)
		}
	}
}

// ---------------------------------------------------------------- REST mapper

type mapper struct{ s *Store }

func (s *Store) Mapper() meta.RESTMapper { return mapper{s} }

func (m mapper) RESTMapping(gk schema.GroupKind, versions ...string) (*meta.RESTMapping, error) {
	if f := m.s.MapperFault; f != nil {
		if err := f(gk); err != nil {
			return nil, err
		}
	}
	sc, ok := m.s.scopes[gk]
	if !ok {
		return nil, &meta.NoKindMatchError{GroupKind: gk, SearchedVersions: versions}
	}
	v := "v1"
	if len(versions) > 0 && versions[0] != "" {
		v = versions[0]
	}
	var scope meta.RESTScope = meta.RESTScopeNamespace
	if sc == meta.RESTScopeNameRoot {
		scope = meta.RESTScopeRoot
	}
	return &meta.RESTMapping{
		Resource:         schema.GroupVersionResource{Group: gk.Group, Version: v, Resource: strings.ToLower(gk.Kind) + "s"},
		GroupVersionKind: gk.WithVersion(v), Scope: scope,
	}, nil
}
func (m mapper) RESTMappings(gk schema.GroupKind, versions ...string) ([]*meta.RESTMapping, error) {
	r, err := m.RESTMapping(gk, versions...)
	if err != nil {
		return nil, err
	}
	return []*meta.RESTMapping{r}, nil
}
func (m mapper) KindFor(r schema.GroupVersionResource) (schema.GroupVersionKind, error) {
	return schema.GroupVersionKind{}, fmt.Errorf("verifstore: KindFor not supported")
}
func (m mapper) KindsFor(r schema.GroupVersionResource) ([]schema.GroupVersionKind, error) {
	return nil, fmt.Errorf("verifstore: KindsFor not supported")
}
func (m mapper) ResourceFor(r schema.GroupVersionResource) (schema.GroupVersionResource, error) {
	return r, nil
}
func (m mapper) ResourcesFor(r schema.GroupVersionResource) ([]schema.GroupVersionResource, error) {
	return []schema.GroupVersionResource{r}, nil
}
func (m mapper) ResourceSingularizer(resource string) (string, error) { return resource, nil }

// ---------------------------------------------------------------- helpers

func (s *Store) toUnstructured(obj runtime.Object) (*unstructured.Unstructured, error) {
	if u, ok := obj.(*unstructured.Unstructured); ok {
		return u.DeepCopy(), nil
	}
	gvk, err := apiutil.GVKForObject(obj, s.scheme)
	if err != nil {
		return nil, err
	}
	m, err := runtime.DefaultUnstructuredConverter.ToUnstructured(obj)
	if err != nil {
		return nil, err
	}
	u := &unstructured.Unstructured{Object: m}
	u.SetGroupVersionKind(gvk)
	return u, nil
}

func (s *Store) into(u *unstructured.Unstructured, obj runtime.Object) error {
	if o, ok := obj.(*unstructured.Unstructured); ok {
		gvk := o.GroupVersionKind()
		o.Object = u.DeepCopy().Object
		if !gvk.Empty() && gvk.Version != "" {
			o.SetGroupVersionKind(gvk)
		}
		return nil
	}
	gvk, err := apiutil.GVKForObject(obj, s.scheme)
	if err != nil {
		return err
	}
	// zero the typed object first so that removed fields do not survive
	v := reflect.ValueOf(obj)
	if v.Kind() == reflect.Ptr {
		v.Elem().Set(reflect.Zero(v.Elem().Type()))
	}
	if err := runtime.DefaultUnstructuredConverter.FromUnstructured(u.DeepCopy().Object, obj); err != nil {
		return err
	}
	obj.GetObjectKind().SetGroupVersionKind(gvk)
	return nil
}

func (s *Store) keyOf(u *unstructured.Unstructured) Key {
	gvk := u.GroupVersionKind()
	k := Key{Group: gvk.Group, Kind: gvk.Kind, Namespace: u.GetNamespace(), Name: u.GetName()}
	if sc, ok := s.scopes[gvk.GroupKind()]; ok && sc == meta.RESTScopeNameRoot {
		k.Namespace = "" // cluster-scoped: a namespace in the request is ignored (cleared)
	}
	return k
}

func (s *Store) keyFor(gvk schema.GroupVersionKind, nn types.NamespacedName) Key {
	k := Key{Group: gvk.Group, Kind: gvk.Kind, Namespace: nn.Namespace, Name: nn.Name}
	if sc, ok := s.scopes[gvk.GroupKind()]; ok && sc == meta.RESTScopeNameRoot {
		k.Namespace = ""
	}
	return k
}

func notFound(k Key) error {
	return apierrors.NewNotFound(schema.GroupResource{Group: k.Group, Resource: strings.ToLower(k.Kind) + "s"}, k.Name)
}

func conflict(k Key, msg string) error {
	return apierrors.NewConflict(schema.GroupResource{Group: k.Group, Resource: strings.ToLower(k.Kind) + "s"}, k.Name, fmt.Errorf("%s", msg))
}

func errClass(err error) string {
	switch {
	case err == nil:
		return ""
	case apierrors.IsNotFound(err):
		return "NotFound"
	case apierrors.IsAlreadyExists(err):
		return "AlreadyExists"
	case apierrors.IsConflict(err):
		return "Conflict"
	case apierrors.IsInvalid(err):
		return "Invalid"
	case apierrors.IsForbidden(err):
		return "Forbidden"
	case apierrors.IsBadRequest(err):
		return "BadRequest"
	case meta.IsNoMatchError(err):
		return "NoMatch"
	default:
		return "Error"
	}
}

func stripVolatile(m map[string]interface{}) {
	if md, ok := m["metadata"].(map[string]interface{}); ok {
		delete(md, "managedFields")
		delete(md, "creationTimestamp")
		// empty maps / lists are not persisted by the API server
		for _, f := range []string{"labels", "annotations", "ownerReferences", "finalizers"} {
			switch v := md[f].(type) {
			case nil:
				delete(md, f)
			case map[string]interface{}:
				if len(v) == 0 {
					delete(md, f)
				}
			case []interface{}:
				if len(v) == 0 {
					delete(md, f)
				}
			}
		}
		if len(md) == 0 {
			delete(m, "metadata")
		}
	}
}

// sameIgnoringRV compares two stored objects ignoring resourceVersion and generation.
func sameIgnoringRV(a, b *unstructured.Unstructured) bool {
	x, y := a.DeepCopy(), b.DeepCopy()
	for _, o := range []*unstructured.Unstructured{x, y} {
		o.SetResourceVersion("")
		o.SetGeneration(0)
	}
	return reflect.DeepEqual(normalize(x.Object), normalize(y.Object))
}

func normalize(v interface{}) interface{} {
	b, _ := json.Marshal(v)
	var out interface{}
	_ = json.Unmarshal(b, &out)
	return out
}

func specChanged(a, b *unstructured.Unstructured) bool {
	x, y := a.DeepCopy().Object, b.DeepCopy().Object
	for _, m := range []map[string]interface{}{x, y} {
		delete(m, "metadata")
		delete(m, "status")
	}
	return !reflect.DeepEqual(normalize(x), normalize(y))
}

// commit stores `next` as the new state of key k (prev may be nil for a create).
// Handles resourceVersion, generation and finalizer-driven removal.  Caller holds the lock.
func (s *Store) commit(k Key, prev, next *unstructured.Unstructured, req *Request) *unstructured.Unstructured {
	stripVolatile(next.Object)
	if prev == nil {
		next.SetUID(types.UID("uid-" + strconv.Itoa(s.nextUID)))
		s.nextUID++
		next.SetGeneration(1)
		next.SetResourceVersion(strconv.Itoa(s.nextRV))
		s.nextRV++
		next.SetDeletionTimestamp(nil)
		s.objs[k] = next
		req.Changed, req.Created = true, true
		return next
	}
	// immutable / server-owned metadata
	next.SetUID(prev.GetUID())
	next.SetDeletionTimestamp(prev.GetDeletionTimestamp())
	next.SetGeneration(prev.GetGeneration())
	next.SetResourceVersion(prev.GetResourceVersion())
	if prev.GetDeletionTimestamp() != nil && len(next.GetFinalizers()) == 0 {
		delete(s.objs, k)
		delete(s.managed, k)
		req.Changed, req.Removed = true, true
		return next
	}
	if sameIgnoringRV(prev, next) {
		return prev // no-op write: resourceVersion unchanged
	}
	if specChanged(prev, next) {
		next.SetGeneration(prev.GetGeneration() + 1)
	}
	next.SetResourceVersion(strconv.Itoa(s.nextRV))
	s.nextRV++
	s.objs[k] = next
	req.Changed = true
	return next
}

var fixedTime = metav1.NewTime(time.Date(2020, 1, 1, 0, 0, 0, 0, time.UTC))

// do runs one mutating request through hooks, fault injection and logging.
func (s *Store) do(req *Request, f func() (*unstructured.Unstructured, error)) (*unstructured.Unstructured, error) {
	if !req.DryRun && s.BeforeWrite != nil {
		s.BeforeWrite(req)
	}
	var fault Fault
	if s.InjectFault != nil {
		fault = s.InjectFault(req)
	}
	if cf := s.callFault(req); cf.Before != nil || cf.After != nil {
		fault = cf
	}
	s.mu.Lock()
	defer s.mu.Unlock()
	s.Log = append(s.Log, req)
	if fault.Before != nil {
		req.Err = "Injected"
		return nil, fault.Before
	}
	if cur, ok := s.objs[req.Key]; ok {
		req.Before = cur.DeepCopy()
	}
	out, err := f()
	req.Err = errClass(err)
	if err == nil && out != nil {
		req.After = out.DeepCopy()
	}
	if err == nil && fault.After != nil {
		req.Err = "InjectedAfter"
		return nil, fault.After
	}
	return out, err
}

// ---------------------------------------------------------------- direct (third party / test) access

// Snapshot returns deep copies of all objects sorted by key.
func (s *Store) Snapshot() []*unstructured.Unstructured {
	s.mu.Lock()
	defer s.mu.Unlock()
	keys := make([]Key, 0, len(s.objs))
	for k := range s.objs {
		keys = append(keys, k)
	}
	sort.Slice(keys, func(i, j int) bool { return keys[i].String() < keys[j].String() })
	out := make([]*unstructured.Unstructured, 0, len(keys))
	for _, k := range keys {
		out = append(out, s.objs[k].DeepCopy())
	}
	return out
}

// Peek returns a copy of the stored object or nil.
func (s *Store) Peek(k Key) *unstructured.Unstructured {
	s.mu.Lock()
	defer s.mu.Unlock()
	if sc, ok := s.scopes[schema.GroupKind{Group: k.Group, Kind: k.Kind}]; ok && sc == meta.RESTScopeNameRoot {
		k.Namespace = ""
	}
	if o, ok := s.objs[k]; ok {
		return o.DeepCopy()
	}
	return nil
}

// Mutate lets a third party edit an object in place (bumps resourceVersion / generation like
// any other write, honours finalizers).  Returns false if the object does not exist.
func (s *Store) Mutate(k Key, f func(u *unstructured.Unstructured)) bool {
	s.mu.Lock()
	defer s.mu.Unlock()
	if sc, ok := s.scopes[schema.GroupKind{Group: k.Group, Kind: k.Kind}]; ok && sc == meta.RESTScopeNameRoot {
		k.Namespace = ""
	}
	cur, ok := s.objs[k]
	if !ok {
		return false
	}
	next := cur.DeepCopy()
	f(next)
	s.commit(k, cur, next, &Request{})
	return true
}

// Put creates an object as a third party would (no field manager recorded).
func (s *Store) Put(u *unstructured.Unstructured) *unstructured.Unstructured {
	s.mu.Lock()
	defer s.mu.Unlock()
	k := s.keyOf(u)
	next := u.DeepCopy()
	if sc, ok := s.scopes[schema.GroupKind{Group: k.Group, Kind: k.Kind}]; ok && sc == meta.RESTScopeNameRoot {
		next.SetNamespace("")
	}
	var prev *unstructured.Unstructured
	if p, ok := s.objs[k]; ok {
		prev = p
	}
	return s.commit(k, prev, next, &Request{}).DeepCopy()
}

// PutQuiet stores a fixture object without consuming uid / resourceVersion numbers
// (for objects that exist in the harness only, e.g. the Namespace).
func (s *Store) PutQuiet(u *unstructured.Unstructured) {
	s.mu.Lock()
	defer s.mu.Unlock()
	next := u.DeepCopy()
	next.SetUID("fixture")
	next.SetResourceVersion("0")
	s.objs[s.keyOf(u)] = next
}

// Remove deletes an object as the garbage collector / a third party would (honours finalizers).
func (s *Store) Remove(k Key) {
	s.mu.Lock()
	defer s.mu.Unlock()
	if sc, ok := s.scopes[schema.GroupKind{Group: k.Group, Kind: k.Kind}]; ok && sc == meta.RESTScopeNameRoot {
		k.Namespace = ""
	}
	s.deleteLocked(k, &Request{})
}

func (s *Store) deleteLocked(k Key, req *Request) {
	cur, ok := s.objs[k]
	if !ok {
		return
	}
	if len(cur.GetFinalizers()) > 0 {
		if cur.GetDeletionTimestamp() == nil {
			next := cur.DeepCopy()
			t := fixedTime
			next.SetDeletionTimestamp(&t)
			next.SetResourceVersion(strconv.Itoa(s.nextRV))
			s.nextRV++
			s.objs[k] = next
			req.Changed = true
		}
		return
	}
	delete(s.objs, k)
	delete(s.managed, k)
	req.Changed, req.Removed = true, true
}

// ---------------------------------------------------------------- client.Client

type Client struct{ s *Store }

func (s *Store) Client() *Client { return &Client{s} }

var _ client.Client = (*Client)(nil)

func (c *Client) Scheme() *runtime.Scheme     { return c.s.scheme }
func (c *Client) RESTMapper() meta.RESTMapper { return c.s.Mapper() }
func (c *Client) GroupVersionKindFor(obj runtime.Object) (schema.GroupVersionKind, error) {
	return apiutil.GVKForObject(obj, c.s.scheme)
}
func (c *Client) IsObjectNamespaced(obj runtime.Object) (bool, error) {
	gvk, err := apiutil.GVKForObject(obj, c.s.scheme)
	if err != nil {
		return false, err
	}
	sc, ok := c.s.scopes[gvk.GroupKind()]
	if !ok {
		return false, &meta.NoKindMatchError{GroupKind: gvk.GroupKind()}
	}
	return sc == meta.RESTScopeNameNamespace, nil
}

func (c *Client) Get(_ context.Context, key client.ObjectKey, obj client.Object, _ ...client.GetOption) error {
	gvk, err := apiutil.GVKForObject(obj, c.s.scheme)
	if err != nil {
		return err
	}
	if cf := c.s.callFault(nil); cf.Before != nil {
		return cf.Before
	} else if cf.After != nil {
		return cf.After
	}
	c.s.mu.Lock()
	defer c.s.mu.Unlock()
	c.s.Reads++
	k := c.s.keyFor(gvk, key)
	cur, ok := c.s.objs[k]
	if !ok {
		return notFound(k)
	}
	out := cur.DeepCopy()
	out.SetGroupVersionKind(gvk)
	return c.s.into(out, obj)
}

func (c *Client) List(_ context.Context, list client.ObjectList, opts ...client.ListOption) error {
	gvk, err := apiutil.GVKForObject(list, c.s.scheme)
	if err != nil {
		return err
	}
	gvk.Kind = strings.TrimSuffix(gvk.Kind, "List")
	lo := client.ListOptions{}
	lo.ApplyOptions(opts)
	if cf := c.s.callFault(nil); cf.Before != nil {
		return cf.Before
	} else if cf.After != nil {
		return cf.After
	}
	c.s.mu.Lock()
	defer c.s.mu.Unlock()
	c.s.Reads++
	var items []*unstructured.Unstructured
	for k, o := range c.s.objs {
		if k.Group != gvk.Group || k.Kind != gvk.Kind {
			continue
		}
		if lo.Namespace != "" && k.Namespace != lo.Namespace {
			continue
		}
		if lo.LabelSelector != nil && !lo.LabelSelector.Matches(labelSet(o.GetLabels())) {
			continue
		}
		cp := o.DeepCopy()
		cp.SetGroupVersionKind(gvk)
		items = append(items, cp)
	}
	sort.Slice(items, func(i, j int) bool {
		return items[i].GetNamespace()+"/"+items[i].GetName() < items[j].GetNamespace()+"/"+items[j].GetName()
	})
	if ul, ok := list.(*unstructured.UnstructuredList); ok {
		ul.Items = nil
		for _, it := range items {
			ul.Items = append(ul.Items, *it)
		}
		return nil
	}
	// typed list: build via JSON round trip
	arr := make([]interface{}, 0, len(items))
	for _, it := range items {
		arr = append(arr, it.Object)
	}
	m := map[string]interface{}{"apiVersion": gvk.GroupVersion().String(), "kind": gvk.Kind + "List", "items": arr}
	v := reflect.ValueOf(list)
	if v.Kind() == reflect.Ptr {
		v.Elem().Set(reflect.Zero(v.Elem().Type()))
	}
	return runtime.DefaultUnstructuredConverter.FromUnstructured(m, list)
}

type labelSet map[string]string

func (l labelSet) Has(k string) bool   { _, ok := l[k]; return ok }
func (l labelSet) Get(k string) string { return l[k] }
func (l labelSet) Lookup(k string) (string, bool) {
	v, ok := l[k]
	return v, ok
}

func hasDryRun(dr []string) bool { return len(dr) > 0 }

func (c *Client) Create(_ context.Context, obj client.Object, opts ...client.CreateOption) error {
	co := client.CreateOptions{}
	co.ApplyOptions(opts)
	u, err := c.s.toUnstructured(obj)
	if err != nil {
		return err
	}
	stripVolatile(u.Object)
	req := &Request{Verb: "create", Key: c.s.keyOf(u), DryRun: hasDryRun(co.DryRun), Body: u.DeepCopy().Object}
	out, err := c.s.do(req, func() (*unstructured.Unstructured, error) {
		if _, ok := c.s.scopes[u.GroupVersionKind().GroupKind()]; !ok {
			return nil, &meta.NoKindMatchError{GroupKind: u.GroupVersionKind().GroupKind()}
		}
		if _, ok := c.s.objs[req.Key]; ok {
			return nil, apierrors.NewAlreadyExists(schema.GroupResource{Group: req.Key.Group, Resource: strings.ToLower(req.Key.Kind) + "s"}, req.Key.Name)
		}
		if req.DryRun {
			if c.s.DryRunVerdict != nil {
				if err := c.s.DryRunVerdict(u); err != nil {
					return nil, err
				}
			}
			return u, nil
		}
		next := u.DeepCopy()
		next.SetNamespace(req.Key.Namespace)
		unstructured.RemoveNestedField(next.Object, "status")
		return c.s.commit(req.Key, nil, next, req), nil
	})
	if err != nil {
		return err
	}
	return c.s.into(out, obj)
}

func (c *Client) Update(_ context.Context, obj client.Object, opts ...client.UpdateOption) error {
	uo := client.UpdateOptions{}
	uo.ApplyOptions(opts)
	u, err := c.s.toUnstructured(obj)
	if err != nil {
		return err
	}
	stripVolatile(u.Object)
	req := &Request{Verb: "update", Key: c.s.keyOf(u), DryRun: hasDryRun(uo.DryRun), Body: u.DeepCopy().Object}
	out, err := c.s.do(req, func() (*unstructured.Unstructured, error) {
		cur, ok := c.s.objs[req.Key]
		if !ok {
			return nil, notFound(req.Key)
		}
		if rv := u.GetResourceVersion(); rv != "" && rv != cur.GetResourceVersion() {
			return nil, conflict(req.Key, "the object has been modified")
		}
		next := u.DeepCopy()
		next.SetNamespace(req.Key.Namespace)
		// status is a subresource: Update never changes it
		if st, ok := cur.Object["status"]; ok {
			next.Object["status"] = runtime.DeepCopyJSONValue(st)
		} else {
			delete(next.Object, "status")
		}
		if req.DryRun {
			return next, nil
		}
		return c.s.commit(req.Key, cur, next, req), nil
	})
	if err != nil {
		return err
	}
	return c.s.into(out, obj)
}

func (c *Client) Delete(_ context.Context, obj client.Object, opts ...client.DeleteOption) error {
	do := client.DeleteOptions{}
	do.ApplyOptions(opts)
	u, err := c.s.toUnstructured(obj)
	if err != nil {
		return err
	}
	req := &Request{Verb: "delete", Key: c.s.keyOf(u), DryRun: hasDryRun(do.DryRun)}
	if do.Preconditions != nil {
		req.PreUID, req.PreRV = do.Preconditions.UID, do.Preconditions.ResourceVersion
	}
	_, err = c.s.do(req, func() (*unstructured.Unstructured, error) {
		cur, ok := c.s.objs[req.Key]
		if !ok {
			return nil, notFound(req.Key)
		}
		if req.PreUID != nil && *req.PreUID != cur.GetUID() {
			return nil, conflict(req.Key, "precondition failed: UID")
		}
		if req.PreRV != nil && *req.PreRV != cur.GetResourceVersion() {
			return nil, conflict(req.Key, "precondition failed: ResourceVersion")
		}
		if !req.DryRun {
			c.s.deleteLocked(req.Key, req)
		}
		return nil, nil
	})
	return err
}

func (c *Client) DeleteAllOf(context.Context, client.Object, ...client.DeleteAllOfOption) error {
	panic("verifstore: DeleteAllOf not supported")
}

func (c *Client) Patch(_ context.Context, obj client.Object, patch client.Patch, opts ...client.PatchOption) error {
	po := client.PatchOptions{}
	po.ApplyOptions(opts)
	return c.patch(obj, patch, hasDryRun(po.DryRun), po.Force != nil && *po.Force, false)
}

func (c *Client) patch(obj client.Object, patch client.Patch, dryRun, force, statusOnly bool) error {
	u, err := c.s.toUnstructured(obj)
	if err != nil {
		return err
	}
	data, err := patch.Data(obj)
	if err != nil {
		return err
	}
	var body map[string]interface{}
	var bodyAny interface{}
	_ = json.Unmarshal(data, &bodyAny)
	body, _ = bodyAny.(map[string]interface{})
	verb := map[types.PatchType]string{types.MergePatchType: "merge", types.JSONPatchType: "jsonpatch",
		types.ApplyPatchType: "apply", types.StrategicMergePatchType: "merge"}[patch.Type()]
	if statusOnly {
		verb = "status-" + verb
	}
	req := &Request{Verb: verb, Key: c.s.keyOf(u), DryRun: dryRun, Force: force, Body: body}
	if body == nil && bodyAny != nil {
		req.Body = map[string]interface{}{"ops": bodyAny}
	}
	out, err := c.s.do(req, func() (*unstructured.Unstructured, error) {
		gk := u.GroupVersionKind().GroupKind()
		if _, ok := c.s.scopes[gk]; !ok {
			return nil, notFound(req.Key) // the real API answers 404 for an unknown resource path
		}
		cur, exists := c.s.objs[req.Key]
		switch patch.Type() {
		case types.ApplyPatchType:
			return c.s.apply(req, u.GroupVersionKind(), cur, body)
		case types.MergePatchType, types.StrategicMergePatchType, types.JSONPatchType:
			if !exists {
				return nil, notFound(req.Key)
			}
			curJSON, _ := json.Marshal(cur.Object)
			var nextJSON []byte
			if patch.Type() == types.JSONPatchType {
				p, err := jsonpatch.DecodePatch(data)
				if err != nil {
					return nil, apierrors.NewBadRequest(err.Error())
				}
				nextJSON, err = p.Apply(curJSON)
				if err != nil {
					return nil, apierrors.NewInvalid(schema.GroupKind{Group: req.Key.Group, Kind: req.Key.Kind}, req.Key.Name, nil)
				}
			} else {
				var err error
				nextJSON, err = jsonpatch.MergePatch(curJSON, data)
				if err != nil {
					return nil, apierrors.NewBadRequest(err.Error())
				}
			}
			next := &unstructured.Unstructured{}
			// apimachinery's Unmarshal keeps integral numbers as int64 (like the API machinery does)
			if err := utiljson.Unmarshal(nextJSON, &next.Object); err != nil {
				return nil, apierrors.NewBadRequest(err.Error())
			}
			// optimistic lock: a resourceVersion in the patch must match
			if md, ok := body["metadata"].(map[string]interface{}); ok {
				if rv, ok := md["resourceVersion"].(string); ok && rv != "" && rv != cur.GetResourceVersion() {
					return nil, conflict(req.Key, "the object has been modified")
				}
			}
			if statusOnly {
				n2 := cur.DeepCopy()
				if st, ok := next.Object["status"]; ok {
					n2.Object["status"] = st
				} else {
					delete(n2.Object, "status")
				}
				next = n2
			} else if st, ok := cur.Object["status"]; ok {
				next.Object["status"] = runtime.DeepCopyJSONValue(st)
			} else {
				delete(next.Object, "status")
			}
			if dryRun {
				return next, nil
			}
			return c.s.commit(req.Key, cur, next, req), nil
		}
		return nil, apierrors.NewBadRequest("unsupported patch type")
	})
	if err != nil {
		return err
	}
	return c.s.into(out, obj)
}

// apply implements server-side apply for one field manager with force semantics.
func (s *Store) apply(req *Request, gvk schema.GroupVersionKind, cur *unstructured.Unstructured, body map[string]interface{}) (*unstructured.Unstructured, error) {
	if body == nil {
		return nil, apierrors.NewBadRequest("empty apply configuration")
	}
	applied := &unstructured.Unstructured{Object: runtime.DeepCopyJSON(body)}
	stripVolatile(applied.Object)
	if req.DryRun && s.DryRunVerdict != nil {
		if err := s.DryRunVerdict(applied); err != nil {
			return nil, err
		}
	}
	ms := &managedSet{top: map[string]bool{}, labels: map[string]bool{}, annotations: map[string]bool{}, ownerUIDs: map[types.UID]bool{}}
	for f := range applied.Object {
		if f != "metadata" && f != "status" && f != "apiVersion" && f != "kind" {
			ms.top[f] = true
		}
	}
	for l := range applied.GetLabels() {
		ms.labels[l] = true
	}
	for a := range applied.GetAnnotations() {
		ms.annotations[a] = true
	}
	for _, r := range applied.GetOwnerReferences() {
		ms.ownerUIDs[r.UID] = true
	}
	if cur == nil {
		next := applied.DeepCopy()
		next.SetGroupVersionKind(gvk)
		next.SetNamespace(req.Key.Namespace)
		next.SetResourceVersion("")
		next.SetUID("")
		unstructured.RemoveNestedField(next.Object, "status")
		if req.DryRun {
			return next, nil
		}
		out := s.commit(req.Key, nil, next, req)
		s.managed[req.Key] = ms
		return out, nil
	}
	old := s.managed[req.Key]
	if old == nil {
		old = &managedSet{top: map[string]bool{}, labels: map[string]bool{}, annotations: map[string]bool{}, ownerUIDs: map[types.UID]bool{}}
	}
	next := cur.DeepCopy()
	for f := range ms.top {
		next.Object[f] = runtime.DeepCopyJSONValue(applied.Object[f])
	}
	for f := range old.top {
		if !ms.top[f] {
			delete(next.Object, f)
		}
	}
	labels := next.GetLabels()
	if labels == nil {
		labels = map[string]string{}
	}
	for l, v := range applied.GetLabels() {
		labels[l] = v
	}
	for l := range old.labels {
		if !ms.labels[l] {
			delete(labels, l)
		}
	}
	if len(labels) == 0 {
		labels = nil
	}
	next.SetLabels(labels)
	ann := next.GetAnnotations()
	if ann == nil {
		ann = map[string]string{}
	}
	for a, v := range applied.GetAnnotations() {
		ann[a] = v
	}
	for a := range old.annotations {
		if !ms.annotations[a] {
			delete(ann, a)
		}
	}
	if len(ann) == 0 {
		ann = nil
	}
	next.SetAnnotations(ann)
	// ownerReferences: associative list keyed by uid
	var refs []metav1.OwnerReference
	appliedRefs := applied.GetOwnerReferences()
	for _, r := range cur.GetOwnerReferences() {
		if old.ownerUIDs[r.UID] && !ms.ownerUIDs[r.UID] {
			continue // previously applied by us and now dropped from the configuration
		}
		replaced := false
		for _, a := range appliedRefs {
			if a.UID == r.UID {
				refs = append(refs, a)
				replaced = true
				break
			}
		}
		if !replaced {
			refs = append(refs, r)
		}
	}
	for _, a := range appliedRefs {
		found := false
		for _, r := range cur.GetOwnerReferences() {
			if r.UID == a.UID {
				found = true
				break
			}
		}
		if !found {
			refs = append(refs, a)
		}
	}
	if len(refs) == 0 {
		refs = nil
	}
	next.SetOwnerReferences(refs)
	if req.DryRun {
		return next, nil
	}
	out := s.commit(req.Key, cur, next, req)
	if _, still := s.objs[req.Key]; still {
		s.managed[req.Key] = ms
	}
	return out, nil
}

// ---------------------------------------------------------------- status subresource

type statusWriter struct{ c *Client }

func (c *Client) Status() client.SubResourceWriter { return statusWriter{c} }
func (c *Client) SubResource(name string) client.SubResourceClient {
	if name == "status" {
		return subResourceClient{statusWriter{c}}
	}
	panic("verifstore: subresource " + name + " not supported")
}

type subResourceClient struct{ statusWriter }

func (subResourceClient) Get(context.Context, client.Object, client.Object, ...client.SubResourceGetOption) error {
	panic("verifstore: SubResource Get not supported")
}

func (w statusWriter) Create(context.Context, client.Object, client.Object, ...client.SubResourceCreateOption) error {
	panic("verifstore: status Create not supported")
}

func (w statusWriter) Update(_ context.Context, obj client.Object, opts ...client.SubResourceUpdateOption) error {
	c := w.c
	u, err := c.s.toUnstructured(obj)
	if err != nil {
		return err
	}
	req := &Request{Verb: "status", Key: c.s.keyOf(u), Body: u.DeepCopy().Object}
	out, err := c.s.do(req, func() (*unstructured.Unstructured, error) {
		cur, ok := c.s.objs[req.Key]
		if !ok {
			return nil, notFound(req.Key)
		}
		if rv := u.GetResourceVersion(); rv != "" && rv != cur.GetResourceVersion() {
			return nil, conflict(req.Key, "the object has been modified")
		}
		next := cur.DeepCopy()
		if st, ok := u.Object["status"]; ok {
			next.Object["status"] = runtime.DeepCopyJSONValue(st)
		} else {
			delete(next.Object, "status")
		}
		return c.s.commit(req.Key, cur, next, req), nil
	})
	if err != nil {
		return err
	}
	return c.s.into(out, obj)
}

func (w statusWriter) Patch(_ context.Context, obj client.Object, patch client.Patch, opts ...client.SubResourcePatchOption) error {
	return w.c.patch(obj, patch, false, false, true)
}
