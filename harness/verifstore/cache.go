package verifstore

import (
	"context"
	"sort"
	"strings"

	"k8s.io/apimachinery/pkg/apis/meta/v1/unstructured"
	"k8s.io/apimachinery/pkg/runtime"
	"k8s.io/apimachinery/pkg/runtime/schema"
	"sigs.k8s.io/controller-runtime/pkg/client"
	"sigs.k8s.io/controller-runtime/pkg/client/apiutil"
	"sigs.k8s.io/controller-runtime/pkg/handler"
	"sigs.k8s.io/controller-runtime/pkg/predicate"
	"sigs.k8s.io/controller-runtime/pkg/source"
)

const CacheLabel = "package-operator.run/cache"

// CacheNotStarted mirrors dynamiccache.CacheNotStartedError.
type CacheNotStarted struct{}

func (CacheNotStarted) Error() string {
	return "cache access before calling Watch, can not read objects"
}

// Cache is the stand-in for dynamiccache.Cache: a FRESH view of the store restricted to watched
// kinds and to objects carrying the cache label (DESIGN.md §4).  Restart() drops all watches.
type Cache struct {
	s       *Store
	watches map[schema.GroupKind]map[string]bool // kind -> owner ids
	// WatchLog records Watch calls ("owner kind").
	WatchLog []string
	// FailWatch makes the next Watch calls fail.
	FailWatch func(owner client.Object, gk schema.GroupKind) error
}

func (s *Store) NewCache() *Cache {
	return &Cache{s: s, watches: map[schema.GroupKind]map[string]bool{}}
}

func ownerID(o client.Object) string {
	return string(o.GetUID()) + "/" + o.GetNamespace() + "/" + o.GetName()
}

func (c *Cache) Watch(_ context.Context, owner client.Object, obj runtime.Object) error {
	gvk, err := apiutil.GVKForObject(obj, c.s.scheme)
	if err != nil {
		return err
	}
	gk := gvk.GroupKind()
	if c.FailWatch != nil {
		if err := c.FailWatch(owner, gk); err != nil {
			return err
		}
	}
	if c.watches[gk] == nil {
		c.watches[gk] = map[string]bool{}
	}
	c.watches[gk][ownerID(owner)] = true
	c.WatchLog = append(c.WatchLog, owner.GetName()+" "+gk.Kind)
	return nil
}

func (c *Cache) Free(_ context.Context, owner client.Object) error {
	id := ownerID(owner)
	for gk, os := range c.watches {
		delete(os, id)
		if len(os) == 0 {
			delete(c.watches, gk)
		}
	}
	return nil
}

// Restart forgets every watch (operator restart: the dynamic cache is in-memory only).
func (c *Cache) Restart() { c.watches = map[schema.GroupKind]map[string]bool{} }

// Watched lists "kind:owner,owner" entries, sorted.
func (c *Cache) Watched() []string {
	var out []string
	for gk, os := range c.watches {
		var ids []string
		for id := range os {
			ids = append(ids, id)
		}
		sort.Strings(ids)
		out = append(out, gk.Kind+":"+strings.Join(ids, ","))
	}
	sort.Strings(out)
	return out
}

func (c *Cache) Source(handler.EventHandler, ...predicate.Predicate) source.Source { return nil }

func (c *Cache) OwnersForGKV(schema.GroupVersionKind) []string { return nil }

func (c *Cache) Get(ctx context.Context, key client.ObjectKey, obj client.Object, opts ...client.GetOption) error {
	gvk, err := apiutil.GVKForObject(obj, c.s.scheme)
	if err != nil {
		return err
	}
	if _, ok := c.watches[gvk.GroupKind()]; !ok {
		return &CacheNotStarted{}
	}
	tmp := &unstructured.Unstructured{}
	tmp.SetGroupVersionKind(gvk)
	if err := c.s.Client().Get(ctx, key, tmp); err != nil {
		return err
	}
	if tmp.GetLabels()[CacheLabel] != "True" {
		return notFound(c.s.keyFor(gvk, key))
	}
	return c.s.into(tmp, obj)
}

func (c *Cache) List(ctx context.Context, list client.ObjectList, opts ...client.ListOption) error {
	gvk, err := apiutil.GVKForObject(list, c.s.scheme)
	if err != nil {
		return err
	}
	gvk.Kind = strings.TrimSuffix(gvk.Kind, "List")
	if _, ok := c.watches[gvk.GroupKind()]; !ok {
		return &CacheNotStarted{}
	}
	opts = append(opts, client.MatchingLabels{CacheLabel: "True"})
	return c.s.Client().List(ctx, list, opts...)
}
