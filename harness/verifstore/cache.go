package verifstore

import (
	"context"
	"sort"
	"strings"

	"k8s.io/apimachinery/pkg/apis/meta/v1/unstructured"
	"k8s.io/apimachinery/pkg/runtime"
	"k8s.io/apimachinery/pkg/runtime/schema"
	"sigs.k8s.io/controller-runtime/pkg/client"
	"sigs.k8s.io/controller-runtime/pkg/client/apiutil"
	"sigs.k8s.io/controller-runtime/pkg/handler"
	"sigs.k8s.io/controller-runtime/pkg/predicate"
	"sigs.k8s.io/controller-runtime/pkg/source"

	"package-operator.run/internal/dynamiccache"
)

const CacheLabel = "package-operator.run/cache"

// CacheNotStarted IS dynamiccache.CacheNotStartedError: reads of a GVK nobody watches in this
// process fail with the very error value the real cache returns.
type CacheNotStarted = dynamiccache.CacheNotStartedError

// Cache is the stand-in for dynamiccache.Cache: a FRESH view of the store restricted to watched
// kinds and to objects carrying the cache label (DESIGN.md §4).
//
// Like the real cache it keeps, IN THE MEMORY OF THE OPERATOR PROCESS, who watches what
// (dynamiccache.Cache.informerReferences: GroupVersionKind -> set of OwnerReference):
//   - Watch(owner, obj) creates the entry of obj's GVK if there is none and adds the owner;
//   - Free(owner) removes the owner everywhere and drops every GVK left without owner;
//   - Get / List of a GVK WITHOUT entry fail with CacheNotStartedError - the condition of the real
//     cache (`if _, ok := c.informerReferences[gvk]; !ok`), per version: watching v1 of a kind does
//     not make v2 readable;
//   - Restart() is a new process: nothing is registered.
type Cache struct {
	s       *Store
	watches map[schema.GroupVersionKind]map[OwnerRef]bool
	// WatchLog records Watch calls ("owner kind").
	WatchLog []string
	// FailWatch makes the next Watch calls fail.
	FailWatch func(owner client.Object, gk schema.GroupKind) error
}

// OwnerRef mirrors dynamiccache.OwnerReference (built by Cache.ownerRef).
type OwnerRef struct {
	schema.GroupKind
	UID       string
	Name      string
	Namespace string
}

func (s *Store) NewCache() *Cache {
	return &Cache{s: s, watches: map[schema.GroupVersionKind]map[OwnerRef]bool{}}
}

func (c *Cache) ownerRef(o client.Object) (OwnerRef, error) {
	gvk, err := apiutil.GVKForObject(o, c.s.scheme)
	if err != nil {
		return OwnerRef{}, err
	}
	return OwnerRef{GroupKind: gvk.GroupKind(), UID: string(o.GetUID()), Name: o.GetName(), Namespace: o.GetNamespace()}, nil
}

func (r OwnerRef) id() string { return r.UID + "/" + r.Namespace + "/" + r.Name }

func (c *Cache) Watch(_ context.Context, owner client.Object, obj runtime.Object) error {
	gvk, err := apiutil.GVKForObject(obj, c.s.scheme)
	if err != nil {
		return err
	}
	ref, err := c.ownerRef(owner)
	if err != nil {
		return err
	}
	gk := gvk.GroupKind()
	if c.FailWatch != nil {
		if err := c.FailWatch(owner, gk); err != nil {
			return err
		}
	}
	if c.watches[gvk] == nil {
		c.watches[gvk] = map[OwnerRef]bool{}
	}
	c.watches[gvk][ref] = true
	c.WatchLog = append(c.WatchLog, owner.GetName()+" "+gk.Kind)
	return nil
}

func (c *Cache) Free(_ context.Context, owner client.Object) error {
	ref, err := c.ownerRef(owner)
	if err != nil {
		return err
	}
	for gvk, os := range c.watches {
		if !os[ref] {
			continue
		}
		delete(os, ref)
		if len(os) == 0 {
			delete(c.watches, gvk)
		}
	}
	return nil
}

// Restart forgets every watch (operator restart: the dynamic cache is in-memory only).
func (c *Cache) Restart() { c.watches = map[schema.GroupVersionKind]map[OwnerRef]bool{} }

// Watched lists "kind:owner,owner" entries (owner = uid/namespace/name), sorted; the versions of a
// kind are merged.
func (c *Cache) Watched() []string {
	byKind := map[string]map[string]bool{}
	for gvk, os := range c.watches {
		if byKind[gvk.Kind] == nil {
			byKind[gvk.Kind] = map[string]bool{}
		}
		for r := range os {
			byKind[gvk.Kind][r.id()] = true
		}
	}
	var out []string
	for kind, os := range byKind {
		var ids []string
		for id := range os {
			ids = append(ids, id)
		}
		sort.Strings(ids)
		out = append(out, kind+":"+strings.Join(ids, ","))
	}
	sort.Strings(out)
	return out
}

// Registrations lists what the process has registered, as "Kind[/version]:OwnerKind/name,..."
// entries (version printed unless v1; owners without uid, de-duplicated), everything sorted.
func (c *Cache) Registrations() []string {
	var out []string
	for gvk, os := range c.watches {
		seen := map[string]bool{}
		var ids []string
		for r := range os {
			id := r.Kind + "/" + r.Name
			if !seen[id] {
				seen[id] = true
				ids = append(ids, id)
			}
		}
		sort.Strings(ids)
		k := gvk.Kind
		if gvk.Version != "v1" {
			k += "/" + gvk.Version
		}
		out = append(out, k+":"+strings.Join(ids, ","))
	}
	sort.Strings(out)
	return out
}

func (c *Cache) Source(handler.EventHandler, ...predicate.Predicate) source.Source { return nil }

func (c *Cache) OwnersForGKV(schema.GroupVersionKind) []string { return nil }

func (c *Cache) Get(ctx context.Context, key client.ObjectKey, obj client.Object, opts ...client.GetOption) error {
	gvk, err := apiutil.GVKForObject(obj, c.s.scheme)
	if err != nil {
		return err
	}
	if _, ok := c.watches[gvk]; !ok {
		return &CacheNotStarted{}
	}
	tmp := &unstructured.Unstructured{}
	tmp.SetGroupVersionKind(gvk)
	if err := c.s.Client().Get(ctx, key, tmp); err != nil {
		return err
	}
	if tmp.GetLabels()[CacheLabel] != "True" {
		return notFound(c.s.keyFor(gvk, key))
	}
	return c.s.into(tmp, obj)
}

func (c *Cache) List(ctx context.Context, list client.ObjectList, opts ...client.ListOption) error {
	gvk, err := apiutil.GVKForObject(list, c.s.scheme)
	if err != nil {
		return err
	}
	gvk.Kind = strings.TrimSuffix(gvk.Kind, "List")
	if _, ok := c.watches[gvk]; !ok {
		return &CacheNotStarted{}
	}
	opts = append(opts, client.MatchingLabels{CacheLabel: "True"})
	return c.s.Client().List(ctx, list, opts...)
}
