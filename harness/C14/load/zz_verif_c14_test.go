package objectsets

// Correspondence harness for property C14, decoding side (stream "load").
// Injected by `go test -overlay`.
//
//   mode "load"                         the REAL objectSliceLoadReconciler.Reconcile on an ObjectSet whose phases
//                                       reference ObjectSlices held by a small recording in-memory client;
//   mode "active"|"archived"|"deleted"  the REAL GenericObjectSetController (built by the real
//                                       newGenericObjectSetController, real revision / slice-load / phases
//                                       reconcilers, real ObjectDuplicate preflight) with only the innermost
//                                       per-phase worker (the `phaseReconciler` interface) replaced by a recorder:
//                                       the trace is the sequence of ReconcilePhase / TeardownPhase calls with
//                                       the objects each call was handed.  Phases that carry a class are NOT
//                                       replaced: they go through the real objectSetRemotePhaseReconciler
//                                       (desiredObjectSetPhase -> SetPhase) against the fake client, which records
//                                       the ObjectSetPhase it is asked to create -- with its .spec.objects -- or
//                                       to delete; what exists of the ObjectSetPhase beforehand is scenario input.
//
// Slices are named by content ("s<ids>"), mirroring the content-hash naming of the encoder.
//
// Objects carry ALL fields of corev1alpha1.ObjectSetObject: .object, .collisionProtection (`cps`, by object id modulo
// the list's length) and .conditionMappings (`cms`, likewise).  Every object the code under test hands on (loaded
// phases, objects given to the per-phase worker, .spec.objects of a created ObjectSetPhase) is compared with the
// pristine object of the scenario by deep equality of the whole ObjectSetObject and printed as its id only when equal
// in every field, otherwise as `id~fp` (fp = collisionProtection number + 10 * conditionMappings table entry as
// found, + 100 when the difference is elsewhere).

import (
	"context"
	"encoding/json"
	"fmt"
	"strconv"
	"strings"
	"testing"
	"time"

	"github.com/go-logr/logr"
	corev1 "k8s.io/api/core/v1"
	"k8s.io/apimachinery/pkg/api/equality"
	apierrors "k8s.io/apimachinery/pkg/api/errors"
	"k8s.io/apimachinery/pkg/api/meta"
	metav1 "k8s.io/apimachinery/pkg/apis/meta/v1"
	"k8s.io/apimachinery/pkg/apis/meta/v1/unstructured"
	"k8s.io/apimachinery/pkg/runtime"
	"k8s.io/apimachinery/pkg/runtime/schema"
	"k8s.io/apimachinery/pkg/types"
	ctrl "sigs.k8s.io/controller-runtime"
	"sigs.k8s.io/controller-runtime/pkg/client"
	"sigs.k8s.io/controller-runtime/pkg/handler"
	"sigs.k8s.io/controller-runtime/pkg/predicate"
	"sigs.k8s.io/controller-runtime/pkg/source"

	corev1alpha1 "package-operator.run/apis/core/v1alpha1"
	"package-operator.run/internal/adapters"
	"package-operator.run/internal/constants"
	"package-operator.run/internal/controllers"
	"package-operator.run/internal/verifkit"
	"package-operator.run/pkg/probing"
)

type c14LPhase struct {
	Inl    []int   `json:"inl"`    // objects inline in the phase
	Chunks [][]int `json:"chunks"` // contents of the slices the phase references, in order
	Cls    bool    `json:"cls"`    // the phase carries a class: delegated to an ObjectSetPhase controller
}

type c14LScn struct {
	T       string      `json:"t"`    // always "load" in this stream
	Mode    string      `json:"mode"` // load | active | archived | deleted
	Phs     []c14LPhase `json:"phs"`
	Missing [][]int     `json:"missing"` // contents whose ObjectSlice does not exist
	Owned   [][]int     `json:"owned"`   // contents whose ObjectSlice already lists the ObjectSet as owner
	Wait    int         `json:"wait"`    // teardown of this phase index reports "not done yet" (-1: none)
	// per phase index (only looked at for phases with cls): what exists of the phase's ObjectSetPhase object:
	// 0 nothing, 1 no status yet, 2 Available=True, 3 Available=False, 4 Available=True but not controlled by the ObjectSet
	Rem []int `json:"rem"`
	// the rest of every ObjectSetObject: object `id` has collisionProtection c14CPs[cps[id % len(cps)]] and
	// conditionMappings c14CMs[cms[id % len(cms)]] (empty list: unset)
	Cps []int `json:"cps"`
	Cms []int `json:"cms"`
}

var c14CPs = []corev1alpha1.CollisionProtection{"", corev1alpha1.CollisionProtectionPrevent,
	corev1alpha1.CollisionProtectionIfNoController, corev1alpha1.CollisionProtectionNone}

var c14CMs = [][]corev1alpha1.ConditionMapping{
	nil,
	{{SourceType: "Available", DestinationType: "my-app.example.com/Available"}},
	{{SourceType: "Available", DestinationType: "my-app.example.com/Available"},
		{SourceType: "Degraded", DestinationType: "my-app.example.com/Degraded"}},
	{{SourceType: "Progressing", DestinationType: "other.example.com/Progressing"}},
}

// c14Meta: the scenario's description of the objects (what the pristine object `id` looks like).
type c14Meta struct{ cps, cms []int }

func c14Cyc(l []int, i int) int {
	if len(l) == 0 || i < 0 {
		return 0
	}
	return l[i%len(l)]
}

const c14Class = "hosted-cluster"

const c14NS = "ns"

func c14Key(ids []int) string {
	if len(ids) == 0 {
		return "e"
	}
	out := make([]string, len(ids))
	for i, id := range ids {
		out[i] = strconv.Itoa(id)
	}
	return strings.Join(out, "_")
}

// obj builds a fresh copy of the pristine object `id`.
func (m c14Meta) obj(id int) corev1alpha1.ObjectSetObject {
	return corev1alpha1.ObjectSetObject{
		Object: unstructured.Unstructured{Object: map[string]any{
			"apiVersion": "v1", "kind": "ConfigMap",
			"metadata": map[string]any{"name": fmt.Sprintf("o%d", id)},
			"data":     map[string]any{"k": fmt.Sprintf("v%d", id)},
		}},
		CollisionProtection: c14CPs[c14Cyc(m.cps, id)],
		ConditionMappings:   append([]corev1alpha1.ConditionMapping(nil), c14CMs[c14Cyc(m.cms, id)]...),
	}
}

func (m c14Meta) objs(ids []int) []corev1alpha1.ObjectSetObject {
	var out []corev1alpha1.ObjectSetObject
	for _, id := range ids {
		out = append(out, m.obj(id))
	}
	return out
}

// tok prints one object the code under test handed on: its id if it is, in EVERY field of the ObjectSetObject, the
// object the scenario describes for that id; otherwise id~fp with the fingerprint of what was found.
func (m c14Meta) tok(o corev1alpha1.ObjectSetObject) string {
	ids := strings.TrimPrefix(o.Object.GetName(), "o")
	id, err := strconv.Atoi(ids)
	if err != nil || id < 0 {
		return ids
	}
	want := m.obj(id)
	if equality.Semantic.DeepEqual(o, want) {
		return ids
	}
	cp, cm := 9, 9
	for i, v := range c14CPs {
		if v == o.CollisionProtection {
			cp = i
		}
	}
	for i, v := range c14CMs {
		if equality.Semantic.DeepEqual(v, o.ConditionMappings) {
			cm = i
		}
	}
	fp := cp + 10*cm
	if !equality.Semantic.DeepEqual(o.Object, want.Object) || fp == c14Cyc(m.cps, id)+10*c14Cyc(m.cms, id) {
		fp += 100
	}
	return fmt.Sprintf("%s~%d", ids, fp)
}

func (m c14Meta) ids(objs []corev1alpha1.ObjectSetObject) string {
	out := make([]string, len(objs))
	for i, o := range objs {
		out[i] = m.tok(o)
	}
	return strings.Join(out, ",")
}

// ---------------------------------------------------------------- fake API

type c14Client struct {
	client.Client
	m         c14Meta
	objectSet *corev1alpha1.ObjectSet
	slices    map[string]*corev1alpha1.ObjectSlice
	phases    map[string]*corev1alpha1.ObjectSetPhase // key ns/name
	calls     *[]string                               // shared with the per-phase recorder: one ordered log
	updates   []string
	patched   bool
	other     []string
}

func (c *c14Client) Get(_ context.Context, key client.ObjectKey, obj client.Object, _ ...client.GetOption) error {
	switch o := obj.(type) {
	case *corev1alpha1.ObjectSet:
		if c.objectSet == nil || key.Name != c.objectSet.Name || key.Namespace != c.objectSet.Namespace {
			return apierrors.NewNotFound(schema.GroupResource{Resource: "objectsets"}, key.Name)
		}
		c.objectSet.DeepCopyInto(o)
		return nil
	case *corev1alpha1.ObjectSlice:
		s, ok := c.slices[key.Namespace+"/"+key.Name]
		if !ok {
			return apierrors.NewNotFound(schema.GroupResource{Resource: "objectslices"}, key.Name)
		}
		s.DeepCopyInto(o)
		return nil
	case *corev1alpha1.ObjectSetPhase:
		p, ok := c.phases[key.Namespace+"/"+key.Name]
		if !ok {
			return apierrors.NewNotFound(schema.GroupResource{Resource: "objectsetphases"}, key.Name)
		}
		p.DeepCopyInto(o)
		return nil
	case *corev1.Namespace:
		// remote phase teardown looks at the namespace: it exists and is not being deleted
		*o = corev1.Namespace{ObjectMeta: metav1.ObjectMeta{Name: key.Name}}
		return nil
	}
	panic(fmt.Sprintf("c14Client.Get: unexpected type %T", obj))
}

func (c *c14Client) Update(_ context.Context, obj client.Object, _ ...client.UpdateOption) error {
	switch o := obj.(type) {
	case *corev1alpha1.ObjectSlice:
		k := o.Namespace + "/" + o.Name
		old, ok := c.slices[k]
		if !ok {
			return apierrors.NewNotFound(schema.GroupResource{Resource: "objectslices"}, o.Name)
		}
		if !equality.Semantic.DeepEqual(old.Objects, o.Objects) {
			c.other = append(c.other, "slice-content-changed:"+o.Name)
		}
		c.slices[k] = o.DeepCopy()
		c.updates = append(c.updates, o.Name)
		return nil
	}
	c.other = append(c.other, fmt.Sprintf("update:%T", obj))
	return nil
}

func (c *c14Client) Patch(_ context.Context, obj client.Object, _ client.Patch, _ ...client.PatchOption) error {
	switch o := obj.(type) {
	case *corev1alpha1.ObjectSet:
		// only the finalizer merge patches of controllers.Ensure/RemoveFinalizer arrive here; they have
		// already edited obj in place
		c.objectSet.Finalizers = append([]string(nil), o.Finalizers...)
		c.patched = true
		return nil
	}
	c.other = append(c.other, fmt.Sprintf("patch:%T", obj))
	return nil
}

// c14PhaseOf maps the name of an ObjectSetPhase back to the phase of the ObjectSet it belongs to.
func (c *c14Client) c14PhaseOf(name string) string {
	if c.objectSet != nil && strings.HasPrefix(name, c.objectSet.Name+"-") {
		return strings.TrimPrefix(name, c.objectSet.Name+"-")
	}
	return "?" + name
}

func (c *c14Client) Create(_ context.Context, obj client.Object, _ ...client.CreateOption) error {
	switch o := obj.(type) {
	case *corev1alpha1.ObjectSetPhase:
		// a delegated phase is handed over: the ObjectSetPhase controller rolls out exactly .spec.objects
		k := o.Namespace + "/" + o.Name
		if _, ok := c.phases[k]; ok {
			return apierrors.NewAlreadyExists(schema.GroupResource{Resource: "objectsetphases"}, o.Name)
		}
		o.UID = types.UID("uid-" + o.Name)
		o.Generation = 1
		c.phases[k] = o.DeepCopy()
		call := "Q:" + c.c14PhaseOf(o.Name) + ":" + c.m.ids(o.Spec.Objects)
		if o.Labels[corev1alpha1.ObjectSetPhaseClassLabel] != c14Class || !metav1.IsControlledBy(o, c.objectSet) {
			c.other = append(c.other, "objectsetphase-class-or-owner:"+o.Name)
		}
		*c.calls = append(*c.calls, call)
		return nil
	}
	c.other = append(c.other, fmt.Sprintf("create:%T", obj))
	return nil
}

func (c *c14Client) Delete(_ context.Context, obj client.Object, _ ...client.DeleteOption) error {
	switch o := obj.(type) {
	case *corev1alpha1.ObjectSetPhase:
		k := o.Namespace + "/" + o.Name
		if _, ok := c.phases[k]; !ok {
			return apierrors.NewNotFound(schema.GroupResource{Resource: "objectsetphases"}, o.Name)
		}
		// stays around (finalizer of the ObjectSetPhase controller) until that controller has cleaned up
		*c.calls = append(*c.calls, "X:"+c.c14PhaseOf(o.Name)+":")
		return nil
	}
	c.other = append(c.other, fmt.Sprintf("delete:%T", obj))
	return nil
}

func (c *c14Client) List(_ context.Context, list client.ObjectList, _ ...client.ListOption) error {
	return nil
}

func (c *c14Client) Status() client.SubResourceWriter { return c14Status{c} }

type c14Status struct{ c *c14Client }

func (s c14Status) Create(context.Context, client.Object, client.Object, ...client.SubResourceCreateOption) error {
	return nil
}

func (s c14Status) Update(_ context.Context, obj client.Object, _ ...client.SubResourceUpdateOption) error {
	if o, ok := obj.(*corev1alpha1.ObjectSet); ok && s.c.objectSet != nil {
		s.c.objectSet.Status = *o.Status.DeepCopy()
	}
	return nil
}

func (s c14Status) Patch(context.Context, client.Object, client.Patch, ...client.SubResourcePatchOption) error {
	return nil
}

type c14Cache struct {
	client.Reader
	freed int
}

func (c *c14Cache) Source(handler.EventHandler, ...predicate.Predicate) source.Source { return nil }
func (c *c14Cache) Free(context.Context, client.Object) error                         { c.freed++; return nil }
func (c *c14Cache) Watch(context.Context, client.Object, runtime.Object) error        { return nil }

// c14PhaseRec replaces the innermost per-phase worker and records what it is handed.
type c14PhaseRec struct {
	m     c14Meta
	calls *[]string
	wait  string
}

func (p *c14PhaseRec) ReconcilePhase(
	_ context.Context, _ controllers.PhaseObjectOwner, phase corev1alpha1.ObjectSetTemplatePhase,
	_ probing.Prober, _ []controllers.PreviousObjectSet,
) ([]client.Object, controllers.ProbingResult, error) {
	*p.calls = append(*p.calls, "R:"+phase.Name+":"+p.m.ids(phase.Objects))
	return nil, controllers.ProbingResult{}, nil
}

func (p *c14PhaseRec) TeardownPhase(
	_ context.Context, _ controllers.PhaseObjectOwner, phase corev1alpha1.ObjectSetTemplatePhase,
) (bool, error) {
	*p.calls = append(*p.calls, "T:"+phase.Name+":"+p.m.ids(phase.Objects))
	return phase.Name != p.wait, nil
}

// ---------------------------------------------------------------- execution

func c14Valid(s c14LScn) bool {
	for _, v := range s.Cps {
		if v < 0 || v >= len(c14CPs) {
			return false
		}
	}
	for _, v := range s.Cms {
		if v < 0 || v >= len(c14CMs) {
			return false
		}
	}
	switch s.Mode {
	case "load":
		return true // the loader alone: `rem` is not looked at
	case "active", "archived", "deleted":
		for _, r := range s.Rem {
			if r < 0 || r > 4 {
				return false
			}
		}
		return true
	}
	return false
}

// c14SeedPhases creates what the scenario says exists of the ObjectSetPhase objects of delegated phases.
func c14SeedPhases(s c14LScn, os *corev1alpha1.ObjectSet, c *c14Client) {
	c.phases = map[string]*corev1alpha1.ObjectSetPhase{}
	for i, ph := range s.Phs {
		st := 0
		if i < len(s.Rem) {
			st = s.Rem[i]
		}
		if !ph.Cls || st == 0 {
			continue
		}
		name := fmt.Sprintf("%s-p%d", os.Name, i)
		p := &corev1alpha1.ObjectSetPhase{
			ObjectMeta: metav1.ObjectMeta{Name: name, Namespace: c14NS, UID: types.UID("uid-" + name), Generation: 1,
				Labels: map[string]string{corev1alpha1.ObjectSetPhaseClassLabel: c14Class}},
		}
		p.Spec.Revision = 1
		ctl := true
		ref := metav1.OwnerReference{APIVersion: corev1alpha1.GroupVersion.String(), Kind: "ObjectSet",
			Name: os.Name, UID: os.UID, Controller: &ctl}
		cond := metav1.Condition{Type: corev1alpha1.ObjectSetPhaseAvailable, ObservedGeneration: 1,
			Reason: "Scripted", Message: "scripted"}
		switch st {
		case 2:
			cond.Status = metav1.ConditionTrue
			p.Status.Conditions = []metav1.Condition{cond}
		case 3:
			cond.Status = metav1.ConditionFalse
			p.Status.Conditions = []metav1.Condition{cond}
		case 4:
			cond.Status = metav1.ConditionTrue
			p.Status.Conditions = []metav1.Condition{cond}
			ref.Name, ref.UID = "somebody-else", types.UID("other-uid")
		}
		p.OwnerReferences = []metav1.OwnerReference{ref}
		c.phases[c14NS+"/"+name] = p
	}
}

var c14Scheme = func() *runtime.Scheme {
	s := runtime.NewScheme()
	if err := corev1alpha1.AddToScheme(s); err != nil {
		panic(err)
	}
	return s
}()

func c14Exec(s c14LScn) string {
	if !c14Valid(s) {
		return "BAD-SCN"
	}
	scheme := c14Scheme
	m := c14Meta{cps: s.Cps, cms: s.Cms}
	c := &c14Client{m: m, slices: map[string]*corev1alpha1.ObjectSlice{}}
	os := &corev1alpha1.ObjectSet{
		ObjectMeta: metav1.ObjectMeta{Name: "os", Namespace: c14NS, UID: types.UID("os-uid"), Generation: 1,
			Finalizers: []string{constants.CachedFinalizer}},
	}
	os.Status.Revision = 1
	in := func(set [][]int, ids []int) bool {
		for _, m := range set {
			if c14Key(m) == c14Key(ids) {
				return true
			}
		}
		return false
	}
	for i, ph := range s.Phs {
		p := corev1alpha1.ObjectSetTemplatePhase{Name: fmt.Sprintf("p%d", i), Objects: m.objs(ph.Inl)}
		if ph.Cls {
			p.Class = c14Class
		}
		for _, ch := range ph.Chunks {
			name := "s" + c14Key(ch)
			p.Slices = append(p.Slices, name)
			if in(s.Missing, ch) {
				continue
			}
			sl := &corev1alpha1.ObjectSlice{
				ObjectMeta: metav1.ObjectMeta{Name: name, Namespace: c14NS, UID: types.UID("uid-" + name)},
				Objects:    m.objs(ch),
			}
			if in(s.Owned, ch) {
				sl.OwnerReferences = []metav1.OwnerReference{{
					APIVersion: corev1alpha1.GroupVersion.String(), Kind: "ObjectSet", Name: os.Name, UID: os.UID,
				}}
			}
			c.slices[c14NS+"/"+name] = sl
		}
		os.Spec.Phases = append(os.Spec.Phases, p)
	}
	ctx := context.Background()

	if s.Mode == "load" {
		r := newObjectSliceLoadReconciler(scheme, c, adapters.NewObjectSlice)
		a := &adapters.ObjectSetAdapter{ObjectSet: *os.DeepCopy()}
		res, err := r.Reconcile(ctx, a)
		out := "ok"
		if err != nil {
			out = "err"
			if !apierrors.IsNotFound(err) {
				out = "err-other"
			}
		} else if !res.IsZero() {
			out = "requeue"
		}
		var phs []string
		for _, p := range a.GetPhases() {
			phs = append(phs, m.ids(p.Objects))
		}
		line := fmt.Sprintf("L %s P=%s U=%s", out, strings.Join(phs, "/"), strings.Join(c.updates, ","))
		if len(c.other) > 0 {
			line += " !" + verifkit.Esc(strings.Join(c.other, "+"))
		}
		return line
	}

	sliced, other := c14Ctl(s, os, c)
	// the inline twin: the same ObjectSet with every phase's objects inline and no slices at all
	twin := os.DeepCopy()
	for i, ph := range s.Phs {
		ids := append([]int(nil), ph.Inl...)
		for _, ch := range ph.Chunks {
			ids = append(ids, ch...)
		}
		twin.Spec.Phases[i].Objects = m.objs(ids)
		twin.Spec.Phases[i].Slices = nil
	}
	c2 := &c14Client{m: m, slices: map[string]*corev1alpha1.ObjectSlice{}}
	inline, other2 := c14Ctl(s, twin, c2)
	line := "C " + sliced + " ~ " + strings.Replace(inline, " U=", "", 1)
	other = append(other, other2...)
	if len(other) > 0 {
		line += " !" + verifkit.Esc(strings.Join(other, "+"))
	}
	return line
}

// c14Ctl runs one pass of the real ObjectSet controller on `os` and renders what is visible at the
// per-phase seam and in the API: "<res> K=<calls> U=<slices updated> A=<Archived condition> F=<finalizer>".
func c14Ctl(s c14LScn, os *corev1alpha1.ObjectSet, c *c14Client) (string, []string) {
	ctx := context.Background()
	scheme := c14Scheme
	os = os.DeepCopy()
	switch s.Mode {
	case "archived":
		os.Spec.LifecycleState = corev1alpha1.ObjectSetLifecycleStateArchived
	case "deleted":
		now := metav1.NewTime(time.Unix(1000, 0))
		os.DeletionTimestamp = &now
	}
	c.objectSet = os
	dc := &c14Cache{}
	controller := newGenericObjectSetController(
		adapters.NewObjectSet, newGenericObjectSetPhase, adapters.NewObjectSlice,
		c, logr.Discard(), scheme, dc, c, nil, meta.NewDefaultRESTMapper(nil))
	c14SeedPhases(s, os, c)
	var calls []string
	c.calls = &calls
	rec := &c14PhaseRec{m: c.m, wait: "-", calls: &calls}
	if s.Wait >= 0 {
		rec.wait = fmt.Sprintf("p%d", s.Wait)
	}
	seam := 0
	for _, r := range controller.reconciler {
		if pr, ok := r.(*objectSetPhasesReconciler); ok {
			pr.phaseReconciler = rec
			pr.lookupPreviousRevisions = func(context.Context, controllers.PreviousOwner) ([]controllers.PreviousObjectSet, error) {
				return nil, nil
			}
			seam++
		}
	}
	if seam != 1 {
		return "NO-SEAM", nil
	}
	_, err := controller.Reconcile(ctx, ctrl.Request{NamespacedName: types.NamespacedName{Name: os.Name, Namespace: c14NS}})
	out := "ok"
	if err != nil {
		out = "err"
	} else if cond := meta.FindStatusCondition(c.objectSet.Status.Conditions, corev1alpha1.ObjectSetAvailable); cond != nil &&
		cond.Reason == "PreflightError" {
		out = "pf"
	}
	arch := "-"
	if cond := meta.FindStatusCondition(c.objectSet.Status.Conditions, corev1alpha1.ObjectSetArchived); cond != nil {
		arch = string(cond.Status)
	}
	fin := "kept"
	if len(c.objectSet.Finalizers) == 0 {
		fin = "removed"
	}
	// the status the ObjectSet reports
	avail := "-"
	if cond := meta.FindStatusCondition(c.objectSet.Status.Conditions, corev1alpha1.ObjectSetAvailable); cond != nil {
		avail = string(cond.Status)
	}
	trans := "-"
	if cond := meta.FindStatusCondition(c.objectSet.Status.Conditions, corev1alpha1.ObjectSetInTransition); cond != nil {
		trans = string(cond.Status)
	}
	return fmt.Sprintf("%s K=%s U=%s A=%s F=%s V=%s I=%s", out, strings.Join(calls, "+"), strings.Join(c.updates, ","),
		arch, fin, avail, trans), c.other
}

func c14Tags(s c14LScn, out string) []string {
	tags := []string{"mode=" + s.Mode}
	if out == "BAD-SCN" {
		return append(tags, "bad-scn", "trivial")
	}
	f := strings.Split(out, " ")
	if len(f) > 1 {
		tags = append(tags, "res="+f[1])
	}
	nsl := 0
	for _, p := range s.Phs {
		nsl += len(p.Chunks)
	}
	switch {
	case nsl == 0:
		tags = append(tags, "slices=0")
	case nsl == 1:
		tags = append(tags, "slices=1")
	default:
		tags = append(tags, "slices=2+")
	}
	if len(s.Missing) > 0 {
		tags = append(tags, "missing")
	}
	ncls, nclsSliced, nclsMulti := 0, 0, 0
	for _, p := range s.Phs {
		if p.Cls {
			ncls++
			if len(p.Chunks) > 0 {
				nclsSliced++
			}
			if len(p.Chunks) > 1 {
				nclsMulti++
			}
		}
	}
	switch {
	case ncls == 0:
		tags = append(tags, "phases=local")
	case ncls == len(s.Phs):
		tags = append(tags, "phases=delegated")
	default:
		tags = append(tags, "phases=mixed")
	}
	hasCP, hasCM := false, false
	for _, p := range s.Phs {
		ids := append([]int(nil), p.Inl...)
		for _, ch := range p.Chunks {
			ids = append(ids, ch...)
		}
		for _, id := range ids {
			hasCP = hasCP || c14Cyc(s.Cps, id) != 0
			hasCM = hasCM || c14Cyc(s.Cms, id) != 0
		}
	}
	if hasCP {
		tags = append(tags, "obj:collisionProtection")
	}
	if hasCM {
		tags = append(tags, "obj:conditionMappings")
	}
	if nclsSliced > 0 {
		tags = append(tags, "delegated+sliced")
	}
	if nclsMulti > 0 {
		tags = append(tags, "delegated+several-slices")
	}
	if strings.Contains(out, "Q:p") {
		tags = append(tags, "objectsetphase-created")
	}
	if strings.Contains(out, "X:p") {
		tags = append(tags, "objectsetphase-deleted")
	}
	if strings.Contains(out, "V=False") {
		tags = append(tags, "unavailable")
	}
	if strings.Contains(out, " U=s") {
		tags = append(tags, "ownerref-added")
	}
	if strings.Contains(out, "A=True") {
		tags = append(tags, "archived-done")
	}
	if strings.Contains(out, "A=False") {
		tags = append(tags, "archival-waiting")
	}
	return tags
}

func TestVerifC14Load(t *testing.T) {
	r := verifkit.Open(t, "C14")
	defer r.Close()
	run := func(s c14LScn) {
		s.T = "load"
		if s.Phs == nil {
			s.Phs = []c14LPhase{}
		}
		if s.Rem == nil {
			s.Rem = []int{}
		}
		if s.Cps == nil {
			s.Cps = []int{}
		}
		if s.Cms == nil {
			s.Cms = []int{}
		}
		for i := range s.Phs {
			if s.Phs[i].Inl == nil {
				s.Phs[i].Inl = []int{}
			}
			if s.Phs[i].Chunks == nil {
				s.Phs[i].Chunks = [][]int{}
			}
			for j := range s.Phs[i].Chunks {
				if s.Phs[i].Chunks[j] == nil {
					s.Phs[i].Chunks[j] = []int{}
				}
			}
		}
		if s.Missing == nil {
			s.Missing = [][]int{}
		}
		if s.Owned == nil {
			s.Owned = [][]int{}
		}
		for i := range s.Missing {
			if s.Missing[i] == nil {
				s.Missing[i] = []int{}
			}
		}
		for i := range s.Owned {
			if s.Owned[i] == nil {
				s.Owned[i] = []int{}
			}
		}
		out := verifkit.Guard(func() string { return c14Exec(s) })
		r.Emit(s, out, c14Tags(s, out)...)
	}
	for _, line := range r.Fixed() {
		var s c14LScn
		if err := json.Unmarshal([]byte(line), &s); err != nil {
			t.Fatalf("bad scenario %q: %v", line, err)
		}
		if s.T != "load" {
			continue
		}
		run(s)
	}
	if r.ReplayOnly() {
		return
	}
	rng := r.Rng
	modes := []string{"load", "active", "archived", "deleted"}

	// the objects of the exhaustive part: collisionProtection by id mod 4, conditionMappings by id mod 3 (ids 0..3 and
	// 10..13: every value of each, in different combinations, incl. the plain object)
	gen := func(s c14LScn) {
		s.Cps = []int{1, 0, 2, 3}
		s.Cms = []int{2, 0, 1}
		run(s)
	}
	// ---- exhaustive: up to 2 phases; each phase: inline part in {[], [a]} and 0..2 slices drawn from a few
	// contents (incl. the empty slice and the same slice twice); every slice present/owned/missing.
	contents := [][]int{{}, {1}, {2, 3}}
	var phaseShapes []c14LPhase
	for _, inl := range [][]int{{}, {0}} {
		phaseShapes = append(phaseShapes, c14LPhase{Inl: inl})
		for a := range contents {
			phaseShapes = append(phaseShapes, c14LPhase{Inl: inl, Chunks: [][]int{contents[a]}})
			for b := range contents {
				phaseShapes = append(phaseShapes, c14LPhase{Inl: inl, Chunks: [][]int{contents[a], contents[b]}})
			}
		}
	}
	shift := func(p c14LPhase, d int) c14LPhase { // second phase uses disjoint object ids
		q := c14LPhase{}
		for _, id := range p.Inl {
			q.Inl = append(q.Inl, id+d)
		}
		for _, ch := range p.Chunks {
			var c2 []int
			for _, id := range ch {
				c2 = append(c2, id+d)
			}
			q.Chunks = append(q.Chunks, c2)
		}
		return q
	}
	count := 0
	for _, mode := range modes {
		for _, p0 := range phaseShapes {
			var variants [][]c14LPhase
			variants = append(variants, []c14LPhase{p0})
			if r.Thorough() || len(p0.Chunks) <= 1 {
				for _, p1 := range phaseShapes {
					if !r.Thorough() && len(p1.Chunks) > 1 {
						continue
					}
					variants = append(variants, []c14LPhase{p0, shift(p1, 10)})
				}
			}
			for _, phs := range variants {
				// state of the slices: all present; each distinct content missing; each distinct content owned
				var distinct [][]int
				seen := map[string]bool{}
				for _, p := range phs {
					for _, ch := range p.Chunks {
						if !seen[c14Key(ch)] {
							seen[c14Key(ch)] = true
							distinct = append(distinct, ch)
						}
					}
				}
				gen(c14LScn{Mode: mode, Phs: phs, Wait: -1})
				count++
				// every non-empty set of phases delegated (class set).  The loader alone does not care what
				// exists of the ObjectSetPhase; the controller is run for every state of every delegated
				// phase's ObjectSetPhase (two delegated phases: all 25 combinations in the thorough tier,
				// equal states plus the mixes with "Available" in the quick tier).
				for mask := 1; mask < 1<<len(phs); mask++ {
					dphs := make([]c14LPhase, len(phs))
					copy(dphs, phs)
					var del []int
					for i := range dphs {
						if mask&(1<<i) != 0 {
							dphs[i].Cls = true
							del = append(del, i)
						}
					}
					if mode == "load" {
						gen(c14LScn{Mode: mode, Phs: dphs, Wait: -1})
						count++
						for _, d := range distinct {
							gen(c14LScn{Mode: mode, Phs: dphs, Missing: [][]int{d}, Wait: -1})
							count++
						}
						continue
					}
					var rems [][]int
					if len(del) == 1 {
						for st := 0; st <= 4; st++ {
							rem := make([]int, len(phs))
							rem[del[0]] = st
							rems = append(rems, rem)
						}
					} else {
						for a := 0; a <= 4; a++ {
							for b := 0; b <= 4; b++ {
								if r.Thorough() || a == b || a == 2 || b == 2 {
									rems = append(rems, []int{a, b})
								}
							}
						}
					}
					for _, rem := range rems {
						gen(c14LScn{Mode: mode, Phs: dphs, Rem: rem, Wait: -1})
						count++
					}
					if mode != "active" {
						// a local phase whose teardown is pending, next to delegated ones
						for w := range dphs {
							if !dphs[w].Cls {
								gen(c14LScn{Mode: mode, Phs: dphs, Rem: rems[len(rems)-1], Wait: w})
								gen(c14LScn{Mode: mode, Phs: dphs, Rem: rems[0], Wait: w})
								count += 2
							}
						}
					}
				}
				for _, d := range distinct {
					gen(c14LScn{Mode: mode, Phs: phs, Missing: [][]int{d}, Wait: -1})
					gen(c14LScn{Mode: mode, Phs: phs, Owned: [][]int{d}, Wait: -1})
					count += 2
				}
				if mode == "archived" || mode == "deleted" {
					for w := range phs {
						gen(c14LScn{Mode: mode, Phs: phs, Wait: w})
						count++
					}
				}
			}
		}
	}
	r.Extra["exhaustive_count"] = count

	// ---- random: 0..4 phases, 0..3 slices each, 0..3 objects per slice; occasional duplicates of objects
	n := r.Pick(2000, 30000)
	for i := 0; i < n; i++ {
		var s c14LScn
		s.Mode = modes[rng.Intn(len(modes))]
		s.Wait = -1
		next := 0
		np := rng.Intn(5)
		var all [][]int
		for p := 0; p < np; p++ {
			var ph c14LPhase
			for k := rng.Intn(3); k > 0; k-- {
				ph.Inl = append(ph.Inl, next)
				next++
			}
			for k := rng.Intn(4); k > 0; k-- {
				var ch []int
				for m := rng.Intn(4); m > 0; m-- {
					ch = append(ch, next)
					next++
				}
				if len(all) > 0 && rng.Intn(10) == 0 {
					ch = all[rng.Intn(len(all))] // the same slice referenced again (-> duplicate objects)
				}
				ph.Chunks = append(ph.Chunks, ch)
				all = append(all, ch)
			}
			// delegated phases, mixed with local ones; any state of their ObjectSetPhase
			ph.Cls = rng.Intn(3) == 0
			s.Rem = append(s.Rem, rng.Intn(5))
			s.Phs = append(s.Phs, ph)
		}
		if rng.Intn(6) == 0 {
			s.Rem = nil // nothing exists yet of any ObjectSetPhase
		}
		for _, ch := range all {
			if rng.Intn(12) == 0 {
				s.Missing = append(s.Missing, ch)
			}
			if rng.Intn(3) == 0 {
				s.Owned = append(s.Owned, ch)
			}
		}
		if np > 0 && rng.Intn(5) == 0 {
			s.Wait = rng.Intn(np)
		}
		// collisionProtection / conditionMappings drawn independently (one scenario in four: plain objects)
		if rng.Intn(4) > 0 {
			for k := 1 + rng.Intn(5); k > 0; k-- {
				s.Cps = append(s.Cps, rng.Intn(len(c14CPs)))
			}
			for k := 1 + rng.Intn(4); k > 0; k-- {
				s.Cms = append(s.Cms, rng.Intn(len(c14CMs)))
			}
		}
		run(s)
	}
	run(c14LScn{Mode: "load", Phs: []c14LPhase{{Inl: []int{1}}}, Cps: []int{5}, Wait: -1})
	run(c14LScn{Mode: "active", Phs: []c14LPhase{{Inl: []int{1}}}, Cms: []int{0, 4}, Wait: -1})
	run(c14LScn{Mode: "frob", Wait: -1})
	run(c14LScn{Mode: "active", Phs: []c14LPhase{{Inl: []int{1}, Cls: true}}, Rem: []int{7}, Wait: -1})
}
