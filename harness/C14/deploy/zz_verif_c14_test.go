package packagedeploy

// Correspondence harness for property C14, encoding side (stream "deploy").
// Injected by `go test -overlay`.  Runs the REAL chunkers, the REAL DeploymentReconciler.Reconcile
// (chunkPhase, reconcileSlice with collision counter, template update, sliceGarbageCollection) against a
// small recording in-memory client.Client written here, and prints a canonical trace.
//
// Slice names are content hashes (utils.ComputeFNV32Hash -- an opaque leaf of the model).  The harness
// translates every real name back to the symbolic form "<ids of the hashed content>.<collision count>" by
// calling the same hash function, so that the Lean side can treat the hash as an abstract function.
//
// REAL hash collisions are scenario input: `coll` declares pairs of slice contents whose FNV-32 hash over the spew
// dump is identical (found offline by brute force, table c14Collisions; FNV-1a is iterative, so the names collide
// for every collision count).  The harness checks every declared collision against the real hash function
// (BAD-COLL otherwise), prints both contents' names under the representative's symbolic name, and aborts with
// UNDECLARED-COLLISION if two contents that are not declared to collide get the same real name.
//
// Objects carry ALL fields of corev1alpha1.ObjectSetObject: .object (padded to the wanted JSON length),
// .collisionProtection (`cps`) and .conditionMappings (`cms`), chosen per object by the scenario.  Whatever the code
// under test hands back (chunks, slice contents, inline phase objects) is compared with the pristine object the
// scenario describes by deep equality of the WHOLE ObjectSetObject: an object is printed as its id only if it is equal
// in every field, otherwise as `id~fp` (fp = collisionProtection number + 10 * conditionMappings table entry as
// found, + 100 when the difference is elsewhere).  The code under test only ever gets deep copies.
//
// ObjectSets of the histories carry .spec.lifecycleState (op `life`: Active / Paused / Archived) and a
// deletionTimestamp held back by the finalizer (op `markdel`); they EXIST until op `delos` removes them.

import (
	"context"
	"encoding/json"
	"fmt"
	"math"
	"sort"
	"strconv"
	"strings"
	"testing"
	"time"

	"k8s.io/apimachinery/pkg/api/equality"
	apierrors "k8s.io/apimachinery/pkg/api/errors"
	metav1 "k8s.io/apimachinery/pkg/apis/meta/v1"
	"k8s.io/apimachinery/pkg/apis/meta/v1/unstructured"
	"k8s.io/apimachinery/pkg/runtime"
	"k8s.io/apimachinery/pkg/runtime/schema"
	"k8s.io/apimachinery/pkg/types"
	"k8s.io/utils/ptr"
	"sigs.k8s.io/controller-runtime/pkg/client"

	corev1alpha1 "package-operator.run/apis/core/v1alpha1"
	"package-operator.run/internal/adapters"
	"package-operator.run/internal/utils"
	"package-operator.run/internal/verifkit"
)

// ---------------------------------------------------------------- scenario

type c14Pre struct {
	At   []int `json:"slot"` // the slot is named hash(content `slot`, c)
	C    int   `json:"c"`    // collision count of the slot
	Objs []int `json:"objs"` // content stored in the slot
	Ctl  bool  `json:"ctl"`  // controlled by the ObjectDeployment
	Lbl  bool  `json:"lbl"`  // carries the slices.package-operator.run/owner label
}

type c14Coll struct {
	A  []int `json:"a"`  // representative content (object ids)
	B  []int `json:"b"`  // content with the same hash as A at every collision count; printed under A's name
	SA []int `json:"sa"` // the sizes of A's / B's objects the collision was found for (must equal sizes[id]:
	SB []int `json:"sb"` //   the hash covers the padding)
}

type c14Op struct {
	Op     string  `json:"op"`     // chunk | deploy | snap | delos | life | markdel
	Phases [][]int `json:"phases"` // chunk, deploy: phases as lists of object ids
	I      int     `json:"i"`      // delos, life, markdel: index into the existing ObjectSets
	// life: the .spec.lifecycleState the i-th ObjectSet gets (active | paused | archived).  The ObjectSet still exists.
	// markdel: the i-th ObjectSet gets a deletionTimestamp but is held by its finalizer: it still exists.
	// delos: the i-th ObjectSet is gone from the API.
	St string `json:"st,omitempty"`
	// deploy: ONE API fault that hits this Reconcile call (consumed by the first request it applies to; a fault
	// whose request is never made has no effect):
	//   get             the first Get of the ObjectDeployment fails (500, not NotFound)
	//   create          the pre-create of an absent ObjectDeployment fails (500)
	//   update          the Update of the ObjectDeployment is rejected with a non-conflict error (503): nothing stored
	//   updatelost      the Update is stored, but the response is lost: a timeout error comes back
	//   conflict        a third party writes the ObjectDeployment right before the Update: the optimistic locking of the
	//                   in-memory API answers 409 Conflict, the code re-Gets and retries
	//   conflict+update the same, and the retried Update is rejected with a non-conflict error (503)
	//   oslist          slice GC: the List of the ObjectSets fails
	//   slicelist       slice GC: the List of the ObjectSlices fails
	//   gcdel           slice GC: the first Delete of an ObjectSlice fails
	Fault string `json:"fault,omitempty"`
}

var c14Faults = []string{"get", "create", "update", "updatelost", "conflict", "conflict+update", "oslist", "slicelist", "gcdel"}

type c14Scn struct {
	T     string    `json:"t"`     // always "dep" in this stream
	Strat string    `json:"strat"` // binpack | each | noop | default (no annotation) | junk (unknown annotation)
	Limit int       `json:"limit"` // always overwritten with the code's own binpackNextFitStrategyChunkLimit
	Sizes []int     `json:"sizes"` // object id -> exact JSON length of the object; 0 = json.Marshal fails
	Pre   []c14Pre  `json:"pre"`   // ObjectSlices that exist before the first op (collision oracle)
	Coll  []c14Coll `json:"coll"`  // real hash collisions among the contents of this scenario
	Ops   []c14Op   `json:"ops"`
	// the rest of every ObjectSetObject, by object id (missing: 0): index into c14CPs (collisionProtection) and
	// into c14CMs (conditionMappings)
	Cps []int `json:"cps"`
	Cms []int `json:"cms"`
}

var c14CPs = []corev1alpha1.CollisionProtection{"", corev1alpha1.CollisionProtectionPrevent,
	corev1alpha1.CollisionProtectionIfNoController, corev1alpha1.CollisionProtectionNone}

var c14CMs = [][]corev1alpha1.ConditionMapping{
	nil,
	{{SourceType: "Available", DestinationType: "my-app.example.com/Available"}},
	{{SourceType: "Available", DestinationType: "my-app.example.com/Available"},
		{SourceType: "Degraded", DestinationType: "my-app.example.com/Degraded"}},
	{{SourceType: "Progressing", DestinationType: "other.example.com/Progressing"}},
}

const (
	c14MinSize = 128
	c14NS      = "ns"
	c14Dep     = "dep"
	c14MaxC    = 8
)

// ---------------------------------------------------------------- objects

var c14PadCache = map[int]string{}

func c14Pad(n int) string {
	if s, ok := c14PadCache[n]; ok {
		return s
	}
	s := strings.Repeat("x", n)
	if len(c14PadCache) < 64 {
		c14PadCache[n] = s
	}
	return s
}

// c14Obj builds object `id` whose json.Marshal(obj.Object) has exactly `size` bytes (size 0: not marshalable),
// with collisionProtection c14CPs[cp] and conditionMappings c14CMs[cm].
func c14Obj(id, size, cp, cm int) corev1alpha1.ObjectSetObject {
	o := c14BareObj(id, size)
	o.CollisionProtection = c14CPs[cp]
	o.ConditionMappings = append([]corev1alpha1.ConditionMapping(nil), c14CMs[cm]...)
	return o
}

func c14BareObj(id, size int) corev1alpha1.ObjectSetObject {
	data := map[string]any{"p": ""}
	u := unstructured.Unstructured{Object: map[string]any{
		"apiVersion": "v1", "kind": "ConfigMap",
		"metadata": map[string]any{"name": fmt.Sprintf("o%d", id)},
		"data":     data,
	}}
	if size == 0 {
		data["p"] = math.Inf(1) // json: unsupported value; unlike NaN it is equal to itself (deep equality)
		return corev1alpha1.ObjectSetObject{Object: u}
	}
	b, err := json.Marshal(u)
	if err != nil {
		panic(err)
	}
	if size < len(b) {
		panic(fmt.Sprintf("c14: size %d below base %d", size, len(b)))
	}
	data["p"] = c14Pad(size - len(b))
	return corev1alpha1.ObjectSetObject{Object: u}
}

func c14ID(o corev1alpha1.ObjectSetObject) string {
	return strings.TrimPrefix(o.Object.GetName(), "o")
}

func c14At(l []int, i int) int {
	if i >= 0 && i < len(l) {
		return l[i]
	}
	return 0
}

// tok prints one object the code under test handed back: its id if it is, in EVERY field of the ObjectSetObject,
// the object the scenario describes for that id; otherwise id~fp with the fingerprint of what was found.
func (x *c14Ctx) tok(o corev1alpha1.ObjectSetObject) string {
	ids := c14ID(o)
	id, err := strconv.Atoi(ids)
	if err != nil || id < 0 || id >= len(x.scn.Sizes) {
		return ids
	}
	want := x.obj(id)
	if equality.Semantic.DeepEqual(o, want) {
		return ids
	}
	cp, cm := 9, 9
	for i, v := range c14CPs {
		if v == o.CollisionProtection {
			cp = i
		}
	}
	for i, v := range c14CMs {
		if equality.Semantic.DeepEqual(v, o.ConditionMappings) {
			cm = i
		}
	}
	fp := cp + 10*cm
	if !equality.Semantic.DeepEqual(o.Object, want.Object) || fp == c14At(x.scn.Cps, id)+10*c14At(x.scn.Cms, id) {
		fp += 100
	}
	return fmt.Sprintf("%s~%d", ids, fp)
}

func (x *c14Ctx) toks(objs []corev1alpha1.ObjectSetObject, sep string) string {
	out := make([]string, len(objs))
	for i, o := range objs {
		out[i] = x.tok(o)
	}
	return strings.Join(out, sep)
}

func c14Key(ids []int) string {
	if len(ids) == 0 {
		return "e"
	}
	out := make([]string, len(ids))
	for i, id := range ids {
		out[i] = strconv.Itoa(id)
	}
	return strings.Join(out, "_")
}

// ---------------------------------------------------------------- fake API

type c14Client struct {
	client.Client // unimplemented methods panic (nil interface) -> reported by verifkit.Guard
	deploy        *corev1alpha1.ObjectDeployment
	slices        map[string]*corev1alpha1.ObjectSlice // key ns/name
	objectSets    []*corev1alpha1.ObjectSet
	created       []string // ns/name of ObjectSlices created during the current op
	deleted       []string
	touched       []string // writes that hit something they must not
	nextUID       int
	fault         string // API fault armed for the current op (see c14Op.Fault)
	rv            int    // last resourceVersion handed out for the ObjectDeployment
}

var errC14Injected = apierrors.NewInternalError(fmt.Errorf("injected API error"))

func (c *c14Client) take(f string) bool {
	if c.fault == f {
		c.fault = ""
		return true
	}
	return false
}

func (c *c14Client) nextRV() string {
	if c.deploy != nil {
		if n, err := strconv.Atoi(c.deploy.ResourceVersion); err == nil && n > c.rv {
			c.rv = n
		}
	}
	c.rv++
	return strconv.Itoa(c.rv)
}

func (c *c14Client) uid() types.UID {
	c.nextUID++
	return types.UID(fmt.Sprintf("uid-%d", c.nextUID))
}

func c14NotFound(kind, name string) error {
	return apierrors.NewNotFound(schema.GroupResource{Group: "package-operator.run", Resource: kind}, name)
}

func (c *c14Client) Get(_ context.Context, key client.ObjectKey, obj client.Object, _ ...client.GetOption) error {
	switch o := obj.(type) {
	case *corev1alpha1.ObjectDeployment:
		if c.take("get") {
			return errC14Injected
		}
		if c.deploy == nil || key.Name != c.deploy.Name || key.Namespace != c.deploy.Namespace {
			return c14NotFound("objectdeployments", key.Name)
		}
		c.deploy.DeepCopyInto(o)
		return nil
	case *corev1alpha1.ObjectSlice:
		s, ok := c.slices[key.Namespace+"/"+key.Name]
		if !ok {
			return c14NotFound("objectslices", key.Name)
		}
		s.DeepCopyInto(o)
		return nil
	}
	panic(fmt.Sprintf("c14Client.Get: unexpected type %T", obj))
}

func (c *c14Client) Create(_ context.Context, obj client.Object, _ ...client.CreateOption) error {
	switch o := obj.(type) {
	case *corev1alpha1.ObjectDeployment:
		if c.take("create") {
			return errC14Injected
		}
		if c.deploy != nil {
			return apierrors.NewAlreadyExists(schema.GroupResource{Resource: "objectdeployments"}, o.Name)
		}
		o.UID = c.uid()
		o.ResourceVersion = c.nextRV()
		c.deploy = o.DeepCopy()
		return nil
	case *corev1alpha1.ObjectSlice:
		k := o.Namespace + "/" + o.Name
		if _, ok := c.slices[k]; ok {
			return apierrors.NewAlreadyExists(schema.GroupResource{Resource: "objectslices"}, o.Name)
		}
		o.UID = c.uid()
		c.slices[k] = o.DeepCopy()
		c.created = append(c.created, k)
		return nil
	}
	panic(fmt.Sprintf("c14Client.Create: unexpected type %T", obj))
}

func (c *c14Client) Update(_ context.Context, obj client.Object, _ ...client.UpdateOption) error {
	switch o := obj.(type) {
	case *corev1alpha1.ObjectDeployment:
		if c.deploy == nil || o.Name != c.deploy.Name {
			return c14NotFound("objectdeployments", o.Name)
		}
		if c.take("update") {
			return apierrors.NewServiceUnavailable("injected: admission webhook unavailable")
		}
		if c.fault == "conflict" || c.fault == "conflict+update" {
			// a third party (a user, the ObjectDeployment controller) writes the stored object between the
			// caller's last read and this write: metadata only, new resourceVersion
			if c.take("conflict+update") {
				c.fault = "update" // ... and the retried Update will be rejected
			} else {
				c.take("conflict")
			}
			if c.deploy.Annotations == nil {
				c.deploy.Annotations = map[string]string{}
			}
			c.deploy.Annotations["verif.example/third-party"] = "x"
			c.deploy.ResourceVersion = c.nextRV()
		}
		// optimistic locking, as the real API server does it: a write based on a stale resourceVersion is refused
		// with 409 Conflict and changes nothing
		if o.ResourceVersion != "" && o.ResourceVersion != c.deploy.ResourceVersion {
			return apierrors.NewConflict(schema.GroupResource{Group: "package-operator.run", Resource: "objectdeployments"},
				o.Name, fmt.Errorf("the object has been modified; please apply your changes to the latest version and try again"))
		}
		uid := c.deploy.UID
		o.ResourceVersion = c.nextRV()
		c.deploy = o.DeepCopy()
		c.deploy.UID = uid
		if c.take("updatelost") {
			// the request took effect, the response did not make it back
			return apierrors.NewTimeoutError("injected: request timed out", 1)
		}
		return nil
	case *corev1alpha1.ObjectSlice:
		c.touched = append(c.touched, "update:"+o.Namespace+"/"+o.Name)
		return nil
	}
	panic(fmt.Sprintf("c14Client.Update: unexpected type %T", obj))
}

func (c *c14Client) Delete(_ context.Context, obj client.Object, _ ...client.DeleteOption) error {
	switch o := obj.(type) {
	case *corev1alpha1.ObjectSlice:
		k := o.Namespace + "/" + o.Name
		if c.take("gcdel") {
			return errC14Injected
		}
		if _, ok := c.slices[k]; !ok {
			return c14NotFound("objectslices", o.Name)
		}
		delete(c.slices, k)
		c.deleted = append(c.deleted, k)
		return nil
	}
	c.touched = append(c.touched, fmt.Sprintf("delete:%T", obj))
	return nil
}

func (c *c14Client) List(_ context.Context, list client.ObjectList, opts ...client.ListOption) error {
	lo := client.ListOptions{}
	lo.ApplyOptions(opts)
	match := func(o metav1.Object) bool {
		if lo.Namespace != "" && o.GetNamespace() != lo.Namespace {
			return false
		}
		if lo.LabelSelector != nil && !lo.LabelSelector.Matches(c14Labels(o.GetLabels())) {
			return false
		}
		return true
	}
	switch l := list.(type) {
	case *corev1alpha1.ObjectSliceList:
		if c.take("slicelist") {
			return errC14Injected
		}
		keys := make([]string, 0, len(c.slices))
		for k := range c.slices {
			keys = append(keys, k)
		}
		sort.Strings(keys)
		l.Items = nil
		for _, k := range keys {
			if match(c.slices[k]) {
				l.Items = append(l.Items, *c.slices[k].DeepCopy())
			}
		}
		return nil
	case *corev1alpha1.ObjectSetList:
		if c.take("oslist") {
			return errC14Injected
		}
		l.Items = nil
		for _, os := range c.objectSets {
			if match(os) {
				l.Items = append(l.Items, *os.DeepCopy())
			}
		}
		return nil
	}
	panic(fmt.Sprintf("c14Client.List: unexpected type %T", list))
}

type c14Labels map[string]string

func (l c14Labels) Has(k string) bool   { _, ok := l[k]; return ok }
func (l c14Labels) Get(k string) string { return l[k] }
func (l c14Labels) Lookup(k string) (string, bool) {
	v, ok := l[k]
	return v, ok
}

// ---------------------------------------------------------------- execution

type c14Ctx struct {
	scn    c14Scn
	scheme *runtime.Scheme
	c      *c14Client
	objs   map[int]corev1alpha1.ObjectSetObject
	names  map[string]string // real slice name -> symbolic name
	hashes map[string]string // key(ids)+"."+c -> real name
	undecl string            // two contents not declared to collide got the same real name
}

// canon maps a content to its representative under the declared collisions.
func (x *c14Ctx) canon(ids []int) []int {
	k := c14Key(ids)
	for _, e := range x.scn.Coll {
		if c14Key(e.B) == k {
			return e.A
		}
	}
	return ids
}

// obj is the PRISTINE object `id` of the scenario; it is only ever compared against, never handed out.
func (x *c14Ctx) obj(id int) corev1alpha1.ObjectSetObject {
	if o, ok := x.objs[id]; ok {
		return o
	}
	o := c14Obj(id, x.scn.Sizes[id], c14At(x.scn.Cps, id), c14At(x.scn.Cms, id))
	x.objs[id] = o
	return o
}

// content builds fresh deep copies (the padding string is shared, the maps are not).
func (x *c14Ctx) content(ids []int) []corev1alpha1.ObjectSetObject {
	// exactly the shape chunkPhase hands to slice.SetObjects: a non-nil slice of objects
	out := make([]corev1alpha1.ObjectSetObject, 0, len(ids))
	for _, id := range ids {
		o := x.obj(id)
		out = append(out, *o.DeepCopy())
	}
	return out
}

// realName computes the name the code under test derives for a content and collision count,
// through the same opaque hash function.
func (x *c14Ctx) realName(ids []int, cc int) string {
	k := c14Key(ids) + "." + strconv.Itoa(cc)
	if n, ok := x.hashes[k]; ok {
		return n
	}
	c32 := int32(cc)
	n := c14Dep + "-" + utils.ComputeFNV32Hash(x.content(ids), &c32)
	x.hashes[k] = n
	sym := c14Key(x.canon(ids)) + "." + strconv.Itoa(cc)
	if old, dup := x.names[n]; !dup {
		x.names[n] = sym
	} else if old != sym && x.undecl == "" {
		x.undecl = fmt.Sprintf("%s:%s~%s", n, old, sym)
	}
	return n
}

func (x *c14Ctx) symbolic(real string, content []corev1alpha1.ObjectSetObject) string {
	if s, ok := x.names[real]; ok {
		return s
	}
	ids := make([]int, len(content))
	pristine := true
	for i, o := range content {
		ids[i], _ = strconv.Atoi(c14ID(o))
		if strings.Contains(x.tok(o), "~") {
			pristine = false
		}
	}
	if !pristine {
		// the slice holds objects that are not the scenario's: is it named by the hash of what it holds?
		for cc := 0; cc < c14MaxC; cc++ {
			c32 := int32(cc)
			if c14Dep+"-"+utils.ComputeFNV32Hash(content, &c32) == real {
				sym := x.toks(content, "_") + "." + strconv.Itoa(cc)
				x.names[real] = sym
				return sym
			}
		}
		return "?" + real
	}
	for cc := 0; cc < c14MaxC; cc++ {
		if x.realName(ids, cc) == real {
			return x.names[real]
		}
	}
	return "?" + real
}

func c14Valid(s c14Scn) bool {
	okIDs := func(ids []int, allowBad bool) bool {
		for _, id := range ids {
			if id < 0 || id >= len(s.Sizes) {
				return false
			}
			if s.Sizes[id] == 0 && !allowBad {
				return false
			}
		}
		return true
	}
	for _, sz := range s.Sizes {
		if sz != 0 && sz < c14MinSize {
			return false
		}
	}
	for _, v := range s.Cps {
		if v < 0 || v >= len(c14CPs) {
			return false
		}
	}
	for _, v := range s.Cms {
		if v < 0 || v >= len(c14CMs) {
			return false
		}
	}
	for _, p := range s.Pre {
		if !okIDs(p.At, false) || !okIDs(p.Objs, false) || p.C < 0 || p.C >= c14MaxC {
			return false
		}
	}
	for i, e := range s.Coll {
		if !okIDs(e.A, false) || !okIDs(e.B, false) || c14Key(e.A) == c14Key(e.B) ||
			len(e.SA) != len(e.A) || len(e.SB) != len(e.B) {
			return false
		}
		for j, id := range e.A {
			if s.Sizes[id] != e.SA[j] {
				return false
			}
		}
		for j, id := range e.B {
			if s.Sizes[id] != e.SB[j] {
				return false
			}
		}
		for j, f := range s.Coll {
			// a representative is nobody's alias; one entry per alias
			if c14Key(f.B) == c14Key(e.A) || (i != j && c14Key(f.B) == c14Key(e.B)) {
				return false
			}
		}
	}
	binpack := s.Strat == "binpack" || s.Strat == "default" || s.Strat == "junk"
	switch s.Strat {
	case "binpack", "default", "junk", "each", "noop":
	default:
		return false
	}
	for _, op := range s.Ops {
		switch op.Op {
		case "chunk":
			for _, ph := range op.Phases {
				if !okIDs(ph, true) {
					return false
				}
			}
		case "deploy":
			for _, ph := range op.Phases {
				if !okIDs(ph, binpack) {
					return false
				}
			}
			if op.Fault != "" && !c14IsFault(op.Fault) {
				return false
			}
		case "snap", "delos", "markdel":
		case "life":
			if op.St != "active" && op.St != "paused" && op.St != "archived" {
				return false
			}
		default:
			return false
		}
	}
	return true
}

func c14IsFault(f string) bool {
	for _, g := range c14Faults {
		if f == g {
			return true
		}
	}
	return false
}

func (x *c14Ctx) chunker() objectChunker {
	pkg := &adapters.GenericPackage{}
	switch x.scn.Strat {
	case "binpack":
		pkg.Annotations = map[string]string{chunkingStrategyAnnotation: string(chunkingStrategyBinpackNextFit)}
	case "each":
		pkg.Annotations = map[string]string{chunkingStrategyAnnotation: string(chunkingStrategyEachObject)}
	case "noop":
		pkg.Annotations = map[string]string{chunkingStrategyAnnotation: string(chunkingStrategyNoOp)}
	case "junk":
		pkg.Annotations = map[string]string{chunkingStrategyAnnotation: "Bogus"}
	}
	return determineChunkingStrategyForPackage(pkg)
}

func (x *c14Ctx) sliceEntry(k string) string {
	s := x.c.slices[k]
	flags := "-"
	for _, ref := range s.OwnerReferences {
		if ref.Controller != nil && *ref.Controller && x.c.deploy != nil && ref.UID == x.c.deploy.UID &&
			ref.Kind == "ObjectDeployment" && ref.Name == c14Dep {
			flags = "c"
		}
	}
	if s.Labels[sliceOwnerLabel] == c14Dep {
		flags += "l"
	} else {
		flags += "-"
	}
	ids := x.toks(s.Objects, "_")
	if ids == "" {
		ids = "e"
	}
	return x.symbolic(s.Name, s.Objects) + "=" + ids + ":" + flags
}

func (x *c14Ctx) template() string {
	if x.c.deploy == nil {
		return "-"
	}
	var phs []string
	for _, ph := range x.c.deploy.Spec.Template.Spec.Phases {
		var names []string
		for _, n := range ph.Slices {
			var content []corev1alpha1.ObjectSetObject
			if s, ok := x.c.slices[c14NS+"/"+n]; ok {
				content = s.Objects
			}
			names = append(names, x.symbolic(n, content))
		}
		phs = append(phs, x.toks(ph.Objects, ",")+"|"+strings.Join(names, ","))
	}
	return "@" + strings.Join(phs, "/")
}

func (x *c14Ctx) symbolicKeys(keys []string, contents map[string][]corev1alpha1.ObjectSetObject, doSort bool) string {
	var out []string
	for _, k := range keys {
		name := strings.TrimPrefix(k, c14NS+"/")
		if name == k {
			out = append(out, "?"+k)
			continue
		}
		out = append(out, x.symbolic(name, contents[k]))
	}
	if doSort {
		sort.Strings(out)
	}
	return strings.Join(out, ",")
}

// c14ExecTags: coverage facts c14Exec observed about the run (read by c14Tags right after).
var c14ExecTags []string

// pinTags: which slices are, after a reconcile, kept alive ONLY by an ObjectSet that is archived / paused in spec or
// being deleted (neither the template nor an active ObjectSet references them).
func (x *c14Ctx) pinTags(nForeign int) {
	ref := map[string]bool{}
	if x.c.deploy != nil {
		for _, ph := range x.c.deploy.Spec.Template.Spec.Phases {
			for _, n := range ph.Slices {
				ref[n] = true
			}
		}
	}
	inactive := func(os *corev1alpha1.ObjectSet) string {
		switch {
		case os.Spec.LifecycleState == corev1alpha1.ObjectSetLifecycleStateArchived && os.DeletionTimestamp != nil:
			return "archived+deleting"
		case os.Spec.LifecycleState == corev1alpha1.ObjectSetLifecycleStateArchived:
			return "archived"
		case os.DeletionTimestamp != nil:
			return "deleting"
		case os.Spec.LifecycleState == corev1alpha1.ObjectSetLifecycleStatePaused:
			return "paused"
		}
		return ""
	}
	for _, os := range x.c.objectSets[nForeign:] {
		if inactive(os) == "" {
			for _, ph := range os.Spec.Phases {
				for _, n := range ph.Slices {
					ref[n] = true
				}
			}
		}
	}
	for _, os := range x.c.objectSets[nForeign:] {
		if st := inactive(os); st != "" {
			c14ExecTags = append(c14ExecTags, "gc:with-"+st+"-objectset")
			for _, ph := range os.Spec.Phases {
				for _, n := range ph.Slices {
					if !ref[n] {
						c14ExecTags = append(c14ExecTags, "gc:slice-pinned-only-by-"+st+"-objectset")
					}
				}
			}
		}
	}
}

var c14Foreign = []string{c14NS + "/other-aaaa", "otherns/" + c14Dep + "-bbbb"}

func c14Exec(s c14Scn) string {
	c14ExecTags = nil
	if !c14Valid(s) {
		return "BAD-SCN"
	}
	scheme := runtime.NewScheme()
	if err := corev1alpha1.AddToScheme(scheme); err != nil {
		panic(err)
	}
	x := &c14Ctx{scn: s, scheme: scheme, objs: map[int]corev1alpha1.ObjectSetObject{},
		names: map[string]string{}, hashes: map[string]string{}}
	x.c = &c14Client{slices: map[string]*corev1alpha1.ObjectSlice{}}
	c := x.c
	ctx := context.Background()
	r := newDeploymentReconciler(scheme, c, adapters.NewObjectDeployment, adapters.NewObjectSlice,
		adapters.NewObjectSliceList, newGenericObjectSetList)

	// every declared collision must be one of the real hash function
	for _, e := range s.Coll {
		for cc := 0; cc < 2; cc++ {
			if x.realName(e.A, cc) != x.realName(e.B, cc) {
				return fmt.Sprintf("BAD-COLL %s~%s c=%d", c14Key(e.A), c14Key(e.B), cc)
			}
		}
	}

	hasDeploy := false
	for _, op := range s.Ops {
		if op.Op != "chunk" {
			hasDeploy = true
		}
	}
	selector := map[string]string{"app": "c14"}
	if hasDeploy {
		// constants that must never be touched: a slice of another deployment in our namespace, a slice
		// carrying our label in another namespace, an ObjectSet of another deployment and one in another
		// namespace that matches our selector.
		c.slices[c14Foreign[0]] = &corev1alpha1.ObjectSlice{
			ObjectMeta: metav1.ObjectMeta{Name: "other-aaaa", Namespace: c14NS, UID: c.uid(),
				Labels: map[string]string{sliceOwnerLabel: "other"}},
			Objects: []corev1alpha1.ObjectSetObject{c14Obj(900001, 200, 1, 1)},
		}
		c.slices[c14Foreign[1]] = &corev1alpha1.ObjectSlice{
			ObjectMeta: metav1.ObjectMeta{Name: c14Dep + "-bbbb", Namespace: "otherns", UID: c.uid(),
				Labels: map[string]string{sliceOwnerLabel: c14Dep}},
			Objects: []corev1alpha1.ObjectSetObject{c14Obj(900002, 200, 0, 0)},
		}
		c.objectSets = append(c.objectSets,
			&corev1alpha1.ObjectSet{ObjectMeta: metav1.ObjectMeta{Name: "other-1", Namespace: c14NS, UID: c.uid(),
				Labels: map[string]string{"app": "other"}},
				Spec: corev1alpha1.ObjectSetSpec{ObjectSetTemplateSpec: corev1alpha1.ObjectSetTemplateSpec{
					Phases: []corev1alpha1.ObjectSetTemplatePhase{{Name: "p", Slices: []string{"other-aaaa"}}}}}},
			&corev1alpha1.ObjectSet{ObjectMeta: metav1.ObjectMeta{Name: c14Dep + "-1", Namespace: "otherns", UID: c.uid(),
				Labels: selector},
				Spec: corev1alpha1.ObjectSetSpec{ObjectSetTemplateSpec: corev1alpha1.ObjectSetTemplateSpec{
					Phases: []corev1alpha1.ObjectSetTemplatePhase{{Name: "p", Slices: []string{c14Dep + "-bbbb"}}}}}},
		)
	}
	nForeignSets := len(c.objectSets)

	// Pre-existing slices need the deployment's UID for their controller reference: when the scenario
	// scripts any, the ObjectDeployment already exists (with an empty template), as after a first reconcile
	// that got as far as creating slices.
	if len(s.Pre) > 0 {
		c.deploy = &corev1alpha1.ObjectDeployment{
			ObjectMeta: metav1.ObjectMeta{Name: c14Dep, Namespace: c14NS, UID: c.uid(), ResourceVersion: "1"},
			Spec:       corev1alpha1.ObjectDeploymentSpec{Selector: metav1.LabelSelector{MatchLabels: selector}},
		}
		for _, p := range s.Pre {
			name := x.realName(p.At, p.C)
			k := c14NS + "/" + name
			if _, dup := c.slices[k]; dup {
				continue // first entry for a slot wins
			}
			sl := &corev1alpha1.ObjectSlice{
				ObjectMeta: metav1.ObjectMeta{Name: name, Namespace: c14NS, UID: c.uid()},
				Objects:    x.content(p.Objs),
			}
			if p.Lbl {
				sl.Labels = map[string]string{sliceOwnerLabel: c14Dep}
			}
			if p.Ctl {
				sl.OwnerReferences = []metav1.OwnerReference{{
					APIVersion: corev1alpha1.GroupVersion.String(), Kind: "ObjectDeployment",
					Name: c14Dep, UID: c.deploy.UID, Controller: ptr.To(true), BlockOwnerDeletion: ptr.To(true),
				}}
			} else {
				sl.OwnerReferences = []metav1.OwnerReference{{
					APIVersion: corev1alpha1.GroupVersion.String(), Kind: "ObjectDeployment",
					Name: c14Dep, UID: "previous-incarnation", Controller: ptr.To(true),
				}}
			}
			c.slices[k] = sl
		}
	}

	// ... and no other one may occur: with EachObject every slice content is one object, so every name the
	// reconcile can derive at collision count 0 is known beforehand (whatever the code under test then does)
	if s.Strat == "each" {
		for _, op := range s.Ops {
			if op.Op == "deploy" {
				for _, ph := range op.Phases {
					for _, id := range ph {
						x.realName([]int{id}, 0)
					}
				}
			}
		}
	}
	if x.undecl != "" {
		return "UNDECLARED-COLLISION " + x.undecl
	}

	chunker := x.chunker()
	rev := 0
	var outs []string
	for _, op := range s.Ops {
		c.created, c.deleted, c.touched = nil, nil, nil
		switch op.Op {
		case "chunk":
			var pouts []string
			for _, ids := range op.Phases {
				ph := &corev1alpha1.ObjectSetTemplatePhase{Name: "p", Objects: x.content(ids)}
				chunks, err := chunker.Chunk(ctx, ph)
				switch {
				case err != nil:
					pouts = append(pouts, "err")
				case len(chunks) == 0:
					pouts = append(pouts, "nil")
				default:
					var cs []string
					for _, ch := range chunks {
						cs = append(cs, x.toks(ch, ","))
					}
					pouts = append(pouts, strings.Join(cs, "+"))
				}
				// the chunker must not modify the phase it was given (deep comparison with the pristine objects)
				wantToks := make([]string, len(ids))
				for i, id := range ids {
					wantToks[i] = strconv.Itoa(id)
				}
				if x.toks(ph.Objects, ",") != strings.Join(wantToks, ",") {
					pouts[len(pouts)-1] += "!phase-modified"
				}
			}
			outs = append(outs, "K "+strings.Join(pouts, "/"))
		case "deploy":
			desired := &adapters.ObjectDeployment{ObjectDeployment: corev1alpha1.ObjectDeployment{
				ObjectMeta: metav1.ObjectMeta{Name: c14Dep, Namespace: c14NS},
				Spec: corev1alpha1.ObjectDeploymentSpec{
					Selector: metav1.LabelSelector{MatchLabels: selector},
				},
			}}
			desired.Spec.Template.Metadata.Labels = selector
			for i, ids := range op.Phases {
				desired.Spec.Template.Spec.Phases = append(desired.Spec.Template.Spec.Phases,
					corev1alpha1.ObjectSetTemplatePhase{Name: fmt.Sprintf("p%d", i), Objects: x.content(ids)})
			}
			// contents of slices deleted by this op are needed to name them afterwards
			before := map[string][]corev1alpha1.ObjectSetObject{}
			for k, sl := range c.slices {
				before[k] = sl.Objects
			}
			c.fault = op.Fault
			err := r.Reconcile(ctx, desired, chunker)
			c.fault = ""
			res := "ok"
			if err != nil {
				res = "err"
			} else {
				x.pinTags(nForeignSets)
			}
			for k, sl := range c.slices {
				before[k] = sl.Objects
			}
			keys := make([]string, 0, len(c.slices))
			for k := range c.slices {
				if k != c14Foreign[0] && k != c14Foreign[1] {
					keys = append(keys, k)
				}
			}
			var entries []string
			for _, k := range keys {
				entries = append(entries, x.sliceEntry(k))
			}
			sort.Strings(entries)
			line := fmt.Sprintf("D %s T=%s C=%s X=%s S=%s", res, x.template(),
				x.symbolicKeys(c.created, before, false), x.symbolicKeys(c.deleted, before, true),
				strings.Join(entries, ","))
			for _, f := range c14Foreign {
				if _, ok := c.slices[f]; !ok {
					c.touched = append(c.touched, "foreign-slice-gone:"+f)
				}
			}
			if len(c.touched) > 0 {
				line += " !" + verifkit.Esc(strings.Join(c.touched, "+"))
			}
			outs = append(outs, line)
		case "snap":
			// what the ObjectDeployment controller does: a new ObjectSet revision from the current template
			if c.deploy == nil {
				outs = append(outs, "S -")
				break
			}
			rev++
			os := &corev1alpha1.ObjectSet{
				ObjectMeta: metav1.ObjectMeta{Name: fmt.Sprintf("%s-rev%d", c14Dep, rev), Namespace: c14NS,
					UID: c.uid(), Labels: selector, Finalizers: []string{"package-operator.run/cached"}},
				Spec: corev1alpha1.ObjectSetSpec{ObjectSetTemplateSpec: *c.deploy.Spec.Template.Spec.DeepCopy()},
			}
			c.objectSets = append(c.objectSets, os)
			outs = append(outs, fmt.Sprintf("S %d", len(c.objectSets)-nForeignSets))
		case "delos":
			own := len(c.objectSets) - nForeignSets
			if op.I >= 0 && op.I < own {
				j := nForeignSets + op.I
				c.objectSets = append(c.objectSets[:j:j], c.objectSets[j+1:]...)
			}
			outs = append(outs, fmt.Sprintf("O %d", len(c.objectSets)-nForeignSets))
		case "life", "markdel":
			// the ObjectDeployment controller archives / pauses a revision, somebody deletes it while its teardown
			// is not finished (finalizer): either way the ObjectSet still exists and is still listed
			own := len(c.objectSets) - nForeignSets
			if op.I >= 0 && op.I < own {
				os := c.objectSets[nForeignSets+op.I]
				if op.Op == "markdel" {
					now := metav1.NewTime(time.Unix(1000, 0))
					os.DeletionTimestamp = &now
				} else {
					switch op.St {
					case "active":
						os.Spec.LifecycleState = corev1alpha1.ObjectSetLifecycleStateActive
					case "paused":
						os.Spec.LifecycleState = corev1alpha1.ObjectSetLifecycleStatePaused
					case "archived":
						os.Spec.LifecycleState = corev1alpha1.ObjectSetLifecycleStateArchived
					}
				}
			}
			var sts []string
			for _, os := range c.objectSets[nForeignSets:] {
				st := "?"
				switch os.Spec.LifecycleState {
				case "", corev1alpha1.ObjectSetLifecycleStateActive:
					st = "a"
				case corev1alpha1.ObjectSetLifecycleStatePaused:
					st = "p"
				case corev1alpha1.ObjectSetLifecycleStateArchived:
					st = "r"
				}
				if os.DeletionTimestamp != nil {
					st += "d"
				}
				sts = append(sts, st)
			}
			if len(sts) == 0 {
				sts = []string{"-"}
			}
			outs = append(outs, "E "+strings.Join(sts, ","))
		}
	}
	if x.undecl != "" {
		return "UNDECLARED-COLLISION " + x.undecl
	}
	return strings.Join(outs, ";")
}

// Real FNV-32 collisions of utils.ComputeFNV32Hash over one-object slice contents []ObjectSetObject{c14Obj(id, size)},
// found by brute force over (id, size) (birthday search, ~3e5 candidates).  Verified on every run (BAD-COLL).
var c14Collisions = []struct{ A, SA, B, SB int }{
	{0, 6394, 6, 17021}, {1, 6394, 7, 17021}, {2, 6394, 4, 17021}, {3, 6394, 5, 17021},
	{10, 3045, 12, 3660}, {11, 3045, 13, 3660},
	{7, 7951, 10, 9589}, {3, 7951, 14, 9589},
}

// c14Palette builds the sizes and collision declarations for the given table entries; all other objects are small.
func c14Palette(entries ...int) ([]int, []c14Coll) {
	n := 0
	for _, i := range entries {
		e := c14Collisions[i]
		if e.A >= n {
			n = e.A + 1
		}
		if e.B >= n {
			n = e.B + 1
		}
	}
	sizes := make([]int, n)
	for i := range sizes {
		sizes[i] = 200 + i
	}
	var coll []c14Coll
	for _, i := range entries {
		e := c14Collisions[i]
		sizes[e.A], sizes[e.B] = e.SA, e.SB
		coll = append(coll, c14Coll{A: []int{e.A}, B: []int{e.B}, SA: []int{e.SA}, SB: []int{e.SB}})
	}
	return sizes, coll
}

// ---------------------------------------------------------------- generation

func c14Tags(s c14Scn, out string) []string {
	tags := []string{"strat=" + s.Strat}
	seen := map[string]bool{}
	add := func(t string) {
		if !seen[t] {
			seen[t] = true
			tags = append(tags, t)
		}
	}
	if out == "BAD-SCN" {
		add("bad-scn")
		add("trivial")
		return tags
	}
	for _, op := range s.Ops {
		add("op=" + op.Op)
		if op.Op == "life" {
			add("life=" + op.St)
		}
		if op.Op == "deploy" && op.Fault != "" {
			add("fault=" + op.Fault)
		}
		if op.Op == "chunk" || op.Op == "deploy" {
			for _, ph := range op.Phases {
				for _, id := range ph {
					if c14At(s.Cps, id) != 0 {
						add("obj:collisionProtection")
					}
					if c14At(s.Cms, id) != 0 {
						add("obj:conditionMappings")
					}
				}
			}
		}
	}
	for _, t := range c14ExecTags {
		add(t)
	}
	if steps := strings.Split(out, ";"); len(steps) == len(s.Ops) {
		for i, op := range s.Ops {
			if f := strings.Split(steps[i], " "); op.Op == "deploy" && op.Fault != "" && len(f) > 4 && f[0] == "D" {
				// what the fault did to the call: result, template changed or not, slices created
				t := "fault:" + op.Fault + ":" + f[1]
				if f[3] != "C=" {
					t += "+created"
				}
				if f[4] != "X=" {
					t += "+deleted"
				}
				add(t)
			}
		}
	}
	for _, st := range strings.Split(out, ";") {
		switch {
		case strings.HasPrefix(st, "K "):
			for _, p := range strings.Split(st[2:], "/") {
				switch {
				case p == "nil":
					add("chunk=bypass")
				case p == "err":
					add("chunk=err")
				default:
					n := strings.Count(p, "+") + 1
					if n > 4 {
						n = 4
					}
					add(fmt.Sprintf("chunk=%d+", n))
				}
			}
		case strings.HasPrefix(st, "D "):
			f := strings.Split(st, " ")
			add("deploy=" + f[1])
			if len(f) > 3 && f[3] != "C=" {
				add("deploy:created")
			}
			if len(f) > 4 && f[4] != "X=" {
				add("deploy:gc-deleted")
			}
			if strings.Contains(f[2], ".1") || strings.Contains(f[2], ".2") {
				add("deploy:collision")
			}
			if strings.Contains(f[2], "|") && !strings.Contains(f[2], ".") {
				add("deploy:inline-only")
			}
		}
	}
	if len(s.Pre) > 0 {
		add("pre")
	}
	if len(s.Coll) > 0 {
		add("real-hash-collision")
		if strings.HasPrefix(out, "BAD-COLL") || strings.HasPrefix(out, "UNDECLARED-COLLISION") {
			add("hash-structure-mismatch")
		}
	}
	return tags
}

func TestVerifC14Deploy(t *testing.T) {
	r := verifkit.Open(t, "C14")
	defer r.Close()
	limit := binpackNextFitStrategyChunkLimit
	run := func(s c14Scn) {
		s.T = "dep"
		s.Limit = limit
		if s.Sizes == nil {
			s.Sizes = []int{}
		}
		if s.Pre == nil {
			s.Pre = []c14Pre{}
		}
		if s.Ops == nil {
			s.Ops = []c14Op{}
		}
		for i := range s.Ops {
			if s.Ops[i].Phases == nil {
				s.Ops[i].Phases = [][]int{}
			}
			for j := range s.Ops[i].Phases {
				if s.Ops[i].Phases[j] == nil {
					s.Ops[i].Phases[j] = []int{}
				}
			}
		}
		if s.Coll == nil {
			s.Coll = []c14Coll{}
		}
		if s.Cps == nil {
			s.Cps = []int{}
		}
		if s.Cms == nil {
			s.Cms = []int{}
		}
		for i := range s.Coll {
			for _, p := range []*[]int{&s.Coll[i].A, &s.Coll[i].B, &s.Coll[i].SA, &s.Coll[i].SB} {
				if *p == nil {
					*p = []int{}
				}
			}
		}
		for i := range s.Pre {
			if s.Pre[i].At == nil {
				s.Pre[i].At = []int{}
			}
			if s.Pre[i].Objs == nil {
				s.Pre[i].Objs = []int{}
			}
		}
		out := verifkit.Guard(func() string { return c14Exec(s) })
		r.Emit(s, out, c14Tags(s, out)...)
	}
	for _, line := range r.Fixed() {
		var s c14Scn
		if err := json.Unmarshal([]byte(line), &s); err != nil {
			t.Fatalf("bad scenario %q: %v", line, err)
		}
		if s.T != "dep" {
			continue
		}
		run(s)
	}
	if r.ReplayOnly() {
		return
	}
	rng := r.Rng
	strats := []string{"binpack", "each", "noop", "default", "junk"}

	// ---- 1. chunkers, exhaustive: every phase of up to N objects over a palette of sizes around the
	// real limit (1 MiB): tiny, a third, just below/at/above half, just below/at/above the limit, 1.2x.
	L := limit
	palette := []int{c14MinSize, L / 3, L/2 - 1, L / 2, L/2 + 1, L - c14MinSize - 1, L - c14MinSize, L - c14MinSize + 1, L - 1, L, L + 1, L + L/5}
	idOf := map[int]int{}
	var sizes, cps, cms []int
	for pi, sz := range palette {
		// every palette size four times, so a phase can hold up to four objects of the same size; the objects
		// carry every combination of collisionProtection / conditionMappings values (incl. none) across the table
		for k := 0; k < 4; k++ {
			if k == 0 {
				idOf[sz] = len(sizes)
			}
			sizes = append(sizes, sz)
			cps = append(cps, (pi+k)%len(c14CPs))
			cms = append(cms, (pi+2*k+1)%len(c14CMs))
		}
	}
	sizes = append(sizes, 0) // one unmarshalable object
	cps = append(cps, 2)
	cms = append(cms, 1)
	badID := len(sizes) - 1
	N := r.Pick(3, 4)
	count := 0
	var rec func(prefix []int)
	rec = func(prefix []int) {
		if len(prefix) > 0 {
			ids := make([]int, len(prefix))
			u := map[int]int{}
			for i, sz := range prefix {
				ids[i] = idOf[sz] + u[sz]
				u[sz]++
			}
			run(c14Scn{Strat: "binpack", Sizes: sizes, Cps: cps, Cms: cms, Ops: []c14Op{{Op: "chunk", Phases: [][]int{ids}}}})
			count++
		}
		if len(prefix) == N {
			return
		}
		for _, sz := range palette {
			rec(append(prefix, sz))
		}
	}
	rec(nil)
	r.Extra["chunk_exhaustive_maxlen"] = N
	r.Extra["chunk_exhaustive_count"] = count
	r.Extra["chunk_palette"] = palette
	// all strategies on a few fixed layouts, with and without the unmarshalable object, incl. the empty phase
	layouts := [][]int{{}, {idOf[L/3]}, {idOf[L+1]}, {idOf[L/2], idOf[L/2] + 1}, {idOf[L/2], idOf[L/2+1]},
		{idOf[L/3], idOf[L/3] + 1, idOf[L/3] + 2, idOf[L/3] + 3}, {idOf[c14MinSize], badID}, {badID}, {idOf[L], badID, idOf[L/3]},
		{idOf[L/3], idOf[L/3]}, {idOf[L-1], idOf[c14MinSize], idOf[c14MinSize] + 1}}
	for _, st := range strats {
		for _, lay := range layouts {
			run(c14Scn{Strat: st, Sizes: sizes, Cps: cps, Cms: cms, Ops: []c14Op{{Op: "chunk", Phases: [][]int{lay}}}})
		}
		run(c14Scn{Strat: st, Sizes: sizes, Cps: cps, Cms: cms, Ops: []c14Op{{Op: "chunk", Phases: layouts}}})
	}

	// ---- 2. chunkers, random: 1..9 objects, sizes drawn around fractions of the limit
	randSize := func() int {
		switch rng.Intn(8) {
		case 0:
			return c14MinSize + rng.Intn(2000)
		case 1:
			return L/4 + rng.Intn(9) - 4
		case 2:
			return L/3 + rng.Intn(9) - 4
		case 3:
			return L/2 + rng.Intn(9) - 4
		case 4:
			return L + rng.Intn(9) - 4
		case 5:
			return L + L/10 + rng.Intn(L/10)
		default:
			return c14MinSize + rng.Intn(L-c14MinSize)
		}
	}
	// the rest of the ObjectSetObject: collisionProtection and conditionMappings drawn independently per object
	// (one scenario in four: plain objects)
	randMeta := func(s *c14Scn) {
		if rng.Intn(4) == 0 {
			return
		}
		for range s.Sizes {
			s.Cps = append(s.Cps, rng.Intn(len(c14CPs)))
			s.Cms = append(s.Cms, rng.Intn(len(c14CMs)))
		}
	}
	n := r.Pick(400, 6000)
	for i := 0; i < n; i++ {
		k := 1 + rng.Intn(9)
		var s c14Scn
		s.Strat = strats[rng.Intn(len(strats))]
		if rng.Intn(3) > 0 {
			s.Strat = "binpack"
		}
		var ids []int
		for j := 0; j < k; j++ {
			s.Sizes = append(s.Sizes, randSize())
			ids = append(ids, j)
		}
		if rng.Intn(25) == 0 {
			s.Sizes[rng.Intn(k)] = 0
		}
		if rng.Intn(10) == 0 { // duplicate an object inside the phase
			ids = append(ids, ids[rng.Intn(len(ids))])
		}
		s.Ops = []c14Op{{Op: "chunk", Phases: [][]int{ids}}}
		randMeta(&s)
		run(s)
	}

	// ---- 3. reconcileSlice / template / GC: exhaustive collision tables for one single-object slice.
	// slot c=0 and slot c=1 are each: free | same content & ours | same content & foreign controller |
	// different content & ours; with / without label.
	type slot struct {
		present, same, ctl, lbl bool
	}
	var slots []slot
	slots = append(slots, slot{})
	for _, same := range []bool{true, false} {
		for _, ctl := range []bool{true, false} {
			for _, lbl := range []bool{true, false} {
				slots = append(slots, slot{true, same, ctl, lbl})
			}
		}
	}
	for _, s0 := range slots {
		for _, s1 := range slots {
			for _, withSnap := range []bool{false, true} {
				s := c14Scn{Strat: "each", Sizes: []int{200, 300, 400}, Cps: []int{1, 0, 3}, Cms: []int{2, 1, 0}}
				for c, sl := range []slot{s0, s1} {
					if !sl.present {
						continue
					}
					objs := []int{0}
					if !sl.same {
						objs = []int{1}
					}
					s.Pre = append(s.Pre, c14Pre{At: []int{0}, C: c, Objs: objs, Ctl: sl.ctl, Lbl: sl.lbl})
				}
				s.Ops = []c14Op{{Op: "deploy", Phases: [][]int{{0}}}}
				if withSnap {
					s.Ops = append(s.Ops, c14Op{Op: "snap"})
				}
				s.Ops = append(s.Ops, c14Op{Op: "deploy", Phases: [][]int{{2}}}, c14Op{Op: "deploy", Phases: [][]int{{0, 2}}})
				run(s)
			}
		}
	}

	// ---- 4. histories of package updates that add and drop slices (EachObject: cheap, one slice per object)
	// fixedSizes == nil: 2..7 small objects of random size; otherwise exactly these objects (collision palettes).
	history := func(fixedSizes []int) c14Scn {
		var s c14Scn
		s.Strat = "each"
		if rng.Intn(12) == 0 {
			s.Strat = []string{"noop", "binpack", "default", "junk"}[rng.Intn(4)]
		}
		nobj := len(fixedSizes)
		if fixedSizes == nil {
			nobj = 2 + rng.Intn(6)
			for j := 0; j < nobj; j++ {
				s.Sizes = append(s.Sizes, c14MinSize+rng.Intn(400))
			}
			randMeta(&s)
		} else {
			s.Sizes = append([]int(nil), fixedSizes...)
		}
		randPhases := func() [][]int {
			np := 1 + rng.Intn(3)
			if rng.Intn(15) == 0 {
				np = 0
			}
			phs := make([][]int, np)
			perm := rng.Perm(nobj)
			use := perm[:rng.Intn(nobj+1)]
			for _, id := range use {
				if np == 0 {
					break
				}
				p := rng.Intn(np)
				phs[p] = append(phs[p], id)
			}
			if np > 0 && rng.Intn(12) == 0 && len(use) > 0 { // the same object in two phases -> the same slice twice
				phs[rng.Intn(np)] = append(phs[rng.Intn(np)], use[0])
			}
			return phs
		}
		npre := 0
		if rng.Intn(3) == 0 {
			npre = 1 + rng.Intn(3)
		}
		for j := 0; j < npre; j++ {
			at := []int{rng.Intn(nobj)}
			objs := at
			if rng.Intn(2) == 0 {
				objs = []int{rng.Intn(nobj)}
			}
			if rng.Intn(8) == 0 {
				objs = []int{}
			}
			s.Pre = append(s.Pre, c14Pre{At: at, C: rng.Intn(3) % 2, Objs: objs, Ctl: rng.Intn(3) > 0, Lbl: rng.Intn(4) > 0})
		}
		nops := 2 + rng.Intn(7)
		nsets := 0 // ObjectSets that exist (the deployment exists from the first op on)
		pick := func() int { // mostly an ObjectSet that exists, sometimes any index
			if nsets > 0 && rng.Intn(6) > 0 {
				return rng.Intn(nsets)
			}
			return rng.Intn(3)
		}
		for j := 0; j < nops; j++ {
			switch x := rng.Intn(12); {
			case x < 5 || j == 0:
				s.Ops = append(s.Ops, c14Op{Op: "deploy", Phases: randPhases()})
			case x < 8:
				s.Ops = append(s.Ops, c14Op{Op: "snap"})
				nsets++
			case x < 10:
				// an existing revision is archived / paused / re-activated in spec, or deleted with its teardown
				// pending: it still exists
				if rng.Intn(3) == 0 {
					s.Ops = append(s.Ops, c14Op{Op: "markdel", I: pick()})
				} else {
					s.Ops = append(s.Ops, c14Op{Op: "life", I: pick(),
						St: []string{"archived", "archived", "paused", "active"}[rng.Intn(4)]})
				}
				if rng.Intn(3) > 0 { // ... and the package is updated while that revision is still around
					s.Ops = append(s.Ops, c14Op{Op: "deploy", Phases: randPhases()})
				}
			default:
				i := pick()
				s.Ops = append(s.Ops, c14Op{Op: "delos", I: i})
				if i < nsets {
					nsets--
				}
			}
		}
		return s
	}
	nh := r.Pick(1500, 20000)
	for i := 0; i < nh; i++ {
		run(history(nil))
	}

	// ---- 5. histories with the real BinpackNextFit strategy and objects of real size (a few hundred KiB)
	nb := r.Pick(40, 400)
	for i := 0; i < nb; i++ {
		var s c14Scn
		s.Strat = []string{"binpack", "default", "junk"}[rng.Intn(3)]
		nobj := 3 + rng.Intn(4)
		for j := 0; j < nobj; j++ {
			switch rng.Intn(4) {
			case 0:
				s.Sizes = append(s.Sizes, c14MinSize+rng.Intn(1000))
			case 1:
				s.Sizes = append(s.Sizes, L/2+rng.Intn(5)-2)
			default:
				s.Sizes = append(s.Sizes, L/4+rng.Intn(L/2))
			}
		}
		if rng.Intn(10) == 0 {
			s.Sizes[rng.Intn(nobj)] = 0
		}
		randMeta(&s)
		nops := 2 + rng.Intn(4)
		for j := 0; j < nops; j++ {
			switch x := rng.Intn(11); {
			case x == 10:
				if rng.Intn(3) == 0 {
					s.Ops = append(s.Ops, c14Op{Op: "markdel", I: rng.Intn(2)})
				} else {
					s.Ops = append(s.Ops, c14Op{Op: "life", I: rng.Intn(2), St: []string{"archived", "paused", "active"}[rng.Intn(3)]})
				}
			case x < 6 || j == 0:
				np := 1 + rng.Intn(2)
				phs := make([][]int, np)
				for _, id := range rng.Perm(nobj)[:1+rng.Intn(nobj)] {
					p := rng.Intn(np)
					phs[p] = append(phs[p], id)
				}
				s.Ops = append(s.Ops, c14Op{Op: "deploy", Phases: phs})
			case x < 9:
				s.Ops = append(s.Ops, c14Op{Op: "snap"})
			default:
				s.Ops = append(s.Ops, c14Op{Op: "delos", I: rng.Intn(2)})
			}
		}
		run(s)
	}

	// ---- 5b. a later phase fails to chunk after an earlier phase already created slices; the slices are
	// re-used by the next successful reconcile and collected once nothing references them
	for _, st := range []string{"binpack", "default", "junk"} {
		for _, withSnap := range []bool{false, true} {
			for _, preExisting := range []bool{false, true} {
				s := c14Scn{Strat: st, Sizes: []int{L/2 + 10, L/2 + 10, 0, 200, L / 3},
					Cps: []int{0, 1, 2, 3, 0}, Cms: []int{1, 0, 2, 3, 0}}
				if preExisting {
					s.Ops = append(s.Ops, c14Op{Op: "deploy", Phases: [][]int{{3}}})
				}
				s.Ops = append(s.Ops, c14Op{Op: "deploy", Phases: [][]int{{0, 1}, {2}, {4, 1}}})
				if withSnap {
					s.Ops = append(s.Ops, c14Op{Op: "snap"})
				}
				s.Ops = append(s.Ops,
					c14Op{Op: "deploy", Phases: [][]int{{0, 1}, {3}}},
					c14Op{Op: "snap"},
					c14Op{Op: "deploy", Phases: [][]int{{2}}},
					c14Op{Op: "deploy", Phases: [][]int{{3}, {1, 4, 0}}},
					c14Op{Op: "delos", I: 0},
					c14Op{Op: "deploy", Phases: [][]int{{3}}},
					c14Op{Op: "delos", I: 0},
					c14Op{Op: "deploy", Phases: [][]int{{3}}})
				run(s)
			}
		}
	}

	// ---- 7. REAL hash collisions: two different one-object slice contents with the same FNV-32 hash.
	// 7a. per known colliding pair, both orders: second content arrives in a later reconcile (the first one's
	// slice still referenced by an ObjectSet / by nothing), in the same reconcile (other phase / same phase),
	// and with the colliding name taken beforehand by either content (ours / somebody else's).
	for ti := range c14Collisions {
		sizes, coll := c14Palette(ti)
		e := c14Collisions[ti]
		for _, xy := range [][2]int{{e.A, e.B}, {e.B, e.A}} {
			x, y := xy[0], xy[1]
			for _, withSnap := range []bool{false, true} {
				ops := []c14Op{{Op: "deploy", Phases: [][]int{{x}}}}
				if withSnap {
					ops = append(ops, c14Op{Op: "snap"})
				}
				ops = append(ops, c14Op{Op: "deploy", Phases: [][]int{{y}}}, c14Op{Op: "deploy", Phases: [][]int{{x}, {y}}},
					c14Op{Op: "delos", I: 0}, c14Op{Op: "deploy", Phases: [][]int{{y}}}, c14Op{Op: "deploy", Phases: [][]int{{x}}})
				run(c14Scn{Strat: "each", Sizes: sizes, Coll: coll, Ops: ops})
			}
			run(c14Scn{Strat: "each", Sizes: sizes, Coll: coll, Ops: []c14Op{
				{Op: "deploy", Phases: [][]int{{x}, {y}}}, {Op: "deploy", Phases: [][]int{{y}, {x}}}, {Op: "snap"},
				{Op: "deploy", Phases: [][]int{{x, y}}}, {Op: "deploy", Phases: [][]int{{}}}, {Op: "delos", I: 0},
				{Op: "deploy", Phases: [][]int{{y, 0, x}}}}})
			run(c14Scn{Strat: "each", Sizes: sizes, Coll: coll, Ops: []c14Op{
				{Op: "deploy", Phases: [][]int{{x, y}}}, {Op: "snap"}, {Op: "deploy", Phases: [][]int{{y}}},
				{Op: "delos", I: 0}, {Op: "deploy", Phases: [][]int{{y}}}}})
			for _, objs := range [][]int{{x}, {y}} {
				for _, ctl := range []bool{true, false} {
					run(c14Scn{Strat: "each", Sizes: sizes, Coll: coll,
						Pre: []c14Pre{{At: []int{x}, C: 0, Objs: objs, Ctl: ctl, Lbl: true}},
						Ops: []c14Op{{Op: "deploy", Phases: [][]int{{y}}}, {Op: "deploy", Phases: [][]int{{x}}},
							{Op: "deploy", Phases: [][]int{{x}, {y}}}}})
				}
			}
		}
	}
	// 7b. random histories over eight objects that collide pairwise (0~6, 1~7, 2~4, 3~5)
	sizes8, coll8 := c14Palette(0, 1, 2, 3)
	nc := r.Pick(300, 4000)
	for i := 0; i < nc; i++ {
		s := history(sizes8)
		s.Coll = coll8
		run(s)
	}
	r.Extra["real_collision_pairs"] = len(c14Collisions)

	// ---- 8. package v1 -> v2 -> v3 (-> v4) where the older revisions still EXIST but are not active any more:
	// revision 1 archived / paused / (re-)activated in spec and / or deleted with its teardown pending when v3
	// arrives, revision 2 likewise when v4 arrives; v4 shares a slice with v1 and one with v3; finally revision 1 is
	// gone for good (its slices are collected) and the package goes back to v1.  EachObject with small objects and the
	// real BinpackNextFit with objects of half a MiB.
	for _, st := range []string{"each", "binpack"} {
		for _, st1 := range []string{"", "active", "paused", "archived"} {
			for _, del1 := range []bool{false, true} {
				for _, st2 := range []string{"", "archived", "paused"} {
					s := c14Scn{Strat: st, Sizes: []int{300, 310, 320, 330, 340, 350},
						Cps: []int{0, 1, 2, 3, 0, 1}, Cms: []int{0, 0, 1, 2, 3, 3}}
					if st == "binpack" {
						s.Sizes = []int{L/2 + 10, L/2 + 11, L/2 + 12, L/2 + 13, L/2 + 14, L/2 + 15}
					}
					s.Ops = []c14Op{{Op: "deploy", Phases: [][]int{{0, 1}}}, {Op: "snap"},
						{Op: "deploy", Phases: [][]int{{2, 3}}}, {Op: "snap"}}
					if st1 != "" {
						s.Ops = append(s.Ops, c14Op{Op: "life", I: 0, St: st1})
					}
					if del1 {
						s.Ops = append(s.Ops, c14Op{Op: "markdel", I: 0})
					}
					s.Ops = append(s.Ops, c14Op{Op: "deploy", Phases: [][]int{{4, 5}}})
					if st2 != "" {
						s.Ops = append(s.Ops, c14Op{Op: "life", I: 1, St: st2})
					}
					s.Ops = append(s.Ops, c14Op{Op: "snap"}, c14Op{Op: "deploy", Phases: [][]int{{4, 1}}},
						c14Op{Op: "delos", I: 0}, c14Op{Op: "deploy", Phases: [][]int{{4, 1}}},
						c14Op{Op: "life", I: 0, St: "active"}, c14Op{Op: "deploy", Phases: [][]int{{0, 1}}})
					run(s)
				}
			}
		}
	}

	// ---- 6. malformed stream
	run(c14Scn{Strat: "each", Sizes: []int{200}, Ops: []c14Op{{Op: "deploy", Phases: [][]int{{1}}}}})
	run(c14Scn{Strat: "each", Sizes: []int{5}, Ops: []c14Op{{Op: "deploy", Phases: [][]int{{0}}}}})
	run(c14Scn{Strat: "each", Sizes: []int{0}, Ops: []c14Op{{Op: "deploy", Phases: [][]int{{0}}}}})
	run(c14Scn{Strat: "what", Sizes: []int{200}, Ops: []c14Op{{Op: "deploy", Phases: [][]int{{0}}}}})
	run(c14Scn{Strat: "each", Sizes: []int{200}, Ops: []c14Op{{Op: "frob"}}})
	run(c14Scn{Strat: "each", Sizes: []int{200}, Ops: []c14Op{{Op: "deploy", Phases: [][]int{{0}}}, {Op: "snap"}, {Op: "life", I: 0, St: "frozen"}}})
	run(c14Scn{Strat: "each", Sizes: []int{200}, Cps: []int{4}, Ops: []c14Op{{Op: "deploy", Phases: [][]int{{0}}}}})
	run(c14Scn{Strat: "each", Sizes: []int{200}, Cms: []int{7}, Ops: []c14Op{{Op: "deploy", Phases: [][]int{{0}}}}})
	// life / markdel of an ObjectSet that does not exist: nothing happens
	run(c14Scn{Strat: "each", Sizes: []int{200}, Ops: []c14Op{{Op: "life", I: 0, St: "archived"}, {Op: "deploy", Phases: [][]int{{0}}},
		{Op: "snap"}, {Op: "markdel", I: 3}, {Op: "life", I: -1, St: "archived"}, {Op: "deploy", Phases: [][]int{{}}}}})
	run(c14Scn{Strat: "each", Sizes: []int{200}, Pre: []c14Pre{{At: []int{0}, C: 99, Objs: []int{0}}}, Ops: []c14Op{{Op: "snap"}}})
	// collision declarations: sizes not the ones the collision holds for; alias of an alias; same content twice
	run(c14Scn{Strat: "each", Sizes: []int{200, 300}, Coll: []c14Coll{{A: []int{0}, B: []int{1}, SA: []int{200}, SB: []int{301}}},
		Ops: []c14Op{{Op: "deploy", Phases: [][]int{{0}, {1}}}}})
	run(c14Scn{Strat: "each", Sizes: []int{200, 300, 400}, Coll: []c14Coll{{A: []int{0}, B: []int{1}, SA: []int{200}, SB: []int{300}},
		{A: []int{1}, B: []int{2}, SA: []int{300}, SB: []int{400}}}, Ops: []c14Op{{Op: "deploy", Phases: [][]int{{0}, {1}}}}})
	run(c14Scn{Strat: "each", Sizes: []int{200}, Coll: []c14Coll{{A: []int{0}, B: []int{0}, SA: []int{200}, SB: []int{200}}},
		Ops: []c14Op{{Op: "deploy", Phases: [][]int{{0}}}}})
	run(c14Scn{Strat: "each", Sizes: []int{200}, Ops: []c14Op{{Op: "deploy", Phases: [][]int{{0}}, Fault: "frob"}}})

	// ---- 9. API faults.  A package update (a pass that CHANGES a chunked template) whose Reconcile is hit by one
	// API fault — the Get / the pre-create / the Update of the ObjectDeployment failing with a non-conflict error,
	// the Update taking effect although an error comes back, a 409 Conflict (re-Get + retry; alone and followed by a
	// rejected Update), the ObjectSet list / the slice list / the first Delete of the slice GC failing — then
	// further passes (the retry, the next update).
	// 9a. exhaustive: v1 [a,b] -> v2 [b,c] hit by fault f -> retry v2 -> v3 [d] hit by fault g -> retry v3, with an
	// ObjectSet revision snapshotted after v1 / after the retry of v2 or not, EachObject; the fault on the very
	// first call (no ObjectDeployment yet); and the same history with the real BinpackNextFit over half-MiB objects.
	fl := append([]string{""}, c14Faults...)
	dep := func(f string, phs ...[]int) c14Op { return c14Op{Op: "deploy", Phases: phs, Fault: f} }
	snap := c14Op{Op: "snap"}
	nf := 0
	small := []int{200, 210, 220, 230}
	for _, f := range fl {
		for _, g := range fl {
			for _, s1 := range []bool{false, true} {
				for _, s2 := range []bool{false, true} {
					ops := []c14Op{dep("", []int{0, 1})}
					if s1 {
						ops = append(ops, snap)
					}
					ops = append(ops, dep(f, []int{1, 2}), dep("", []int{1, 2}))
					if s2 {
						ops = append(ops, snap)
					}
					ops = append(ops, dep(g, []int{3}), dep("", []int{3}))
					run(c14Scn{Strat: "each", Sizes: small, Cps: []int{0, 1, 2, 3}, Cms: []int{1, 0, 2, 0}, Ops: ops})
					nf++
				}
			}
		}
		// the first call of all is hit; two phases; the fault repeats on the retry
		run(c14Scn{Strat: "each", Sizes: small, Ops: []c14Op{dep(f, []int{0}, []int{1, 2}), dep(f, []int{0}, []int{1, 2}), dep("", []int{0}, []int{1, 2}),
			snap, dep(f, []int{2}, []int{3}), dep("", []int{2}, []int{3})}})
		nf++
		// real BinpackNextFit: three half-MiB objects per version -> two slices each
		h := L/2 + 1
		run(c14Scn{Strat: "default", Sizes: []int{h, h, h, h, h, h}, Ops: []c14Op{dep("", []int{0, 1, 2}), dep(f, []int{3, 4, 5}), dep("", []int{3, 4, 5}),
			snap, dep(f, []int{0, 4, 5}), dep("", []int{0, 4, 5})}})
		nf++
	}
	r.Extra["fault_exhaustive_count"] = nf
	// 9b. seeded random histories (as in 4.: updates, snapshots, lifecycle changes, deletions, scripted slices)
	// in which every Reconcile is hit by a random fault with probability 1/2
	nfh := r.Pick(1500, 20000)
	for i := 0; i < nfh; i++ {
		s := history(nil)
		for j := range s.Ops {
			if s.Ops[j].Op == "deploy" && rng.Intn(2) == 0 {
				s.Ops[j].Fault = c14Faults[rng.Intn(len(c14Faults))]
			}
		}
		s.Ops = append(s.Ops, c14Op{Op: "deploy", Phases: s.Ops[0].Phases})
		run(s)
	}
}
