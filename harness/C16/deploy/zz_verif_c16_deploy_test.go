package packagedeploy

// Correspondence harness for property C16, stream "deploy": ONE call of the real
// PackageDeployer.Deploy per scenario.  Real structural loader on real package files, real
// constraint evaluation (semver) against a real PackageEnvironment, real config admission, real
// render, real DeploymentReconciler -- against the recording in-memory API client of verifc16.
// The deployer is built with the real constructors (NewPackageDeployer / NewClusterPackageDeployer).
// Injected by `go test -overlay`.

import (
	"context"
	"encoding/json"
	"errors"
	"fmt"
	"strings"
	"testing"
	"time"

	"k8s.io/apimachinery/pkg/api/meta"
	metav1 "k8s.io/apimachinery/pkg/apis/meta/v1"
	"k8s.io/apimachinery/pkg/types"
	"k8s.io/client-go/util/retry"
	"sigs.k8s.io/controller-runtime/pkg/client"

	corev1alpha1 "package-operator.run/apis/core/v1alpha1"
	"package-operator.run/internal/adapters"
	"package-operator.run/internal/packages/internal/packagetypes"
	"package-operator.run/internal/verifc16"
	"package-operator.run/internal/verifkit"
)

type c16CountingLoader struct {
	inner structuralLoader
	fail  bool
	n     int
}

var errC16Loader = errors.New("scripted loader error")

func (l *c16CountingLoader) LoadComponent(
	ctx context.Context, rawPkg *packagetypes.RawPackage, componentName string,
) (*packagetypes.Package, error) {
	l.n++
	if l.fail {
		return nil, errC16Loader
	}
	return l.inner.LoadComponent(ctx, rawPkg, componentName)
}

type c16CountingReconciler struct {
	inner deploymentReconciler
	n     int
}

func (r *c16CountingReconciler) Reconcile(
	ctx context.Context, desiredDeploy adapters.ObjectDeploymentAccessor, chunker objectChunker,
) error {
	r.n++
	return r.inner.Reconcile(ctx, desiredDeploy, chunker)
}

func c16Invalid(conds []metav1.Condition) string {
	c := meta.FindStatusCondition(conds, corev1alpha1.PackageInvalid)
	if c == nil {
		return "-"
	}
	if c.Status != metav1.ConditionTrue {
		return "False/" + c.Reason
	}
	return c.Reason
}

func c16PriorConds(prior string) []metav1.Condition {
	if prior == "" {
		return nil
	}
	return []metav1.Condition{{
		Type: corev1alpha1.PackageInvalid, Status: metav1.ConditionTrue, Reason: prior, Message: "earlier pass",
	}}
}

func c16OD(scope, od string) client.Object {
	if od == "" {
		return nil
	}
	om := metav1.ObjectMeta{Name: "p", UID: types.UID("od-uid"), ResourceVersion: "1", Generation: 1}
	if od == "prev" {
		om.Annotations, om.Labels = verifc16.PrevMeta()
	}
	if scope == "cluster" {
		o := &corev1alpha1.ClusterObjectDeployment{ObjectMeta: om}
		if od == "old" || od == "prev" {
			o.Spec.Template.Spec = verifc16.OldTemplate()
		}
		return o
	}
	om.Namespace = "ns"
	o := &corev1alpha1.ObjectDeployment{ObjectMeta: om}
	if od == "old" || od == "prev" {
		o.Spec.Template.Spec = verifc16.OldTemplate()
	}
	return o
}

func c16DeployExec(s verifc16.Scn) string {
	if len(s.Spec) != 3 || s.Spec[0] < 0 || s.Spec[0] >= len(s.Pkgs) {
		return "BAD-SCN"
	}
	fault := ""
	for _, op := range s.Ops {
		if op.Op == "pass" {
			fault = op.Fault
		}
	}
	// a scenario is the history of an operator process of its own (see verifc16.NewEpoch)
	verifc16.NewEpoch()
	// what the same process has served before for other Packages, each against an API of its own
	for i, w := range s.Warm {
		if len(w) != 3 || w[0] < 0 || w[0] >= len(s.Pkgs) {
			return "BAD-SCN"
		}
		wc := &verifc16.Client{Scheme_: testScheme, Uniq: "1"}
		raw := &packagetypes.RawPackage{Files: verifc16.Files(s.Pkgs[w[0]], w[0], s.Scope)}
		if s.Scope == "cluster" {
			p := &adapters.GenericClusterPackage{}
			p.Name, p.UID, p.Generation = fmt.Sprintf("w%d", i), types.UID(fmt.Sprintf("w%d-uid", i)), 1
			p.Spec.Image, p.Spec.Config, p.Spec.Component = verifc16.ImageName(w[0]), verifc16.ConfigRaw(w[1]), verifc16.ComponentName(w[2])
			_ = NewClusterPackageDeployer(wc, testScheme, nil).Deploy(context.Background(), p, raw, *verifc16.PackageEnv(s.Env))
		} else {
			p := &adapters.GenericPackage{}
			p.Name, p.Namespace, p.UID, p.Generation = "p", fmt.Sprintf("w%d", i), types.UID(fmt.Sprintf("w%d-uid", i)), 1
			p.Spec.Image, p.Spec.Config, p.Spec.Component = verifc16.ImageName(w[0]), verifc16.ConfigRaw(w[1]), verifc16.ComponentName(w[2])
			_ = NewPackageDeployer(wc, wc, testScheme, nil).Deploy(context.Background(), p, raw, *verifc16.PackageEnv(s.Env))
		}
	}
	c := &verifc16.Client{Scheme_: testScheme, Uniq: s.Uniq, OD: c16OD(s.Scope, s.Od)}
	var (
		d      *PackageDeployer
		apiPkg adapters.GenericPackageAccessor
	)
	img, cfg, comp := s.Spec[0], s.Spec[1], s.Spec[2]
	if s.Scope == "cluster" {
		d = NewClusterPackageDeployer(c, testScheme, nil)
		p := &adapters.GenericClusterPackage{}
		p.Name, p.UID, p.Generation = "p", "pkg-uid", 1
		p.Spec.Image, p.Spec.Config, p.Spec.Component = verifc16.ImageName(img), verifc16.ConfigRaw(cfg), verifc16.ComponentName(comp)
		p.Status.Conditions = c16PriorConds(s.Prior)
		apiPkg = p
	} else {
		d = NewPackageDeployer(c, c, testScheme, nil)
		p := &adapters.GenericPackage{}
		p.Name, p.Namespace, p.UID, p.Generation = "p", "ns", "pkg-uid", 1
		p.Spec.Image, p.Spec.Config, p.Spec.Component = verifc16.ImageName(img), verifc16.ConfigRaw(cfg), verifc16.ComponentName(comp)
		p.Status.Conditions = c16PriorConds(s.Prior)
		apiPkg = p
	}
	loader := &c16CountingLoader{inner: d.structuralLoader, fail: fault == "loader"}
	rec := &c16CountingReconciler{inner: d.deploymentReconciler}
	d.structuralLoader = loader
	d.deploymentReconciler = rec
	if fault != "loader" {
		c.Fault = fault
	}
	raw := &packagetypes.RawPackage{Files: verifc16.Files(s.Pkgs[img], img, s.Scope)}
	err := d.Deploy(context.Background(), apiPkg, raw, *verifc16.PackageEnv(s.Env))
	ret := "nil"
	if err != nil {
		ret = "err"
	}
	ann, lab := verifc16.MetaID(c.OD)
	return fmt.Sprintf("ret=%s inv=%s w=%s t=%s rec=%d lists=%d ann=%s lab=%s",
		ret, c16Invalid(*apiPkg.GetConditions()), strings.Join(c.Log, ","), verifc16.TemplateID(c.OD), rec.n, c.Lists, ann, lab)
}

func c16DeployTags(s verifc16.Scn, out string) []string {
	tags := []string{"scope=" + s.Scope, "uniq=" + s.Uniq, "od=" + s.Od, "prior=" + s.Prior}
	if len(s.Spec) == 3 && s.Spec[0] < len(s.Pkgs) {
		p := s.Pkgs[s.Spec[0]]
		tags = append(tags, "load="+p.Load, "render="+p.Render, fmt.Sprintf("cfg=%d", s.Spec[1]), fmt.Sprintf("comp=%d/%v", s.Spec[2], p.Comps),
			"schema="+p.Schema, fmt.Sprintf("warm=%d", len(s.Warm)))
		for _, w := range s.Warm {
			if len(w) == 3 && w[0] >= 0 && w[0] < len(s.Pkgs) {
				q := s.Pkgs[w[0]]
				if (q.Name != "" && q.Name == p.Name || w[2] == 1 && s.Spec[2] == 1) && q.Schema != p.Schema {
					tags = append(tags, "warm:other-version-other-schema")
				}
			}
		}
		for _, c := range p.Cons {
			tags = append(tags, "con="+c)
		}
		if len(p.Cons) == 0 {
			tags = append(tags, "con=none")
		}
	}
	for _, op := range s.Ops {
		if op.Op == "pass" {
			tags = append(tags, "fault="+op.Fault)
		}
	}
	for _, f := range strings.Fields(out) {
		if strings.HasPrefix(f, "ret=") || strings.HasPrefix(f, "inv=") || strings.HasPrefix(f, "w=") {
			tags = append(tags, "out:"+f)
		}
	}
	if strings.HasPrefix(out, "PANIC") {
		tags = append(tags, "out:PANIC")
	}
	return tags
}

func TestVerifC16Deploy(t *testing.T) {
	r := verifkit.Open(t, "C16")
	defer r.Close()
	// retry.RetryOnConflict(retry.DefaultRetry, ...): keep the 5 steps of the real backoff, only
	// shorten the 10ms sleep between attempts so that thousands of conflict scenarios stay cheap.
	retry.DefaultRetry.Duration = time.Microsecond
	seen := map[string]bool{}
	run := func(s verifc16.Scn) {
		s.Mode = "deploy"
		b, _ := json.Marshal(s)
		if seen[string(b)] {
			return
		}
		seen[string(b)] = true
		out := verifkit.Guard(func() string { return c16DeployExec(s) })
		r.Emit(string(b), out, c16DeployTags(s, out)...)
	}
	for _, line := range r.Fixed() {
		var s verifc16.Scn
		if err := json.Unmarshal([]byte(line), &s); err != nil {
			t.Fatalf("bad scenario %q: %v", line, err)
		}
		if s.Mode != "deploy" {
			continue
		}
		run(s)
	}
	if r.ReplayOnly() {
		return
	}
	envs := verifc16.AllEnvs()
	pass := func(f string) []verifc16.Op { return []verifc16.Op{{Op: "pass", Fault: f}} }
	// 1. exhaustive: every single-constraint / no-constraint package x every environment x
	//    uniqueness answer x scope, on the fault-free path with and without an earlier Invalid condition
	consSets := [][]string{nil, {"platform"}, {"k8s"}, {"ocp"}, {"badrange"}, {"unique"}, {"platform+k8s"}}
	n1 := 0
	for _, scope := range []string{"ns", "cluster"} {
		for _, cons := range consSets {
			for _, env := range envs {
				for _, uniq := range []string{"0", "1", "2", "err"} {
					if uniq != "1" && (len(cons) == 0 || cons[0] != "unique") && env.K8sBad {
						continue
					}
					for _, prior := range []string{"", "LoadError", "ConstraintsFailed"} {
						for _, od := range []string{"", "old"} {
							run(verifc16.Scn{Scope: scope, Env: env, Uniq: uniq, Prior: prior, Od: od,
								Pkgs: []verifc16.Pkg{{Load: "ok", Cons: cons, Render: "ok"}}, Spec: []int{0, 1, 0}, Ops: pass("")})
							n1++
						}
					}
				}
			}
		}
	}
	// 2. exhaustive: every invalidity class (load / config / render / component / lock) x
	//    constraints met or unmet x deployment state x API fault
	type cls struct {
		p    verifc16.Pkg
		cfg  int
		comp int
	}
	var classes []cls
	for _, load := range []string{"ok", "nomanifest", "badyaml", "badgvk"} {
		classes = append(classes, cls{p: verifc16.Pkg{Load: load, Render: "ok"}})
	}
	for _, rd := range []string{"nophases", "nophaseann", "dup", "tmplerr", "scope"} {
		classes = append(classes, cls{p: verifc16.Pkg{Load: "ok", Render: rd}})
	}
	for cfg := 0; cfg <= 5; cfg++ {
		classes = append(classes, cls{p: verifc16.Pkg{Load: "ok", Render: "ok"}, cfg: cfg})
	}
	for comp := 0; comp <= 2; comp++ {
		classes = append(classes, cls{p: verifc16.Pkg{Load: "ok", Render: "ok", Comps: true}, comp: comp})
		classes = append(classes, cls{p: verifc16.Pkg{Load: "ok", Render: "ok"}, comp: comp})
	}
	classes = append(classes, cls{p: verifc16.Pkg{Load: "ok", Render: "ok", BadLock: true}})
	faults := []string{"", "loader", "odget", "odcreate", "odupdate", "gc", "conflict2", "conflict5"}
	for _, scope := range []string{"ns", "cluster"} {
		for _, cl := range classes {
			for _, cons := range [][]string{nil, {"k8s"}, {"platform", "k8s"}, {"k8s", "badrange"}, {"ocp", "unique"}} {
				for _, env := range []verifc16.Env{{}, {K8sNew: true}, {Ocp: true, K8sNew: true, OcpNew: true}} {
					for _, od := range []string{"", "empty", "old"} {
						for _, f := range faults {
							p := cl.p
							p.Cons = cons
							run(verifc16.Scn{Scope: scope, Env: env, Uniq: "1", Od: od,
								Pkgs: []verifc16.Pkg{p}, Spec: []int{0, cl.cfg, cl.comp}, Ops: pass(f)})
							n1++
						}
					}
				}
			}
		}
	}
	// 2b. exhaustive: the conflict-retry loop of DeploymentReconciler.Reconcile.  Every number of
	//     consecutive 409 answers from 0 to beyond the retry budget (5 attempts) x every start state of
	//     the ObjectDeployment x every kind of spec (image / config / component) x scope.
	for _, scope := range []string{"ns", "cluster"} {
		for nc := 0; nc <= 8; nc++ {
			for _, od := range []string{"", "empty", "old", "prev"} {
				for _, spec := range [][]int{{0, 1, 0}, {0, 2, 0}, {0, 0, 0}, {0, 4, 0}, {1, 1, 0}, {1, 2, 1}, {0, 1, 1}} {
					f := ""
					if nc > 0 {
						f = fmt.Sprintf("conflict%d", nc)
					}
					run(verifc16.Scn{Scope: scope, Env: verifc16.Env{K8sNew: true}, Uniq: "1", Od: od,
						Pkgs: []verifc16.Pkg{{Load: "ok", Render: "ok", Comps: true}, {Load: "ok", Render: "ok", Comps: true, Cons: []string{"k8s"}}},
						Spec: spec, Ops: pass(f)})
					n1++
				}
			}
		}
	}
	// 2c. exhaustive: every config schema x every config x ObjectDeployment absent / present, alone and after
	//     the same process has admitted, for another Package, a config against ANOTHER version of the package
	//     (same manifest name, every other schema; root package and component)
	for _, scope := range []string{"ns", "cluster"} {
		for _, sb := range verifc16.Schemas {
			for cfg := 0; cfg <= 5; cfg++ {
				for _, od := range []string{"", "old"} {
					for _, comp := range []int{0, 1} {
						one := verifc16.Pkg{Load: "ok", Render: "ok", Comps: true, Name: "f", Schema: sb}
						run(verifc16.Scn{Scope: scope, Env: verifc16.Env{K8sNew: true}, Uniq: "1", Od: od,
							Pkgs: []verifc16.Pkg{one}, Spec: []int{0, cfg, comp}, Ops: pass("")})
						n1++
						for _, sa := range verifc16.Schemas {
							for _, wcfg := range []int{0, 1, 3} {
								if scope == "cluster" && wcfg != 1 {
									continue
								}
								other := verifc16.Pkg{Load: "ok", Render: "ok", Comps: true, Name: "f", Schema: sa}
								run(verifc16.Scn{Scope: scope, Env: verifc16.Env{K8sNew: true}, Uniq: "1", Od: od,
									Pkgs: []verifc16.Pkg{other, one}, Spec: []int{1, cfg, comp}, Warm: [][]int{{0, wcfg, comp}}, Ops: pass("")})
								n1++
							}
						}
					}
				}
			}
		}
	}
	r.Extra["exhaustive_count"] = n1
	// 3. random: arbitrary constraint lists and everything else at once
	n := r.Pick(4000, 50000)
	for i := 0; i < n; i++ {
		run(verifc16.RandomScn(r.Rng, "deploy"))
	}
	// 4. random: versions of one package with random schemas, 0-3 earlier Deploy calls of the same process
	n = r.Pick(2000, 25000)
	for i := 0; i < n; i++ {
		s := verifc16.RandomVersionScn(r.Rng)
		s.More, s.Ops = nil, pass("")
		s.Od = []string{"", "", "old", "empty", "prev"}[r.Rng.Intn(5)]
		for k := r.Rng.Intn(4); k > 0; k-- {
			s.Warm = append(s.Warm, []int{r.Rng.Intn(len(s.Pkgs)), r.Rng.Intn(5), r.Rng.Intn(2)})
		}
		run(s)
	}
}
