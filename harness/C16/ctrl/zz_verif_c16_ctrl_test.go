package packages

// Correspondence harness for property C16, stream "ctrl": histories of Package spec edits and
// reconcile passes through the REAL GenericPackageController (real unpackReconciler, real
// objectDeploymentStatusReconciler, real status persistence) with the REAL PackageDeployer
// (real loader / constraints / config admission / render / DeploymentReconciler), built by the
// real constructors NewPackageController / NewClusterPackageController.  Scripted: the image
// puller (serves real package files per image, fails on demand) and the recording in-memory
// API client of verifc16 (fault injection per pass).  Injected by `go test -overlay`.

import (
	"context"
	"encoding/json"
	"errors"
	"fmt"
	"strings"
	"testing"
	"time"

	"github.com/go-logr/logr"
	"k8s.io/apimachinery/pkg/api/meta"
	metav1 "k8s.io/apimachinery/pkg/apis/meta/v1"
	"k8s.io/apimachinery/pkg/runtime"
	"k8s.io/apimachinery/pkg/types"
	"k8s.io/client-go/util/retry"
	ctrl "sigs.k8s.io/controller-runtime"
	"sigs.k8s.io/controller-runtime/pkg/client"

	apis "package-operator.run/apis"
	corev1alpha1 "package-operator.run/apis/core/v1alpha1"
	"package-operator.run/internal/adapters"
	"package-operator.run/internal/apis/manifests"
	"package-operator.run/internal/packages"
	"package-operator.run/internal/verifc16"
	"package-operator.run/internal/verifkit"
)

var c16Scheme = runtime.NewScheme()

func init() {
	if err := apis.AddToScheme(c16Scheme); err != nil {
		panic(err)
	}
}

var errC16 = errors.New("scripted failure")

type c16Puller struct {
	scn   *verifc16.Scn
	fail  bool
	pulls []int // image indices pulled in the current pass
}

func (p *c16Puller) Pull(_ context.Context, image string) (*packages.RawPackage, error) {
	idx := verifc16.ImageIndex(image)
	p.pulls = append(p.pulls, idx)
	if p.fail {
		return nil, errC16
	}
	if idx < 0 || idx >= len(p.scn.Pkgs) {
		return nil, errC16
	}
	return &packages.RawPackage{Files: verifc16.Files(p.scn.Pkgs[idx], idx, p.scn.Scope)}, nil
}

type c16Deployer struct {
	inner packageDeployer
	n     int
}

func (d *c16Deployer) Deploy(
	ctx context.Context, apiPkg adapters.GenericPackageAccessor, rawPkg *packages.RawPackage, env manifests.PackageEnvironment,
) error {
	d.n++
	return d.inner.Deploy(ctx, apiPkg, rawPkg, env)
}

type c16Sink struct {
	environmentSink
	fail bool
}

func (s *c16Sink) GetEnvironment(ctx context.Context, namespace string) (*manifests.PackageEnvironment, error) {
	if s.fail {
		return nil, errC16
	}
	return s.environmentSink.GetEnvironment(ctx, namespace)
}

func c16Cond(conds []metav1.Condition, typ string) string {
	c := meta.FindStatusCondition(conds, typ)
	if c == nil {
		return "-"
	}
	switch c.Status {
	case metav1.ConditionTrue:
		return "T/" + c.Reason
	case metav1.ConditionFalse:
		return "F/" + c.Reason
	}
	return "U/" + c.Reason
}

func c16SpecLabel(spec []int) string { return fmt.Sprintf("%d.%d.%d", spec[0], spec[1], spec[2]) }

func c16ODPausedStr(od client.Object) string {
	switch {
	case od == nil:
		return "-"
	case verifc16.ODPaused(od):
		return "1"
	}
	return "0"
}

func c16CtrlExec(s verifc16.Scn) string {
	if len(s.Spec) != 3 || len(s.Pkgs) == 0 {
		return "BAD-SCN"
	}
	// a scenario is the history of an operator process of its own (see verifc16.NewEpoch)
	verifc16.NewEpoch()
	c := &verifc16.Client{Scheme_: c16Scheme, Uniq: s.Uniq}
	puller := &c16Puller{scn: &s}
	var gc *GenericPackageController
	var hashMod int32
	cluster := s.Scope == "cluster"
	dep := &c16Deployer{}
	sink := &c16Sink{}
	// start (and, op "restart", re-start) the operator: everything the controller, its sub-reconcilers and the
	// package deployer hold in memory is built anew by the real constructors; the API (c) stays
	start := func() {
		if cluster {
			gc = NewClusterPackageController(c, c, logr.Discard(), c16Scheme, puller, nil, &hashMod, nil)
		} else {
			gc = NewPackageController(c, c, logr.Discard(), c16Scheme, puller, nil, &hashMod, nil)
		}
		gc.SetEnvironment(verifc16.PackageEnv(s.Env))
		dep.inner = gc.unpackReconciler.packageDeployer
		gc.unpackReconciler.packageDeployer = dep
		sink.environmentSink = gc.unpackReconciler.environmentSink
		gc.unpackReconciler.environmentSink = sink
	}
	start()

	// the Packages this operator serves: Package 0 (initial spec s.Spec) and Packages 1.. (s.More)
	specs := [][]int{append([]int(nil), s.Spec...)}
	for _, m := range s.More {
		if len(m) != 3 {
			return "BAD-SCN"
		}
		specs = append(specs, append([]int(nil), m...))
	}
	// spec.paused of the Package: a history dimension of the C09 stream pkgpause only
	pkgpause := s.Mode == "pkgpause"
	paused := make([]bool, len(specs))
	paused[0] = pkgpause && s.Paused
	hashes := map[string]string{}
	reqs := make([]ctrl.Request, len(specs))
	valid := func(i int) bool {
		return specs[i][0] >= 0 && specs[i][0] < len(s.Pkgs)
	}
	// applySpec writes the spec of Package i (which must be the selected one) into the API
	applySpec := func(i int) {
		ps := corev1alpha1.PackageSpec{
			Image: verifc16.ImageName(specs[i][0]), Config: verifc16.ConfigRaw(specs[i][1]), Component: verifc16.ComponentName(specs[i][2]),
			Paused: paused[i],
		}
		var acc adapters.GenericPackageAccessor
		switch p := c.Pkg.(type) {
		case *corev1alpha1.Package:
			p.Spec = ps
			acc = &adapters.GenericPackage{Package: *p.DeepCopy()}
		case *corev1alpha1.ClusterPackage:
			p.Spec = ps
			acc = &adapters.GenericClusterPackage{ClusterPackage: *p.DeepCopy()}
		}
		label := c16SpecLabel(specs[i])
		if paused[i] {
			label += "p" // the spec hash covers spec.paused
		}
		hashes[acc.GetSpecHash(&hashMod)] = label
	}
	for i := range specs {
		if !valid(i) {
			return "BAD-SCN"
		}
		c.Select(i)
		om := metav1.ObjectMeta{Name: "p", UID: types.UID("pkg-uid"), Generation: 1, ResourceVersion: "1"}
		if i > 0 {
			om.UID = types.UID(fmt.Sprintf("pkg-uid-%d", i))
		}
		if !cluster {
			om.Namespace = "ns"
			if i > 0 {
				om.Namespace = fmt.Sprintf("ns%d", i)
			}
			c.Pkg = &corev1alpha1.Package{ObjectMeta: om}
		} else {
			if i > 0 {
				om.Name = fmt.Sprintf("p%d", i)
			}
			c.Pkg = &corev1alpha1.ClusterPackage{ObjectMeta: om}
		}
		reqs[i] = ctrl.Request{NamespacedName: types.NamespacedName{Name: om.Name, Namespace: om.Namespace}}
		applySpec(i)
	}
	c.Select(0)
	ctx := context.Background()
	var outs []string
	for _, op := range s.Ops {
		k := op.P
		if k < 0 || k >= len(specs) {
			return "BAD-SCN"
		}
		if k != 0 && op.Op != "edit" && op.Op != "pass" {
			return "BAD-SCN"
		}
		c.Select(k)
		spec := specs[k]
		switch op.Op {
		case "edit":
			switch op.F {
			case "image":
				spec[0] = op.V
			case "config":
				spec[1] = op.V
			case "component":
				spec[2] = op.V
			case "meta":
				c.Pkg.SetLabels(map[string]string{"edited": fmt.Sprint(op.V)})
			default:
				return "BAD-OP"
			}
			if !valid(k) {
				return "BAD-SCN"
			}
			if op.F != "meta" {
				c.Pkg.SetGeneration(c.Pkg.GetGeneration() + 1)
			}
			applySpec(k)
			outs = append(outs, "e")
		case "pause", "unpause":
			if !pkgpause {
				return "BAD-OP"
			}
			paused[k] = op.Op == "pause"
			c.Pkg.SetGeneration(c.Pkg.GetGeneration() + 1)
			applySpec(k)
			outs = append(outs, map[bool]string{true: "p+", false: "p-"}[paused[k]])
		case "tp":
			if !pkgpause || !c.ThirdParty(op.F) {
				return "BAD-OP"
			}
			outs = append(outs, "tp")
		case "restart":
			if pkgpause {
				return "BAD-OP"
			}
			start()
			outs = append(outs, "R")
		case "pass":
			c.ResetPass()
			puller.fail, puller.pulls, sink.fail, dep.n = false, nil, false, 0
			switch op.Fault {
			case "pull":
				puller.fail = true
			case "env":
				sink.fail = true
			case "loader":
			default:
				c.Fault = op.Fault
			}
			res, err := gc.Reconcile(ctx, reqs[k])
			r := "ok"
			switch {
			case err != nil:
				r = "err"
			case !res.IsZero():
				r = "requeue"
			}
			var st *corev1alpha1.PackageStatus
			switch p := c.Pkg.(type) {
			case *corev1alpha1.Package:
				st = &p.Status
			case *corev1alpha1.ClusterPackage:
				st = &p.Status
			}
			h := "-"
			if st.UnpackedHash != "" {
				var ok bool
				if h, ok = hashes[st.UnpackedHash]; !ok {
					h = "?"
				}
			}
			pl := make([]string, len(puller.pulls))
			for i, x := range puller.pulls {
				pl[i] = fmt.Sprint(x)
			}
			line := fmt.Sprintf("r=%s pull=%s dep=%d w=%s t=%s h=%s un=%s inv=%s",
				r, strings.Join(pl, ","), dep.n, strings.Join(c.Log, ","), verifc16.TemplateID(c.OD), h,
				c16Cond(st.Conditions, corev1alpha1.PackageUnpacked), c16Cond(st.Conditions, corev1alpha1.PackageInvalid))
			if pkgpause {
				// pp = spec.paused of the Package during the pass, odp = spec.paused of the stored
				// ObjectDeployment after it, sw = what each accepted Update of the controller itself changed
				line += fmt.Sprintf(" pp=%d odp=%s sw=%s", btoi(paused[k]), c16ODPausedStr(c.OD), strings.Join(c.Sync, ","))
			}
			outs = append(outs, line)
		default:
			return "BAD-OP"
		}
	}
	return strings.Join(outs, ";")
}

func c16CtrlTags(s verifc16.Scn, out string) []string {
	tags := []string{"scope=" + s.Scope, "uniq=" + s.Uniq, fmt.Sprintf("len=%d", len(s.Ops))}
	seen := map[string]bool{}
	add := func(t string) {
		if !seen[t] {
			seen[t] = true
			tags = append(tags, t)
		}
	}
	for i, p := range s.Pkgs {
		add("load=" + p.Load)
		add("render=" + p.Render)
		add("schema=" + p.Schema)
		for _, c := range p.Cons {
			add("con=" + c)
		}
		for _, q := range s.Pkgs[:i] {
			if p.Name != "" && p.Name == q.Name {
				add("versions-of-one-package")
				if p.Schema != q.Schema {
					add("versions-differ-in-schema")
				}
			}
		}
	}
	add(fmt.Sprintf("packages=%d", 1+len(s.More)))
	for _, op := range s.Ops {
		switch op.Op {
		case "edit":
			add("edit=" + op.F)
		case "pass":
			add("fault=" + op.Fault)
		case "tp":
			add("tp=" + op.F)
		default:
			add("op=" + op.Op)
		}
	}
	for _, st := range strings.Split(out, ";") {
		for _, f := range strings.Fields(st) {
			switch {
			case strings.HasPrefix(f, "r="), strings.HasPrefix(f, "w="), strings.HasPrefix(f, "un="), strings.HasPrefix(f, "inv="),
				strings.HasPrefix(f, "dep="), strings.HasPrefix(f, "pp="), strings.HasPrefix(f, "odp="), strings.HasPrefix(f, "sw="):
				add("out:" + f)
			case strings.HasPrefix(f, "pull="):
				add(fmt.Sprintf("out:pulls=%d", len(strings.Split(strings.TrimPrefix(f, "pull="), ","))-btoi(f == "pull=")))
			}
		}
	}
	if strings.HasPrefix(out, "PANIC") {
		add("out:PANIC")
	}
	return tags
}

func btoi(b bool) int {
	if b {
		return 1
	}
	return 0
}

func TestVerifC16Ctrl(t *testing.T) {
	r := verifkit.Open(t, "C16")
	defer r.Close()
	// keep the 5 steps of retry.DefaultRetry, shorten only the sleep between conflict retries
	retry.DefaultRetry.Duration = time.Microsecond
	seen := map[string]bool{}
	run := func(s verifc16.Scn) {
		s.Mode = "ctrl"
		b, _ := json.Marshal(s)
		if seen[string(b)] {
			return
		}
		seen[string(b)] = true
		out := verifkit.Guard(func() string { return c16CtrlExec(s) })
		r.Emit(string(b), out, c16CtrlTags(s, out)...)
	}
	for _, line := range r.Fixed() {
		var s verifc16.Scn
		if err := json.Unmarshal([]byte(line), &s); err != nil {
			t.Fatalf("bad scenario %q: %v", line, err)
		}
		if s.Mode != "ctrl" {
			continue
		}
		run(s)
	}
	if r.ReplayOnly() {
		return
	}
	pass := verifc16.Op{Op: "pass"}
	fp := func(f string) verifc16.Op { return verifc16.Op{Op: "pass", Fault: f} }
	edit := func(f string, v int) verifc16.Op { return verifc16.Op{Op: "edit", F: f, V: v} }
	faults := []string{"pull", "env", "pkgget", "odget0", "odget", "odcreate", "odupdate", "gc", "odget2", "status",
		"conflict1", "conflict3", "conflict5"}
	// image 0 is always a plain valid package; image 1 is the package under test
	valid := verifc16.Pkg{Load: "ok", Render: "ok", Comps: true}
	var under []verifc16.Pkg
	for _, load := range []string{"nomanifest", "badyaml", "badgvk"} {
		under = append(under, verifc16.Pkg{Load: load, Render: "ok"})
	}
	for _, rd := range []string{"nophases", "nophaseann", "dup", "tmplerr", "scope"} {
		under = append(under, verifc16.Pkg{Load: "ok", Render: rd})
	}
	for _, cons := range [][]string{{"platform"}, {"k8s"}, {"ocp"}, {"unique"}, {"badrange"}, {"k8s", "unique"}, {"platform+k8s"}} {
		under = append(under, verifc16.Pkg{Load: "ok", Render: "ok", Cons: cons})
	}
	under = append(under, verifc16.Pkg{Load: "ok", Render: "ok", BadLock: true}, verifc16.Pkg{Load: "ok", Render: "ok"})
	n1 := 0
	envs := []verifc16.Env{{}, {K8sNew: true}, {Ocp: true, K8sNew: true}, {Ocp: true, K8sNew: true, OcpNew: true}, {K8sBad: true}}
	for _, scope := range []string{"ns", "cluster"} {
		for _, u := range under {
			for _, env := range envs {
				for _, uniq := range []string{"0", "1", "2", "err"} {
					if uniq != "1" && !strings.Contains(strings.Join(u.Cons, ","), "unique") {
						continue
					}
					base := verifc16.Scn{Scope: scope, Env: env, Uniq: uniq, Pkgs: []verifc16.Pkg{valid, u}}
					// a. the package under test from scratch, repeated passes
					s := base
					s.Spec = []int{1, 1, 0}
					s.Ops = []verifc16.Op{pass, pass, edit("meta", 1), pass}
					run(s)
					// b. valid package rolled out, then edited to the package under test and back
					s = base
					s.Spec = []int{0, 1, 0}
					s.Ops = []verifc16.Op{pass, edit("image", 1), pass, pass, edit("image", 0), pass}
					run(s)
					n1 += 2
				}
			}
		}
		// c. every fault at every position of: pass, edit, pass, pass  (valid packages; config / component / image edits)
		for _, e := range []verifc16.Op{edit("config", 2), edit("config", 3), edit("config", 4), edit("component", 1), edit("component", 2), edit("image", 1)} {
			for _, f1 := range append([]string{""}, faults...) {
				for _, f2 := range append([]string{""}, faults...) {
					s := verifc16.Scn{Scope: scope, Env: verifc16.Env{K8sNew: true}, Uniq: "1",
						Pkgs: []verifc16.Pkg{valid, {Load: "ok", Render: "ok", Cons: []string{"k8s"}}}, Spec: []int{0, 1, 0}}
					s.Ops = []verifc16.Op{fp(f1), pass, e, fp(f2), pass, pass}
					run(s)
					n1++
				}
			}
		}
	}
	// d. one operator process, several VERSIONS of one package: two images whose manifests carry the same
	//    package name and every ordered pair of config schemas (equal / stricter / looser / other type / other
	//    default), every config, as
	//      - one Package moving from version 0 to version 1 and back,
	//      - two Packages (own namespaces) on version 0 and version 1, installed one after the other,
	//      - the same with the versions living in components of the same name,
	//    with and without an operator restart in between and with a config edit at the end; the control group
	//    (images that are packages of their own: different names) runs through the same histories.
	restart := verifc16.Op{Op: "restart"}
	on := func(p int, op verifc16.Op) verifc16.Op { op.P = p; return op }
	for _, scope := range []string{"ns", "cluster"} {
		for _, sa := range verifc16.Schemas {
			for _, sb := range verifc16.Schemas {
				for _, name := range []string{"f", ""} {
					for cfg := 0; cfg <= 4; cfg++ {
						for _, comp := range []int{0, 1} {
							for _, rs := range []bool{false, true} {
								if scope == "cluster" && (comp == 1 || name == "") {
									continue
								}
								base := verifc16.Scn{Scope: scope, Env: verifc16.Env{K8sNew: true}, Uniq: "1",
									Pkgs: []verifc16.Pkg{{Load: "ok", Render: "ok", Comps: true, Name: name, Schema: sa},
										{Load: "ok", Render: "ok", Comps: true, Name: name, Schema: sb}}}
								mid := []verifc16.Op{}
								if rs {
									mid = []verifc16.Op{restart}
								}
								// one Package: v0 -> v1 -> v0, then another config
								s := base
								s.Spec = []int{0, cfg, comp}
								s.Ops = append(append([]verifc16.Op{pass, edit("image", 1)}, mid...),
									pass, pass, edit("image", 0), pass, edit("config", (cfg+1)%5), pass, edit("image", 1), pass)
								run(s)
								// two Packages: P0 on v0, P1 on v1
								s = base
								s.Spec = []int{0, cfg, comp}
								s.More = [][]int{{1, cfg, comp}}
								s.Ops = append(append([]verifc16.Op{pass}, mid...),
									on(1, pass), pass, on(1, pass), on(1, edit("image", 0)), on(1, pass), edit("image", 1), pass,
									on(1, edit("config", (cfg+2)%5)), on(1, pass))
								run(s)
								n1 += 2
							}
						}
					}
				}
			}
		}
	}
	r.Extra["exhaustive_count"] = n1
	n := r.Pick(6000, 90000)
	for i := 0; i < n; i++ {
		run(verifc16.RandomScn(r.Rng, "ctrl"))
	}
	// seeded random histories of 1-3 Packages over 2-4 images that are versions of 1-2 packages with random
	// schemas, restarts and faults mixed in
	n = r.Pick(4000, 60000)
	for i := 0; i < n; i++ {
		run(verifc16.RandomVersionScn(r.Rng))
	}
}

var _ client.Client = (*verifc16.Client)(nil)
