// Package verifc16 holds what the two C16 harness tests (packagedeploy and controllers/packages)
// share: the scenario format, the builder turning an abstract package definition into REAL
// package files (manifest, templates, components), the environment, and a small recording
// in-memory API client with fault injection.  Injected by `go test -overlay`.
package verifc16

import (
	"context"
	"errors"
	"fmt"
	"reflect"
	"runtime"
	"sort"
	"strconv"
	"strings"

	apierrors "k8s.io/apimachinery/pkg/api/errors"
	"k8s.io/apimachinery/pkg/apis/meta/v1/unstructured"
	apiruntime "k8s.io/apimachinery/pkg/runtime"
	"k8s.io/apimachinery/pkg/runtime/schema"
	"k8s.io/apimachinery/pkg/types"
	"sigs.k8s.io/controller-runtime/pkg/client"

	corev1alpha1 "package-operator.run/apis/core/v1alpha1"
	manifestsv1alpha1 "package-operator.run/apis/manifests/v1alpha1"
	"package-operator.run/internal/apis/manifests"
	"package-operator.run/internal/constants"
)

// ---------------------------------------------------------------- scenario format

// Pkg is one package image, described by the outcome each stage of Deploy has on it.
type Pkg struct {
	// ok | nomanifest (no manifest file) | badyaml (manifest is not YAML) | badgvk (manifest of a foreign kind)
	Load string `json:"load"`
	// manifest constraints in order: platform (OpenShift) | k8s (Kubernetes >=1.20.x) | ocp (OpenShift >=4.12.x)
	// | badrange (unparsable version range) | unique (uniqueInScope) | platform+k8s (both in ONE manifest entry)
	Cons []string `json:"cons"`
	// ok | nophases (manifest fails validation: structure) | nophaseann (object without phase annotation:
	// object validation) | dup (duplicate object: object validation) | tmplerr (template does not execute)
	// | scope (manifest does not support the scope it is installed in)
	Render string `json:"render"`
	// multi-component package: root + component "c1"
	Comps bool `json:"comps"`
	// bad digest in the manifest lock file (ImageWithDigest fails)
	BadLock bool `json:"badlock"`
	// Package NAME (metadata.name of the manifest).  "" = every image is a package of its own ("pkg<idx>").
	// Images carrying the same non-empty Name are different VERSIONS / builds of ONE package: their manifests
	// all say metadata.name "fam-<Name>" and may differ in everything else (config schema, constraints, ...).
	Name string `json:"name,omitempty"`
	// config schema of the manifest (spec.config.openAPIV3Schema; components carry the same one):
	//  ""     x: string, default "none"                      (configs 0,1,2,4 admitted; 3 violates)
	//  enum   x: string, default "none", enum [none, a]      (stricter: config 2 violates as well)
	//  int    x: integer, default 0                          (other type: 1,2,4 violate, 3 is admitted)
	//  req    x: string, no default, required                (stricter: config 0 violates as well)
	//  dflt   x: string, default "other"                     (same admission, other default)
	//  open   x: string, default "none"; y: string, default "dy" (looser: y of config 4 is kept, not pruned)
	Schema string `json:"schema,omitempty"`
}

// Schemas lists the config schema variants (Pkg.Schema).
var Schemas = []string{"", "enum", "int", "req", "dflt", "open"}

// Env is the environment the package is installed into.
type Env struct {
	Ocp    bool `json:"ocp"`    // OpenShift detected
	K8sNew bool `json:"k8snew"` // Kubernetes 1.25.3 (else 1.19.2)
	OcpNew bool `json:"ocpnew"` // OpenShift 4.14.1 (else 4.10.2)
	K8sBad bool `json:"k8sbad"` // Kubernetes version string the semver library cannot parse ("v1.25.3")
}

// Op is one step of a history.
//
//	edit: F = image | config | component | meta, V = new index (image: index into Pkgs; config: see
//	      ConfigRaw; component: 0 "" / 1 "c1" / 2 "missing"; meta: a label edit, spec untouched)
//	pass: one reconcile of the Package controller (ctrl stream) or one Deploy call (deploy stream).
//	      Fault = "" | pull | env | pkgget | odget0 (controller's own Get) | odget (deployment reconciler)
//	      | odcreate | odupdate | gc (ObjectSet list after the update) | odget2 (status sub-reconciler) | status
//	      | loader (scripted structural loader error; deploy stream only)
//	      | conflict<N> (N = 1, 2, ...: a third party writes the ObjectDeployment right before each of the
//	        next N Update requests of the pass, so each of them is answered 409 Conflict by the optimistic
//	        locking of the in-memory API; the third-party write adds one annotation and one label)
//	pause / unpause: the user sets / clears spec.paused of the Package (C09 stream pkgpause)
//	tp:   a third party edits the ObjectDeployment directly (C09 stream pkgpause): F = odpause | odunpause
//	      (sets / clears spec.paused of the ObjectDeployment) | oddel (deletes it); no-op when it is absent
//
//	restart: the operator process is restarted (ctrl stream): the controller with everything it holds in
//	      memory is built anew by the real constructors; the API (Packages, ObjectDeployments) stays.
//
// P (ctrl stream) = index of the Package an edit / pass is about: 0 = the Package with the initial spec
// Scn.Spec, i > 0 = the Package with the initial spec Scn.More[i-1].  All Packages are served by the same
// operator process (one controller), each in a namespace (cluster scope: under a name) of its own.
type Op struct {
	Op    string `json:"op"`
	F     string `json:"f"`
	V     int    `json:"v"`
	Fault string `json:"fault"`
	P     int    `json:"p,omitempty"`
}

type Scn struct {
	Mode  string `json:"mode"`  // deploy | ctrl | pkgpause (C09: ctrl histories with the pause dimension)
	Scope string `json:"scope"` // ns | cluster
	Env   Env    `json:"env"`
	Uniq  string `json:"uniq"`  // what listing packages with the manifest's label yields: 0 | 1 | 2 | err
	Prior string `json:"prior"` // Invalid condition already in the status: "" | LoadError | ConstraintsFailed
	// ObjectDeployment at the start: "" (absent) | empty (no phases, no metadata) | old (an old template, no
	// metadata) | prev (old template + the annotations / labels of an earlier roll-out of image 0, config 1)
	Od   string `json:"od"`
	Pkgs []Pkg  `json:"pkgs"`
	Spec []int  `json:"spec"` // initial spec: [image, config, component]
	Ops  []Op   `json:"ops"`
	// spec.paused of the Package when it is created (mode pkgpause)
	Paused bool `json:"paused,omitempty"`
	// ctrl stream: initial specs [image, config, component] of the Packages 1, 2, ... that the same operator
	// process serves next to Package 0 (Op.P)
	More [][]int `json:"more,omitempty"`
	// deploy stream: Deploy calls [image, config, component] the same process has served for OTHER Packages
	// (each against an API of its own) before the observed call
	Warm [][]int `json:"warm,omitempty"`
}

// ---------------------------------------------------------------- real inputs

func ImageName(i int) string { return fmt.Sprintf("registry.example/pkg-%d:v1", i) }

func ImageIndex(img string) int {
	var i int
	if _, err := fmt.Sscanf(img, "registry.example/pkg-%d:v1", &i); err != nil {
		return -1
	}
	return i
}

// ConfigRaw: 0 none, 1 {"x":"a"}, 2 {"x":"b"}, 3 {"x":7} (violates the schema), 4 {"x":"a","y":"z"}
// (extra field, pruned), 5 not JSON.
func ConfigRaw(i int) *apiruntime.RawExtension {
	switch i {
	case 1:
		return &apiruntime.RawExtension{Raw: []byte(`{"x":"a"}`)}
	case 2:
		return &apiruntime.RawExtension{Raw: []byte(`{"x":"b"}`)}
	case 3:
		return &apiruntime.RawExtension{Raw: []byte(`{"x":7}`)}
	case 4:
		return &apiruntime.RawExtension{Raw: []byte(`{"x":"a","y":"z"}`)}
	case 5:
		return &apiruntime.RawExtension{Raw: []byte(`{"x":`)}
	}
	return nil
}

// Every scenario is the history of an operator process of its own.  The harness cannot start a process per
// scenario, so scenarios are kept apart by NAMES: every package / component name a scenario uses carries the
// number of the scenario (epoch) as a suffix, which the observation functions strip again.  Whatever the code
// under test keeps in process-wide state about a package name is thus never shared between two scenarios, and
// a replay of one scenario alone sees what the scenario saw in the full run.
var epoch int

// NewEpoch starts a new scenario.
func NewEpoch() { epoch++ }

func epochSuffix() string { return fmt.Sprintf("-e%d", epoch) }

// StripEpoch removes the scenario suffix from a package / component name.
func StripEpoch(v string) string {
	if i := strings.LastIndex(v, "-e"); i >= 0 {
		if _, err := strconv.Atoi(v[i+2:]); err == nil {
			return v[:i]
		}
	}
	return v
}

func ComponentName(i int) string {
	switch i {
	case 1:
		return "c1" + epochSuffix()
	case 2:
		return "missing"
	}
	return ""
}

// ManifestName is metadata.name of the manifest of image idx.
func ManifestName(p Pkg, idx int) string {
	if p.Name != "" {
		return "fam-" + p.Name + epochSuffix()
	}
	return fmt.Sprintf("pkg%d", idx) + epochSuffix()
}

func schemaYAML(variant string) string {
	b := "  config:\n    openAPIV3Schema:\n      type: object\n      properties:\n        x:\n"
	switch variant {
	case "enum":
		b += "          type: string\n          default: none\n          enum: [none, a]\n"
	case "int":
		b += "          type: integer\n          default: 0\n"
	case "req":
		b += "          type: string\n      required: [x]\n"
	case "dflt":
		b += "          type: string\n          default: other\n"
	case "open":
		b += "          type: string\n          default: none\n        \"y\":\n          type: string\n          default: dy\n"
	default:
		b += "          type: string\n          default: none\n"
	}
	return b
}

func PackageEnv(e Env) *manifests.PackageEnvironment {
	env := &manifests.PackageEnvironment{}
	env.Kubernetes.Version = "1.19.2"
	if e.K8sNew {
		env.Kubernetes.Version = "1.25.3"
	}
	if e.K8sBad {
		// the form discovery reports (GitVersion); the semver library rejects the leading "v"
		env.Kubernetes.Version = "v1.25.3"
	}
	if e.Ocp {
		env.OpenShift = &manifests.PackageEnvironmentOpenShift{Version: "4.10.2"}
		if e.OcpNew {
			env.OpenShift.Version = "4.14.1"
		}
	}
	return env
}

func manifestYAML(p Pkg, name string, scope string, components bool) string {
	var b strings.Builder
	b.WriteString("apiVersion: manifests.package-operator.run/v1alpha1\nkind: PackageManifest\n")
	b.WriteString("metadata:\n  name: " + name + "\nspec:\n")
	switch {
	case p.Render == "scope" && scope == "ns":
		b.WriteString("  scopes: [Cluster]\n")
	case p.Render == "scope":
		b.WriteString("  scopes: [Namespaced]\n")
	default:
		b.WriteString("  scopes: [Namespaced, Cluster]\n")
	}
	if p.Render != "nophases" {
		b.WriteString("  phases:\n  - name: main\n")
	}
	if components {
		b.WriteString("  components: {}\n")
	}
	b.WriteString(schemaYAML(p.Schema))
	if len(p.Cons) > 0 {
		b.WriteString("  constraints:\n")
		for _, c := range p.Cons {
			switch c {
			case "platform":
				b.WriteString("  - platform: [OpenShift]\n")
			case "k8s":
				b.WriteString("  - platformVersion:\n      name: Kubernetes\n      range: '>=1.20.x'\n")
			case "ocp":
				b.WriteString("  - platformVersion:\n      name: OpenShift\n      range: '>=4.12.x'\n")
			case "badrange":
				b.WriteString("  - platformVersion:\n      name: Kubernetes\n      range: 'not a range'\n")
			case "platform+k8s": // one manifest entry carrying both a platform and a platformVersion constraint
				b.WriteString("  - platform: [OpenShift]\n    platformVersion:\n      name: Kubernetes\n      range: '>=1.20.x'\n")
			case "unique":
				b.WriteString("  - uniqueInScope: {}\n")
			}
		}
	}
	return b.String()
}

func objectTemplate(p Pkg, id string) string {
	var b strings.Builder
	b.WriteString("apiVersion: v1\nkind: ConfigMap\nmetadata:\n  name: cm\n")
	if p.Render != "nophaseann" {
		b.WriteString("  annotations:\n    package-operator.run/phase: main\n")
	}
	b.WriteString("data:\n  id: " + id + "\n  image: \"{{ .package.image }}\"\n  x: \"{{ .config.x }}\"\n")
	if p.Schema == "open" {
		b.WriteString("  \"y\": \"{{ .config.y }}\"\n") // quoted: a bare y is a YAML 1.1 boolean
	}
	if p.Render == "tmplerr" {
		b.WriteString("  boom: \"{{ fail \\\"boom\\\" }}\"\n")
	}
	return b.String()
}

const lockDigest = "sha256:52a6b1268e32ed5b6f59da8222f7627979bfb739f32aae3fb5b5ed31b8bf80c4"

// Files builds the REAL file set of package image number idx.
func Files(p Pkg, idx int, scope string) map[string][]byte {
	f := map[string][]byte{}
	name := ManifestName(p, idx)
	c1 := "components/" + ComponentName(1) + "/"
	put := func(prefix, id string, components bool) {
		f[prefix+"manifest.yaml"] = []byte(manifestYAML(p, name, scope, components))
		f[prefix+"cm.yaml.gotmpl"] = []byte(objectTemplate(p, id))
		if p.Render == "dup" {
			f[prefix+"cm2.yaml.gotmpl"] = []byte(objectTemplate(p, id))
		}
		if p.BadLock {
			f[prefix+"manifest.lock.yaml"] = []byte("apiVersion: manifests.package-operator.run/v1alpha1\nkind: PackageManifestLock\n" +
				"metadata:\n  creationTimestamp: \"2023-01-01T00:00:00Z\"\nspec:\n  images:\n  - name: a\n    image: 'UPPER CASE/not an image'\n    digest: " + lockDigest + "\n")
		}
	}
	put("", fmt.Sprintf("p%d", idx), p.Comps)
	if p.Comps {
		put(c1, fmt.Sprintf("p%dc1", idx), false)
	}
	switch p.Load {
	case "nomanifest":
		delete(f, "manifest.yaml")
	case "badyaml":
		f["manifest.yaml"] = []byte("{{{ this is : not [ yaml")
	case "badgvk":
		f["manifest.yaml"] = []byte("apiVersion: v1\nkind: ConfigMap\nmetadata:\n  name: x\n")
	}
	return f
}

// ---------------------------------------------------------------- recording fake API client

var ErrInjected = errors.New("injected API error")

// Client is a minimal in-memory API server for exactly the calls the Package controller and the
// package deployer make.  Anything else panics (embedded nil interface) and shows up in the trace.
type Client struct {
	client.Client // nil: unexpected calls panic

	Scheme_ *apiruntime.Scheme
	Pkg     client.Object // stored Package / ClusterPackage (nil = not found)
	OD      client.Object // stored ObjectDeployment / ClusterObjectDeployment
	Uniq    string
	Fault   string // fault armed for the current pass (consumed by the first call it applies to)
	// OD write requests of the current pass: C, C!, U, U! (error), U~ (answered 409 Conflict) from the
	// deployment reconciler; P, P!, P~ = Update requests from anywhere else (the Package controller's own
	// Update that syncs spec.paused)
	Log []string
	// for every accepted P: what the request changed in the stored object: "0" nothing, "p" spec.paused
	// only, "x" anything else (resourceVersion / generation / managedFields aside)
	Sync  []string
	Lists int // package List calls (validateUnique)
	rv    int
	// third-party interleaving: number of upcoming ObjectDeployment Update requests a third party
	// still gets in front of (armed by the fault "conflict<N>"), and third-party writes made so far.
	conflicts int
	tpn       int
	// the other Packages of the API and their ObjectDeployments (see Select)
	slots map[int][2]client.Object
	cur   int
}

// Select makes Package i (and its ObjectDeployment) the one the API serves: Pkg / OD of the Package served so
// far are put aside and those of Package i are put in place (nil = they do not exist).  A reconcile pass only
// ever reads and writes the Package it is about and the ObjectDeployment of the same name in the same
// namespace (every other call of the client panics), and passes do not overlap, so an API that holds one
// Package at a time is indistinguishable from one that holds them all.
func (c *Client) Select(i int) {
	if i == c.cur {
		return
	}
	if c.slots == nil {
		c.slots = map[int][2]client.Object{}
	}
	c.slots[c.cur] = [2]client.Object{c.Pkg, c.OD}
	sl := c.slots[i]
	c.Pkg, c.OD, c.cur = sl[0], sl[1], i
}

// ConflictCount parses the fault "conflict<N>" (0 = not a conflict fault).
func ConflictCount(fault string) int {
	if !strings.HasPrefix(fault, "conflict") {
		return 0
	}
	n, err := strconv.Atoi(strings.TrimPrefix(fault, "conflict"))
	if err != nil || n < 0 {
		return 0
	}
	return n
}

// nextRV is the resourceVersion the API hands out next: larger than everything handed out so far.
func (c *Client) nextRV() string {
	if c.OD != nil {
		if n, err := strconv.Atoi(c.OD.GetResourceVersion()); err == nil && n > c.rv {
			c.rv = n
		}
	}
	c.rv++
	return fmt.Sprint(c.rv)
}

// thirdPartyWrite is somebody else (a user, the ObjectDeployment controller, ...) writing the stored
// ObjectDeployment: one more annotation, one more label, a new resourceVersion.  Template untouched.
func (c *Client) thirdPartyWrite() {
	c.tpn++
	k := fmt.Sprintf("%s%d", ThirdPartyKeyPrefix, c.tpn)
	ann := map[string]string{}
	for a, b := range c.OD.GetAnnotations() {
		ann[a] = b
	}
	ann[k] = "x"
	c.OD.SetAnnotations(ann)
	lab := map[string]string{}
	for a, b := range c.OD.GetLabels() {
		lab[a] = b
	}
	lab[k] = "x"
	c.OD.SetLabels(lab)
	c.OD.SetResourceVersion(c.nextRV())
}

const ThirdPartyKeyPrefix = "verif.example/tp"

func callerHas(sub string) bool {
	pcs := make([]uintptr, 32)
	n := runtime.Callers(2, pcs)
	fr := runtime.CallersFrames(pcs[:n])
	for {
		f, more := fr.Next()
		if strings.Contains(f.Function, sub) {
			return true
		}
		if !more {
			return false
		}
	}
}

func (c *Client) take(f string) bool {
	if c.Fault == f {
		c.Fault = ""
		return true
	}
	return false
}

func (c *Client) Scheme() *apiruntime.Scheme { return c.Scheme_ }

func notFound(obj client.Object, key client.ObjectKey) error {
	return apierrors.NewNotFound(schema.GroupResource{Group: "package-operator.run", Resource: fmt.Sprintf("%T", obj)}, key.Name)
}

func copyInto(src, dst client.Object) {
	switch s := src.(type) {
	case *corev1alpha1.Package:
		s.DeepCopyInto(dst.(*corev1alpha1.Package))
	case *corev1alpha1.ClusterPackage:
		s.DeepCopyInto(dst.(*corev1alpha1.ClusterPackage))
	case *corev1alpha1.ObjectDeployment:
		s.DeepCopyInto(dst.(*corev1alpha1.ObjectDeployment))
	case *corev1alpha1.ClusterObjectDeployment:
		s.DeepCopyInto(dst.(*corev1alpha1.ClusterObjectDeployment))
	default:
		panic(fmt.Sprintf("verifc16: copyInto %T", src))
	}
}

func (c *Client) Get(_ context.Context, key client.ObjectKey, obj client.Object, _ ...client.GetOption) error {
	switch obj.(type) {
	case *corev1alpha1.Package, *corev1alpha1.ClusterPackage:
		if c.take("pkgget") {
			return ErrInjected
		}
		if c.Pkg == nil {
			return notFound(obj, key)
		}
		copyInto(c.Pkg, obj)
		return nil
	case *corev1alpha1.ObjectDeployment, *corev1alpha1.ClusterObjectDeployment:
		switch {
		case callerHas("DeploymentReconciler"):
			if c.take("odget") {
				return ErrInjected
			}
		case callerHas("objectDeploymentStatusReconciler"):
			if c.take("odget2") {
				return ErrInjected
			}
		default:
			if c.take("odget0") {
				return ErrInjected
			}
		}
		if c.OD == nil {
			return notFound(obj, key)
		}
		copyInto(c.OD, obj)
		return nil
	}
	panic(fmt.Sprintf("verifc16: unexpected Get %T", obj))
}

func (c *Client) Create(_ context.Context, obj client.Object, _ ...client.CreateOption) error {
	switch obj.(type) {
	case *corev1alpha1.ObjectDeployment, *corev1alpha1.ClusterObjectDeployment:
		if c.take("odcreate") {
			c.Log = append(c.Log, "C!")
			return ErrInjected
		}
		if c.OD != nil {
			c.Log = append(c.Log, "C!")
			return apierrors.NewAlreadyExists(schema.GroupResource{}, obj.GetName())
		}
		obj.SetUID(types.UID("od-uid"))
		obj.SetResourceVersion(c.nextRV())
		obj.SetGeneration(1)
		c.OD = obj.DeepCopyObject().(client.Object)
		c.Log = append(c.Log, "C")
		return nil
	}
	panic(fmt.Sprintf("verifc16: unexpected Create %T", obj))
}

func (c *Client) Update(_ context.Context, obj client.Object, _ ...client.UpdateOption) error {
	switch obj.(type) {
	case *corev1alpha1.ObjectDeployment, *corev1alpha1.ClusterObjectDeployment:
		u := "U"
		if !callerHas("DeploymentReconciler") {
			u = "P"
		}
		if c.take("odupdate") {
			c.Log = append(c.Log, u+"!")
			return ErrInjected
		}
		if c.OD == nil {
			c.Log = append(c.Log, u+"!")
			return notFound(obj, client.ObjectKeyFromObject(obj))
		}
		if n := ConflictCount(c.Fault); n > 0 {
			c.Fault, c.conflicts = "", n
		}
		if c.conflicts > 0 {
			// a third party gets in between the caller's last read and this write
			c.conflicts--
			c.thirdPartyWrite()
		}
		// optimistic locking, as the real API server does it: a write based on a stale
		// resourceVersion is refused with 409 Conflict and changes nothing.
		if rv := obj.GetResourceVersion(); rv != "" && rv != c.OD.GetResourceVersion() {
			c.Log = append(c.Log, u+"~")
			return apierrors.NewConflict(
				schema.GroupResource{Group: "package-operator.run", Resource: "objectdeployments"}, obj.GetName(),
				errors.New("the object has been modified; please apply your changes to the latest version and try again"))
		}
		if u == "P" {
			c.Sync = append(c.Sync, updateDiff(c.OD, obj))
		}
		obj.SetResourceVersion(c.nextRV())
		obj.SetGeneration(obj.GetGeneration() + 1)
		c.OD = obj.DeepCopyObject().(client.Object)
		c.Log = append(c.Log, u)
		return nil
	}
	panic(fmt.Sprintf("verifc16: unexpected Update %T", obj))
}

// ODPaused is spec.paused of an ObjectDeployment / ClusterObjectDeployment.
func ODPaused(od client.Object) bool {
	switch o := od.(type) {
	case *corev1alpha1.ObjectDeployment:
		return o.Spec.Paused
	case *corev1alpha1.ClusterObjectDeployment:
		return o.Spec.Paused
	}
	panic(fmt.Sprintf("verifc16: ODPaused %T", od))
}

// SetODPaused sets spec.paused of an ObjectDeployment / ClusterObjectDeployment.
func SetODPaused(od client.Object, v bool) {
	switch o := od.(type) {
	case *corev1alpha1.ObjectDeployment:
		o.Spec.Paused = v
	case *corev1alpha1.ClusterObjectDeployment:
		o.Spec.Paused = v
	default:
		panic(fmt.Sprintf("verifc16: SetODPaused %T", od))
	}
}

// updateDiff classifies what an Update request changes in the stored object.
func updateDiff(stored, req client.Object) string {
	a := stored.DeepCopyObject().(client.Object)
	b := req.DeepCopyObject().(client.Object)
	for _, o := range []client.Object{a, b} {
		o.SetResourceVersion("")
		o.SetGeneration(0)
		o.SetManagedFields(nil)
	}
	if reflect.DeepEqual(a, b) {
		return "0"
	}
	SetODPaused(a, false)
	SetODPaused(b, false)
	if reflect.DeepEqual(a, b) {
		return "p"
	}
	return "x"
}

// ResetPass clears what is recorded or armed per pass.
func (c *Client) ResetPass() {
	c.Fault, c.Log, c.Sync, c.conflicts = "", nil, nil, 0
}

// ThirdParty is somebody else editing the ObjectDeployment between two passes (Op "tp").
func (c *Client) ThirdParty(f string) bool {
	switch f {
	case "odpause", "odunpause":
		if c.OD != nil {
			SetODPaused(c.OD, f == "odpause")
			c.OD.SetResourceVersion(c.nextRV())
			c.OD.SetGeneration(c.OD.GetGeneration() + 1)
		}
	case "oddel":
		c.OD = nil
	default:
		return false
	}
	return true
}

func (c *Client) List(_ context.Context, list client.ObjectList, _ ...client.ListOption) error {
	switch l := list.(type) {
	case *corev1alpha1.PackageList:
		c.Lists++
		switch c.Uniq {
		case "err":
			return ErrInjected
		case "1":
			l.Items = make([]corev1alpha1.Package, 1)
		case "2":
			l.Items = make([]corev1alpha1.Package, 2)
		}
		return nil
	case *corev1alpha1.ClusterPackageList:
		c.Lists++
		switch c.Uniq {
		case "err":
			return ErrInjected
		case "1":
			l.Items = make([]corev1alpha1.ClusterPackage, 1)
		case "2":
			l.Items = make([]corev1alpha1.ClusterPackage, 2)
		}
		return nil
	case *corev1alpha1.ObjectSetList, *corev1alpha1.ClusterObjectSetList:
		if c.take("gc") {
			return ErrInjected
		}
		return nil
	case *corev1alpha1.ObjectSliceList, *corev1alpha1.ClusterObjectSliceList:
		return nil
	}
	panic(fmt.Sprintf("verifc16: unexpected List %T", list))
}

type statusWriter struct {
	client.SubResourceWriter
	c *Client
}

func (c *Client) Status() client.SubResourceWriter { return &statusWriter{c: c} }

func (w *statusWriter) Update(_ context.Context, obj client.Object, _ ...client.SubResourceUpdateOption) error {
	c := w.c
	if c.take("status") {
		return apierrors.NewConflict(schema.GroupResource{Resource: "packages"}, obj.GetName(), ErrInjected)
	}
	switch o := obj.(type) {
	case *corev1alpha1.Package:
		st := c.Pkg.(*corev1alpha1.Package)
		o.Status.DeepCopyInto(&st.Status)
		return nil
	case *corev1alpha1.ClusterPackage:
		st := c.Pkg.(*corev1alpha1.ClusterPackage)
		o.Status.DeepCopyInto(&st.Status)
		return nil
	}
	panic(fmt.Sprintf("verifc16: unexpected Status().Update %T", obj))
}

// ---------------------------------------------------------------- observation

// TemplateID describes the ObjectDeployment stored in the fake API: "-" absent, "empty" no phases,
// otherwise what its template renders: <package/component id>.<image index>.<config x>.
func TemplateID(od client.Object) string {
	var tpl corev1alpha1.ObjectSetTemplateSpec
	switch o := od.(type) {
	case nil:
		return "-"
	case *corev1alpha1.ObjectDeployment:
		if o == nil {
			return "-"
		}
		tpl = o.Spec.Template.Spec
	case *corev1alpha1.ClusterObjectDeployment:
		if o == nil {
			return "-"
		}
		tpl = o.Spec.Template.Spec
	}
	var ids []string
	for _, ph := range tpl.Phases {
		for _, ob := range ph.Objects {
			data, _ := ob.Object.Object["data"].(map[string]any)
			if data["id"] == "old" {
				ids = append(ids, "old")
				continue
			}
			id := fmt.Sprintf("%v.%d.%v", data["id"], ImageIndex(fmt.Sprint(data["image"])), data["x"])
			if y, ok := data["y"]; ok {
				id += fmt.Sprintf("/%v", y) // templates of packages with the "open" schema also show .config.y
			}
			ids = append(ids, id)
		}
	}
	if len(ids) == 0 {
		return "empty"
	}
	sort.Strings(ids)
	return strings.Join(ids, "+")
}

// ConfigIndex inverts ConfigRaw on the value of the package-config annotation (-1 = unknown).
func ConfigIndex(v string) int {
	if v == "null" {
		return 0
	}
	for i := 1; i <= 5; i++ {
		if string(ConfigRaw(i).Raw) == v {
			return i
		}
	}
	return -1
}

func causeID(v string) string {
	switch {
	case strings.HasPrefix(v, "Installing ") && strings.HasSuffix(v, " package."):
		return "inst"
	case v == "Package source image changed.":
		return "img"
	case v == "Package config changed.":
		return "cfg"
	case v == "Package source image and config changed.":
		return "img+cfg"
	}
	return "other"
}

func metaMapID(m map[string]string) string {
	var out []string
	for k, v := range m {
		switch {
		case k == manifestsv1alpha1.PackageSourceImageAnnotation:
			out = append(out, fmt.Sprintf("img:%d", ImageIndex(v)))
		case k == manifestsv1alpha1.PackageConfigAnnotation:
			out = append(out, fmt.Sprintf("cfg:%d", ConfigIndex(v)))
		case k == constants.ChangeCauseAnnotation:
			out = append(out, "cc:"+causeID(v))
		case k == manifestsv1alpha1.PackageLabel:
			out = append(out, "pkg:"+strings.Map(idChar, StripEpoch(v)))
		case k == manifestsv1alpha1.PackageInstanceLabel:
			out = append(out, "inst:"+strings.Map(idChar, v))
		case strings.HasPrefix(k, ThirdPartyKeyPrefix):
			out = append(out, "tp"+strings.Map(idChar, strings.TrimPrefix(k, ThirdPartyKeyPrefix))+":"+strings.Map(idChar, v))
		default:
			out = append(out, "other:"+strings.Map(idChar, k))
		}
	}
	if len(out) == 0 {
		return "-"
	}
	sort.Strings(out)
	return strings.Join(out, ",")
}

func idChar(r rune) rune {
	if r >= 'a' && r <= 'z' || r >= 'A' && r <= 'Z' || r >= '0' && r <= '9' || r == '-' || r == '.' {
		return r
	}
	return '_'
}

// MetaID describes annotations and labels of the ObjectDeployment stored in the fake API in the
// abstract vocabulary of the model: img:<image index> cfg:<config index> cc:<inst|img|cfg|img+cfg>
// tp<N>:x (third-party) for annotations, pkg:<manifest name> inst:<package name> tp<N>:x for labels.
func MetaID(od client.Object) (ann, lab string) {
	if od == nil || reflect.ValueOf(od).IsNil() {
		return "-", "-"
	}
	return metaMapID(od.GetAnnotations()), metaMapID(od.GetLabels())
}

// PrevMeta is the metadata an earlier roll-out of image 0 with config 1 left on the ObjectDeployment.
func PrevMeta() (ann, lab map[string]string) {
	return map[string]string{
			manifestsv1alpha1.PackageSourceImageAnnotation: ImageName(0),
			manifestsv1alpha1.PackageConfigAnnotation:      string(ConfigRaw(1).Raw),
			constants.ChangeCauseAnnotation:                "Installing pkg0 package.",
		}, map[string]string{
			manifestsv1alpha1.PackageLabel:         "pkg0",
			manifestsv1alpha1.PackageInstanceLabel: "p",
		}
}

// OldTemplate is the template of a pre-existing ObjectDeployment (Scn.Od == "old").
func OldTemplate() corev1alpha1.ObjectSetTemplateSpec {
	return corev1alpha1.ObjectSetTemplateSpec{Phases: []corev1alpha1.ObjectSetTemplatePhase{{
		Name:    "main",
		Objects: []corev1alpha1.ObjectSetObject{{Object: unstructuredCM()}},
	}}}
}

func unstructuredCM() unstructured.Unstructured {
	return unstructured.Unstructured{Object: map[string]any{
		"apiVersion": "v1", "kind": "ConfigMap",
		"metadata": map[string]any{"name": "cm"},
		"data":     map[string]any{"id": "old"},
	}}
}

// ---------------------------------------------------------------- generators

// AllEnvs enumerates every environment (OpenShift version only matters when OpenShift is present).
func AllEnvs() []Env {
	var out []Env
	for _, k8snew := range []bool{false, true} {
		out = append(out, Env{K8sNew: k8snew})
		for _, ocpnew := range []bool{false, true} {
			out = append(out, Env{Ocp: true, K8sNew: k8snew, OcpNew: ocpnew})
		}
	}
	out = append(out, Env{K8sBad: true}, Env{K8sBad: true, Ocp: true, OcpNew: true})
	return out
}

type Rng interface{ Intn(n int) int }

func pick(r Rng, weighted ...string) string { return weighted[r.Intn(len(weighted))] }

// RandomPkg: mostly valid packages, one defect at a time most of the time.
func RandomPkg(r Rng) Pkg {
	p := Pkg{Load: "ok", Render: "ok"}
	switch r.Intn(10) {
	case 0:
		p.Load = pick(r, "nomanifest", "badyaml", "badgvk")
	case 1, 2:
		p.Render = pick(r, "nophases", "nophaseann", "dup", "tmplerr", "scope")
	case 3:
		p.BadLock = true
	}
	if r.Intn(12) == 0 {
		p.Load = pick(r, "nomanifest", "badyaml", "badgvk")
	}
	for n := []int{0, 0, 1, 1, 2, 3}[r.Intn(6)]; n > 0; n-- {
		p.Cons = append(p.Cons, pick(r, "platform", "k8s", "k8s", "ocp", "ocp", "unique", "unique", "badrange", "platform+k8s"))
	}
	p.Comps = r.Intn(4) == 0
	return p
}

func RandomEnv(r Rng) Env {
	e := Env{Ocp: r.Intn(2) == 0, K8sNew: r.Intn(3) != 0, OcpNew: r.Intn(2) == 0, K8sBad: r.Intn(25) == 0}
	if !e.Ocp {
		e.OcpNew = false
	}
	return e
}

func randomCfg(r Rng) int  { return []int{0, 1, 1, 2, 2, 3, 4, 5}[r.Intn(8)] }
func randomComp(r Rng) int { return []int{0, 0, 0, 1, 1, 2}[r.Intn(6)] }

var ctrlFaults = []string{"pull", "pull", "pkgget", "odget0", "odget", "odcreate", "odupdate", "gc", "odget2", "status", "status", "env",
	"conflict1", "conflict2", "conflict4", "conflict5"}
var deployFaults = []string{"loader", "odget", "odcreate", "odupdate", "gc", "conflict1", "conflict1", "conflict2", "conflict3", "conflict4", "conflict5", "conflict7"}

func RandomScn(r Rng, mode string) Scn {
	s := Scn{Mode: mode, Scope: pick(r, "ns", "ns", "cluster"), Env: RandomEnv(r),
		Uniq: pick(r, "1", "1", "1", "1", "0", "2", "2", "err"), Od: pick(r, "", "", "old", "empty", "prev")}
	np := 1 + r.Intn(3)
	for i := 0; i < np; i++ {
		s.Pkgs = append(s.Pkgs, RandomPkg(r))
	}
	s.Spec = []int{r.Intn(np), randomCfg(r), randomComp(r)}
	if mode == "deploy" {
		s.Prior = pick(r, "", "", "LoadError", "ConstraintsFailed")
		f := ""
		if r.Intn(3) == 0 {
			f = deployFaults[r.Intn(len(deployFaults))]
		}
		s.Ops = []Op{{Op: "pass", Fault: f}}
		return s
	}
	s.Od = ""
	n := 2 + r.Intn(10)
	for i := 0; i < n; i++ {
		switch x := r.Intn(10); {
		case x < 6:
			f := ""
			if r.Intn(4) == 0 {
				f = ctrlFaults[r.Intn(len(ctrlFaults))]
			}
			s.Ops = append(s.Ops, Op{Op: "pass", Fault: f})
		case x < 7:
			s.Ops = append(s.Ops, Op{Op: "edit", F: "image", V: r.Intn(np)})
		case x < 8:
			s.Ops = append(s.Ops, Op{Op: "edit", F: "config", V: randomCfg(r)})
		case x < 9:
			s.Ops = append(s.Ops, Op{Op: "edit", F: "component", V: randomComp(r)})
		default:
			s.Ops = append(s.Ops, Op{Op: "edit", F: "meta", V: r.Intn(3)})
		}
	}
	s.Ops = append(s.Ops, Op{Op: "pass"})
	return s
}

// RandomVersionScn: a ctrl history of one operator process serving 1-3 Packages from 2-4 images that are
// versions of one or two packages (same manifest name) with random config schemas; spec edits, passes
// with faults and operator restarts in any order.
func RandomVersionScn(r Rng) Scn {
	s := Scn{Mode: "ctrl", Scope: pick(r, "ns", "ns", "cluster"), Env: Env{K8sNew: true, Ocp: r.Intn(3) == 0}, Uniq: "1"}
	np := 2 + r.Intn(3)
	for i := 0; i < np; i++ {
		p := Pkg{Load: "ok", Render: "ok", Comps: r.Intn(2) == 0, Name: pick(r, "f", "f", "f", "g", ""),
			Schema: Schemas[r.Intn(len(Schemas))]}
		switch r.Intn(12) {
		case 0:
			p.Render = pick(r, "nophases", "tmplerr", "dup")
		case 1:
			p.Cons = []string{pick(r, "platform", "k8s", "ocp")}
		case 2:
			p.Load = pick(r, "nomanifest", "badyaml")
		}
		s.Pkgs = append(s.Pkgs, p)
	}
	cfg := func() int { return []int{0, 1, 2, 3, 4, 4, 5}[r.Intn(7)] }
	comp := func() int { return []int{0, 0, 1, 1, 2}[r.Intn(5)] }
	s.Spec = []int{r.Intn(np), cfg(), comp()}
	for n := []int{0, 1, 1, 2}[r.Intn(4)]; n > 0; n-- {
		s.More = append(s.More, []int{r.Intn(np), cfg(), comp()})
	}
	nk := 1 + len(s.More)
	n := 3 + r.Intn(10)
	for i := 0; i < n; i++ {
		k := r.Intn(nk)
		switch x := r.Intn(12); {
		case x < 6:
			f := ""
			if r.Intn(5) == 0 {
				f = ctrlFaults[r.Intn(len(ctrlFaults))]
			}
			s.Ops = append(s.Ops, Op{Op: "pass", Fault: f, P: k})
		case x < 8:
			s.Ops = append(s.Ops, Op{Op: "edit", F: "image", V: r.Intn(np), P: k})
		case x < 10:
			s.Ops = append(s.Ops, Op{Op: "edit", F: "config", V: cfg(), P: k})
		case x < 11:
			s.Ops = append(s.Ops, Op{Op: "edit", F: "component", V: comp(), P: k})
		default:
			s.Ops = append(s.Ops, Op{Op: "restart"})
		}
	}
	for k := 0; k < nk; k++ {
		s.Ops = append(s.Ops, Op{Op: "pass", P: k})
	}
	return s
}
