package packageimport

// Correspondence harness for property C20 (de-duplicated concurrent image pulls).
// Injected by `go test -overlay`; drives the REAL RequestManager (Pull -> handleRequest ->
// goroutine -> pullImage -> handleResponse) with a scripted pull function that blocks on
// per-invocation channels, so that a scenario
//
//	req <caller> <image> | done <image> ok|err
//
// executes on the real goroutines in exactly the scenario order:
//   - after `req` the harness waits until the real code has registered the receiver (it polls
//     RequestManager.inFlight under inFlightLock; in-package access), until the scripted pull
//     function has been entered if no pull was in flight before, and until no goroutine is "in
//     transit" (runtime.NumGoroutine() == baseline + callers still blocked in Pull + pull
//     functions blocked in the script) - the last condition also catches a pull goroutine that
//     was started although one was already in flight;
//   - after `done` it waits until every caller that was waiting for that image has returned
//     from Pull and the pull goroutine (handleResponse) has ended.
//   - the last caller (c2) is a SLOW receiver: it registers through the real handleRequest (what
//     Pull does after the image-name overrides, which are empty here) but picks its response up
//     only after the broadcast has finished - the schedule in which a caller is descheduled
//     between registering and receiving.  The broadcast must not wait for it (buffer of one).
// Every wait has a deadline: a lost wake-up or deadlock yields `TIMEOUT ...` in the output.
//
// Stream "park" (TestVerifC20Park) adds the step
//
//	park <image> ok|err k mid=[<caller> <image> ...]
//
// which makes the window INSIDE handleResponse observable on the real goroutines without any hook
// in the code under test: before the pull is released the harness inserts two unbuffered "gate"
// receivers into the image's entry after the first k registered receivers.  The real broadcast
// loop then serves k callers and blocks sending to the second gate - exactly the state of a
// broadcaster that is descheduled in the middle of its loop.  While it is parked the requests
// `mid` are issued through the real Pull / handleRequest, then the gate is opened and the harness
// waits until the broadcast has ended and the requests issued meanwhile have gone through.  A
// request that is lost in that window is never answered: `no-fresh-pull` / `end w=1`.  Packages
// handed out before the parking point are edited by their callers while the loop is still
// copying for the others: a copy taken from an object a caller already owns shows the edit.
//
// Aliasing is measured two ways on every scenario: every caller edits what it was handed (in-place
// byte write the moment it gets it, on its own goroutine; map write as soon as no broadcast is in
// progress) and afterwards nobody's package may show anybody else's edit; and the identities (package pointer, Files map, backing array of every
// file) of everything handed out and of the objects the pull function returned must be pairwise
// distinct.
//
// The tests TestVerifC20Race (stream "race", thorough tier, -race) and TestVerifC20Storm (stream
// "storm": big packages, callers that ask again the moment they are answered) let goroutines run
// freely and only print a summary; they are exploration, not part of the proof.

import (
	"context"
	"encoding/json"
	"errors"
	"fmt"
	"math/rand"
	"reflect"
	"runtime"
	"sort"
	"strings"
	"sync"
	"sync/atomic"
	"testing"
	"time"
	"unsafe"

	"github.com/google/go-containerregistry/pkg/crane"
	"k8s.io/apimachinery/pkg/types"
	"sigs.k8s.io/controller-runtime/pkg/client"

	"package-operator.run/internal/packages/internal/packagetypes"
	"package-operator.run/internal/verifkit"
)

const (
	c20Imgs        = 2
	c20Callers     = 3
	c20StepTimeout = 2 * time.Second
	c20Fuse        = 2 // after this many TIMEOUT scenarios no further scenario is executed
	c20SlowCaller  = c20Callers - 1
)

type c20Mid struct {
	C int `json:"c"`
	I int `json:"i"`
}

type c20Step struct {
	Op  string   `json:"op"` // req | done | park
	C   int      `json:"c"`  // caller (req)
	I   int      `json:"i"`  // image
	R   string   `json:"r"`  // ok | err (done, park)
	K   int      `json:"k,omitempty"`   // park: number of receivers served before the parking point
	Mid []c20Mid `json:"mid,omitempty"` // park: requests arriving while the broadcast is parked
}

type c20FreeCfg struct {
	Callers int   `json:"callers"`
	Images  int   `json:"images"`
	Rounds  int   `json:"rounds"`
	Seed    int64 `json:"seed"`
	Errmod  int   `json:"errmod"`
	Files   int   `json:"files,omitempty"` // additional files in the pulled package ...
	Fsize   int   `json:"fsize,omitempty"` // ... of this many bytes each
}

type c20Scn struct {
	Steps []c20Step   `json:"steps,omitempty"`
	Free  *c20FreeCfg `json:"free,omitempty"`
}

// error returned by the scripted pull function: which pull it was.
type c20Err struct{ img, gen int }

func (e *c20Err) Error() string { return fmt.Sprintf("pull i%dg%d failed", e.img, e.gen) }

var errC20Rescue = errors.New("c20: receiver never answered, released by the harness")

func c20ImgName(i int) string { return fmt.Sprintf("img%d", i) }

func c20ImgIdx(ref string) int {
	var i int
	if _, err := fmt.Sscanf(ref, "img%d", &i); err != nil {
		return -1
	}
	return i
}

type c20Pull struct {
	img, gen int
	release  chan string
}

type c20Ret struct {
	pkg *packagetypes.RawPackage
	err error
}

type c20Env struct {
	mu       sync.Mutex
	entered  [c20Imgs]int
	released [c20Imgs]int
	blocked  [c20Imgs][]*c20Pull
	issued   int // Pull calls started on their own goroutine
	returned int // ... and returned
	rets     map[int]*c20Ret
	retOrder []int
	origins  []*packagetypes.RawPackage // every object the pull function returned
}

// the scripted pull function: announces itself, then blocks until the scenario releases it.
func (e *c20Env) pull(
	_ context.Context, _ client.Client, _ types.NamespacedName, ref string, _ ...crane.Option,
) (*packagetypes.RawPackage, error) {
	img := c20ImgIdx(ref)
	if img < 0 || img >= c20Imgs {
		return nil, fmt.Errorf("unexpected image %q", ref)
	}
	e.mu.Lock()
	e.entered[img]++
	p := &c20Pull{img: img, gen: e.entered[img], release: make(chan string, 1)}
	e.blocked[img] = append(e.blocked[img], p)
	e.mu.Unlock()
	if <-p.release == "err" {
		return nil, &c20Err{img: p.img, gen: p.gen}
	}
	pkg := &packagetypes.RawPackage{Files: packagetypes.Files{
		"id":   []byte(fmt.Sprintf("i%dg%d", p.img, p.gen)),
		"data": []byte{0},
	}}
	e.mu.Lock()
	e.origins = append(e.origins, pkg)
	e.mu.Unlock()
	return pkg, nil
}

// c20Scribble is what a caller does to the package it was handed, the moment it gets it (the
// broadcast to the other receivers may still be going on): an in-place byte write.  The map write
// follows as soon as no broadcast is in progress (record): while one is, a map write to an object
// the broadcaster still reads would not be a wrong answer but a fatal runtime error.
func c20Scribble(p *packagetypes.RawPackage) {
	if p == nil || p.Files == nil {
		return
	}
	if d := p.Files["data"]; len(d) > 0 {
		d[0]++
	}
}

// c20Idents: the memory identities of a package: the object, its Files map, every file's array.
func c20Idents(p *packagetypes.RawPackage) []uintptr {
	ids := []uintptr{uintptr(unsafe.Pointer(p))}
	if p.Files != nil {
		ids = append(ids, reflect.ValueOf(p.Files).Pointer())
		for _, b := range p.Files {
			if cap(b) > 0 {
				ids = append(ids, uintptr(unsafe.Pointer(unsafe.SliceData(b))))
			}
		}
	}
	return ids
}

type c20Run struct {
	env  *c20Env
	rm   *RequestManager
	base int
	// harness bookkeeping (test goroutine only)
	nreq      int                     // requests issued so far (request index)
	slow      map[int]<-chan response // outstanding requests of the slow receiver
	seen      int                     // prefix of env.retOrder already reported
	callerOf  map[int]int             // request index -> caller
	imageOf   map[int]int             // request index -> image
	waitingOf map[int]int             // caller -> request index it is blocked on
	got       map[int]*c20Ret         // all returned requests
	probed    []int                   // request indexes (gates: negative) whose package is watched for foreign edits
	recs      []string
	order     [c20Imgs][]int          // requests registered for the image, in registration order
	extraG    int                     // goroutines the harness knows to be alive besides callers and pulls
	gates     []chan response         // gate receivers of parked broadcasts (cleanup)
	ngate     int
	idOwner   map[uintptr]int         // memory identity -> package it was seen in (origins: <= -1000)
	nOrigin   int                     // prefix of env.origins already entered in idOwner
	idAliased map[int]bool            // packages sharing memory with another receiver's package
	idOrigin  map[int]bool            // packages sharing memory with an object the pull function returned
	marked    map[int]bool            // watched packages that carry their owner's map write
	inPark    bool                    // a broadcast is parked inside handleResponse
}

// settle waits until cond() holds and no goroutine is in transit.
func (x *c20Run) settle(cond func() bool) bool {
	deadline := time.Now().Add(c20StepTimeout)
	for n := 0; ; n++ {
		ok := cond()
		x.env.mu.Lock()
		want := x.base + (x.env.issued - x.env.returned)
		for i := 0; i < c20Imgs; i++ {
			want += x.env.entered[i] - x.env.released[i]
		}
		want += x.extraG
		x.env.mu.Unlock()
		if ok && runtime.NumGoroutine() == want {
			return true
		}
		if n < 300 {
			runtime.Gosched()
			continue
		}
		if time.Now().After(deadline) {
			return false
		}
		time.Sleep(20 * time.Microsecond)
	}
}

func c20ResStr(r *c20Ret) string {
	switch {
	case r.pkg != nil && r.err != nil:
		return "both"
	case r.err != nil:
		var pe *c20Err
		if errors.As(r.err, &pe) {
			return fmt.Sprintf("err:i%dg%d", pe.img, pe.gen)
		}
		if errors.Is(r.err, errC20Rescue) {
			return "stuck"
		}
		return "err:other"
	case r.pkg == nil:
		return "nil"
	default:
		return "ok:" + verifkit.Esc(string(r.pkg.Files["id"]))
	}
}

// pickup lets the slow receiver take whatever has been sent to it by now.
func (x *c20Run) pickup() {
	for idx, ch := range x.slow {
		select {
		case res := <-ch:
			c20Scribble(res.RawPackage)
			x.env.mu.Lock()
			x.env.rets[idx] = &c20Ret{pkg: res.RawPackage, err: res.Err}
			x.env.retOrder = append(x.env.retOrder, idx)
			x.env.mu.Unlock()
			delete(x.slow, idx)
		default:
		}
	}
}

// watch enters a package that was handed out into the aliasing checks.
func (x *c20Run) watch(idx int, p *packagetypes.RawPackage) {
	if p == nil {
		return
	}
	for _, id := range c20Idents(p) {
		if o, dup := x.idOwner[id]; dup && o != idx {
			if o > -1000 { // memory shared between what two receivers were handed
				x.idAliased[idx], x.idAliased[o] = true, true
			} else { // the receiver was handed (part of) the object the pull function returned
				x.idOrigin[idx] = true
			}
		} else {
			x.idOwner[id] = idx
		}
	}
	if p.Files != nil {
		x.probed = append(x.probed, idx)
	}
}

// record reports what happened since the previous record.
func (x *c20Run) record(tag string, suffix ...string) {
	x.pickup()
	x.env.mu.Lock()
	fresh := append([]int(nil), x.env.retOrder[x.seen:]...)
	x.seen = len(x.env.retOrder)
	for _, idx := range fresh {
		x.got[idx] = x.env.rets[idx]
	}
	entered, released := x.env.entered, x.env.released
	origins := x.env.origins[x.nOrigin:]
	x.nOrigin = len(x.env.origins)
	x.env.mu.Unlock()
	for k, o := range origins {
		for _, id := range c20Idents(o) {
			x.idOwner[id] = -1000 - (x.nOrigin - len(origins) + k)
		}
	}

	var rs []string
	sort.Slice(fresh, func(a, b int) bool { return x.callerOf[fresh[a]] < x.callerOf[fresh[b]] })
	for _, idx := range fresh {
		c := x.callerOf[idx]
		if x.waitingOf[c] == idx {
			delete(x.waitingOf, c)
		}
		rs = append(rs, fmt.Sprintf("c%d:%s", c, c20ResStr(x.got[idx])))
	}
	// aliasing probe: every caller has edited what it was handed the moment it got it (c20Scribble:
	// adds a key, changes a byte in place); the identities of everything handed out are compared
	// with each other (a) and with the objects the pull function returned (o) ...
	for _, idx := range fresh {
		x.watch(idx, x.got[idx].pkg)
	}
	if !x.inPark {
		for _, idx := range x.probed {
			if !x.marked[idx] {
				x.got[idx].pkg.Files[fmt.Sprintf("m%d", idx)] = []byte{1}
				x.marked[idx] = true
			}
		}
	}
	// ... and nobody's package (of this or an earlier broadcast) may show anybody else's edit.
	aliased := 0
	for _, idx := range x.probed {
		f := x.got[idx].pkg.Files
		marks, want := 0, 0
		for k := range f {
			if strings.HasPrefix(k, "m") {
				marks++
			}
		}
		_, own := f[fmt.Sprintf("m%d", idx)]
		if x.marked[idx] {
			want = 1
		}
		if marks != want || own != x.marked[idx] || len(f["data"]) != 1 || f["data"][0] != 1 || x.idAliased[idx] {
			aliased++
		}
	}
	r := "-"
	if len(rs) > 0 {
		r = strings.Join(rs, ",")
	}
	var p, f []string
	for i := 0; i < c20Imgs; i++ {
		p = append(p, fmt.Sprint(entered[i]))
		f = append(f, fmt.Sprint(entered[i]-released[i]))
	}
	// a = packages that show somebody else's edit or share memory with another receiver's package;
	// o = packages that are not copies: (part of) the very object the pull function returned
	x.recs = append(x.recs, fmt.Sprintf("%s p=%s f=%s r=%s a=%d o=%d%s", tag, strings.Join(p, ","), strings.Join(f, ","), r, aliased,
		len(x.idOrigin), strings.Join(suffix, "")))
}

// launch: caller c calls the real Pull for image i on its own goroutine and edits what it gets
// the moment it gets it (the slow receiver: the real handleRequest on its own goroutine; the
// channel it returns is delivered on `got`).  Does not wait for anything.
func (x *c20Run) launch(c, i int) (idx int, got chan (<-chan response)) {
	img := c20ImgName(i)
	idx = x.nreq
	x.nreq++
	x.callerOf[idx], x.imageOf[idx], x.waitingOf[c] = c, i, idx
	if c == c20SlowCaller {
		got = make(chan (<-chan response), 1)
		x.extraG++
		go func() { got <- x.rm.handleRequest(context.Background(), img) }()
		return idx, got
	}
	x.env.mu.Lock()
	x.env.issued++
	x.env.mu.Unlock()
	go func() {
		pkg, err := x.rm.Pull(context.Background(), img)
		c20Scribble(pkg)
		x.env.mu.Lock()
		x.env.rets[idx] = &c20Ret{pkg: pkg, err: err}
		x.env.retOrder = append(x.env.retOrder, idx)
		x.env.returned++
		x.env.mu.Unlock()
	}()
	return idx, nil
}

// request: caller c calls the real Pull for image i on its own goroutine (the slow receiver:
// the real handleRequest, keeping the channel for later).
func (x *c20Run) request(c, i int) bool {
	img := c20ImgName(i)
	x.rm.inFlightLock.Lock()
	n0 := len(x.rm.inFlight[img])
	_, had := x.rm.inFlight[img]
	x.rm.inFlightLock.Unlock()
	x.env.mu.Lock()
	e0 := x.env.entered[i]
	x.env.mu.Unlock()
	idx, got := x.launch(c, i)
	if got != nil {
		select {
		case ch := <-got:
			x.slow[idx] = ch
			x.extraG--
		case <-time.After(c20StepTimeout):
			return false
		}
	}
	x.order[i] = append(x.order[i], idx)
	return x.settle(func() bool {
		x.rm.inFlightLock.Lock()
		n := len(x.rm.inFlight[img])
		x.rm.inFlightLock.Unlock()
		if n != n0+1 { // receiver registered
			return false
		}
		if !had { // nothing was in flight: the pull function must have been entered
			x.env.mu.Lock()
			e := x.env.entered[i]
			x.env.mu.Unlock()
			return e > e0
		}
		return true
	})
}

// complete releases the oldest blocked pull of image i; false,false = none blocked.
func (x *c20Run) complete(i int, res string) (happened, ok bool) {
	x.env.mu.Lock()
	if len(x.env.blocked[i]) == 0 {
		x.env.mu.Unlock()
		return false, true
	}
	p := x.env.blocked[i][0]
	x.env.blocked[i] = x.env.blocked[i][1:]
	x.env.released[i]++
	x.env.mu.Unlock()
	var waiters []int
	for _, idx := range x.waitingOf {
		if x.imageOf[idx] == i {
			waiters = append(waiters, idx)
		}
	}
	x.order[i] = nil
	p.release <- res
	return true, x.settle(func() bool {
		x.env.mu.Lock()
		defer x.env.mu.Unlock()
		for _, idx := range waiters {
			if _, slow := x.slow[idx]; !slow && x.env.rets[idx] == nil {
				return false
			}
		}
		return true
	})
}


// tryLock: is inFlightLock free?  (true: the harness holds it now.)  A broadcaster that holds the
// lock holds it for the whole time it is parked, so a single success proves it does not.
func (x *c20Run) tryLock() bool {
	for n := 0; n < 40; n++ {
		if x.rm.inFlightLock.TryLock() {
			return true
		}
		runtime.Gosched()
	}
	return false
}

// park: the pull in flight for image i returns res; the real handleResponse is parked after its
// first k sends, the requests mid arrive, the broadcast is resumed.  happened=false: no pull in
// flight; fail != "": a deadline passed.
func (x *c20Run) park(i int, res string, k int, mid []c20Mid) (happened bool, fail string) {
	img := c20ImgName(i)
	x.env.mu.Lock()
	if len(x.env.blocked[i]) == 0 {
		x.env.mu.Unlock()
		return false, ""
	}
	p := x.env.blocked[i][0]
	x.env.blocked[i] = x.env.blocked[i][1:]
	x.env.released[i]++
	x.env.mu.Unlock()

	// two unbuffered gate receivers after the first k registered receivers: once the harness has
	// received from the first one, the broadcaster is inside its loop, has served exactly the
	// receivers before the gates and cannot get past the second one.
	gateA, gateB := make(chan response), make(chan response)
	x.gates = append(x.gates, gateA, gateB)
	x.rm.inFlightLock.Lock()
	recvs := x.rm.inFlight[img]
	kk := k
	if kk > len(recvs) {
		kk = len(recvs)
	}
	neu := make([]chan<- response, 0, len(recvs)+2)
	neu = append(neu, recvs[:kk]...)
	neu = append(neu, gateA, gateB)
	neu = append(neu, recvs[kk:]...)
	x.rm.inFlight[img] = neu
	x.rm.inFlightLock.Unlock()
	order := x.order[i]
	if kk > len(order) {
		kk = len(order)
	}
	first, rest := order[:kk], order[kk:]
	answered := func(idxs []int) func() bool {
		return func() bool {
			x.env.mu.Lock()
			defer x.env.mu.Unlock()
			for _, idx := range idxs {
				if _, slow := x.slow[idx]; !slow && x.env.rets[idx] == nil {
					return false
				}
			}
			return true
		}
	}
	gate := func(g chan response) bool {
		select {
		case r := <-g:
			x.ngate++
			x.got[-x.ngate] = &c20Ret{pkg: r.RawPackage, err: r.Err}
			return true
		case <-time.After(c20StepTimeout):
			return false
		}
	}

	x.extraG++ // the broadcaster: its pull function has returned, handleResponse is running
	x.inPark = true
	defer func() { x.inPark = false }()
	p.release <- res
	if !gate(gateA) {
		return true, "broadcast-did-not-reach-the-parking-point"
	}
	if !x.settle(answered(first)) {
		return true, "receivers-before-the-parking-point-not-answered"
	}
	held := 1
	if x.tryLock() {
		held = 0
		x.rm.inFlightLock.Unlock()
	}
	// what the gate was handed is a package like any other
	c20Scribble(x.got[-x.ngate].pkg)
	x.watch(-x.ngate, x.got[-x.ngate].pkg)
	x.record("P", fmt.Sprintf(" l=%d", held))

	// requests arriving while the broadcast is parked
	x.env.mu.Lock()
	e0 := x.env.entered
	x.env.mu.Unlock()
	type pend struct {
		idx, img int
		got      chan (<-chan response)
	}
	var pending []pend
	// the slow receiver's handleRequest returns its channel once it got through
	collect := func() {
		for n := range pending {
			if pending[n].got == nil {
				continue
			}
			select {
			case ch := <-pending[n].got:
				x.slow[pending[n].idx] = ch
				x.extraG--
				pending[n].got = nil
			default:
			}
		}
	}
	pendC, pendI := map[int]bool{}, map[int]bool{}
	for _, m := range mid {
		if _, busy := x.waitingOf[m.C]; busy || pendC[m.C] || pendI[m.I] {
			x.record("b")
			continue
		}
		pendC[m.C], pendI[m.I] = true, true
		free, n0 := x.tryLock(), 0
		if free {
			n0 = len(x.rm.inFlight[c20ImgName(m.I)])
			x.rm.inFlightLock.Unlock()
		}
		idx, got := x.launch(m.C, m.I)
		pending = append(pending, pend{idx, m.I, got})
		held = 1
		if free {
			// the lock is not held: the request is not blocked, let it get as far as it gets
			held = 0
			if !x.settle(func() bool {
				collect()
				if got != nil && pending[len(pending)-1].got != nil {
					return false
				}
				if !x.rm.inFlightLock.TryLock() {
					return false
				}
				defer x.rm.inFlightLock.Unlock()
				return len(x.rm.inFlight[c20ImgName(m.I)]) == n0+1
			}) {
				c20Timeouts++ // neither blocked nor registered: do not pile up such waits
			}
		}
		x.record("w", fmt.Sprintf(" l=%d", held))
	}

	// resume
	if !gate(gateB) {
		return true, "parked-broadcast-did-not-resume"
	}
	c20Scribble(x.got[-x.ngate].pkg)
	x.watch(-x.ngate, x.got[-x.ngate].pkg)
	x.extraG--
	var wantLen, wantEntered [c20Imgs]int
	for j := 0; j < c20Imgs; j++ {
		if j != i {
			wantLen[j] = len(x.order[j])
		}
		wantEntered[j] = e0[j]
	}
	for _, pd := range pending {
		if wantLen[pd.img] == 0 {
			wantEntered[pd.img]++
		}
		wantLen[pd.img]++
	}
	if !x.settle(func() bool { collect(); return answered(rest)() }) {
		return true, "receivers-after-the-parking-point-not-answered"
	}
	served := x.settle(func() bool {
		collect()
		for _, pd := range pending {
			if pd.got != nil { // handleRequest of the slow receiver has not returned yet
				return false
			}
		}
		x.rm.inFlightLock.Lock()
		defer x.rm.inFlightLock.Unlock()
		x.env.mu.Lock()
		defer x.env.mu.Unlock()
		for j := 0; j < c20Imgs; j++ {
			if len(x.rm.inFlight[c20ImgName(j)]) != wantLen[j] || x.env.entered[j] < wantEntered[j] {
				return false
			}
		}
		return true
	})
	if !served {
		// a request issued during the broadcast did not get through after it (not registered for
		// the next pull, or no pull started for it): say what is there, the monitor names it.
		c20Timeouts++
	}
	x.order[i] = nil
	for _, pd := range pending {
		x.order[pd.img] = append(x.order[pd.img], pd.idx)
	}
	x.inPark = false
	x.record("U")
	return true, ""
}

// cleanup lets every goroutine that can still end do so (only matters for misbehaving code).
func (x *c20Run) cleanup() {
	for _, g := range x.gates { // a broadcaster still parked at a gate
		select {
		case <-g:
		case <-time.After(20 * time.Millisecond):
		}
	}
	for _, ch := range x.slow { // unblock a broadcast that waits for the slow receiver
		select {
		case <-ch:
		case <-time.After(20 * time.Millisecond):
		}
	}
	x.env.mu.Lock()
	for i := 0; i < c20Imgs; i++ {
		for _, p := range x.env.blocked[i] {
			x.env.released[i]++
			p.release <- "ok"
		}
		x.env.blocked[i] = nil
	}
	x.env.mu.Unlock()
	done := make(chan struct{})
	go func() {
		defer close(done)
		x.rm.inFlightLock.Lock()
		defer x.rm.inFlightLock.Unlock()
		for img, recvs := range x.rm.inFlight {
			for _, recv := range recvs {
				select {
				case recv <- response{Err: errC20Rescue}:
				default:
				}
			}
			delete(x.rm.inFlight, img)
		}
	}()
	select {
	case <-done:
	case <-time.After(200 * time.Millisecond):
	}
	time.Sleep(5 * time.Millisecond)
}

var c20Timeouts int

func c20Exec(s c20Scn) string {
	env := &c20Env{rets: map[int]*c20Ret{}}
	rm := NewRequestManager(nil, nil, nil, types.NamespacedName{})
	rm.pullImage = env.pull
	x := &c20Run{env: env, rm: rm, base: runtime.NumGoroutine(),
		callerOf: map[int]int{}, imageOf: map[int]int{}, waitingOf: map[int]int{}, got: map[int]*c20Ret{},
		slow: map[int]<-chan response{}, idOwner: map[uintptr]int{}, idAliased: map[int]bool{}, idOrigin: map[int]bool{}, marked: map[int]bool{}}
	timeout := func(k int, what string) string {
		c20Timeouts++
		x.recs = append(x.recs, fmt.Sprintf("TIMEOUT step=%d %s", k, what))
		x.cleanup()
		return strings.Join(x.recs, ";")
	}
	for k, st := range s.Steps {
		if st.I < 0 || st.I >= c20Imgs || st.C < 0 {
			x.recs = append(x.recs, "BAD-OP")
			continue
		}
		switch st.Op {
		case "req":
			if _, busy := x.waitingOf[st.C]; busy {
				x.record("b")
				continue
			}
			if !x.request(st.C, st.I) {
				return timeout(k, "request-not-registered-or-pull-not-started")
			}
			x.record("q")
		case "done":
			happened, ok := x.complete(st.I, st.R)
			if !ok {
				return timeout(k, "broadcast-not-finished-or-waiting-caller-not-answered")
			}
			if happened {
				x.record("d")
			} else {
				x.record("n")
			}
		case "park":
			bad := st.K < 0
			for _, m := range st.Mid {
				if m.I < 0 || m.I >= c20Imgs || m.C < 0 {
					bad = true
				}
			}
			if bad {
				x.recs = append(x.recs, "BAD-OP")
				continue
			}
			happened, fail := x.park(st.I, st.R, st.K, st.Mid)
			if fail != "" {
				return timeout(k, fail)
			}
			if !happened {
				x.record("n")
			}
		default:
			x.recs = append(x.recs, "BAD-OP")
		}
	}
	// drain: complete whatever is still in flight, in image order
	for i := 0; i < c20Imgs; i++ {
		for {
			happened, ok := x.complete(i, "ok")
			if !ok {
				return timeout(len(s.Steps), "drain-broadcast-not-finished-or-waiting-caller-not-answered")
			}
			if !happened {
				break
			}
			x.record("D")
		}
	}
	w := len(x.waitingOf)
	x.recs = append(x.recs, fmt.Sprintf("end w=%d", w))
	if w > 0 {
		c20Timeouts++ // callers that will never be answered: treat like a timeout for the fuse
		x.cleanup()
	}
	return strings.Join(x.recs, ";")
}

func c20Tags(s c20Scn, out string) []string {
	tags := []string{fmt.Sprintf("len=%d", len(s.Steps))}
	add := func(t string) {
		for _, u := range tags {
			if u == t {
				return
			}
		}
		tags = append(tags, t)
	}
	reqs := 0
	for _, rec := range strings.Split(out, ";") {
		switch {
		case strings.HasPrefix(rec, "q "):
			reqs++
			add("req")
		case strings.HasPrefix(rec, "b "):
			add("req-busy-caller")
		case strings.HasPrefix(rec, "n "):
			add("done-not-enabled")
		case strings.HasPrefix(rec, "d "), strings.HasPrefix(rec, "D "):
			if strings.HasPrefix(rec, "D ") {
				add("drain")
			} else {
				add("done")
			}
			switch n := strings.Count(rec, ":ok:") + strings.Count(rec, ":err:"); {
			case n >= 3:
				add("broadcast=3")
			case n == 2:
				add("broadcast=2")
			case n == 1:
				add("broadcast=1")
			}
			if strings.Contains(rec, ":err:") {
				add("result=err")
			} else {
				add("result=ok")
			}
		case strings.HasPrefix(rec, "P "):
			add("park")
			switch n := strings.Count(rec, ":ok:") + strings.Count(rec, ":err:"); {
			case n == 0:
				add("park-before-first-send")
			default:
				add("park-after-some-sends")
			}
		case strings.HasPrefix(rec, "w "):
			add("request-during-broadcast")
		case strings.HasPrefix(rec, "U "):
			if strings.Count(rec, ":ok:")+strings.Count(rec, ":err:") == 0 {
				add("park-after-last-send")
			}
		case strings.HasPrefix(rec, "TIMEOUT"):
			add("TIMEOUT")
		case rec == "BAD-OP":
			add("malformed-step")
		}
	}
	if strings.Contains(out, "g2") || strings.Contains(out, "g3") {
		add("late-request-fresh-pull")
	}
	if strings.Contains(out, "f=1,1") {
		add("two-images-in-flight")
	}
	if reqs == 0 {
		add("trivial")
	}
	return tags
}

func TestVerifC20(t *testing.T) {
	r := verifkit.Open(t, "C20")
	defer r.Close()
	// run executes one scenario; false = the fuse has blown, stop generating.
	run := func(s c20Scn) bool {
		if c20Timeouts >= c20Fuse {
			if r.ReplayOnly() {
				r.Emit(s, "SKIPPED earlier scenarios of this run timed out")
			}
			return false
		}
		out := verifkit.Guard(func() string { return c20Exec(s) })
		r.Emit(s, out, c20Tags(s, out)...)
		return true
	}
	for _, line := range r.Fixed() {
		var s c20Scn
		if err := json.Unmarshal([]byte(line), &s); err != nil {
			t.Fatalf("bad scenario %q: %v", line, err)
		}
		if s.Free != nil {
			continue
		}
		run(s)
	}
	if r.ReplayOnly() {
		return
	}
	var alpha []c20Step
	for c := 0; c < c20Callers; c++ {
		for i := 0; i < c20Imgs; i++ {
			alpha = append(alpha, c20Step{Op: "req", C: c, I: i})
		}
	}
	for i := 0; i < c20Imgs; i++ {
		alpha = append(alpha, c20Step{Op: "done", I: i, R: "ok"}, c20Step{Op: "done", I: i, R: "err"})
	}
	alive := true
	// (1) every sequence over the full alphabet (including disabled steps) up to length 3
	count1 := 0
	var all func(prefix []c20Step, depth int)
	all = func(prefix []c20Step, depth int) {
		if !alive {
			return
		}
		if len(prefix) > 0 {
			alive = run(c20Scn{Steps: append([]c20Step(nil), prefix...)})
			count1++
		}
		if depth == 3 {
			return
		}
		for _, a := range alpha {
			all(append(prefix, a), depth+1)
		}
	}
	all(nil, 0)
	// (2) every sequence of ENABLED steps (a caller requests only while idle, a pull completes
	// only while in flight) of length 4..L; disabled steps are no-ops, covered by (1) and (3).
	L := r.Pick(7, 8)
	count2 := 0
	var en func(prefix []c20Step, wait [c20Callers]int)
	en = func(prefix []c20Step, wait [c20Callers]int) {
		if !alive {
			return
		}
		if len(prefix) > 3 {
			alive = run(c20Scn{Steps: append([]c20Step(nil), prefix...)})
			count2++
		}
		if len(prefix) == L {
			return
		}
		for _, a := range alpha {
			w := wait
			if a.Op == "req" {
				if w[a.C] >= 0 {
					continue
				}
				w[a.C] = a.I
			} else {
				inflight := false
				for c := range w {
					if w[c] == a.I {
						inflight = true
						w[c] = -1
					}
				}
				if !inflight {
					continue
				}
			}
			en(append(prefix, a), w)
		}
	}
	en(nil, [c20Callers]int{-1, -1, -1})
	r.Extra["alphabet"] = len(alpha)
	r.Extra["exhaustive_full_alphabet_len"] = 3
	r.Extra["exhaustive_full_alphabet_count"] = count1
	r.Extra["exhaustive_enabled_len"] = L
	r.Extra["exhaustive_enabled_count"] = count2
	// (3) random longer sequences (disabled steps included)
	n := r.Pick(3000, 30000)
	for k := 0; k < n && alive; k++ {
		l := 8 + r.Rng.Intn(33)
		var s c20Scn
		for j := 0; j < l; j++ {
			if r.Rng.Intn(5) < 3 {
				s.Steps = append(s.Steps, c20Step{Op: "req", C: r.Rng.Intn(c20Callers), I: r.Rng.Intn(c20Imgs)})
			} else {
				res := "ok"
				if r.Rng.Intn(3) == 0 {
					res = "err"
				}
				s.Steps = append(s.Steps, c20Step{Op: "done", I: r.Rng.Intn(c20Imgs), R: res})
			}
		}
		if k%50 == 0 { // malformed: unknown op / image the harness does not script
			j := r.Rng.Intn(len(s.Steps))
			if r.Rng.Intn(2) == 0 {
				s.Steps[j].Op = "cancel"
			} else {
				s.Steps[j].I = c20Imgs + r.Rng.Intn(3)
			}
		}
		alive = run(s)
	}
	r.Extra["random_count"] = n
	r.Extra["timeouts"] = c20Timeouts
}


// ---------------------------------------------------------------------------------------------
// stream "park": broadcasts observed from the inside

func TestVerifC20Park(t *testing.T) {
	r := verifkit.Open(t, "C20")
	defer r.Close()
	run := func(s c20Scn) bool {
		if c20Timeouts >= c20Fuse {
			if r.ReplayOnly() {
				r.Emit(s, "SKIPPED earlier scenarios of this run timed out")
			}
			return false
		}
		out := verifkit.Guard(func() string { return c20Exec(s) })
		r.Emit(s, out, c20Tags(s, out)...)
		return true
	}
	for _, line := range r.Fixed() {
		var s c20Scn
		if err := json.Unmarshal([]byte(line), &s); err != nil {
			t.Fatalf("bad scenario %q: %v", line, err)
		}
		if s.Free != nil {
			continue
		}
		run(s)
	}
	if r.ReplayOnly() {
		return
	}
	var alpha []c20Step
	var mids [][]c20Mid // every sequence of at most two requests
	mids = append(mids, nil)
	for c := 0; c < c20Callers; c++ {
		for i := 0; i < c20Imgs; i++ {
			alpha = append(alpha, c20Step{Op: "req", C: c, I: i})
			mids = append(mids, []c20Mid{{c, i}})
		}
	}
	for _, a := range mids[1 : 1+c20Callers*c20Imgs] {
		for _, b := range mids[1 : 1+c20Callers*c20Imgs] {
			mids = append(mids, []c20Mid{a[0], b[0]})
		}
	}
	for i := 0; i < c20Imgs; i++ {
		alpha = append(alpha, c20Step{Op: "done", I: i, R: "ok"}, c20Step{Op: "done", I: i, R: "err"})
	}
	alive := true
	// (1) every sequence of enabled req/done steps up to length L, followed by every parked
	// completion that is enabled then: image in flight x ok/err x parking point 0..#waiters x
	// every sequence of at most two requests arriving meanwhile (issued or not).
	L := 3
	count1 := 0
	var en func(prefix []c20Step, wait [c20Callers]int)
	en = func(prefix []c20Step, wait [c20Callers]int) {
		if !alive {
			return
		}
		var n [c20Imgs]int
		for _, w := range wait {
			if w >= 0 {
				n[w]++
			}
		}
		for i := 0; i < c20Imgs && len(prefix) > 0; i++ {
			if n[i] == 0 {
				continue
			}
			for _, res := range []string{"ok", "err"} {
				for k := 0; k <= n[i]; k++ {
					for _, m := range mids {
						if !alive {
							return
						}
						st := c20Step{Op: "park", I: i, R: res, K: k, Mid: m}
						alive = run(c20Scn{Steps: append(append([]c20Step(nil), prefix...), st)})
						count1++
					}
				}
			}
		}
		if len(prefix) == L {
			return
		}
		for _, a := range alpha {
			w := wait
			if a.Op == "req" {
				if w[a.C] >= 0 {
					continue
				}
				w[a.C] = a.I
			} else {
				inflight := false
				for c := range w {
					if w[c] == a.I {
						inflight = true
						w[c] = -1
					}
				}
				if !inflight {
					continue
				}
			}
			en(append(prefix, a), w)
		}
	}
	en(nil, [c20Callers]int{-1, -1, -1})
	r.Extra["exhaustive_prefix_len"] = L
	r.Extra["exhaustive_park_count"] = count1
	// (2) random longer sequences of req / done / park (disabled steps, parking points beyond the
	// number of waiters, more requests arriving meanwhile, several parked broadcasts per scenario)
	n := r.Pick(1500, 6000)
	for j := 0; j < n && alive; j++ {
		l := 4 + r.Rng.Intn(21)
		var s c20Scn
		for q := 0; q < l; q++ {
			res := "ok"
			if r.Rng.Intn(3) == 0 {
				res = "err"
			}
			switch x := r.Rng.Intn(10); {
			case x < 5:
				s.Steps = append(s.Steps, c20Step{Op: "req", C: r.Rng.Intn(c20Callers), I: r.Rng.Intn(c20Imgs)})
			case x < 7:
				s.Steps = append(s.Steps, c20Step{Op: "done", I: r.Rng.Intn(c20Imgs), R: res})
			default:
				st := c20Step{Op: "park", I: r.Rng.Intn(c20Imgs), R: res, K: r.Rng.Intn(5)}
				for m := r.Rng.Intn(4); m > 0; m-- {
					st.Mid = append(st.Mid, c20Mid{r.Rng.Intn(c20Callers), r.Rng.Intn(c20Imgs)})
				}
				s.Steps = append(s.Steps, st)
			}
		}
		if j%50 == 0 { // malformed: a request for an image the harness does not script arrives meanwhile
			s.Steps = append(s.Steps, c20Step{Op: "park", I: 0, R: "ok", K: 1, Mid: []c20Mid{{0, c20Imgs + r.Rng.Intn(3)}}})
		}
		alive = run(s)
	}
	r.Extra["random_count"] = n
	r.Extra["timeouts"] = c20Timeouts
}

// ---------------------------------------------------------------------------------------------
// exploration: free-running goroutines (run with -race in the thorough tier)

func c20FreeExec(f c20FreeCfg) string {
	if f.Images < 1 || f.Images > 8 || f.Callers < 1 || f.Rounds < 0 || f.Files < 0 || f.Fsize < 0 {
		return "BAD-OP"
	}
	var inflight, maxInflight, pulls, requests [8]atomic.Int64
	var nPull atomic.Int64
	rm := NewRequestManager(nil, nil, nil, types.NamespacedName{})
	rm.pullImage = func(
		_ context.Context, _ client.Client, _ types.NamespacedName, ref string, _ ...crane.Option,
	) (*packagetypes.RawPackage, error) {
		img := c20ImgIdx(ref)
		cur := inflight[img].Add(1)
		for {
			m := maxInflight[img].Load()
			if cur <= m || maxInflight[img].CompareAndSwap(m, cur) {
				break
			}
		}
		pulls[img].Add(1)
		n := nPull.Add(1)
		switch (uint64(n)*2654435761 + uint64(f.Seed)) % 4 { // vary how long the pull stays in flight
		case 1:
			runtime.Gosched()
		case 2:
			for k := int64(0); k < n%7; k++ {
				runtime.Gosched()
			}
		case 3:
			time.Sleep(time.Duration(n%40) * time.Microsecond)
		}
		if f.Files > 0 {
			time.Sleep(300 * time.Microsecond) // let the callers gather on this pull
		}
		inflight[img].Add(-1)
		if f.Errmod > 0 && n%int64(f.Errmod) == 0 {
			return nil, &c20Err{img: img, gen: int(n)}
		}
		files := packagetypes.Files{"id": []byte(ref), "data": []byte{0}}
		for k := 0; k < f.Files; k++ {
			b := make([]byte, f.Fsize)
			for q := range b {
				b[q] = 'o'
			}
			files[fmt.Sprintf("f%04d", k)] = b
		}
		return &packagetypes.RawPackage{Files: files}, nil
	}
	var answered, wrong, aliased atomic.Int64
	var wg sync.WaitGroup
	for c := 0; c < f.Callers; c++ {
		wg.Add(1)
		go func(c int) {
			defer wg.Done()
			rng := rand.New(rand.NewSource(f.Seed*1000 + int64(c)))
			for k := 0; k < f.Rounds; k++ {
				img := rng.Intn(f.Images)
				requests[img].Add(1)
				pkg, err := rm.Pull(context.Background(), c20ImgName(img))
				answered.Add(1)
				var pe *c20Err
				switch {
				case err != nil && pkg == nil && errors.As(err, &pe) && pe.img == img:
				case err == nil && pkg != nil && string(pkg.Files["id"]) == c20ImgName(img):
					// the caller owns what it was handed: it must be as the pull function made it
					// (nobody else's edits in it) and the caller edits all of it, in place, right away
					foreign := false
					if _, other := pkg.Files["m"]; other || len(pkg.Files) != 2+f.Files {
						foreign = true
					}
					for name, b := range pkg.Files {
						switch name {
						case "id", "m":
						case "data":
							if len(b) == 1 {
								b[0]++
								if b[0] != 1 {
									foreign = true
								}
							}
						default:
							for q := range b {
								if b[q] != 'o' {
									foreign = true
								}
								b[q] = 'A' + byte(c)
							}
						}
					}
					pkg.Files["m"] = []byte{byte(c)}
					if foreign {
						aliased.Add(1)
					}
				default:
					wrong.Add(1)
				}
				if rng.Intn(3) == 0 {
					runtime.Gosched()
				}
			}
		}(c)
	}
	done := make(chan struct{})
	go func() { wg.Wait(); close(done) }()
	select {
	case <-done:
	case <-time.After(10 * time.Second):
		c20Timeouts++
		return fmt.Sprintf("TIMEOUT answered=%d of %d", answered.Load(), f.Callers*f.Rounds)
	}
	overlap, le, ge := 0, true, true
	for i := 0; i < f.Images; i++ {
		if maxInflight[i].Load() > 1 {
			overlap++
		}
		if pulls[i].Load() > requests[i].Load() {
			le = false
		}
		if requests[i].Load() > 0 && pulls[i].Load() < 1 {
			ge = false
		}
	}
	return fmt.Sprintf("free answered=%d wrong=%d aliased=%d overlap=%d pulls_le_requests=%v pulls_ge_1=%v",
		answered.Load(), wrong.Load(), aliased.Load(), overlap, le, ge)
}

func TestVerifC20Race(t *testing.T) {
	r := verifkit.Open(t, "C20")
	defer r.Close()
	run := func(s c20Scn) {
		if c20Timeouts >= c20Fuse { // callers of earlier scenarios hang: do not pile up more
			if r.ReplayOnly() {
				r.Emit(s, "SKIPPED earlier scenarios of this run timed out")
			}
			return
		}
		out := verifkit.Guard(func() string { return c20FreeExec(*s.Free) })
		r.Emit(s, out, fmt.Sprintf("callers=%d", s.Free.Callers), fmt.Sprintf("images=%d", s.Free.Images))
	}
	for _, line := range r.Fixed() {
		var s c20Scn
		if err := json.Unmarshal([]byte(line), &s); err != nil {
			t.Fatalf("bad scenario %q: %v", line, err)
		}
		if s.Free == nil {
			continue
		}
		run(s)
	}
	if r.ReplayOnly() {
		return
	}
	n := r.Pick(40, 300)
	for k := 0; k < n; k++ {
		f := &c20FreeCfg{
			Callers: 2 + r.Rng.Intn(15), Images: 1 + r.Rng.Intn(3), Rounds: 20 + r.Rng.Intn(300),
			Seed: r.Rng.Int63n(1 << 30), Errmod: r.Rng.Intn(5),
		}
		run(c20Scn{Free: f})
	}
}

// Stream "storm": the hook-free way to open the window inside the broadcast.  Many callers wait
// for the same big package, so the broadcast (one deep copy per receiver) takes long; every
// caller edits all of its package the moment it is answered and asks again right away - while
// the broadcast to the others is still going on.  A request lost in that window never returns
// (watchdog: TIMEOUT), a package copied from an object its owner is already editing shows the
// edits (aliased), and under -race (thorough tier) the unsynchronised accesses are reported.
func TestVerifC20Storm(t *testing.T) {
	r := verifkit.Open(t, "C20")
	defer r.Close()
	run := func(s c20Scn) {
		if c20Timeouts >= 1 { // callers of an earlier scenario hang and hold on to their packages
			if r.ReplayOnly() {
				r.Emit(s, "SKIPPED earlier scenarios of this run timed out")
			}
			return
		}
		out := verifkit.Guard(func() string { return c20FreeExec(*s.Free) })
		r.Emit(s, out, fmt.Sprintf("callers=%d", s.Free.Callers), fmt.Sprintf("images=%d", s.Free.Images),
			fmt.Sprintf("pkgKiB=%d", s.Free.Files*s.Free.Fsize/1024/512*512))
	}
	for _, line := range r.Fixed() {
		var s c20Scn
		if err := json.Unmarshal([]byte(line), &s); err != nil {
			t.Fatalf("bad scenario %q: %v", line, err)
		}
		if s.Free == nil {
			continue
		}
		run(s)
	}
	if r.ReplayOnly() {
		return
	}
	n := r.Pick(3, 10)
	for k := 0; k < n; k++ {
		f := &c20FreeCfg{
			Callers: 5 + r.Rng.Intn(6), Images: 1 + k%2, Rounds: 6 + r.Rng.Intn(6),
			Seed: r.Rng.Int63n(1 << 30), Errmod: []int{0, 0, 7}[r.Rng.Intn(3)],
			Files: 600 + r.Rng.Intn(900), Fsize: 4096,
		}
		run(c20Scn{Free: f})
	}
}
