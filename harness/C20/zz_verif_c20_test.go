package packageimport

// Correspondence harness for property C20 (de-duplicated concurrent image pulls).
// Injected by `go test -overlay`; drives the REAL RequestManager (Pull -> handleRequest ->
// goroutine -> pullImage -> handleResponse) with a scripted pull function that blocks on
// per-invocation channels, so that a scenario
//
//	req <caller> <image> | done <image> ok|err
//
// executes on the real goroutines in exactly the scenario order:
//   - after `req` the harness waits until the real code has registered the receiver (it polls
//     RequestManager.inFlight under inFlightLock; in-package access), until the scripted pull
//     function has been entered if no pull was in flight before, and until no goroutine is "in
//     transit" (runtime.NumGoroutine() == baseline + callers still blocked in Pull + pull
//     functions blocked in the script) - the last condition also catches a pull goroutine that
//     was started although one was already in flight;
//   - after `done` it waits until every caller that was waiting for that image has returned
//     from Pull and the pull goroutine (handleResponse) has ended.
//   - the last caller (c2) is a SLOW receiver: it registers through the real handleRequest (what
//     Pull does after the image-name overrides, which are empty here) but picks its response up
//     only after the broadcast has finished - the schedule in which a caller is descheduled
//     between registering and receiving.  The broadcast must not wait for it (buffer of one).
//   - every request passes its own cancellable context to the real Pull(ctx, image); the step
//     `cancel <caller>` cancels the context of the Pull the caller is blocked in (record `x`; `y`
//     if the caller is idle) and gives the caller a bounded time to react.  The code that exists
//     does not look at the context while it waits: nothing happens.  A caller that does return
//     the context's error is reported (`cN:err:ctx`) and stays busy for the scenario until the
//     pull it asked for completes.
//   - the scenario field `n` (default 2, at most 16) is the number of images scripted: scenarios
//     with many distinct images whose pulls are in flight at the same time.
// Every wait has a deadline: a lost wake-up or deadlock yields `TIMEOUT ... inflight=<images with
// a pull in flight>` in the output; the harness itself never blocks on inFlightLock (TryLock with
// a deadline), so a goroutine stuck inside a critical section cannot hang the test.
//
// Stream "park" (TestVerifC20Park) adds the step
//
//	park <image> ok|err k mid=[<caller> <image> ...]
//
// which makes the window INSIDE handleResponse observable on the real goroutines without any hook
// in the code under test: before the pull is released the harness inserts two unbuffered "gate"
// receivers into the image's entry after the first k registered receivers.  The real broadcast
// loop then serves k callers and blocks sending to the second gate - exactly the state of a
// broadcaster that is descheduled in the middle of its loop.  While it is parked the requests
// `mid` are issued through the real Pull / handleRequest, then the gate is opened and the harness
// waits until the broadcast has ended and the requests issued meanwhile have gone through.  A
// request that is lost in that window is never answered: `no-fresh-pull` / `end w=1`.  Packages
// handed out before the parking point are edited by their callers while the loop is still
// copying for the others: a copy taken from an object a caller already owns shows the edit.
//
// Aliasing is measured two ways on every scenario: every caller edits what it was handed (in-place
// byte write the moment it gets it, on its own goroutine; map write as soon as no broadcast is in
// progress) and afterwards nobody's package may show anybody else's edit; and the identities (package pointer, Files map, backing array of every
// file) of everything handed out and of the objects the pull function returned must be pairwise
// distinct.
//
// The tests TestVerifC20Race (stream "race", thorough tier, -race) and TestVerifC20Storm (stream
// "storm": big packages, callers that ask again the moment they are answered) let goroutines run
// freely and only print a summary; they are exploration, not part of the proof.

import (
	"context"
	"encoding/json"
	"errors"
	"fmt"
	"math/rand"
	"reflect"
	"runtime"
	"sort"
	"strings"
	"sync"
	"sync/atomic"
	"testing"
	"time"
	"unsafe"

	"github.com/google/go-containerregistry/pkg/crane"
	"k8s.io/apimachinery/pkg/types"
	"sigs.k8s.io/controller-runtime/pkg/client"

	"package-operator.run/internal/packages/internal/packagetypes"
	"package-operator.run/internal/verifkit"
)

const (
	c20Imgs        = 2  // images of a scenario that does not say (`n`)
	c20MaxImgs     = 16 // most images a scenario may script
	c20Callers     = 3
	c20StepTimeout = 2 * time.Second
	c20Fuse        = 2 // after this many TIMEOUT scenarios no further scenario is executed
	c20SlowCaller  = c20Callers - 1
)

type c20Mid struct {
	C int `json:"c"`
	I int `json:"i"`
}

type c20Step struct {
	Op  string   `json:"op"`            // req | done | park | cancel
	C   int      `json:"c"`             // caller (req, cancel)
	I   int      `json:"i"`             // image
	R   string   `json:"r"`             // ok | err (done, park)
	K   int      `json:"k,omitempty"`   // park: number of receivers served before the parking point
	Mid []c20Mid `json:"mid,omitempty"` // park: requests arriving while the broadcast is parked
}

type c20FreeCfg struct {
	Callers int   `json:"callers"`
	Images  int   `json:"images"`
	Rounds  int   `json:"rounds"`
	Seed    int64 `json:"seed"`
	Errmod  int   `json:"errmod"`
	Files   int   `json:"files,omitempty"` // additional files in the pulled package ...
	Fsize   int   `json:"fsize,omitempty"` // ... of this many bytes each
	// Burst > 0: caller c's first request is for image c%images and the first Burst pull functions
	// wait for each other (at most 300ms): a burst of requests for Burst distinct images whose
	// pulls are all in flight at the same time (what a restart with many packages produces).
	Burst int `json:"burst,omitempty"`
	// Cancelmod > 0: about one request in Cancelmod is made with a context that is cancelled
	// while the caller waits.
	Cancelmod int `json:"cancelmod,omitempty"`
}

type c20Scn struct {
	N     int         `json:"n,omitempty"` // number of images scripted (0: c20Imgs)
	Steps []c20Step   `json:"steps,omitempty"`
	Free  *c20FreeCfg `json:"free,omitempty"`
}

// error returned by the scripted pull function: which pull it was.
type c20Err struct{ img, gen int }

func (e *c20Err) Error() string { return fmt.Sprintf("pull i%dg%d failed", e.img, e.gen) }

var errC20Rescue = errors.New("c20: receiver never answered, released by the harness")

func c20ImgName(i int) string { return fmt.Sprintf("img%d", i) }

func c20ImgIdx(ref string) int {
	var i int
	if _, err := fmt.Sscanf(ref, "img%d", &i); err != nil {
		return -1
	}
	return i
}

type c20Pull struct {
	img, gen int
	release  chan string
}

type c20Ret struct {
	pkg *packagetypes.RawPackage
	err error
}

type c20Env struct {
	mu       sync.Mutex
	entered  []int
	released []int
	blocked  [][]*c20Pull
	issued   int // Pull calls started on their own goroutine
	returned int // ... and returned
	rets     map[int]*c20Ret
	retOrder []int
	origins  []*packagetypes.RawPackage // every object the pull function returned
}

// the scripted pull function: announces itself, then blocks until the scenario releases it.
func (e *c20Env) pull(
	_ context.Context, _ client.Client, _ types.NamespacedName, ref string, _ ...crane.Option,
) (*packagetypes.RawPackage, error) {
	img := c20ImgIdx(ref)
	if img < 0 || img >= len(e.entered) {
		return nil, fmt.Errorf("unexpected image %q", ref)
	}
	e.mu.Lock()
	e.entered[img]++
	p := &c20Pull{img: img, gen: e.entered[img], release: make(chan string, 1)}
	e.blocked[img] = append(e.blocked[img], p)
	e.mu.Unlock()
	if <-p.release == "err" {
		return nil, &c20Err{img: p.img, gen: p.gen}
	}
	pkg := &packagetypes.RawPackage{Files: packagetypes.Files{
		"id":   []byte(fmt.Sprintf("i%dg%d", p.img, p.gen)),
		"data": []byte{0},
		// empty files as a registry pull produces them (io.ReadAll: length 0, capacity 512), a zero-capacity
		// one and a nil one: a copy must not share the array of any of them either (append writes into it)
		"empty":      make([]byte, 0, 512),
		"empty-cap0": {},
		"nil":        nil,
	}}
	e.mu.Lock()
	e.origins = append(e.origins, pkg)
	e.mu.Unlock()
	return pkg, nil
}

// c20Scribble is what a caller does to the package it was handed, the moment it gets it (the
// broadcast to the other receivers may still be going on): an in-place byte write.  The map write
// follows as soon as no broadcast is in progress (record): while one is, a map write to an object
// the broadcaster still reads would not be a wrong answer but a fatal runtime error.
func c20Scribble(p *packagetypes.RawPackage) {
	if p == nil || p.Files == nil {
		return
	}
	if d := p.Files["data"]; len(d) > 0 {
		d[0]++
	}
}

// c20Idents: the memory identities of a package: the object, its Files map, every file's array.
func c20Idents(p *packagetypes.RawPackage) []uintptr {
	ids := []uintptr{uintptr(unsafe.Pointer(p))}
	if p.Files != nil {
		ids = append(ids, reflect.ValueOf(p.Files).Pointer())
		for _, b := range p.Files {
			if cap(b) > 0 {
				ids = append(ids, uintptr(unsafe.Pointer(unsafe.SliceData(b))))
			}
		}
	}
	return ids
}

type c20Run struct {
	env  *c20Env
	rm   *RequestManager
	base int
	// harness bookkeeping (test goroutine only)
	nreq      int                     // requests issued so far (request index)
	slow      map[int]<-chan response // outstanding requests of the slow receiver
	seen      int                     // prefix of env.retOrder already reported
	callerOf  map[int]int             // request index -> caller
	imageOf   map[int]int             // request index -> image
	waitingOf map[int]int             // caller -> request index it is blocked on
	got       map[int]*c20Ret         // all returned requests
	probed    []int                   // request indexes (gates: negative) whose package is watched for foreign edits
	recs      []string
	order     [][]int                    // requests registered for the image, in registration order
	nimg      int                        // images scripted in this scenario
	cancelOf  map[int]context.CancelFunc // request index -> cancel function of the context it passed
	cancelled map[int]bool               // requests whose context the scenario has cancelled
	early     map[int]bool               // cancelled requests that returned the context's error before their pull completed
	doneReq   map[int]bool               // requests whose pull has completed (and, in a parked broadcast, whose turn it was)
	extraG    int                        // goroutines the harness knows to be alive besides callers and pulls
	gates     []chan response            // gate receivers of parked broadcasts (cleanup)
	ngate     int
	idOwner   map[uintptr]int // memory identity -> package it was seen in (origins: <= -1000)
	nOrigin   int             // prefix of env.origins already entered in idOwner
	idAliased map[int]bool    // packages sharing memory with another receiver's package
	idOrigin  map[int]bool    // packages sharing memory with an object the pull function returned
	idHolder  map[uintptr]int // part of a pulled object -> first receiver that was handed it
	marked    map[int]bool    // watched packages that carry their owner's map write
	inPark    bool            // a broadcast is parked inside handleResponse
}

// settle waits until cond() holds and no goroutine is in transit.
func (x *c20Run) settle(cond func() bool) bool {
	deadline := time.Now().Add(c20StepTimeout)
	for n := 0; ; n++ {
		ok := cond()
		x.env.mu.Lock()
		want := x.base + (x.env.issued - x.env.returned)
		for i := 0; i < x.nimg; i++ {
			want += x.env.entered[i] - x.env.released[i]
		}
		want += x.extraG
		x.env.mu.Unlock()
		if ok && runtime.NumGoroutine() == want {
			return true
		}
		if n < 300 {
			runtime.Gosched()
			continue
		}
		if time.Now().After(deadline) {
			return false
		}
		time.Sleep(20 * time.Microsecond)
	}
}

func c20ResStr(r *c20Ret) string {
	switch {
	case r.pkg != nil && r.err != nil:
		return "both"
	case r.err != nil:
		var pe *c20Err
		if errors.As(r.err, &pe) {
			return fmt.Sprintf("err:i%dg%d", pe.img, pe.gen)
		}
		if errors.Is(r.err, errC20Rescue) {
			return "stuck"
		}
		if errors.Is(r.err, context.Canceled) {
			return "err:ctx"
		}
		return "err:other"
	case r.pkg == nil:
		return "nil"
	default:
		return "ok:" + verifkit.Esc(string(r.pkg.Files["id"]))
	}
}

// pickup lets the slow receiver take whatever has been sent to it by now.
func (x *c20Run) pickup() {
	for idx, ch := range x.slow {
		select {
		case res := <-ch:
			c20Scribble(res.RawPackage)
			x.env.mu.Lock()
			x.env.rets[idx] = &c20Ret{pkg: res.RawPackage, err: res.Err}
			x.env.retOrder = append(x.env.retOrder, idx)
			x.env.mu.Unlock()
			delete(x.slow, idx)
		default:
		}
	}
}

// watch enters a package that was handed out into the aliasing checks.
func (x *c20Run) watch(idx int, p *packagetypes.RawPackage) {
	if p == nil {
		return
	}
	for _, id := range c20Idents(p) {
		if o, dup := x.idOwner[id]; dup && o != idx {
			if o > -1000 { // memory shared between what two receivers were handed
				x.idAliased[idx], x.idAliased[o] = true, true
			} else { // the receiver was handed (part of) the object the pull function returned
				x.idOrigin[idx] = true
				// ... and two receivers handed the same part of it share memory with each other
				if x.idHolder == nil {
					x.idHolder = map[uintptr]int{}
				}
				if h, ok := x.idHolder[id]; ok && h != idx {
					x.idAliased[idx], x.idAliased[h] = true, true
				} else {
					x.idHolder[id] = idx
				}
			}
		} else {
			x.idOwner[id] = idx
		}
	}
	if p.Files != nil {
		x.probed = append(x.probed, idx)
	}
}

// record reports what happened since the previous record.
func (x *c20Run) record(tag string, suffix ...string) {
	x.pickup()
	x.env.mu.Lock()
	fresh := append([]int(nil), x.env.retOrder[x.seen:]...)
	x.seen = len(x.env.retOrder)
	for _, idx := range fresh {
		x.got[idx] = x.env.rets[idx]
	}
	entered, released := append([]int(nil), x.env.entered...), append([]int(nil), x.env.released...)
	origins := x.env.origins[x.nOrigin:]
	x.nOrigin = len(x.env.origins)
	x.env.mu.Unlock()
	for k, o := range origins {
		for _, id := range c20Idents(o) {
			x.idOwner[id] = -1000 - (x.nOrigin - len(origins) + k)
		}
	}

	var rs []string
	sort.Slice(fresh, func(a, b int) bool { return x.callerOf[fresh[a]] < x.callerOf[fresh[b]] })
	for _, idx := range fresh {
		c := x.callerOf[idx]
		res := c20ResStr(x.got[idx])
		if res == "err:ctx" && !x.cancelled[idx] {
			res = "err:other" // a context error nobody asked for
		}
		if res == "err:ctx" && !x.doneReq[idx] {
			// a cancelled caller that gave up early: the scenario keeps it busy until the pull it
			// asked for completes (that is when the code that exists answers it)
			x.early[idx] = true
		} else if x.waitingOf[c] == idx {
			delete(x.waitingOf, c)
		}
		rs = append(rs, fmt.Sprintf("c%d:%s", c, res))
	}
	// aliasing probe: every caller has edited what it was handed the moment it got it (c20Scribble:
	// adds a key, changes a byte in place); the identities of everything handed out are compared
	// with each other (a) and with the objects the pull function returned (o) ...
	for _, idx := range fresh {
		x.watch(idx, x.got[idx].pkg)
	}
	if !x.inPark {
		for _, idx := range x.probed {
			if !x.marked[idx] {
				x.got[idx].pkg.Files[fmt.Sprintf("m%d", idx)] = []byte{1}
				x.marked[idx] = true
			}
		}
	}
	// ... and nobody's package (of this or an earlier broadcast) may show anybody else's edit.
	aliased := 0
	for _, idx := range x.probed {
		f := x.got[idx].pkg.Files
		marks, want := 0, 0
		for k := range f {
			if strings.HasPrefix(k, "m") {
				marks++
			}
		}
		_, own := f[fmt.Sprintf("m%d", idx)]
		if x.marked[idx] {
			want = 1
		}
		if marks != want || own != x.marked[idx] || len(f["data"]) != 1 || f["data"][0] != 1 || x.idAliased[idx] {
			aliased++
		}
	}
	r := "-"
	if len(rs) > 0 {
		r = strings.Join(rs, ",")
	}
	var p, f []string
	for i := 0; i < x.nimg; i++ {
		p = append(p, fmt.Sprint(entered[i]))
		f = append(f, fmt.Sprint(entered[i]-released[i]))
	}
	// a = packages that show somebody else's edit or share memory with another receiver's package;
	// o = packages that are not copies: (part of) the very object the pull function returned
	x.recs = append(x.recs, fmt.Sprintf("%s p=%s f=%s r=%s a=%d o=%d%s", tag, strings.Join(p, ","), strings.Join(f, ","), r, aliased,
		len(x.idOrigin), strings.Join(suffix, "")))
}

// launch: caller c calls the real Pull for image i on its own goroutine and edits what it gets
// the moment it gets it (the slow receiver: the real handleRequest on its own goroutine; the
// channel it returns is delivered on `got`).  Does not wait for anything.
func (x *c20Run) launch(c, i int) (idx int, got chan (<-chan response)) {
	img := c20ImgName(i)
	idx = x.nreq
	x.nreq++
	x.callerOf[idx], x.imageOf[idx], x.waitingOf[c] = c, i, idx
	// every request brings its own context (op `cancel` cancels it)
	ctx, cancel := context.WithCancel(context.Background())
	x.cancelOf[idx] = cancel
	if c == c20SlowCaller {
		got = make(chan (<-chan response), 1)
		x.extraG++
		go func() { got <- x.rm.handleRequest(ctx, img) }()
		return idx, got
	}
	x.env.mu.Lock()
	x.env.issued++
	x.env.mu.Unlock()
	go func() {
		pkg, err := x.rm.Pull(ctx, img)
		c20Scribble(pkg)
		x.env.mu.Lock()
		x.env.rets[idx] = &c20Ret{pkg: pkg, err: err}
		x.env.retOrder = append(x.env.retOrder, idx)
		x.env.returned++
		x.env.mu.Unlock()
	}()
	return idx, nil
}

// request: caller c calls the real Pull for image i on its own goroutine (the slow receiver:
// the real handleRequest, keeping the channel for later).
func (x *c20Run) request(c, i int) bool {
	img := c20ImgName(i)
	if !x.lockWait() {
		return false
	}
	n0 := len(x.rm.inFlight[img])
	_, had := x.rm.inFlight[img]
	x.rm.inFlightLock.Unlock()
	x.env.mu.Lock()
	e0 := x.env.entered[i]
	x.env.mu.Unlock()
	idx, got := x.launch(c, i)
	if got != nil {
		select {
		case ch := <-got:
			x.slow[idx] = ch
			x.extraG--
		case <-time.After(c20StepTimeout):
			return false
		}
	}
	x.order[i] = append(x.order[i], idx)
	return x.settle(func() bool {
		// never wait for the lock: a request stuck inside handleRequest keeps it (the harness
		// must time out then, not hang)
		if !x.rm.inFlightLock.TryLock() {
			return false
		}
		n := len(x.rm.inFlight[img])
		x.rm.inFlightLock.Unlock()
		if n != n0+1 { // receiver registered
			return false
		}
		if !had { // nothing was in flight: the pull function must have been entered
			x.env.mu.Lock()
			e := x.env.entered[i]
			x.env.mu.Unlock()
			return e > e0
		}
		return true
	})
}

// complete releases the oldest blocked pull of image i; false,false = none blocked.
func (x *c20Run) complete(i int, res string) (happened, ok bool) {
	x.env.mu.Lock()
	if len(x.env.blocked[i]) == 0 {
		x.env.mu.Unlock()
		return false, true
	}
	p := x.env.blocked[i][0]
	x.env.blocked[i] = x.env.blocked[i][1:]
	x.env.released[i]++
	x.env.mu.Unlock()
	var waiters []int
	for _, idx := range x.waitingOf {
		if x.imageOf[idx] == i {
			waiters = append(waiters, idx)
		}
	}
	x.order[i] = nil
	x.retire(waiters)
	p.release <- res
	return true, x.settle(func() bool {
		x.env.mu.Lock()
		defer x.env.mu.Unlock()
		for _, idx := range waiters {
			if _, slow := x.slow[idx]; !slow && x.env.rets[idx] == nil {
				return false
			}
		}
		return true
	})
}

// retire: the pull these requests wait for completes (in a parked broadcast: it is their turn) -
// that is when the code that exists answers them, so callers that gave up early (cancelled
// context) are free again from here on.
func (x *c20Run) retire(idxs []int) {
	for _, idx := range idxs {
		x.doneReq[idx] = true
		if x.early[idx] {
			if c := x.callerOf[idx]; x.waitingOf[c] == idx {
				delete(x.waitingOf, c)
			}
			delete(x.early, idx)
		}
	}
}

// lockWait takes inFlightLock, giving up at the step deadline (false) instead of hanging with a
// goroutine that is stuck inside the critical section.
func (x *c20Run) lockWait() bool {
	deadline := time.Now().Add(c20StepTimeout)
	for n := 0; ; n++ {
		if x.rm.inFlightLock.TryLock() {
			return true
		}
		if n < 300 {
			runtime.Gosched()
			continue
		}
		if time.Now().After(deadline) {
			return false
		}
		time.Sleep(20 * time.Microsecond)
	}
}

// cancelCtx cancels the context of request idx and gives the caller the chance to react: a Pull
// that selects on ctx.Done() returns within microseconds; one that does not (the code that
// exists) never does, the wait is bounded.
func (x *c20Run) cancelCtx(idx int) bool {
	x.cancelled[idx] = true
	x.cancelOf[idx]()
	deadline := time.Now().Add(150 * time.Microsecond)
	for n := 0; ; n++ {
		x.env.mu.Lock()
		done := x.env.rets[idx] != nil
		x.env.mu.Unlock()
		if done || (n >= 50 && n%10 == 0 && time.Now().After(deadline)) {
			break
		}
		runtime.Gosched()
	}
	return x.settle(func() bool { return true })
}

// tryLock: is inFlightLock free?  (true: the harness holds it now.)  A broadcaster that holds the
// lock holds it for the whole time it is parked, so a single success proves it does not.
func (x *c20Run) tryLock() bool {
	for n := 0; n < 40; n++ {
		if x.rm.inFlightLock.TryLock() {
			return true
		}
		runtime.Gosched()
	}
	return false
}

// park: the pull in flight for image i returns res; the real handleResponse is parked after its
// first k sends, the requests mid arrive, the broadcast is resumed.  happened=false: no pull in
// flight; fail != "": a deadline passed.
func (x *c20Run) park(i int, res string, k int, mid []c20Mid) (happened bool, fail string) {
	img := c20ImgName(i)
	x.env.mu.Lock()
	if len(x.env.blocked[i]) == 0 {
		x.env.mu.Unlock()
		return false, ""
	}
	p := x.env.blocked[i][0]
	x.env.blocked[i] = x.env.blocked[i][1:]
	x.env.released[i]++
	x.env.mu.Unlock()

	// two unbuffered gate receivers after the first k registered receivers: once the harness has
	// received from the first one, the broadcaster is inside its loop, has served exactly the
	// receivers before the gates and cannot get past the second one.
	gateA, gateB := make(chan response), make(chan response)
	x.gates = append(x.gates, gateA, gateB)
	if !x.lockWait() {
		return true, "lock-not-free-before-the-broadcast"
	}
	recvs := x.rm.inFlight[img]
	kk := k
	if kk > len(recvs) {
		kk = len(recvs)
	}
	neu := make([]chan<- response, 0, len(recvs)+2)
	neu = append(neu, recvs[:kk]...)
	neu = append(neu, gateA, gateB)
	neu = append(neu, recvs[kk:]...)
	x.rm.inFlight[img] = neu
	x.rm.inFlightLock.Unlock()
	order := x.order[i]
	if kk > len(order) {
		kk = len(order)
	}
	first, rest := order[:kk], order[kk:]
	answered := func(idxs []int) func() bool {
		return func() bool {
			x.env.mu.Lock()
			defer x.env.mu.Unlock()
			for _, idx := range idxs {
				if _, slow := x.slow[idx]; !slow && x.env.rets[idx] == nil {
					return false
				}
			}
			return true
		}
	}
	gate := func(g chan response) bool {
		select {
		case r := <-g:
			x.ngate++
			x.got[-x.ngate] = &c20Ret{pkg: r.RawPackage, err: r.Err}
			return true
		case <-time.After(c20StepTimeout):
			return false
		}
	}

	x.extraG++ // the broadcaster: its pull function has returned, handleResponse is running
	x.inPark = true
	defer func() { x.inPark = false }()
	p.release <- res
	if !gate(gateA) {
		return true, "broadcast-did-not-reach-the-parking-point"
	}
	x.retire(first)
	if !x.settle(answered(first)) {
		return true, "receivers-before-the-parking-point-not-answered"
	}
	held := 1
	if x.tryLock() {
		held = 0
		x.rm.inFlightLock.Unlock()
	}
	// what the gate was handed is a package like any other
	c20Scribble(x.got[-x.ngate].pkg)
	x.watch(-x.ngate, x.got[-x.ngate].pkg)
	x.record("P", fmt.Sprintf(" l=%d", held))

	// requests arriving while the broadcast is parked
	x.env.mu.Lock()
	e0 := append([]int(nil), x.env.entered...)
	x.env.mu.Unlock()
	type pend struct {
		idx, img int
		got      chan (<-chan response)
	}
	var pending []pend
	// the slow receiver's handleRequest returns its channel once it got through
	collect := func() {
		for n := range pending {
			if pending[n].got == nil {
				continue
			}
			select {
			case ch := <-pending[n].got:
				x.slow[pending[n].idx] = ch
				x.extraG--
				pending[n].got = nil
			default:
			}
		}
	}
	pendC, pendI := map[int]bool{}, map[int]bool{}
	for _, m := range mid {
		if _, busy := x.waitingOf[m.C]; busy || pendC[m.C] || pendI[m.I] {
			x.record("b")
			continue
		}
		pendC[m.C], pendI[m.I] = true, true
		free, n0 := x.tryLock(), 0
		if free {
			n0 = len(x.rm.inFlight[c20ImgName(m.I)])
			x.rm.inFlightLock.Unlock()
		}
		idx, got := x.launch(m.C, m.I)
		pending = append(pending, pend{idx, m.I, got})
		held = 1
		if free {
			// the lock is not held: the request is not blocked, let it get as far as it gets
			held = 0
			if !x.settle(func() bool {
				collect()
				if got != nil && pending[len(pending)-1].got != nil {
					return false
				}
				if !x.rm.inFlightLock.TryLock() {
					return false
				}
				defer x.rm.inFlightLock.Unlock()
				return len(x.rm.inFlight[c20ImgName(m.I)]) == n0+1
			}) {
				c20Timeouts++ // neither blocked nor registered: do not pile up such waits
			}
		}
		x.record("w", fmt.Sprintf(" l=%d", held))
	}

	// resume
	if !gate(gateB) {
		return true, "parked-broadcast-did-not-resume"
	}
	c20Scribble(x.got[-x.ngate].pkg)
	x.watch(-x.ngate, x.got[-x.ngate].pkg)
	x.extraG--
	x.retire(rest)
	wantLen, wantEntered := make([]int, x.nimg), make([]int, x.nimg)
	for j := 0; j < x.nimg; j++ {
		if j != i {
			wantLen[j] = len(x.order[j])
		}
		wantEntered[j] = e0[j]
	}
	for _, pd := range pending {
		if wantLen[pd.img] == 0 {
			wantEntered[pd.img]++
		}
		wantLen[pd.img]++
	}
	if !x.settle(func() bool { collect(); return answered(rest)() }) {
		return true, "receivers-after-the-parking-point-not-answered"
	}
	served := x.settle(func() bool {
		collect()
		for _, pd := range pending {
			if pd.got != nil { // handleRequest of the slow receiver has not returned yet
				return false
			}
		}
		if !x.rm.inFlightLock.TryLock() {
			return false
		}
		defer x.rm.inFlightLock.Unlock()
		x.env.mu.Lock()
		defer x.env.mu.Unlock()
		for j := 0; j < x.nimg; j++ {
			if len(x.rm.inFlight[c20ImgName(j)]) != wantLen[j] || x.env.entered[j] < wantEntered[j] {
				return false
			}
		}
		return true
	})
	if !served {
		// a request issued during the broadcast did not get through after it (not registered for
		// the next pull, or no pull started for it): say what is there, the monitor names it.
		c20Timeouts++
	}
	x.order[i] = nil
	for _, pd := range pending {
		x.order[pd.img] = append(x.order[pd.img], pd.idx)
	}
	x.inPark = false
	x.record("U")
	return true, ""
}

// cleanup lets every goroutine that can still end do so (only matters for misbehaving code).
func (x *c20Run) cleanup() {
	for _, g := range x.gates { // a broadcaster still parked at a gate
		select {
		case <-g:
		case <-time.After(20 * time.Millisecond):
		}
	}
	for _, ch := range x.slow { // unblock a broadcast that waits for the slow receiver
		select {
		case <-ch:
		case <-time.After(20 * time.Millisecond):
		}
	}
	x.env.mu.Lock()
	for i := 0; i < x.nimg; i++ {
		for _, p := range x.env.blocked[i] {
			x.env.released[i]++
			p.release <- "ok"
		}
		x.env.blocked[i] = nil
	}
	x.env.mu.Unlock()
	done := make(chan struct{})
	go func() {
		defer close(done)
		x.rm.inFlightLock.Lock()
		defer x.rm.inFlightLock.Unlock()
		for img, recvs := range x.rm.inFlight {
			for _, recv := range recvs {
				select {
				case recv <- response{Err: errC20Rescue}:
				default:
				}
			}
			delete(x.rm.inFlight, img)
		}
	}()
	select {
	case <-done:
	case <-time.After(200 * time.Millisecond):
	}
	time.Sleep(5 * time.Millisecond)
}

var c20Timeouts int

func c20Exec(s c20Scn) string {
	nimg := s.N
	if nimg == 0 {
		nimg = c20Imgs
	}
	if nimg < 0 || nimg > c20MaxImgs {
		return "BAD-SCN"
	}
	env := &c20Env{rets: map[int]*c20Ret{}, entered: make([]int, nimg), released: make([]int, nimg),
		blocked: make([][]*c20Pull, nimg)}
	rm := NewRequestManager(nil, nil, nil, types.NamespacedName{})
	rm.pullImage = env.pull
	x := &c20Run{env: env, rm: rm, base: runtime.NumGoroutine(), nimg: nimg, order: make([][]int, nimg),
		cancelOf: map[int]context.CancelFunc{}, cancelled: map[int]bool{}, early: map[int]bool{}, doneReq: map[int]bool{},
		callerOf: map[int]int{}, imageOf: map[int]int{}, waitingOf: map[int]int{}, got: map[int]*c20Ret{},
		slow: map[int]<-chan response{}, idOwner: map[uintptr]int{}, idAliased: map[int]bool{}, idOrigin: map[int]bool{}, marked: map[int]bool{}}
	defer func() {
		for _, cancel := range x.cancelOf {
			cancel()
		}
	}()
	timeout := func(k int, what string) string {
		c20Timeouts++
		env.mu.Lock()
		inflight := 0
		for i := 0; i < nimg; i++ {
			if env.entered[i] > env.released[i] { // pull functions that have not been told to return
				inflight++
			}
		}
		env.mu.Unlock()
		x.recs = append(x.recs, fmt.Sprintf("TIMEOUT step=%d %s inflight=%d", k, what, inflight))
		x.cleanup()
		return strings.Join(x.recs, ";")
	}
	for k, st := range s.Steps {
		if st.I < 0 || st.I >= nimg || st.C < 0 {
			x.recs = append(x.recs, "BAD-OP")
			continue
		}
		switch st.Op {
		case "cancel":
			idx, busy := x.waitingOf[st.C]
			if !busy {
				x.record("y")
				continue
			}
			if !x.cancelCtx(idx) {
				return timeout(k, "goroutines-in-transit-after-cancel")
			}
			x.record("x")
		case "req":
			if _, busy := x.waitingOf[st.C]; busy {
				x.record("b")
				continue
			}
			if !x.request(st.C, st.I) {
				return timeout(k, "request-not-registered-or-pull-not-started")
			}
			x.record("q")
		case "done":
			happened, ok := x.complete(st.I, st.R)
			if !ok {
				return timeout(k, "broadcast-not-finished-or-waiting-caller-not-answered")
			}
			if happened {
				x.record("d")
			} else {
				x.record("n")
			}
		case "park":
			bad := st.K < 0
			for _, m := range st.Mid {
				if m.I < 0 || m.I >= nimg || m.C < 0 {
					bad = true
				}
			}
			if bad {
				x.recs = append(x.recs, "BAD-OP")
				continue
			}
			happened, fail := x.park(st.I, st.R, st.K, st.Mid)
			if fail != "" {
				return timeout(k, fail)
			}
			if !happened {
				x.record("n")
			}
		default:
			x.recs = append(x.recs, "BAD-OP")
		}
	}
	// drain: complete whatever is still in flight, in image order
	for i := 0; i < nimg; i++ {
		for {
			happened, ok := x.complete(i, "ok")
			if !ok {
				return timeout(len(s.Steps), "drain-broadcast-not-finished-or-waiting-caller-not-answered")
			}
			if !happened {
				break
			}
			x.record("D")
		}
	}
	w := len(x.waitingOf)
	x.recs = append(x.recs, fmt.Sprintf("end w=%d", w))
	if w > 0 {
		c20Timeouts++ // callers that will never be answered: treat like a timeout for the fuse
		x.cleanup()
	}
	return strings.Join(x.recs, ";")
}

func c20Tags(s c20Scn, out string) []string {
	tags := []string{fmt.Sprintf("len=%d", len(s.Steps))}
	add := func(t string) {
		for _, u := range tags {
			if u == t {
				return
			}
		}
		tags = append(tags, t)
	}
	reqs := 0
	for _, rec := range strings.Split(out, ";") {
		switch {
		case strings.HasPrefix(rec, "q "):
			reqs++
			add("req")
		case strings.HasPrefix(rec, "b "):
			add("req-busy-caller")
		case strings.HasPrefix(rec, "n "):
			add("done-not-enabled")
		case strings.HasPrefix(rec, "d "), strings.HasPrefix(rec, "D "):
			if strings.HasPrefix(rec, "D ") {
				add("drain")
			} else {
				add("done")
			}
			switch n := strings.Count(rec, ":ok:") + strings.Count(rec, ":err:"); {
			case n >= 3:
				add("broadcast=3")
			case n == 2:
				add("broadcast=2")
			case n == 1:
				add("broadcast=1")
			}
			if strings.Contains(rec, ":err:") {
				add("result=err")
			} else {
				add("result=ok")
			}
		case strings.HasPrefix(rec, "P "):
			add("park")
			switch n := strings.Count(rec, ":ok:") + strings.Count(rec, ":err:"); {
			case n == 0:
				add("park-before-first-send")
			default:
				add("park-after-some-sends")
			}
		case strings.HasPrefix(rec, "w "):
			add("request-during-broadcast")
		case strings.HasPrefix(rec, "U "):
			if strings.Count(rec, ":ok:")+strings.Count(rec, ":err:") == 0 {
				add("park-after-last-send")
			}
		case strings.HasPrefix(rec, "TIMEOUT"):
			add("TIMEOUT")
		case rec == "BAD-OP":
			add("malformed-step")
		}
	}
	if strings.Contains(out, "g2") || strings.Contains(out, "g3") {
		add("late-request-fresh-pull")
	}
	maxFlight, cancelled := 0, false
	for _, rec := range strings.Split(out, ";") {
		if strings.HasPrefix(rec, "x ") {
			add("cancel-waiting-caller")
			cancelled = true
		} else if strings.HasPrefix(rec, "y ") {
			add("cancel-idle-caller")
		} else if cancelled && strings.HasPrefix(rec, "q ") {
			add("request-after-cancel")
		}
		if k := strings.Index(rec, " f="); k >= 0 {
			f := rec[k+3:]
			if e := strings.IndexByte(f, ' '); e >= 0 {
				f = f[:e]
			}
			if n := strings.Count(f, "1"); n > maxFlight {
				maxFlight = n
			}
		}
	}
	switch {
	case maxFlight >= 8:
		add("images-in-flight>=8")
	case maxFlight >= 5:
		add("images-in-flight=5..7")
	case maxFlight >= 3:
		add("images-in-flight=3..4")
	case maxFlight == 2:
		add("two-images-in-flight")
	}
	if s.N > c20Imgs {
		add("many-images-scenario")
	}
	if out == "BAD-SCN" {
		add("malformed-scenario")
	}
	if reqs == 0 {
		add("trivial")
	}
	return tags
}

func TestVerifC20(t *testing.T) {
	r := verifkit.Open(t, "C20")
	defer r.Close()
	// run executes one scenario; false = the fuse has blown, stop generating.
	run := func(s c20Scn) bool {
		if c20Timeouts >= c20Fuse {
			if r.ReplayOnly() {
				r.Emit(s, "SKIPPED earlier scenarios of this run timed out")
			}
			return false
		}
		out := verifkit.Guard(func() string { return c20Exec(s) })
		r.Emit(s, out, c20Tags(s, out)...)
		return true
	}
	for _, line := range r.Fixed() {
		var s c20Scn
		if err := json.Unmarshal([]byte(line), &s); err != nil {
			t.Fatalf("bad scenario %q: %v", line, err)
		}
		if s.Free != nil {
			continue
		}
		run(s)
	}
	if r.ReplayOnly() {
		return
	}
	var alpha []c20Step
	for c := 0; c < c20Callers; c++ {
		for i := 0; i < c20Imgs; i++ {
			alpha = append(alpha, c20Step{Op: "req", C: c, I: i})
		}
	}
	for i := 0; i < c20Imgs; i++ {
		alpha = append(alpha, c20Step{Op: "done", I: i, R: "ok"}, c20Step{Op: "done", I: i, R: "err"})
	}
	// ... plus the cancellation of each caller's context
	alphaC := append([]c20Step(nil), alpha...)
	for c := 0; c < c20Callers; c++ {
		alphaC = append(alphaC, c20Step{Op: "cancel", C: c})
	}
	alive := true
	t0 := time.Now()
	lap := func(name string) {
		r.Extra["ms_"+name] = time.Since(t0).Milliseconds()
		t0 = time.Now()
	}
	// (1) every sequence over the full alphabet (including disabled steps and cancellations) up to
	// length 3
	count1 := 0
	var all func(prefix []c20Step, depth int)
	all = func(prefix []c20Step, depth int) {
		if !alive {
			return
		}
		if len(prefix) > 0 {
			alive = run(c20Scn{Steps: append([]c20Step(nil), prefix...)})
			count1++
		}
		if depth == 3 {
			return
		}
		for _, a := range alphaC {
			all(append(prefix, a), depth+1)
		}
	}
	all(nil, 0)
	lap("full_alphabet")
	// (2) every sequence of ENABLED steps (a caller requests only while idle, a pull completes
	// only while in flight) of length 4..L; disabled steps are no-ops, covered by (1) and (3).
	L := r.Pick(7, 8)
	count2 := 0
	var en func(prefix []c20Step, wait [c20Callers]int)
	en = func(prefix []c20Step, wait [c20Callers]int) {
		if !alive {
			return
		}
		if len(prefix) > 3 {
			alive = run(c20Scn{Steps: append([]c20Step(nil), prefix...)})
			count2++
		}
		if len(prefix) == L {
			return
		}
		for _, a := range alpha {
			w := wait
			if a.Op == "req" {
				if w[a.C] >= 0 {
					continue
				}
				w[a.C] = a.I
			} else {
				inflight := false
				for c := range w {
					if w[c] == a.I {
						inflight = true
						w[c] = -1
					}
				}
				if !inflight {
					continue
				}
			}
			en(append(prefix, a), w)
		}
	}
	en(nil, [c20Callers]int{-1, -1, -1})
	lap("enabled")
	// (2c) every sequence of enabled steps of length 4..Lc in which at least one caller's context is
	// cancelled while it waits (a context is cancelled once; cancelling an idle caller's is in (1)/(3))
	Lc := r.Pick(5, 6)
	count2c := 0
	var enc func(prefix []c20Step, wait [c20Callers]int, canc [c20Callers]bool, ncanc int)
	enc = func(prefix []c20Step, wait [c20Callers]int, canc [c20Callers]bool, ncanc int) {
		if !alive {
			return
		}
		if len(prefix) > 3 && ncanc > 0 {
			alive = run(c20Scn{Steps: append([]c20Step(nil), prefix...)})
			count2c++
		}
		if len(prefix) == Lc {
			return
		}
		for _, a := range alphaC {
			w, cc, nc := wait, canc, ncanc
			switch a.Op {
			case "req":
				if w[a.C] >= 0 {
					continue
				}
				w[a.C] = a.I
			case "cancel":
				if w[a.C] < 0 || cc[a.C] {
					continue
				}
				cc[a.C] = true
				nc++
			default:
				inflight := false
				for c := range w {
					if w[c] == a.I {
						inflight = true
						w[c], cc[c] = -1, false
					}
				}
				if !inflight {
					continue
				}
			}
			enc(append(prefix, a), w, cc, nc)
		}
	}
	enc(nil, [c20Callers]int{-1, -1, -1}, [c20Callers]bool{}, 0)
	lap("enabled_cancel")
	r.Extra["exhaustive_cancel_len"] = Lc
	r.Extra["exhaustive_cancel_count"] = count2c
	r.Extra["alphabet"] = len(alphaC)
	r.Extra["exhaustive_full_alphabet_len"] = 3
	r.Extra["exhaustive_full_alphabet_count"] = count1
	r.Extra["exhaustive_enabled_len"] = L
	r.Extra["exhaustive_enabled_count"] = count2
	// (3) random longer sequences (disabled steps included)
	n := r.Pick(3000, 30000)
	for k := 0; k < n && alive; k++ {
		l := 8 + r.Rng.Intn(33)
		var s c20Scn
		for j := 0; j < l; j++ {
			if x := r.Rng.Intn(20); x < 11 {
				s.Steps = append(s.Steps, c20Step{Op: "req", C: r.Rng.Intn(c20Callers), I: r.Rng.Intn(c20Imgs)})
			} else if x < 13 {
				s.Steps = append(s.Steps, c20Step{Op: "cancel", C: r.Rng.Intn(c20Callers)})
			} else {
				res := "ok"
				if r.Rng.Intn(3) == 0 {
					res = "err"
				}
				s.Steps = append(s.Steps, c20Step{Op: "done", I: r.Rng.Intn(c20Imgs), R: res})
			}
		}
		if k%50 == 0 { // malformed: unknown op / image the harness does not script
			j := r.Rng.Intn(len(s.Steps))
			if r.Rng.Intn(2) == 0 {
				s.Steps[j].Op = "abort"
			} else {
				s.Steps[j].I = c20Imgs + r.Rng.Intn(3)
			}
		}
		alive = run(s)
	}
	r.Extra["random_count"] = n
	lap("random")
	// (4) MANY distinct images with a pull in flight at the same time (3..10; the streams above
	// never have more than two).
	// (4a) bursts: N callers ask for N distinct images - the request for image k arrives while
	// k pulls are in flight -, one more caller joins one of the pulls, the pulls complete in
	// forward / reverse / rotated order (every third one with an error), late requests start
	// fresh pulls while the others are still in flight.
	count4 := 0
	for N := 3; N <= 10 && alive; N++ {
		for _, join := range []int{0, N - 1} {
			for ord := 0; ord < 3 && alive; ord++ {
				s := c20Scn{N: N}
				for j := 0; j < N; j++ {
					s.Steps = append(s.Steps, c20Step{Op: "req", C: j, I: j})
				}
				s.Steps = append(s.Steps, c20Step{Op: "req", C: N, I: join})
				for q := 0; q < N; q++ {
					i := q
					switch ord {
					case 1:
						i = N - 1 - q
					case 2:
						i = (q + N/2) % N
					}
					res := "ok"
					if i%3 == 1 {
						res = "err"
					}
					s.Steps = append(s.Steps, c20Step{Op: "done", I: i, R: res})
					if q == 0 || q == N/2 { // a late request for the image just answered
						s.Steps = append(s.Steps, c20Step{Op: "req", C: i, I: i})
					}
				}
				alive = run(s)
				count4++
			}
		}
	}
	// (4b) random sequences over 3..10 images and as many callers + 2, requests outweighing
	// completions so that the number of images in flight climbs as far as the callers allow;
	// cancellations mixed in
	n4 := r.Pick(1500, 12000)
	for k := 0; k < n4 && alive; k++ {
		N := 3 + r.Rng.Intn(8)
		callers := N + 2
		l := 10 + r.Rng.Intn(50)
		s := c20Scn{N: N}
		for j := 0; j < l; j++ {
			switch x := r.Rng.Intn(20); {
			case x < 12:
				s.Steps = append(s.Steps, c20Step{Op: "req", C: r.Rng.Intn(callers), I: r.Rng.Intn(N)})
			case x < 14:
				s.Steps = append(s.Steps, c20Step{Op: "cancel", C: r.Rng.Intn(callers)})
			default:
				res := "ok"
				if r.Rng.Intn(3) == 0 {
					res = "err"
				}
				s.Steps = append(s.Steps, c20Step{Op: "done", I: r.Rng.Intn(N), R: res})
			}
		}
		if k%100 == 0 { // malformed: more images than the harness scripts / an image beyond `n`
			if r.Rng.Intn(2) == 0 {
				s.N = c20MaxImgs + 1 + r.Rng.Intn(3)
			} else {
				s.Steps[r.Rng.Intn(len(s.Steps))].I = N + r.Rng.Intn(3)
			}
		}
		alive = run(s)
		count4++
	}
	r.Extra["many_images_count"] = count4
	lap("many_images")
	r.Extra["timeouts"] = c20Timeouts
}

// ---------------------------------------------------------------------------------------------
// stream "park": broadcasts observed from the inside

func TestVerifC20Park(t *testing.T) {
	r := verifkit.Open(t, "C20")
	defer r.Close()
	run := func(s c20Scn) bool {
		if c20Timeouts >= c20Fuse {
			if r.ReplayOnly() {
				r.Emit(s, "SKIPPED earlier scenarios of this run timed out")
			}
			return false
		}
		out := verifkit.Guard(func() string { return c20Exec(s) })
		r.Emit(s, out, c20Tags(s, out)...)
		return true
	}
	for _, line := range r.Fixed() {
		var s c20Scn
		if err := json.Unmarshal([]byte(line), &s); err != nil {
			t.Fatalf("bad scenario %q: %v", line, err)
		}
		if s.Free != nil {
			continue
		}
		run(s)
	}
	if r.ReplayOnly() {
		return
	}
	var alpha []c20Step
	var mids [][]c20Mid // every sequence of at most two requests
	mids = append(mids, nil)
	for c := 0; c < c20Callers; c++ {
		for i := 0; i < c20Imgs; i++ {
			alpha = append(alpha, c20Step{Op: "req", C: c, I: i})
			mids = append(mids, []c20Mid{{c, i}})
		}
	}
	for _, a := range mids[1 : 1+c20Callers*c20Imgs] {
		for _, b := range mids[1 : 1+c20Callers*c20Imgs] {
			mids = append(mids, []c20Mid{a[0], b[0]})
		}
	}
	for i := 0; i < c20Imgs; i++ {
		alpha = append(alpha, c20Step{Op: "done", I: i, R: "ok"}, c20Step{Op: "done", I: i, R: "err"})
	}
	alive := true
	// (1) every sequence of enabled req/done steps up to length L, followed by every parked
	// completion that is enabled then: image in flight x ok/err x parking point 0..#waiters x
	// every sequence of at most two requests arriving meanwhile (issued or not).
	L := 3
	count1 := 0
	var en func(prefix []c20Step, wait [c20Callers]int)
	en = func(prefix []c20Step, wait [c20Callers]int) {
		if !alive {
			return
		}
		var n [c20Imgs]int
		for _, w := range wait {
			if w >= 0 {
				n[w]++
			}
		}
		for i := 0; i < c20Imgs && len(prefix) > 0; i++ {
			if n[i] == 0 {
				continue
			}
			for _, res := range []string{"ok", "err"} {
				for k := 0; k <= n[i]; k++ {
					for _, m := range mids {
						if !alive {
							return
						}
						st := c20Step{Op: "park", I: i, R: res, K: k, Mid: m}
						alive = run(c20Scn{Steps: append(append([]c20Step(nil), prefix...), st)})
						count1++
					}
				}
			}
		}
		if len(prefix) == L {
			return
		}
		for _, a := range alpha {
			w := wait
			if a.Op == "req" {
				if w[a.C] >= 0 {
					continue
				}
				w[a.C] = a.I
			} else {
				inflight := false
				for c := range w {
					if w[c] == a.I {
						inflight = true
						w[c] = -1
					}
				}
				if !inflight {
					continue
				}
			}
			en(append(prefix, a), w)
		}
	}
	en(nil, [c20Callers]int{-1, -1, -1})
	r.Extra["exhaustive_prefix_len"] = L
	r.Extra["exhaustive_park_count"] = count1
	// (2) random longer sequences of req / done / park (disabled steps, parking points beyond the
	// number of waiters, more requests arriving meanwhile, several parked broadcasts per scenario)
	n := r.Pick(1500, 6000)
	for j := 0; j < n && alive; j++ {
		l := 4 + r.Rng.Intn(21)
		var s c20Scn
		imgs, callers := c20Imgs, c20Callers
		if j%4 == 3 { // broadcasts parked while many other images have a pull in flight
			imgs = 3 + r.Rng.Intn(6)
			callers = imgs + 2
			s.N = imgs
		}
		for q := 0; q < l; q++ {
			res := "ok"
			if r.Rng.Intn(3) == 0 {
				res = "err"
			}
			switch x := r.Rng.Intn(20); {
			case x < 10:
				s.Steps = append(s.Steps, c20Step{Op: "req", C: r.Rng.Intn(callers), I: r.Rng.Intn(imgs)})
			case x < 11:
				s.Steps = append(s.Steps, c20Step{Op: "cancel", C: r.Rng.Intn(callers)})
			case x < 14:
				s.Steps = append(s.Steps, c20Step{Op: "done", I: r.Rng.Intn(imgs), R: res})
			default:
				st := c20Step{Op: "park", I: r.Rng.Intn(imgs), R: res, K: r.Rng.Intn(5)}
				for m := r.Rng.Intn(4); m > 0; m-- {
					st.Mid = append(st.Mid, c20Mid{r.Rng.Intn(callers), r.Rng.Intn(imgs)})
				}
				s.Steps = append(s.Steps, st)
			}
		}
		if j%50 == 0 { // malformed: a request for an image the harness does not script arrives meanwhile
			s.Steps = append(s.Steps, c20Step{Op: "park", I: 0, R: "ok", K: 1, Mid: []c20Mid{{0, imgs + r.Rng.Intn(3)}}})
		}
		alive = run(s)
	}
	r.Extra["random_count"] = n
	r.Extra["timeouts"] = c20Timeouts
}

// ---------------------------------------------------------------------------------------------
// exploration: free-running goroutines (run with -race in the thorough tier)

// c20FreeStats: what the last free-running configuration looked like (tags only, not compared)
var c20FreeStats struct{ maxDistinct, cancelled, early int64 }

func c20FreeExec(f c20FreeCfg) string {
	if f.Images < 1 || f.Images > c20MaxImgs || f.Callers < 1 || f.Rounds < 0 || f.Files < 0 || f.Fsize < 0 ||
		f.Burst < 0 || f.Cancelmod < 0 {
		return "BAD-OP"
	}
	var inflight, maxInflight, pulls, requests [c20MaxImgs]atomic.Int64
	var nPull, distinct, maxDistinct, nCancelled, nEarly atomic.Int64
	burst := f.Burst
	if burst > f.Images {
		burst = f.Images
	}
	if burst > f.Callers {
		burst = f.Callers
	}
	var arrived atomic.Int64
	gathered := make(chan struct{})
	var gatherOnce sync.Once
	rm := NewRequestManager(nil, nil, nil, types.NamespacedName{})
	rm.pullImage = func(
		_ context.Context, _ client.Client, _ types.NamespacedName, ref string, _ ...crane.Option,
	) (*packagetypes.RawPackage, error) {
		img := c20ImgIdx(ref)
		cur := inflight[img].Add(1)
		for {
			m := maxInflight[img].Load()
			if cur <= m || maxInflight[img].CompareAndSwap(m, cur) {
				break
			}
		}
		if cur == 1 {
			d := distinct.Add(1)
			for {
				m := maxDistinct.Load()
				if d <= m || maxDistinct.CompareAndSwap(m, d) {
					break
				}
			}
			defer distinct.Add(-1)
		}
		pulls[img].Add(1)
		n := nPull.Add(1)
		if n <= int64(burst) {
			// the pulls of the initial burst stay in flight until all of them are (or 300ms have
			// passed: an implementation may bound the number of concurrent pulls, it must not hang)
			if arrived.Add(1) == int64(burst) {
				gatherOnce.Do(func() { close(gathered) })
			}
			select {
			case <-gathered:
			case <-time.After(300 * time.Millisecond):
			}
		}
		switch (uint64(n)*2654435761 + uint64(f.Seed)) % 4 { // vary how long the pull stays in flight
		case 1:
			runtime.Gosched()
		case 2:
			for k := int64(0); k < n%7; k++ {
				runtime.Gosched()
			}
		case 3:
			time.Sleep(time.Duration(n%40) * time.Microsecond)
		}
		if f.Files > 0 {
			time.Sleep(300 * time.Microsecond) // let the callers gather on this pull
		}
		inflight[img].Add(-1)
		if f.Errmod > 0 && n%int64(f.Errmod) == 0 {
			return nil, &c20Err{img: img, gen: int(n)}
		}
		files := packagetypes.Files{"id": []byte(ref), "data": []byte{0}}
		for k := 0; k < f.Files; k++ {
			b := make([]byte, f.Fsize)
			for q := range b {
				b[q] = 'o'
			}
			files[fmt.Sprintf("f%04d", k)] = b
		}
		return &packagetypes.RawPackage{Files: files}, nil
	}
	var answered, wrong, aliased atomic.Int64
	var wg sync.WaitGroup
	for c := 0; c < f.Callers; c++ {
		wg.Add(1)
		go func(c int) {
			defer wg.Done()
			rng := rand.New(rand.NewSource(f.Seed*1000 + int64(c)))
			for k := 0; k < f.Rounds; k++ {
				img := rng.Intn(f.Images)
				if burst > 0 && k == 0 {
					img = c % f.Images
				}
				requests[img].Add(1)
				ctx, cancel := context.WithCancel(context.Background())
				doCancel := f.Cancelmod > 0 && rng.Intn(f.Cancelmod) == 0
				if doCancel {
					// cancelled while the caller waits (or just before it starts to)
					nCancelled.Add(1)
					d := time.Duration(rng.Intn(60)) * time.Microsecond
					go func() {
						time.Sleep(d)
						cancel()
					}()
				}
				pkg, err := rm.Pull(ctx, c20ImgName(img))
				cancel()
				answered.Add(1)
				var pe *c20Err
				switch {
				case doCancel && pkg == nil && errors.Is(err, context.Canceled):
					// a cancelled caller may give up early (the code that exists does not)
					nEarly.Add(1)
				case err != nil && pkg == nil && errors.As(err, &pe) && pe.img == img:
				case err == nil && pkg != nil && string(pkg.Files["id"]) == c20ImgName(img):
					// the caller owns what it was handed: it must be as the pull function made it
					// (nobody else's edits in it) and the caller edits all of it, in place, right away
					foreign := false
					if _, other := pkg.Files["m"]; other || len(pkg.Files) != 2+f.Files {
						foreign = true
					}
					for name, b := range pkg.Files {
						switch name {
						case "id", "m":
						case "data":
							if len(b) == 1 {
								b[0]++
								if b[0] != 1 {
									foreign = true
								}
							}
						default:
							for q := range b {
								if b[q] != 'o' {
									foreign = true
								}
								b[q] = 'A' + byte(c)
							}
						}
					}
					pkg.Files["m"] = []byte{byte(c)}
					if foreign {
						aliased.Add(1)
					}
				default:
					wrong.Add(1)
				}
				if rng.Intn(3) == 0 {
					runtime.Gosched()
				}
			}
		}(c)
	}
	done := make(chan struct{})
	go func() { wg.Wait(); close(done) }()
	select {
	case <-done:
	case <-time.After(10 * time.Second):
		c20Timeouts++
		return fmt.Sprintf("TIMEOUT answered=%d of %d max-distinct-images-in-flight=%d", answered.Load(), f.Callers*f.Rounds,
			maxDistinct.Load())
	}
	c20FreeStats.maxDistinct, c20FreeStats.cancelled, c20FreeStats.early = maxDistinct.Load(), nCancelled.Load(), nEarly.Load()
	overlap, le, ge := 0, true, true
	for i := 0; i < f.Images; i++ {
		if maxInflight[i].Load() > 1 {
			overlap++
		}
		if pulls[i].Load() > requests[i].Load() {
			le = false
		}
		if requests[i].Load() > 0 && pulls[i].Load() < 1 {
			ge = false
		}
	}
	return fmt.Sprintf("free answered=%d wrong=%d aliased=%d overlap=%d pulls_le_requests=%v pulls_ge_1=%v",
		answered.Load(), wrong.Load(), aliased.Load(), overlap, le, ge)
}

func TestVerifC20Race(t *testing.T) {
	r := verifkit.Open(t, "C20")
	defer r.Close()
	run := func(s c20Scn) {
		if c20Timeouts >= c20Fuse { // callers of earlier scenarios hang: do not pile up more
			if r.ReplayOnly() {
				r.Emit(s, "SKIPPED earlier scenarios of this run timed out")
			}
			return
		}
		out := verifkit.Guard(func() string { return c20FreeExec(*s.Free) })
		r.Emit(s, out, append(c20FreeTags(), fmt.Sprintf("callers=%d", s.Free.Callers), fmt.Sprintf("images=%d", s.Free.Images))...)
	}
	for _, line := range r.Fixed() {
		var s c20Scn
		if err := json.Unmarshal([]byte(line), &s); err != nil {
			t.Fatalf("bad scenario %q: %v", line, err)
		}
		if s.Free == nil {
			continue
		}
		run(s)
	}
	if r.ReplayOnly() {
		return
	}
	n := r.Pick(40, 300)
	for k := 0; k < n; k++ {
		f := &c20FreeCfg{
			Callers: 2 + r.Rng.Intn(15), Images: 1 + r.Rng.Intn(3), Rounds: 20 + r.Rng.Intn(300),
			Seed: r.Rng.Int63n(1 << 30), Errmod: r.Rng.Intn(5),
		}
		switch k % 4 {
		case 1: // some contexts are cancelled while their callers wait
			f.Cancelmod = 2 + r.Rng.Intn(8)
		case 3: // many distinct images, the first pulls all in flight at the same time
			f.Callers = 6 + r.Rng.Intn(11)
			f.Images = 5 + r.Rng.Intn(8)
			f.Burst = f.Images
			f.Cancelmod = []int{0, 4, 9}[r.Rng.Intn(3)]
		}
		run(c20Scn{Free: f})
	}
}

func c20FreeTags() []string {
	var tags []string
	switch d := c20FreeStats.maxDistinct; {
	case d >= 8:
		tags = append(tags, "images-in-flight>=8")
	case d >= 5:
		tags = append(tags, "images-in-flight=5..7")
	case d >= 3:
		tags = append(tags, "images-in-flight=3..4")
	}
	if c20FreeStats.cancelled > 0 {
		tags = append(tags, "contexts-cancelled")
	}
	if c20FreeStats.early > 0 {
		tags = append(tags, "cancelled-caller-gave-up-early")
	}
	return tags
}

// Stream "storm": the hook-free way to open the window inside the broadcast.  Many callers wait
// for the same big package, so the broadcast (one deep copy per receiver) takes long; every
// caller edits all of its package the moment it is answered and asks again right away - while
// the broadcast to the others is still going on.  A request lost in that window never returns
// (watchdog: TIMEOUT), a package copied from an object its owner is already editing shows the
// edits (aliased), and under -race (thorough tier) the unsynchronised accesses are reported.
func TestVerifC20Storm(t *testing.T) {
	r := verifkit.Open(t, "C20")
	defer r.Close()
	run := func(s c20Scn) {
		if c20Timeouts >= 1 { // callers of an earlier scenario hang and hold on to their packages
			if r.ReplayOnly() {
				r.Emit(s, "SKIPPED earlier scenarios of this run timed out")
			}
			return
		}
		out := verifkit.Guard(func() string { return c20FreeExec(*s.Free) })
		r.Emit(s, out, append(c20FreeTags(), fmt.Sprintf("callers=%d", s.Free.Callers), fmt.Sprintf("images=%d", s.Free.Images),
			fmt.Sprintf("pkgKiB=%d", s.Free.Files*s.Free.Fsize/1024/512*512))...)
	}
	for _, line := range r.Fixed() {
		var s c20Scn
		if err := json.Unmarshal([]byte(line), &s); err != nil {
			t.Fatalf("bad scenario %q: %v", line, err)
		}
		if s.Free == nil {
			continue
		}
		run(s)
	}
	if r.ReplayOnly() {
		return
	}
	n := r.Pick(3, 10)
	for k := 0; k < n; k++ {
		f := &c20FreeCfg{
			Callers: 5 + r.Rng.Intn(6), Images: 1 + k%2, Rounds: 6 + r.Rng.Intn(6),
			Seed: r.Rng.Int63n(1 << 30), Errmod: []int{0, 0, 7}[r.Rng.Intn(3)],
			Files: 600 + r.Rng.Intn(900), Fsize: 4096,
		}
		run(c20Scn{Free: f})
	}
	// restart bursts: every caller's first request is for a different image and the first pulls are
	// all in flight at the same time (5..12 distinct images), then everybody keeps asking; some
	// contexts are cancelled while their callers wait.  A request manager that stops serving when
	// many images are in flight leaves callers unanswered: watchdog, TIMEOUT.
	nb := r.Pick(4, 16)
	for k := 0; k < nb; k++ {
		images := 5 + r.Rng.Intn(8)
		f := &c20FreeCfg{
			Callers: images + r.Rng.Intn(6), Images: images, Rounds: 8 + r.Rng.Intn(10),
			Seed: r.Rng.Int63n(1 << 30), Errmod: []int{0, 3, 7}[r.Rng.Intn(3)],
			Files: 4 + r.Rng.Intn(12), Fsize: 2048, Burst: images, Cancelmod: []int{0, 3, 8}[k%3],
		}
		run(c20Scn{Free: f})
	}
}
