package objecttemplate

// Correspondence harness for property C18 (ObjectTemplates track their sources and stay within
// bounds).  Injected by `go test -overlay`, never committed to /repo.
//
// A scenario is a HISTORY: one (Cluster)ObjectTemplate whose template text is drawn from a small
// family (see c18TemplateText), a source list, and steps {third-party object edits, one Reconcile
// of the REAL controller, deletion of the ObjectTemplate, cache restart, environment change}.
// The controller is built with the exported constructors NewObjectTemplateController /
// NewClusterObjectTemplateController on top of verifstore (in-memory API + fresh dynamic cache).
// The same scenario line is replayed by the Lean model (lean/Pko/Model/Template.lean, driver
// Pko.Drv.C18) and judged by the Lean monitor.

import (
	"context"
	"encoding/json"
	"fmt"
	"math/rand"
	"sort"
	"strings"
	"testing"
	"time"

	"github.com/go-logr/logr"
	metav1 "k8s.io/apimachinery/pkg/apis/meta/v1"
	"k8s.io/apimachinery/pkg/apis/meta/v1/unstructured"
	"k8s.io/apimachinery/pkg/runtime"
	"k8s.io/apimachinery/pkg/runtime/schema"
	"k8s.io/apimachinery/pkg/types"
	"k8s.io/client-go/util/workqueue"
	ctrl "sigs.k8s.io/controller-runtime"
	"sigs.k8s.io/controller-runtime/pkg/client"
	"sigs.k8s.io/controller-runtime/pkg/client/apiutil"
	"sigs.k8s.io/controller-runtime/pkg/event"
	"sigs.k8s.io/controller-runtime/pkg/reconcile"

	corev1alpha1 "package-operator.run/apis/core/v1alpha1"
	"package-operator.run/internal/apis/manifests"
	"package-operator.run/internal/dynamiccache"
	"package-operator.run/internal/verifkit"
	"package-operator.run/internal/verifstore"
)

// ---------------------------------------------------------------- scenario

type c18Item struct {
	KF string `json:"kf"` // form of the JSONPath key: dot | bare | brace | bbare | name | bad | empty
	KK string `json:"kk"` // data key the path points at
	D  string `json:"d"`  // destination, verbatim (".a" is well-formed, "a" lacks the leading dot)
}

type c18Src struct {
	Kind  string    `json:"kind"` // NK | NK2 (namespaced) | CK (cluster-scoped) | UK (no such API)
	NS    string    `json:"ns"`
	Name  string    `json:"name"`
	Opt   bool      `json:"opt"`
	Items []c18Item `json:"items"`
}

type c18Ref struct {
	D      string `json:"d"`      // config key referenced by the template
	Strict bool   `json:"strict"` // {{ .config.d }} (errors when missing) vs. index-with-default
}

type c18Tmpl struct {
	Form string   `json:"form"` // ok | parse (template text does not parse) | yaml (renders to non-YAML) | nokind
	Kind string   `json:"kind"`
	NS   string   `json:"ns"`  // metadata.namespace in the template text ("" = line absent)
	Own  bool     `json:"own"` // template text carries an ownerReference
	Env  bool     `json:"env"` // template prints .environment.kubernetes.version
	Refs []c18Ref `json:"refs"`
	// Sw (optional): kind / namespace / ownerReferences of the RENDERED object depend on a source value
	Sw *c18Sw `json:"sw,omitempty"`
}

// c18Sw makes parts of the rendered manifest's identity TEMPLATE OUTPUT: while the config value at
// key D (as copied from the sources) equals V, the manifest is rendered with another kind, another
// metadata.namespace and / or an ownerReference, e.g.
//
//	kind: {{ if $sw }}CK{{ else }}NK{{ end }}
//
// The ObjectTemplate itself (spec, generation) is the same whatever the sources say.
type c18Sw struct {
	D    string `json:"d"`
	V    string `json:"v"`
	Kind string `json:"kind"` // kind while on ("" = the template's Kind)
	NS   string `json:"ns"`   // metadata.namespace while on: "=" = the template's NS, "" = line absent
	Own  bool   `json:"own"`  // while on the manifest carries an ownerReference
}

type c18KV struct {
	K string `json:"k"`
	V string `json:"v"`
}

type c18OCond struct {
	T  string `json:"t"`
	S  bool   `json:"s"`
	Og string `json:"og"` // cur (= object's generation at the time of the step) | stale
}

type c18Step struct {
	Op     string     `json:"op"` // put | del | unlabel | status | rec | deltmpl | restart | setenv
	Kind   string     `json:"kind"`
	NS     string     `json:"ns"`
	Name   string     `json:"name"`
	Vals   []c18KV    `json:"vals"`
	L      bool       `json:"l"`      // put of a new object: carries the cache label
	ObsGen int        `json:"obsGen"` // status: status.observedGeneration (-1 = absent)
	Conds  []c18OCond `json:"conds"`
	V      string     `json:"v"` // setenv
}

type c18Scn struct {
	Cluster bool      `json:"cluster"`
	Peer    bool      `json:"peer"` // another owner already watches NK and CK through the same cache
	Env     string    `json:"env"`
	Tmpl    c18Tmpl   `json:"tmpl"`
	Srcs    []c18Src  `json:"srcs"`
	Steps   []c18Step `json:"steps"`
}

func (s *c18Scn) norm() {
	if s.Srcs == nil {
		s.Srcs = []c18Src{}
	}
	for i := range s.Srcs {
		if s.Srcs[i].Items == nil {
			s.Srcs[i].Items = []c18Item{}
		}
	}
	if s.Tmpl.Refs == nil {
		s.Tmpl.Refs = []c18Ref{}
	}
	if s.Steps == nil {
		s.Steps = []c18Step{}
	}
	for i := range s.Steps {
		if s.Steps[i].Vals == nil {
			s.Steps[i].Vals = []c18KV{}
		}
		if s.Steps[i].Conds == nil {
			s.Steps[i].Conds = []c18OCond{}
		}
	}
}

const (
	c18Group   = "verif.io"
	c18TmplNS  = "ns1"
	c18OtherNS = "ns2"
	c18Name    = "ot"
)

var c18Scopes = map[string]bool{"NK": true, "NK2": true, "CK": false} // kind -> namespaced; UK is not registered

func c18GVK(kind string) schema.GroupVersionKind {
	return schema.GroupVersionKind{Group: c18Group, Version: "v1", Kind: kind}
}

// ---------------------------------------------------------------- template family

func c18ItemKey(it c18Item) string {
	switch it.KF {
	case "dot":
		return ".data." + it.KK
	case "bare":
		return "data." + it.KK
	case "brace":
		return "{.data." + it.KK + "}"
	case "bbare":
		return "{data." + it.KK + "}"
	case "name":
		return ".metadata.name"
	case "bad":
		return "{bad"
	default:
		return ""
	}
}

// c18Switches: what the rendered object turns into while config key d holds v — the inadmissible
// identities of each flavour and a few admissible ones (the target just moves).
func c18Switches(cluster bool, d, v string) []c18Sw {
	sw := func(kind, ns string, own bool) c18Sw { return c18Sw{D: d, V: v, Kind: kind, NS: ns, Own: own} }
	if cluster {
		return []c18Sw{
			sw("UK", "=", false),         // no such API
			sw("", "", false),            // namespaced kind without namespace: no default for a cluster template
			sw("", "=", true),            // brings its own ownerReferences
			sw("CK", "", false),          // legal for a ClusterObjectTemplate: the target moves
			sw("NK2", c18OtherNS, false), // legal: other kind, other namespace
		}
	}
	return []c18Sw{
		sw("CK", "=", false),        // cluster-scoped kind (namespace line as written)
		sw("CK", "", false),         // cluster-scoped kind, no namespace
		sw("", c18OtherNS, false),   // another namespace
		sw("CK", c18OtherNS, false), // both
		sw("UK", "=", false),        // no such API
		sw("", "=", true),           // brings its own ownerReferences
		sw("NK2", "=", false),       // legal: the target moves to another namespaced kind
		sw("", c18TmplNS, false),    // legal: namespace spelled out
	}
}

const c18OwnerRefText = "  ownerReferences:\n  - apiVersion: v1\n    kind: ConfigMap\n    name: x\n    uid: u-x\n"

func c18TemplateText(t c18Tmpl) string {
	var b strings.Builder
	sw := t.Sw
	if sw != nil {
		// (print of a missing key gives "<nil>", never a value of the family)
		fmt.Fprintf(&b, "{{ $sw := eq (print (index .config %q)) %q }}\n", sw.D, sw.V)
	}
	b.WriteString("apiVersion: " + c18Group + "/v1\n")
	switch t.Form {
	case "nokind":
	case "yaml":
		b.WriteString("kind: [" + t.Kind + "\n")
	default:
		if sw != nil && sw.Kind != "" {
			b.WriteString("kind: {{ if $sw }}" + sw.Kind + "{{ else }}" + t.Kind + "{{ end }}\n")
		} else {
			b.WriteString("kind: " + t.Kind + "\n")
		}
	}
	b.WriteString("metadata:\n  name: t\n")
	nsLine := func(ns string) string {
		if ns == "" {
			return ""
		}
		return "  namespace: " + ns
	}
	if sw != nil && sw.NS != "=" {
		b.WriteString("{{ if $sw }}" + nsLine(sw.NS) + "{{ else }}" + nsLine(t.NS) + "{{ end }}\n")
	} else if t.NS != "" {
		b.WriteString(nsLine(t.NS) + "\n")
	}
	if t.Own {
		b.WriteString(c18OwnerRefText)
	} else if sw != nil && sw.Own {
		b.WriteString("{{ if $sw }}" + c18OwnerRefText + "{{ end }}\n")
	}
	if !t.Env && len(t.Refs) == 0 {
		b.WriteString("data: {}\n")
	} else {
		b.WriteString("data:\n")
	}
	if t.Env {
		b.WriteString("  env: \"{{ .environment.kubernetes.version }}\"\n")
	}
	for i, r := range t.Refs {
		if r.Strict {
			fmt.Fprintf(&b, "  f%d: \"{{ .config.%s }}\"\n", i, r.D)
		} else {
			fmt.Fprintf(&b, "  f%d: \"{{ with (index .config \"%s\") }}{{ . }}{{ else }}none{{ end }}\"\n", i, r.D)
		}
	}
	if t.Form == "parse" {
		b.WriteString("# {{ .config.a \n")
	}
	return b.String()
}

// ---------------------------------------------------------------- cache wrapper

// c18Cache adapts verifstore.Cache to the controller's dynamicCache interface.  verifstore's
// OwnersForGKV has a different result type, so the owner references are recorded here exactly
// the way dynamiccache.Cache.ownerRef builds them (GVK of the owner, uid, name, namespace).
type c18Cache struct {
	*verifstore.Cache
	scheme *runtime.Scheme
	refs   map[schema.GroupVersionKind]map[dynamiccache.OwnerReference]struct{}
}

func c18OwnerRef(scheme *runtime.Scheme, owner client.Object) dynamiccache.OwnerReference {
	gvk, err := apiutil.GVKForObject(owner, scheme)
	if err != nil {
		panic(err)
	}
	return dynamiccache.OwnerReference{
		GroupKind: schema.GroupKind{Group: gvk.Group, Kind: gvk.Kind},
		UID:       owner.GetUID(), Name: owner.GetName(), Namespace: owner.GetNamespace(),
	}
}

func (c *c18Cache) Watch(ctx context.Context, owner client.Object, obj runtime.Object) error {
	if err := c.Cache.Watch(ctx, owner, obj); err != nil {
		return err
	}
	gvk, err := apiutil.GVKForObject(obj, c.scheme)
	if err != nil {
		return err
	}
	if c.refs[gvk] == nil {
		c.refs[gvk] = map[dynamiccache.OwnerReference]struct{}{}
	}
	c.refs[gvk][c18OwnerRef(c.scheme, owner)] = struct{}{}
	return nil
}

func (c *c18Cache) Free(ctx context.Context, owner client.Object) error {
	if err := c.Cache.Free(ctx, owner); err != nil {
		return err
	}
	ref := c18OwnerRef(c.scheme, owner)
	for gvk, os := range c.refs {
		delete(os, ref)
		if len(os) == 0 {
			delete(c.refs, gvk)
		}
	}
	return nil
}

func (c *c18Cache) Restart() {
	c.Cache.Restart()
	c.refs = map[schema.GroupVersionKind]map[dynamiccache.OwnerReference]struct{}{}
}

func (c *c18Cache) OwnersForGKV(gvk schema.GroupVersionKind) []dynamiccache.OwnerReference {
	var out []dynamiccache.OwnerReference
	for r := range c.refs[gvk] {
		out = append(out, r)
	}
	return out
}

type c18Queue struct {
	workqueue.TypedRateLimitingInterface[reconcile.Request]
	added []reconcile.Request
}

func (q *c18Queue) Add(r reconcile.Request) { q.added = append(q.added, r) }

// ---------------------------------------------------------------- execution

func c18Scheme() *runtime.Scheme {
	s := runtime.NewScheme()
	if err := corev1alpha1.AddToScheme(s); err != nil {
		panic(err)
	}
	return s
}

type c18World struct {
	scn     c18Scn
	scheme  *runtime.Scheme
	store   *verifstore.Store
	cache   *c18Cache
	ctl     *GenericObjectTemplateController
	handler *dynamiccache.EnqueueWatchingObjects
	tkey    verifstore.Key
	req     ctrl.Request
	env     string // environment last pushed into the controller's sink
}

// startProcess builds the controller by its real constructor on the current cache: everything a
// previous controller held in memory is gone.  The environment manager pushes the environment into
// the new process' sink again.
func (w *c18World) startProcess() {
	cl := w.store.Client()
	cfg := ControllerConfig{OptionalResourceRetryInterval: 7 * time.Second, ResourceRetryInterval: 11 * time.Second}
	if w.scn.Cluster {
		w.ctl = NewClusterObjectTemplateController(cl, cl, logr.Discard(), w.cache, w.scheme, w.store.Mapper(), cfg)
	} else {
		w.ctl = NewObjectTemplateController(cl, cl, logr.Discard(), w.cache, w.scheme, w.store.Mapper(), cfg)
	}
	w.setEnv(w.env)
}

func c18Build(s c18Scn) *c18World {
	w := &c18World{scn: s, scheme: c18Scheme()}
	w.store = verifstore.New(w.scheme)
	for k, namespaced := range c18Scopes {
		w.store.RegisterKind(schema.GroupKind{Group: c18Group, Kind: k}, namespaced)
	}
	pg := corev1alpha1.GroupVersion.Group
	w.store.RegisterKind(schema.GroupKind{Group: pg, Kind: "ObjectTemplate"}, true)
	w.store.RegisterKind(schema.GroupKind{Group: pg, Kind: "ClusterObjectTemplate"}, false)
	w.store.RegisterKind(schema.GroupKind{Group: pg, Kind: "ObjectSet"}, true)
	w.cache = &c18Cache{Cache: w.store.NewCache(), scheme: w.scheme,
		refs: map[schema.GroupVersionKind]map[dynamiccache.OwnerReference]struct{}{}}
	w.env = s.Env
	w.startProcess()

	var sources []corev1alpha1.ObjectTemplateSource
	for _, src := range s.Srcs {
		o := corev1alpha1.ObjectTemplateSource{
			APIVersion: c18Group + "/v1", Kind: src.Kind, Namespace: src.NS, Name: src.Name, Optional: src.Opt,
		}
		for _, it := range src.Items {
			o.Items = append(o.Items, corev1alpha1.ObjectTemplateSourceItem{Key: c18ItemKey(it), Destination: it.D})
		}
		sources = append(sources, o)
	}
	spec := corev1alpha1.ObjectTemplateSpec{Template: c18TemplateText(s.Tmpl), Sources: sources}
	var obj client.Object
	var watcherType client.Object
	if s.Cluster {
		obj = &corev1alpha1.ClusterObjectTemplate{ObjectMeta: metav1.ObjectMeta{Name: c18Name}, Spec: spec}
		watcherType = &corev1alpha1.ClusterObjectTemplate{}
		w.tkey = verifstore.Key{Group: pg, Kind: "ClusterObjectTemplate", Name: c18Name}
		w.req = ctrl.Request{NamespacedName: types.NamespacedName{Name: c18Name}}
	} else {
		obj = &corev1alpha1.ObjectTemplate{ObjectMeta: metav1.ObjectMeta{Name: c18Name, Namespace: c18TmplNS}, Spec: spec}
		watcherType = &corev1alpha1.ObjectTemplate{}
		w.tkey = verifstore.Key{Group: pg, Kind: "ObjectTemplate", Namespace: c18TmplNS, Name: c18Name}
		w.req = ctrl.Request{NamespacedName: types.NamespacedName{Name: c18Name, Namespace: c18TmplNS}}
	}
	m, err := runtime.DefaultUnstructuredConverter.ToUnstructured(obj)
	if err != nil {
		panic(err)
	}
	u := &unstructured.Unstructured{Object: m}
	gvk, err := apiutil.GVKForObject(obj, w.scheme)
	if err != nil {
		panic(err)
	}
	u.SetGroupVersionKind(gvk)
	w.store.Put(u)
	// the REAL event handler the controller registers in SetupWithManager
	w.handler = dynamiccache.NewEnqueueWatchingObjects(w.cache, watcherType, w.scheme)
	if s.Peer {
		peer := &unstructured.Unstructured{}
		peer.SetGroupVersionKind(schema.GroupVersionKind{Group: pg, Version: "v1alpha1", Kind: "ObjectSet"})
		peer.SetName("peer")
		peer.SetNamespace(c18TmplNS)
		peer.SetUID("uid-peer")
		for _, k := range []string{"CK", "NK"} {
			o := &unstructured.Unstructured{}
			o.SetGroupVersionKind(c18GVK(k))
			if err := w.cache.Watch(context.Background(), peer, o); err != nil {
				panic(err)
			}
		}
	}
	return w
}

func (w *c18World) setEnv(v string) {
	w.env = v
	w.ctl.SetEnvironment(&manifests.PackageEnvironment{Kubernetes: manifests.PackageEnvironmentKubernetes{Version: v}})
}

func (w *c18World) objKey(st c18Step) verifstore.Key {
	return verifstore.Key{Group: c18Group, Kind: st.Kind, Namespace: st.NS, Name: st.Name}
}

func c18Labelled(u *unstructured.Unstructured) bool {
	return u != nil && u.GetLabels()[verifstore.CacheLabel] == "True"
}

// enqueued runs the REAL EnqueueWatchingObjects handler for the event an informer restricted to
// cache-labelled objects would deliver for the transition before -> after, and returns the number
// of requests for OUR template added to the queue.
func (w *c18World) enqueued(before, after *unstructured.Unstructured) int {
	if !c18Labelled(before) && !c18Labelled(after) {
		return 0 // the label-selected informer never sees the object
	}
	q := &c18Queue{}
	ctx := context.Background()
	switch {
	case before == nil && after == nil:
		return 0
	case before == nil:
		w.handler.Create(ctx, event.CreateEvent{Object: after}, q)
	case after == nil:
		w.handler.Delete(ctx, event.DeleteEvent{Object: before}, q)
	default:
		if before.GetResourceVersion() == after.GetResourceVersion() {
			return 0 // nothing changed, no event
		}
		w.handler.Update(ctx, event.UpdateEvent{ObjectOld: before, ObjectNew: after}, q)
	}
	n := 0
	for _, r := range q.added {
		if r == w.req {
			n++
		}
	}
	return n
}

func (w *c18World) envStep(st c18Step) string {
	if _, ok := c18Scopes[st.Kind]; !ok {
		return "E enq=0" // objects of an unregistered API cannot exist
	}
	k := w.objKey(st)
	before := w.store.Peek(k)
	switch st.Op {
	case "put":
		data := map[string]interface{}{}
		for _, kv := range st.Vals {
			data[kv.K] = kv.V
		}
		if before != nil {
			w.store.Mutate(k, func(u *unstructured.Unstructured) { u.Object["data"] = data })
		} else {
			u := &unstructured.Unstructured{Object: map[string]interface{}{"data": data}}
			u.SetGroupVersionKind(c18GVK(st.Kind))
			u.SetNamespace(st.NS)
			u.SetName(st.Name)
			if st.L {
				u.SetLabels(map[string]string{verifstore.CacheLabel: "True"})
			}
			w.store.Put(u)
		}
	case "del":
		w.store.Remove(k)
	case "unlabel":
		w.store.Mutate(k, func(u *unstructured.Unstructured) {
			l := u.GetLabels()
			delete(l, verifstore.CacheLabel)
			if len(l) == 0 {
				l = nil
			}
			u.SetLabels(l)
		})
	case "status":
		w.store.Mutate(k, func(u *unstructured.Unstructured) {
			status := map[string]interface{}{}
			if st.ObsGen >= 0 {
				status["observedGeneration"] = int64(st.ObsGen)
			}
			conds := []interface{}{}
			for _, c := range st.Conds {
				og := int64(0)
				if c.Og == "cur" {
					og = u.GetGeneration()
				}
				s := "False"
				if c.S {
					s = "True"
				}
				conds = append(conds, map[string]interface{}{
					"type": c.T, "status": s, "reason": "R", "message": "m", "observedGeneration": og,
				})
			}
			if len(conds) > 0 {
				status["conditions"] = conds
			}
			if len(status) == 0 {
				delete(u.Object, "status")
			} else {
				u.Object["status"] = status
			}
		})
	}
	after := w.store.Peek(k)
	return fmt.Sprintf("E enq=%d", w.enqueued(before, after))
}

func c18KeyStr(k verifstore.Key) string { return k.Kind + "/" + k.Namespace + "/" + k.Name }

func c18DataStr(u *unstructured.Unstructured) string {
	d, _, _ := unstructured.NestedMap(u.Object, "data")
	keys := make([]string, 0, len(d))
	for k := range d {
		keys = append(keys, k)
	}
	sort.Strings(keys)
	var parts []string
	for _, k := range keys {
		parts = append(parts, k+"="+fmt.Sprint(d[k]))
	}
	return strings.Join(parts, "+")
}

func (w *c18World) reconcile() string {
	logStart := len(w.store.Log)
	res, err := w.ctl.Reconcile(context.Background(), w.req)
	class := "ok"
	switch {
	case err != nil:
		class = "err"
	case res.RequeueAfter == 7*time.Second:
		class = "requeue-opt"
	case res.RequeueAfter == 11*time.Second:
		class = "requeue-res"
	case !res.IsZero():
		class = "requeue-other"
	}
	// every non-dry-run mutating request of this pass
	var ws []string
	for _, r := range w.store.Log[logStart:] {
		if r.DryRun {
			continue
		}
		e := c18KeyStr(r.Key)
		if r.Key.Group == c18Group {
			// verbs on user objects are printed with the REST scope of the kind
			sc := "U"
			if ns, ok := c18Scopes[r.Key.Kind]; ok {
				sc = map[bool]string{true: "N", false: "C"}[ns]
			}
			e = sc + ":" + e
		} else {
			e = "T:" + e
		}
		e = r.Verb + ":" + e
		if r.Err != "" {
			e += "!" + r.Err
		}
		ws = append(ws, e)
	}
	// the ObjectTemplate as persisted
	tmplState := "gone"
	inv := "-"
	var conds []string
	ctlOf := "-"
	if t := w.store.Peek(w.tkey); t != nil {
		switch {
		case t.GetDeletionTimestamp() != nil:
			tmplState = "del"
		case len(t.GetFinalizers()) > 0:
			tmplState = "fin"
		default:
			tmplState = "new"
		}
		cs, _, _ := unstructured.NestedSlice(t.Object, "status", "conditions")
		for _, c := range cs {
			m := c.(map[string]interface{})
			ty := fmt.Sprint(m["type"])
			s := "F"
			if m["status"] == "True" {
				s = "T"
			}
			if ty == corev1alpha1.ObjectTemplateInvalid {
				if s == "T" {
					inv = fmt.Sprint(m["reason"])
				} else {
					inv = "False/" + fmt.Sprint(m["reason"])
				}
				continue
			}
			conds = append(conds, verifkit.Esc(ty)+"="+s+":"+verifkit.Esc(fmt.Sprint(m["reason"])))
		}
		sort.Strings(conds)
		co, found, _ := unstructured.NestedMap(t.Object, "status", "controllerOf")
		if found && (co["kind"] != nil && co["kind"] != "") {
			ctlOf = fmt.Sprintf("%v/%v/%v", co["kind"], orEmpty(co["namespace"]), co["name"])
		}
	}
	// all user objects
	var objs []string
	for _, u := range w.store.Snapshot() {
		if u.GroupVersionKind().Group != c18Group {
			continue
		}
		l := "-"
		if c18Labelled(u) {
			l = "L"
		}
		objs = append(objs, fmt.Sprintf("%s/%s/%s{%s}%sg%d", u.GetKind(), u.GetNamespace(), u.GetName(), c18DataStr(u), l, u.GetGeneration()))
	}
	sort.Strings(objs)
	return fmt.Sprintf("R %s inv=%s conds=%s ctl=%s w=%s objs=%s watch=%s tmpl=%s",
		class, inv, strings.Join(conds, ","), ctlOf, strings.Join(ws, ","), strings.Join(objs, ","), w.watchStr(), tmplState)
}

func orEmpty(v interface{}) string {
	if v == nil {
		return ""
	}
	return fmt.Sprint(v)
}

// watchStr renders the cache's watch set as Kind:T+P entries (T = our template, P = the peer).
func (w *c18World) watchStr() string {
	var out []string
	for _, e := range w.cache.Watched() {
		i := strings.Index(e, ":")
		kind, owners := e[:i], strings.Split(e[i+1:], ",")
		var os []string
		for _, o := range owners {
			switch {
			case strings.HasSuffix(o, "/"+c18Name):
				os = append(os, "T")
			case strings.HasSuffix(o, "/peer"):
				os = append(os, "P")
			default:
				os = append(os, "?"+o)
			}
		}
		sort.Strings(os)
		out = append(out, kind+":"+strings.Join(os, "+"))
	}
	sort.Strings(out)
	return strings.Join(out, ",")
}

func c18Exec(s c18Scn) string {
	w := c18Build(s)
	var outs []string
	for _, st := range s.Steps {
		switch st.Op {
		case "put", "del", "unlabel", "status":
			outs = append(outs, w.envStep(st))
		case "rec":
			outs = append(outs, w.reconcile())
		case "deltmpl":
			w.store.Remove(w.tkey)
			outs = append(outs, "E")
		case "restart":
			// a new operator process: the dynamic cache's registrations AND whatever the controller
			// kept in memory are gone; the API objects are all that survives
			w.cache.Restart()
			w.startProcess()
			outs = append(outs, "E")
		case "setenv":
			w.setEnv(st.V)
			outs = append(outs, "E")
		default:
			return "BAD-OP"
		}
	}
	return strings.Join(outs, ";")
}

// ---------------------------------------------------------------- generation

func c18Tags(s c18Scn, out string) []string {
	tags := []string{}
	add := func(t string) {
		for _, x := range tags {
			if x == t {
				return
			}
		}
		tags = append(tags, t)
	}
	if s.Cluster {
		add("flavour=cluster")
	} else {
		add("flavour=namespaced")
	}
	add(fmt.Sprintf("srcs=%d", len(s.Srcs)))
	add("form=" + s.Tmpl.Form)
	if s.Tmpl.Sw != nil {
		add("sw")
	}
	nrec := 0
	for _, st := range s.Steps {
		add("op=" + st.Op)
		if st.Op == "rec" {
			nrec++
		}
	}
	if nrec == 0 {
		add("trivial")
	}
	for _, part := range strings.Split(out, ";") {
		f := strings.Fields(part)
		if len(f) < 3 || f[0] != "R" {
			if strings.HasPrefix(part, "E enq=") && part != "E enq=0" {
				add("enqueued")
			}
			if strings.HasPrefix(part, "PANIC") {
				add("PANIC")
			}
			continue
		}
		add("class=" + f[1])
		add(f[2])
		for _, x := range f {
			if strings.HasPrefix(x, "w=") {
				for _, v := range []string{"create:", "update:", "merge:N", "merge:C", "merge:T", "status:", "!AlreadyExists"} {
					if strings.Contains(x, v) {
						add("w~" + v)
					}
				}
			}
			if strings.HasPrefix(x, "conds=") && x != "conds=" {
				add("mapped-conds")
			}
			if strings.HasPrefix(x, "tmpl=") {
				add(x)
			}
		}
	}
	return tags
}

func c18Vals(rng *rand.Rand) []c18KV {
	var out []c18KV
	for _, k := range []string{"a", "b", "c"} {
		if rng.Intn(8) != 0 {
			out = append(out, c18KV{k, fmt.Sprintf("x%d", rng.Intn(4))})
		}
	}
	return out
}

// srcKey is the object a source refers to once the namespace default is applied.
func c18SrcKey(s c18Scn, src c18Src) (kind, ns, name string) {
	ns = src.NS
	if ns == "" && !s.Cluster {
		ns = c18TmplNS
	}
	return src.Kind, ns, src.Name
}

// tgtKey is where a (bounds-respecting) controller puts the templated object.
func c18TgtKey(s c18Scn) (kind, ns, name string) {
	ns = s.Tmpl.NS
	if !s.Cluster {
		ns = c18TmplNS
	}
	return s.Tmpl.Kind, ns, "t"
}

func c18Random(rng *rand.Rand) c18Scn {
	s := c18Scn{Cluster: rng.Intn(3) == 0, Peer: rng.Intn(3) == 0, Env: "e0"}
	pick := func(xs ...string) string { return xs[rng.Intn(len(xs))] }
	// sources: mostly within bounds
	n := rng.Intn(4)
	dests := []string{}
	for i := 0; i < n; i++ {
		src := c18Src{Kind: pick("NK", "NK", "NK2"), Name: fmt.Sprintf("s%d", i), Opt: rng.Intn(3) == 0}
		if s.Cluster {
			src.NS = pick(c18TmplNS, c18OtherNS)
			if rng.Intn(4) == 0 {
				src.Kind = "CK"
				src.NS = pick("", c18TmplNS)
			}
		} else {
			src.NS = pick("", c18TmplNS)
		}
		if rng.Intn(12) == 0 { // a bounds / existence violation
			switch rng.Intn(4) {
			case 0:
				src.Kind = "UK"
			case 1:
				src.Kind = "CK"
			case 2:
				src.NS = c18OtherNS
				if s.Cluster {
					src.NS = ""
				}
			default:
				src.Kind = "CK"
				src.NS = pick("", c18TmplNS, c18OtherNS)
			}
		}
		if rng.Intn(10) == 0 && i > 0 { // two sources referring to the same object
			src.Name = "s0"
		}
		if rng.Intn(40) == 0 { // a source that may coincide with the templated object
			src.Name = "t"
		}
		for j, m := 0, 1+rng.Intn(2); j < m; j++ {
			it := c18Item{KF: pick("dot", "dot", "bare", "brace", "bbare"), KK: pick("a", "b", "c"), D: "." + pick("a", "b", "c")}
			switch rng.Intn(30) {
			case 0:
				it.KF = "bad"
			case 1:
				it.KF = "empty"
			case 2:
				it.D = "a"
			case 3:
				it.KF = "name"
			}
			src.Items = append(src.Items, it)
			if strings.HasPrefix(it.D, ".") {
				dests = append(dests, it.D[1:])
			}
		}
		s.Srcs = append(s.Srcs, src)
	}
	// template
	t := c18Tmpl{Form: "ok", Kind: pick("NK", "NK", "NK2"), Env: rng.Intn(2) == 0}
	if s.Cluster {
		t.NS = pick(c18TmplNS, c18OtherNS)
		if rng.Intn(4) == 0 {
			t.Kind = "CK"
			t.NS = pick("", c18TmplNS)
		}
	} else {
		t.NS = pick("", c18TmplNS)
	}
	if rng.Intn(12) == 0 {
		switch rng.Intn(5) {
		case 0:
			t.Kind = "UK"
		case 1:
			t.Kind = "CK"
		case 2:
			t.NS = c18OtherNS
			if s.Cluster {
				t.NS = ""
			}
		case 3:
			t.Own = true
		default:
			t.Kind = "CK"
			t.NS = pick("", c18TmplNS, c18OtherNS)
		}
	}
	if rng.Intn(12) == 0 {
		t.Form = pick("parse", "yaml", "nokind")
	}
	for i, m := 0, rng.Intn(4); i < m; i++ {
		d := pick("a", "b", "c")
		if len(dests) > 0 && rng.Intn(5) != 0 {
			d = dests[rng.Intn(len(dests))]
		}
		t.Refs = append(t.Refs, c18Ref{D: d, Strict: rng.Intn(3) != 0})
	}
	if rng.Intn(6) == 0 { // identity of the rendered object depends on a source value
		d := pick("a", "b", "c")
		if len(dests) > 0 {
			d = dests[rng.Intn(len(dests))]
		}
		sws := c18Switches(s.Cluster, d, pick("x1", "x1", "x2"))
		sw := sws[rng.Intn(len(sws))]
		t.Sw = &sw
	}
	s.Tmpl = t
	// history: most sources exist (unlabelled, as a user would create them) before the first pass
	tk, tns, tn := c18TgtKey(s)
	envN := 0
	for _, src := range s.Srcs {
		if rng.Intn(4) != 0 {
			k, ns, nm := c18SrcKey(s, src)
			s.Steps = append(s.Steps, c18Step{Op: "put", Kind: k, NS: ns, Name: nm, Vals: c18Vals(rng), L: rng.Intn(5) == 0})
		}
	}
	for i, m := 0, 3+rng.Intn(12); i < m; i++ {
		x := rng.Intn(100)
		switch {
		case x < 30 && len(s.Srcs) > 0:
			src := s.Srcs[rng.Intn(len(s.Srcs))]
			k, ns, nm := c18SrcKey(s, src)
			s.Steps = append(s.Steps, c18Step{Op: "put", Kind: k, NS: ns, Name: nm, Vals: c18Vals(rng), L: rng.Intn(4) == 0})
		case x < 38 && len(s.Srcs) > 0:
			src := s.Srcs[rng.Intn(len(s.Srcs))]
			k, ns, nm := c18SrcKey(s, src)
			s.Steps = append(s.Steps, c18Step{Op: "del", Kind: k, NS: ns, Name: nm})
		case x < 41 && len(s.Srcs) > 0:
			src := s.Srcs[rng.Intn(len(s.Srcs))]
			k, ns, nm := c18SrcKey(s, src)
			s.Steps = append(s.Steps, c18Step{Op: "unlabel", Kind: k, NS: ns, Name: nm})
		case x < 75:
			s.Steps = append(s.Steps, c18Step{Op: "rec"})
		case x < 79:
			s.Steps = append(s.Steps, c18Step{Op: "restart"})
		case x < 82:
			s.Steps = append(s.Steps, c18Step{Op: "deltmpl"})
		case x < 86:
			envN++
			s.Steps = append(s.Steps, c18Step{Op: "setenv", V: fmt.Sprintf("e%d", envN)})
		case x < 91:
			vals := c18Vals(rng)
			if rng.Intn(2) == 0 {
				vals = []c18KV{{"f0", "x9"}}
			}
			s.Steps = append(s.Steps, c18Step{Op: "put", Kind: tk, NS: tns, Name: tn, Vals: vals, L: rng.Intn(2) == 0})
		case x < 93:
			s.Steps = append(s.Steps, c18Step{Op: "del", Kind: tk, NS: tns, Name: tn})
		case x < 95:
			s.Steps = append(s.Steps, c18Step{Op: "unlabel", Kind: tk, NS: tns, Name: tn})
		default:
			st := c18Step{Op: "status", Kind: tk, NS: tns, Name: tn, ObsGen: []int{-1, -1, 1, 7}[rng.Intn(4)]}
			for j, m := 0, rng.Intn(3); j < m; j++ {
				st.Conds = append(st.Conds, c18OCond{T: pick("Ready", "pko/Avail"), S: rng.Intn(2) == 0, Og: pick("cur", "cur", "stale")})
			}
			s.Steps = append(s.Steps, st)
		}
	}
	return s
}

// c18Tables: small finite tables enumerated exhaustively.
func c18Tables() []c18Scn {
	var out []c18Scn
	rec := c18Step{Op: "rec"}
	okItem := []c18Item{{KF: "dot", KK: "a", D: ".a"}}
	// (A) source bounds: flavour x kind x namespace x optional x {absent, unlabelled, labelled}
	for _, cluster := range []bool{false, true} {
		for _, kind := range []string{"NK", "CK", "UK"} {
			for _, ns := range []string{"", c18TmplNS, c18OtherNS} {
				for _, opt := range []bool{false, true} {
					for _, ex := range []string{"absent", "plain", "labelled"} {
						for _, strict := range []bool{true, false} {
							s := c18Scn{Cluster: cluster, Env: "e0",
								Tmpl: c18Tmpl{Form: "ok", Kind: "NK", NS: c18TmplNS, Refs: []c18Ref{{D: "a", Strict: strict}}},
								Srcs: []c18Src{{Kind: kind, NS: ns, Name: "s0", Opt: opt, Items: okItem}}}
							k, n, nm := c18SrcKey(s, s.Srcs[0])
							if ex != "absent" {
								s.Steps = append(s.Steps, c18Step{Op: "put", Kind: k, NS: n, Name: nm, Vals: []c18KV{{"a", "x1"}}, L: ex == "labelled"})
							}
							s.Steps = append(s.Steps, rec, rec,
								c18Step{Op: "put", Kind: k, NS: n, Name: nm, Vals: []c18KV{{"a", "x2"}}}, rec,
								c18Step{Op: "del", Kind: k, NS: n, Name: nm}, rec,
								c18Step{Op: "deltmpl"}, rec)
							out = append(out, s)
						}
					}
				}
			}
		}
	}
	// (B) target bounds: flavour x kind x namespace x ownerReference x pre-existing target
	for _, cluster := range []bool{false, true} {
		for _, kind := range []string{"NK", "CK", "UK"} {
			for _, ns := range []string{"", c18TmplNS, c18OtherNS} {
				for _, own := range []bool{false, true} {
					for _, ex := range []string{"absent", "plain", "labelled"} {
						s := c18Scn{Cluster: cluster, Env: "e0", Peer: true,
							Tmpl: c18Tmpl{Form: "ok", Kind: kind, NS: ns, Own: own, Env: true}}
						k, n, nm := c18TgtKey(s)
						if ex != "absent" {
							s.Steps = append(s.Steps, c18Step{Op: "put", Kind: k, NS: n, Name: nm, Vals: []c18KV{{"env", "zz"}}, L: ex == "labelled"})
						}
						s.Steps = append(s.Steps, rec, rec, c18Step{Op: "setenv", V: "e1"}, rec,
							c18Step{Op: "restart"}, rec, c18Step{Op: "deltmpl"}, rec, rec)
						out = append(out, s)
					}
				}
			}
		}
	}
	// (C) template forms x reference strictness x source state
	for _, cluster := range []bool{false, true} {
		for _, form := range []string{"ok", "parse", "yaml", "nokind"} {
			for _, strict := range []bool{true, false} {
				for _, opt := range []bool{false, true} {
					for _, present := range []bool{false, true} {
						s := c18Scn{Cluster: cluster, Env: "e0",
							Tmpl: c18Tmpl{Form: form, Kind: "NK", NS: c18TmplNS, Env: true, Refs: []c18Ref{{D: "a", Strict: strict}, {D: "b", Strict: false}}},
							Srcs: []c18Src{{Kind: "NK", NS: c18TmplNS, Name: "s0", Opt: opt, Items: okItem}}}
						if present {
							s.Steps = append(s.Steps, c18Step{Op: "put", Kind: "NK", NS: c18TmplNS, Name: "s0", Vals: []c18KV{{"a", "x1"}}})
						}
						s.Steps = append(s.Steps, rec, rec, c18Step{Op: "put", Kind: "NK", NS: c18TmplNS, Name: "s0", Vals: []c18KV{{"a", "x3"}}}, rec)
						out = append(out, s)
					}
				}
			}
		}
	}
	// (D) item forms: key form x key present x destination form, second item after it
	for _, kf := range []string{"dot", "bare", "brace", "bbare", "name", "bad", "empty"} {
		for _, kk := range []string{"a", "zz"} {
			for _, d := range []string{".a", ".b", "a", ""} { // "" panicked before the fix of finding C19-b
				for _, opt := range []bool{false, true} {
					s := c18Scn{Env: "e0",
						Tmpl: c18Tmpl{Form: "ok", Kind: "NK", Refs: []c18Ref{{D: "a", Strict: false}, {D: "b", Strict: false}}},
						Srcs: []c18Src{{Kind: "NK", Name: "s0", Opt: opt, Items: []c18Item{{KF: kf, KK: kk, D: d}, {KF: "dot", KK: "b", D: ".b"}}}}}
					s.Steps = append(s.Steps, c18Step{Op: "put", Kind: "NK", NS: c18TmplNS, Name: "s0", Vals: []c18KV{{"a", "x1"}, {"b", "x2"}}},
						rec, rec)
					out = append(out, s)
				}
			}
		}
	}
	// (E) mapped conditions of the templated object: status.observedGeneration x condition generation
	for _, cluster := range []bool{false, true} {
		for _, og := range []int{-1, 1, 7} {
			for _, cg := range []string{"cur", "stale"} {
				for _, st := range []bool{true, false} {
					s := c18Scn{Cluster: cluster, Env: "e0", Tmpl: c18Tmpl{Form: "ok", Kind: "NK", NS: c18TmplNS, Env: true}}
					s.Steps = append(s.Steps, rec,
						c18Step{Op: "status", Kind: "NK", NS: c18TmplNS, Name: "t", ObsGen: og,
							Conds: []c18OCond{{T: "Ready", S: st, Og: cg}, {T: "pko/Avail", S: !st, Og: "cur"}}},
						rec, c18Step{Op: "setenv", V: "e1"}, rec, rec)
					out = append(out, s)
				}
			}
		}
	}
	return out
}

func TestVerifC18(t *testing.T) {
	r := verifkit.Open(t, "C18")
	defer r.Close()
	seen := map[string]bool{}
	run := func(s c18Scn) {
		s.norm()
		b, _ := json.Marshal(s)
		if seen[string(b)] {
			return
		}
		seen[string(b)] = true
		out := verifkit.Guard(func() string { return c18Exec(s) })
		r.Emit(string(b), out, c18Tags(s, out)...)
	}
	for _, line := range r.Fixed() {
		var s c18Scn
		if err := json.Unmarshal([]byte(line), &s); err != nil {
			t.Fatalf("bad scenario %q: %v", line, err)
		}
		run(s)
	}
	if r.ReplayOnly() {
		return
	}
	tables := c18Tables()
	for _, s := range tables {
		run(s)
	}
	r.Extra["table_scenarios"] = len(tables)
	n := r.Pick(4000, 60000)
	for i := 0; i < n; i++ {
		run(c18Random(r.Rng))
	}
}
