package objecttemplate

// Correspondence stream "objecttemplate" of property C11 (no write before preflight passes, and
// never outside the owner's namespace — the ObjectTemplate clause).  Same machinery as the C18
// harness (zz_verif_c18_test.go: real controllers built by their exported constructors on
// verifstore, one Reconcile per `rec` step), but the histories concentrate on what C11 is about:
//
// the identity of the RENDERED object — kind, metadata.namespace, ownerReferences — is template
// OUTPUT and depends on the values pulled from the sources (c18Sw), which change while the
// ObjectTemplate itself (spec, metadata.generation, uid) stays exactly as it is.  A history
// renders a legal object first, then the SOURCE is edited so that the same template renders an
// object the ObjectTemplate must not write (cluster-scoped kind, other namespace, unknown API,
// own ownerReferences, no namespace under a ClusterObjectTemplate) — in the same operator
// process, and with a restart of the process in between (`restart` builds a new controller).
// The Lean side (driver Pko.Drv.C11Tmpl) replays the history on the stateless model and judges
// every implementation pass: each pass' verdict is a function of THIS pass' rendered object.

import (
	"encoding/json"
	"fmt"
	"math/rand"
	"strings"
	"testing"

	"package-operator.run/internal/verifkit"
)

const (
	c11SwKey = "a"  // config key the switch reads
	c11SwOn  = "x9" // value that turns it on
)

func c11Switches(cluster bool) []c18Sw { return c18Switches(cluster, c11SwKey, c11SwOn) }

func c11SrcPut(s c18Scn, v string, labelled bool) c18Step {
	k, ns, nm := c18SrcKey(s, s.Srcs[0])
	return c18Step{Op: "put", Kind: k, NS: ns, Name: nm, Vals: []c18KV{{c11SwKey, v}}, L: labelled}
}

// c11TmplBase: one required source s0 whose data key `a` feeds config key `a`; the template prints
// it (lenient reference) and the environment, so the payload follows source and environment too.
func c11TmplBase(cluster bool, sw c18Sw, tns string) c18Scn {
	srcNS := ""
	if cluster {
		srcNS = c18TmplNS
	}
	return c18Scn{Cluster: cluster, Env: "e0",
		Tmpl: c18Tmpl{Form: "ok", Kind: "NK", NS: tns, Env: true, Refs: []c18Ref{{D: c11SwKey, Strict: false}}, Sw: &sw},
		Srcs: []c18Src{{Kind: "NK", NS: srcNS, Name: "s0", Items: []c18Item{{KF: "dot", KK: c11SwKey, D: "." + c11SwKey}}}}}
}

// c11TmplTable: flavour x switch x namespace line x history shape, exhaustively.
func c11TmplTable() []c18Scn {
	var out []c18Scn
	rec := c18Step{Op: "rec"}
	restart := c18Step{Op: "restart"}
	for _, cluster := range []bool{false, true} {
		tnss := []string{"", c18TmplNS}
		if cluster {
			tnss = []string{c18TmplNS}
		}
		for _, sw := range c11Switches(cluster) {
			for _, tns := range tnss {
				b := c11TmplBase(cluster, sw, tns)
				on, off, off2 := c11SrcPut(b, c11SwOn, false), c11SrcPut(b, "x1", false), c11SrcPut(b, "x2", false)
				hist := [][]c18Step{
					// legal first, then the source flips it — same process; and back
					{off, rec, rec, on, rec, rec, off2, rec},
					// the same with a restart of the operator between the source edit and the next pass
					{off, rec, on, restart, rec, rec},
					// violating from the start, then legal, then violating again
					{on, rec, rec, off, rec, on, rec, rec},
					// flipped while the environment changes as well; restart afterwards; deletion
					{off, rec, c18Step{Op: "setenv", V: "e1"}, on, rec, restart, rec, c18Step{Op: "deltmpl"}, rec},
					// the source disappears and comes back with the flipping value
					{off, rec, c18Step{Op: "del", Kind: on.Kind, NS: on.NS, Name: on.Name}, rec, on, rec, rec},
					// a legal object is there already (labelled / unlabelled) when the switch is thrown
					{c11SrcPut(b, "x1", true), rec, rec, rec, on, rec, off, rec, on, rec},
				}
				for _, h := range hist {
					s := b
					s.Steps = append([]c18Step{}, h...)
					out = append(out, s)
				}
			}
		}
	}
	return out
}

// c11TmplRandom: random templates of the C18 family with a random switch on one of their config
// keys, 1-3 sources, and a history of source edits (values drawn from a tiny set, so the switch is
// thrown and released often), passes, restarts, environment changes and third-party edits of the
// templated object at whichever key it currently lives.
func c11TmplRandom(rng *rand.Rand) c18Scn {
	pick := func(xs ...string) string { return xs[rng.Intn(len(xs))] }
	cluster := rng.Intn(3) == 0
	sws := c11Switches(cluster)
	sw := sws[rng.Intn(len(sws))]
	tns := pick("", c18TmplNS)
	if cluster {
		tns = pick(c18TmplNS, c18OtherNS)
	}
	s := c11TmplBase(cluster, sw, tns)
	s.Peer = rng.Intn(3) == 0
	s.Tmpl.Env = rng.Intn(2) == 0
	if rng.Intn(3) == 0 {
		s.Tmpl.Kind = "NK2"
	}
	if cluster && rng.Intn(4) == 0 {
		s.Tmpl.Kind, s.Tmpl.NS = "CK", ""
	}
	if rng.Intn(4) == 0 { // the switch value arrives under another key form
		s.Srcs[0].Items[0].KF = pick("bare", "brace", "bbare")
	}
	s.Srcs[0].Opt = rng.Intn(4) == 0
	for i, n := 1, rng.Intn(3); i <= n; i++ { // further sources feeding further references
		src := c18Src{Kind: pick("NK", "NK2"), Name: fmt.Sprintf("s%d", i), Opt: rng.Intn(3) == 0,
			Items: []c18Item{{KF: "dot", KK: "b", D: "." + pick("b", "c")}}}
		if cluster {
			src.NS = pick(c18TmplNS, c18OtherNS)
		}
		if rng.Intn(10) == 0 { // ... one of which may overwrite the switch's key
			src.Items[0].D = "." + c11SwKey
		}
		s.Srcs = append(s.Srcs, src)
		s.Tmpl.Refs = append(s.Tmpl.Refs, c18Ref{D: strings.TrimPrefix(src.Items[0].D, "."), Strict: rng.Intn(3) == 0})
	}
	val := func() string { return pick(c11SwOn, c11SwOn, "x1", "x2") }
	putSrc := func(i int) c18Step {
		k, ns, nm := c18SrcKey(s, s.Srcs[i])
		kk := s.Srcs[i].Items[0].KK
		return c18Step{Op: "put", Kind: k, NS: ns, Name: nm, Vals: []c18KV{{kk, val()}}, L: rng.Intn(5) == 0}
	}
	// where the templated object lives while the switch is off / on
	tgts := [][2]string{{s.Tmpl.Kind, s.Tmpl.NS}}
	onKind, onNS := s.Tmpl.Kind, s.Tmpl.NS
	if sw.Kind != "" {
		onKind = sw.Kind
	}
	if sw.NS != "=" {
		onNS = sw.NS
	}
	tgts = append(tgts, [2]string{onKind, onNS})
	tgt := func() (string, string) {
		t := tgts[rng.Intn(len(tgts))]
		ns := t[1]
		if !cluster {
			ns = c18TmplNS
		}
		if scoped, ok := c18Scopes[t[0]]; ok && !scoped {
			ns = ""
		}
		return t[0], ns
	}
	for i := range s.Srcs {
		if rng.Intn(5) != 0 {
			st := putSrc(i)
			if i == 0 && rng.Intn(3) != 0 {
				st.Vals[0].V = pick("x1", "x2") // mostly legal at first
			}
			s.Steps = append(s.Steps, st)
		}
	}
	envN := 0
	for i, m := 0, 4+rng.Intn(10); i < m; i++ {
		switch x := rng.Intn(100); {
		case x < 25:
			s.Steps = append(s.Steps, putSrc(0))
		case x < 32:
			s.Steps = append(s.Steps, putSrc(rng.Intn(len(s.Srcs))))
		case x < 36:
			k, ns, nm := c18SrcKey(s, s.Srcs[rng.Intn(len(s.Srcs))])
			s.Steps = append(s.Steps, c18Step{Op: "del", Kind: k, NS: ns, Name: nm})
		case x < 76:
			s.Steps = append(s.Steps, c18Step{Op: "rec"})
		case x < 83:
			s.Steps = append(s.Steps, c18Step{Op: "restart"})
		case x < 85:
			s.Steps = append(s.Steps, c18Step{Op: "deltmpl"})
		case x < 89:
			envN++
			s.Steps = append(s.Steps, c18Step{Op: "setenv", V: fmt.Sprintf("e%d", envN)})
		case x < 95:
			k, ns := tgt()
			s.Steps = append(s.Steps, c18Step{Op: "put", Kind: k, NS: ns, Name: "t", Vals: []c18KV{{"f0", "zz"}}, L: rng.Intn(2) == 0})
		case x < 98:
			k, ns := tgt()
			s.Steps = append(s.Steps, c18Step{Op: "del", Kind: k, NS: ns, Name: "t"})
		default:
			k, ns := tgt()
			s.Steps = append(s.Steps, c18Step{Op: "unlabel", Kind: k, NS: ns, Name: "t"})
		}
	}
	s.Steps = append(s.Steps, c18Step{Op: "rec"})
	return s
}

// c11TmplTags: the C18 tags plus how the switch was exercised: `sw-thrown-after-legal-pass` = some
// pass ran with the switch on after an earlier pass of the SAME process ran with it off.
func c11TmplTags(s c18Scn, out string) []string {
	tags := c18Tags(s, out)
	if s.Tmpl.Sw == nil || len(s.Srcs) == 0 {
		return tags
	}
	sw := s.Tmpl.Sw
	tags = append(tags, fmt.Sprintf("sw=kind:%s,ns:%s,own:%v", sw.Kind, sw.NS, sw.Own))
	// (approximation on the scenario alone: the value last put into source 0)
	on, legalPassInProcess, thrown, thrownAfterRestart, restarted := false, false, false, false, false
	k0, ns0, nm0 := c18SrcKey(s, s.Srcs[0])
	for _, st := range s.Steps {
		switch st.Op {
		case "put":
			if st.Kind == k0 && st.NS == ns0 && st.Name == nm0 && len(st.Vals) > 0 {
				on = st.Vals[0].V == sw.V
			}
		case "del":
			if st.Kind == k0 && st.NS == ns0 && st.Name == nm0 {
				on = false
			}
		case "restart":
			legalPassInProcess = false
			restarted = true
		case "rec":
			if on && legalPassInProcess {
				thrown = true
			}
			if on && restarted && !legalPassInProcess {
				thrownAfterRestart = true
			}
			if !on {
				legalPassInProcess = true
			}
		}
	}
	if thrown {
		tags = append(tags, "sw-thrown-after-legal-pass")
	}
	if thrownAfterRestart {
		tags = append(tags, "sw-on-in-fresh-process")
	}
	return tags
}

func TestVerifC11Tmpl(t *testing.T) {
	r := verifkit.Open(t, "C11TMPL")
	defer r.Close()
	seen := map[string]bool{}
	run := func(s c18Scn) {
		s.norm()
		b, _ := json.Marshal(s)
		if seen[string(b)] {
			return
		}
		seen[string(b)] = true
		out := verifkit.Guard(func() string { return c18Exec(s) })
		r.Emit(string(b), out, c11TmplTags(s, out)...)
	}
	for _, line := range r.Fixed() {
		var s c18Scn
		if err := json.Unmarshal([]byte(line), &s); err != nil {
			t.Fatalf("bad scenario %q: %v", line, err)
		}
		run(s)
	}
	if r.ReplayOnly() {
		return
	}
	tables := c11TmplTable()
	for _, s := range tables {
		run(s)
	}
	r.Extra["table_scenarios"] = len(tables)
	n := r.Pick(1500, 12000)
	for i := 0; i < n; i++ {
		run(c11TmplRandom(r.Rng))
	}
}
