package controllers_test

import (
	"encoding/json"
	"testing"

	"package-operator.run/internal/verifkit"
	. "package-operator.run/internal/verifsys"
)

func TestVerifSys(t *testing.T) {
	r := verifkit.Open(t, "SYS")
	defer r.Close()
	run := func(s Scn) {
		out := verifkit.Guard(func() string { return Exec(s) })
		r.Emit(s, out, append(Tags(s, out), EnvTags(s, out)...)...)
	}
	for _, line := range r.Fixed() {
		var s Scn
		if err := json.Unmarshal([]byte(line), &s); err != nil {
			t.Fatalf("bad scenario: %v", err)
		}
		run(s)
	}
	if r.ReplayOnly() {
		return
	}
	n := r.Pick(3000, 40000)
	for i := 0; i < n; i++ {
		run(Random(r.Rng, true))
	}
	// scripted, mostly successful lifecycles (rollout, pause cycle, handover, archival / deletion), perturbed
	n = r.Pick(1500, 20000)
	for i := 0; i < n; i++ {
		run(Scripted(r.Rng, i%2 == 1))
	}
	// histories with delegated phases and the real same-cluster ObjectSetPhase controller
	n = r.Pick(2000, 30000)
	for i := 0; i < n; i++ {
		run(Random(r.Rng, false))
	}
	// (S1B) loss of a delegated phase's API object — deleted by a third party plainly, with orphan
	// propagation or by force — recovery by both controllers, handover to the next revision
	n = r.Pick(600, 2000)
	for i := 0; i < n; i++ {
		run(PhaseLoss(r.Rng))
	}
	// environment behaviour beyond edits of single objects (gen_env.go): refused writes on managed
	// objects, passes on a stale read of their ObjectSet, kinds served under two API versions,
	// kinds re-registered with another scope while the controllers keep running
	n = r.Pick(250, 2500)
	for i := 0; i < n; i++ {
		run(Faulted(r.Rng))
		run(Stale(r.Rng))
		run(Versioned(r.Rng))
		run(Rescoped(r.Rng))
	}
	// lost status updates during the roll-out of delegated phases, then teardown
	n = r.Pick(400, 4000)
	for i := 0; i < n; i++ {
		run(LostStatus(r.Rng))
	}
	// pause racing the first passes of the phase controllers
	n = r.Pick(400, 4000)
	for i := 0; i < n; i++ {
		run(PauseRace(r.Rng))
	}
}

// TestVerifSysSlices (property C04, stream "slices"): rolled-out ObjectSets keeping objects in
// ObjectSlices are archived / deleted while third parties delete slices at arbitrary points.
func TestVerifSysSlices(t *testing.T) {
	r := verifkit.Open(t, "SYSSLICES")
	defer r.Close()
	run := func(s Scn) {
		out := verifkit.Guard(func() string { return Exec(s) })
		r.Emit(s, out, SlicedTags(s, out)...)
	}
	for _, line := range r.Fixed() {
		var s Scn
		if err := json.Unmarshal([]byte(line), &s); err != nil {
			t.Fatalf("bad scenario: %v", err)
		}
		run(s)
	}
	if r.ReplayOnly() {
		return
	}
	n := r.Pick(1500, 6000)
	for i := 0; i < n; i++ {
		run(Sliced(r.Rng))
	}
}
