package controllers_test

import (
	"encoding/json"
	"math/rand"
	"runtime"
	"sync"
	"testing"

	"package-operator.run/internal/verifkit"
	. "package-operator.run/internal/verifsys"
)

func TestVerifSys(t *testing.T) {
	r := verifkit.Open(t, "SYS")
	defer r.Close()
	run := func(s Scn) {
		out := verifkit.Guard(func() string { return Exec(s) })
		r.Emit(s, out, append(append(Tags(s, out), EnvTags(s, out)...), ProbeTags(s, out)...)...)
	}
	for _, line := range r.Fixed() {
		var s Scn
		if err := json.Unmarshal([]byte(line), &s); err != nil {
			t.Fatalf("bad scenario: %v", err)
		}
		run(s)
	}
	if r.ReplayOnly() {
		return
	}
	n := r.Pick(3000, 40000)
	for i := 0; i < n; i++ {
		run(Random(r.Rng, true))
	}
	// scripted, mostly successful lifecycles (rollout, pause cycle, handover, archival / deletion), perturbed
	n = r.Pick(1500, 20000)
	for i := 0; i < n; i++ {
		run(Scripted(r.Rng, i%2 == 1))
	}
	// histories with delegated phases and the real same-cluster ObjectSetPhase controller
	n = r.Pick(2000, 30000)
	for i := 0; i < n; i++ {
		run(Random(r.Rng, false))
	}
	// (S1B) loss of a delegated phase's API object — deleted by a third party plainly, with orphan
	// propagation or by force — recovery by both controllers, handover to the next revision
	n = r.Pick(600, 2000)
	for i := 0; i < n; i++ {
		run(PhaseLoss(r.Rng))
	}
	// environment behaviour beyond edits of single objects (gen_env.go): refused writes on managed
	// objects, passes on a stale read of their ObjectSet, kinds served under two API versions,
	// kinds re-registered with another scope while the controllers keep running
	n = r.Pick(250, 2500)
	for i := 0; i < n; i++ {
		run(Faulted(r.Rng))
		run(Stale(r.Rng))
		run(Versioned(r.Rng))
		run(Rescoped(r.Rng))
	}
	// lost status updates during the roll-out of delegated phases, then teardown
	n = r.Pick(400, 4000)
	for i := 0; i < n; i++ {
		run(LostStatus(r.Rng))
	}
	// pause racing the first passes of the phase controllers
	n = r.Pick(400, 4000)
	for i := 0; i < n; i++ {
		run(PauseRace(r.Rng))
	}
	// what the probes look at and what ProbeFailure names (gen_probe.go): manifests carrying a `.status`
	// stanza of their own, phase names occurring in the ProbeFailure message of other phases, the first
	// failing phase moving forwards / backwards from pass to pass
	n = r.Pick(250, 2500)
	for i := 0; i < n; i++ {
		run(Decorated(r.Rng))
		run(Gated(r.Rng))
	}
	// API discovery degraded during some passes: REST-mapper lookups of some kinds fail with a
	// transient (non-NoMatch) error — in roll-out and in teardown passes, incl. ObjectSets listing
	// objects they may never touch that exist carrying a reference to them (gen_env.go: MapFaulted)
	n = r.Pick(500, 4000)
	for i := 0; i < n; i++ {
		run(MapFaulted(r.Rng))
	}
}

// TestVerifSysSlices (property C04, stream "slices"): rolled-out ObjectSets keeping objects in
// ObjectSlices are archived / deleted while third parties delete slices at arbitrary points.
func TestVerifSysSlices(t *testing.T) {
	r := verifkit.Open(t, "SYSSLICES")
	defer r.Close()
	run := func(s Scn) {
		out := verifkit.Guard(func() string { return Exec(s) })
		r.Emit(s, out, SlicedTags(s, out)...)
	}
	for _, line := range r.Fixed() {
		var s Scn
		if err := json.Unmarshal([]byte(line), &s); err != nil {
			t.Fatalf("bad scenario: %v", err)
		}
		run(s)
	}
	if r.ReplayOnly() {
		return
	}
	n := r.Pick(1500, 6000)
	for i := 0; i < n; i++ {
		run(Sliced(r.Rng))
	}
}

// TestVerifSysTeardown (property C04, stream "teardown"): rolled-out ObjectSets with local and
// delegated phases are archived / deleted while third parties write to or delete an object exactly
// between the GET and the DELETE / PATCH of its own teardown (gen_teardown.go).
func TestVerifSysTeardown(t *testing.T) {
	r := verifkit.Open(t, "SYSTEARDOWN")
	defer r.Close()
	run := func(s Scn) {
		out := verifkit.Guard(func() string { return Exec(s) })
		r.Emit(s, out, TeardownTags(s, out)...)
	}
	for _, line := range r.Fixed() {
		var s Scn
		if err := json.Unmarshal([]byte(line), &s); err != nil {
			t.Fatalf("bad scenario: %v", err)
		}
		run(s)
	}
	if r.ReplayOnly() {
		return
	}
	// The generator probes the code under test (it runs every history two or three times), so the
	// scenarios are built and run on all cores: each one from its own random source, seeded in
	// order from the stream's; they are independent (own store, own controllers) and emitted in order.
	n := r.Pick(700, 5000)
	seeds := make([]int64, n)
	for i := range seeds {
		seeds[i] = r.Rng.Int63()
	}
	scns := make([]Scn, n)
	outs := make([]string, n)
	var wg sync.WaitGroup
	sem := make(chan struct{}, runtime.NumCPU())
	for i := range seeds {
		wg.Add(1)
		sem <- struct{}{}
		go func(i int) {
			defer wg.Done()
			defer func() { <-sem }()
			outs[i] = verifkit.Guard(func() string {
				scns[i] = TeardownRace(rand.New(rand.NewSource(seeds[i])))
				return Exec(scns[i])
			})
		}(i)
	}
	wg.Wait()
	for i := range scns {
		r.Emit(scns[i], outs[i], TeardownTags(scns[i], outs[i])...)
	}
}
