package controllers_test

import (
	"encoding/json"
	"testing"

	"package-operator.run/internal/verifkit"
	. "package-operator.run/internal/verifsys"
)

func TestVerifSys(t *testing.T) {
	r := verifkit.Open(t, "SYS")
	defer r.Close()
	run := func(s Scn) {
		out := verifkit.Guard(func() string { return Exec(s) })
		r.Emit(s, out, Tags(s, out)...)
	}
	for _, line := range r.Fixed() {
		var s Scn
		if err := json.Unmarshal([]byte(line), &s); err != nil {
			t.Fatalf("bad scenario: %v", err)
		}
		run(s)
	}
	if r.ReplayOnly() {
		return
	}
	n := r.Pick(3000, 40000)
	for i := 0; i < n; i++ {
		run(Random(r.Rng, true))
	}
	// scripted, mostly successful lifecycles (rollout, pause cycle, handover, archival / deletion), perturbed
	n = r.Pick(1500, 20000)
	for i := 0; i < n; i++ {
		run(Scripted(r.Rng, i%2 == 1))
	}
	// histories with delegated phases and the real same-cluster ObjectSetPhase controller
	n = r.Pick(2000, 30000)
	for i := 0; i < n; i++ {
		run(Random(r.Rng, false))
	}
}

// TestVerifSysSlices (property C04, stream "slices"): rolled-out ObjectSets keeping objects in
// ObjectSlices are archived / deleted while third parties delete slices at arbitrary points.
func TestVerifSysSlices(t *testing.T) {
	r := verifkit.Open(t, "SYSSLICES")
	defer r.Close()
	run := func(s Scn) {
		out := verifkit.Guard(func() string { return Exec(s) })
		r.Emit(s, out, SlicedTags(s, out)...)
	}
	for _, line := range r.Fixed() {
		var s Scn
		if err := json.Unmarshal([]byte(line), &s); err != nil {
			t.Fatalf("bad scenario: %v", err)
		}
		run(s)
	}
	if r.ReplayOnly() {
		return
	}
	n := r.Pick(1500, 6000)
	for i := 0; i < n; i++ {
		run(Sliced(r.Rng))
	}
}
