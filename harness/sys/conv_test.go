package controllers_test

import (
	"encoding/json"
	"runtime"
	"sync"
	"testing"

	"package-operator.run/internal/verifkit"
	. "package-operator.run/internal/verifsys"
)

// TestVerifConv is the C10 stream: disturbed lifecycles vs their undisturbed reference runs.
func TestVerifConv(t *testing.T) {
	r := verifkit.Open(t, "CONV")
	defer r.Close()
	var scns []Scn
	for _, line := range r.Fixed() {
		var s Scn
		if err := json.Unmarshal([]byte(line), &s); err != nil {
			t.Fatalf("bad scenario: %v", err)
		}
		scns = append(scns, s)
	}
	if !r.ReplayOnly() {
		// every API call of every pass of a few lifecycles as a single injection point, in every mode
		nb := r.Pick(6, 40)
		for i := 0; i < nb; i++ {
			base := ConvBase(r.Rng, i%2 == 1)
			scns = append(scns, base)
			AllSingleFaults(base, func(s Scn) { scns = append(scns, s) })
		}
		// random fault sequences and drift
		n := r.Pick(900, 8000)
		for i := 0; i < n; i++ {
			base := ConvBase(r.Rng, i%2 == 1)
			scns = append(scns, Disturb(r.Rng, base, r.Rng.Intn(4), r.Rng.Intn(3)))
		}
		// lifecycles whose desired state contains a PAUSED revision (generated after the others, so
		// that those stay what they were for a given seed): every API call of every pass behind the
		// pause as a single injection point in every mode (mode crash = the operator restarts while a
		// revision is paused) for a few of them - the first a single revision with local phases, the
		// second delegated - ...
		np := r.Pick(2, 4)
		for i := 0; i < np; i++ {
			base := ConvPaused(r.Rng, i%2 == 1, i >= 2 && r.Rng.Intn(2) == 0)
			scns = append(scns, base)
			AllSingleFaults(base, func(s Scn) { scns = append(scns, s) })
		}
		// ... and random ones with 1-2 operator restarts and 0-2 faults behind the pause
		m := r.Pick(120, 800)
		for i := 0; i < m; i++ {
			base := ConvPaused(r.Rng, i%2 == 1, r.Rng.Intn(2) == 0)
			scns = append(scns, DisturbPaused(r.Rng, base, r.Rng.Intn(3), 1+r.Rng.Intn(2)))
		}
	}
	// scenarios are independent (each has its own store and controllers): run them on all cores,
	// emit in generation order
	outs := make([]string, len(scns))
	var wg sync.WaitGroup
	sem := make(chan struct{}, runtime.NumCPU())
	for i := range scns {
		wg.Add(1)
		sem <- struct{}{}
		go func(i int) {
			defer wg.Done()
			defer func() { <-sem }()
			outs[i] = verifkit.Guard(func() string { return ExecConv(scns[i]) })
		}(i)
	}
	wg.Wait()
	for i, s := range scns {
		r.Emit(s, outs[i], ConvTags(s, outs[i])...)
	}
}
