package controllers_test

import (
	"encoding/json"
	"runtime"
	"sync"
	"testing"

	"package-operator.run/internal/verifkit"
	. "package-operator.run/internal/verifsys"
)

// TestVerifSysHandover (property C08, stream "handover"): the REAL ObjectDeployment controller and the
// REAL ObjectSet / ObjectSetPhase controllers on one store (harness/verifsys/od.go, gen_handover.go).
//
// Scenarios are generated sequentially (seeded), executed on a worker pool — every scenario has its
// own store, cache and controllers — and emitted in generation order.
func TestVerifSysHandover(t *testing.T) {
	r := verifkit.Open(t, "SYSHANDOVER")
	defer r.Close()
	runAll := func(scns []Scn) {
		outs := make([]string, len(scns))
		var wg sync.WaitGroup
		next := make(chan int, len(scns))
		for i := range scns {
			next <- i
		}
		close(next)
		for w := 0; w < runtime.GOMAXPROCS(0); w++ {
			wg.Add(1)
			go func() {
				defer wg.Done()
				for i := range next {
					s := scns[i]
					outs[i] = verifkit.Guard(func() string { return Exec(s) })
				}
			}()
		}
		wg.Wait()
		for i, s := range scns {
			r.Emit(s, outs[i], HandoverTags(s, outs[i])...)
		}
	}
	var fixed []Scn
	for _, line := range r.Fixed() {
		var s Scn
		if err := json.Unmarshal([]byte(line), &s); err != nil {
			t.Fatalf("bad scenario: %v", err)
		}
		fixed = append(fixed, s)
	}
	runAll(fixed)
	if r.ReplayOnly() {
		return
	}
	runAll(HandoverExhaustive(r.Pick(0, 1)))
	n := r.Pick(2500, 20000)
	scns := make([]Scn, 0, n)
	for i := 0; i < n; i++ {
		scns = append(scns, Handover(r.Rng))
	}
	runAll(scns)
}
