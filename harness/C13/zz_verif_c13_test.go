package packagerender_test

// Correspondence harness for property C13 (package rendering is deterministic and loses or
// duplicates no object).  Injected by `go test -overlay`.
//
// For every generated (or replayed) package the REAL pipeline
//     RenderPackageInstance -> RenderObjectSetTemplateSpec -> ComputeFNV32Hash
// is run many times, every time on a freshly built Files map (insertion order shuffled, Go
// randomises the start of every map range), and all results must be identical (`nondet`
// otherwise).  Independently the harness computes the per-file LEAF results (text/template
// execution against the original files, YAML splitting/parsing, CEL evaluation, glob matching,
// per-object validators) by calling the leaf functions directly; they are written into the
// scenario line, from which the Lean model must reproduce the pipeline's final result.

import (
	"bytes"
	"context"
	"encoding/json"
	"errors"
	"fmt"
	"math/rand"
	"sort"
	"strings"
	"testing"
	"text/template"

	"github.com/bmatcuk/doublestar"
	metav1 "k8s.io/apimachinery/pkg/apis/meta/v1"
	"k8s.io/apimachinery/pkg/apis/meta/v1/unstructured"
	"k8s.io/apimachinery/pkg/labels"
	"sigs.k8s.io/controller-runtime/pkg/client"
	"sigs.k8s.io/yaml"

	corev1alpha1 "package-operator.run/apis/core/v1alpha1"
	"package-operator.run/internal/apis/manifests"
	"package-operator.run/internal/packages/internal/packagerender"
	"package-operator.run/internal/packages/internal/packagerender/celctx"
	"package-operator.run/internal/packages/internal/packagetypes"
	"package-operator.run/internal/packages/internal/packagevalidation"
	"package-operator.run/internal/transform"
	"package-operator.run/internal/utils"
	"package-operator.run/internal/verifkit"
)

// ---------------------------------------------------------------- scenario format

type c13Obj struct {
	ID  int         `json:"id"`  // identity: index of the object's fingerprint (content without labels/annotations)
	E   bool        `json:"e"`   // empty document
	L   [][2]string `json:"l"`   // labels, sorted by key
	A   [][2]string `json:"a"`   // annotations, sorted by key
	Cel int         `json:"cel"` // leaf: CEL evaluation of the condition annotation: 0 n/a, 1 true, 2 false, 3 error
	V   bool        `json:"v"`   // leaf: GVK and label validators accept the object
	K   string      `json:"k"`   // leaf: key of the duplicate validator
}

type c13Docs struct {
	OK   bool     `json:"ok"` // every document is valid YAML (for an object)
	Objs []c13Obj `json:"objs"`
}

type c13File struct {
	P string `json:"p"`
	C string `json:"c"`
	// leaves (computed by the harness, ignored on input)
	TP  bool    `json:"tp"`  // template parses
	TX  bool    `json:"tx"`  // template executes (against the ORIGINAL files)
	Own c13Docs `json:"own"` // YAML reading of the file's own bytes
	Out c13Docs `json:"out"` // YAML reading of the template output
}

type c13Cond struct {
	N string `json:"n"`
	E string `json:"e"`
}

type c13CPath struct {
	G string `json:"g"`
	E string `json:"e"`
	R int    `json:"r"` // leaf: CEL result of the expression: 0 false, 1 true, 2 error
}

type c13Glob struct {
	P string `json:"p"` // path in the final file map
	R []int  `json:"r"` // leaf: doublestar.PathMatch per conditional path: 0 no, 1 match, 2 error
}

type c13Scn struct {
	Name     string         `json:"name"`
	Inst     string         `json:"inst"`
	Phases   []string       `json:"phases"`
	Conds    []c13Cond      `json:"conds"`
	CPaths   []c13CPath     `json:"cpaths"`
	Config   map[string]any `json:"config"`
	Validate bool           `json:"validate"`
	Files    []c13File      `json:"files"`
	Perm     []int          `json:"perm"` // iteration order of the file map used by the MODEL
	Ord      []int          `json:"ord"`  // iteration orders of the other map ranges used by the MODEL
	Renders  int            `json:"renders"`
	// leaves
	CelCtx bool      `json:"celctx"`
	Globs  []c13Glob `json:"globs"`
}

// ---------------------------------------------------------------- building the real inputs

func c13Manifest(s *c13Scn) *manifests.PackageManifest {
	m := &manifests.PackageManifest{ObjectMeta: metav1.ObjectMeta{Name: s.Name}}
	for _, p := range s.Phases {
		m.Spec.Phases = append(m.Spec.Phases, manifests.PackageManifestPhase{Name: p})
	}
	for _, c := range s.Conds {
		m.Spec.Filters.Conditions = append(m.Spec.Filters.Conditions,
			manifests.PackageManifestNamedCondition{Name: c.N, Expression: c.E})
	}
	for _, c := range s.CPaths {
		m.Spec.Filters.Paths = append(m.Spec.Filters.Paths,
			manifests.PackageManifestPath{Glob: c.G, Expression: c.E})
	}
	return m
}

func c13Ctx(s *c13Scn) packagetypes.PackageRenderContext {
	cfg := s.Config
	if cfg == nil {
		cfg = map[string]any{}
	}
	return packagetypes.PackageRenderContext{
		Package: manifests.TemplateContextPackage{
			TemplateContextObjectMeta: manifests.TemplateContextObjectMeta{Name: s.Inst, Namespace: "ns"},
			Image:                     "quay.io/x/y:v1",
		},
		Config:      cfg,
		Images:      map[string]string{"app": "quay.io/x/app@sha256:00"},
		Environment: manifests.PackageEnvironment{Kubernetes: manifests.PackageEnvironmentKubernetes{Version: "v1.29.0"}},
	}
}

// files builds a fresh map, inserting in a shuffled order.
func c13FilesMap(s *c13Scn, rng *rand.Rand) packagetypes.Files {
	fm := packagetypes.Files{}
	idx := make([]int, len(s.Files))
	for i := range idx {
		idx[i] = i
	}
	if rng != nil {
		rng.Shuffle(len(idx), func(i, j int) { idx[i], idx[j] = idx[j], idx[i] })
	}
	for _, i := range idx {
		fm[s.Files[i].P] = []byte(s.Files[i].C)
	}
	return fm
}

// ---------------------------------------------------------------- leaves

type c13FP struct {
	ids map[string]int
}

func c13Fingerprint(u unstructured.Unstructured) string {
	c := u.DeepCopy()
	unstructured.RemoveNestedField(c.Object, "metadata", "labels")
	unstructured.RemoveNestedField(c.Object, "metadata", "annotations")
	b, err := json.Marshal(c.Object)
	if err != nil {
		return "!" + err.Error()
	}
	return string(b)
}

func (f *c13FP) id(u unstructured.Unstructured) int {
	k := c13Fingerprint(u)
	if v, ok := f.ids[k]; ok {
		return v
	}
	v := len(f.ids)
	f.ids[k] = v
	return v
}

func c13Pairs(m map[string]string) [][2]string {
	out := make([][2]string, 0, len(m))
	for k, v := range m {
		out = append(out, [2]string{k, v})
	}
	sort.Slice(out, func(i, j int) bool { return out[i][0] < out[j][0] })
	return out
}

// c13ReadDocs is the YAML leaf: split + unmarshal every document (as parseObjects does).
func c13ReadDocs(s *c13Scn, m *manifests.PackageManifest, cc *celctx.CelCtx, fp *c13FP, path string, content []byte) c13Docs {
	d := c13Docs{OK: true, Objs: []c13Obj{}}
	ctx := context.Background()
	for _, doc := range packagetypes.SplitYAMLDocuments(content) {
		u := unstructured.Unstructured{}
		if err := yaml.Unmarshal(doc, &u); err != nil {
			return c13Docs{OK: false, Objs: []c13Obj{}}
		}
		o := c13Obj{L: [][2]string{}, A: [][2]string{}}
		if len(u.Object) == 0 {
			o.E = true
			o.ID = -1
			d.Objs = append(d.Objs, o)
			continue
		}
		o.ID = fp.id(u)
		o.L = c13Pairs(u.GetLabels())
		o.A = c13Pairs(u.GetAnnotations())
		if expr, ok := u.GetAnnotations()[manifests.PackageCELConditionAnnotation]; ok {
			o.Cel = 3
			if cc != nil {
				if r, err := cc.Evaluate(expr); err == nil {
					if r {
						o.Cel = 1
					} else {
						o.Cel = 2
					}
				}
			}
		}
		merged := *u.DeepCopy()
		merged.SetLabels(labels.Merge(merged.GetLabels(), packagerender.VerifCommonLabels(m, s.Inst)))
		one := map[string][]unstructured.Unstructured{path: {merged}}
		o.V = (&packagevalidation.ObjectGVKValidator{}).ValidateObjects(ctx, m, one) == nil &&
			(&packagevalidation.ObjectLabelsValidator{}).ValidateObjects(ctx, m, one) == nil
		o.K = fmt.Sprintf("%s %s", u.GroupVersionKind().GroupKind().String(), client.ObjectKeyFromObject(&u).String())
		d.Objs = append(d.Objs, o)
	}
	return d
}

// c13Leaves fills in every leaf field of the scenario.
func c13Leaves(s *c13Scn) *c13FP {
	m := c13Manifest(s)
	tc := c13Ctx(s)
	fp := &c13FP{ids: map[string]int{}}
	cc, err := celctx.New(m.Spec.Filters.Conditions, tc)
	s.CelCtx = err == nil
	if err != nil {
		cc = nil
	}
	for i := range s.CPaths {
		s.CPaths[i].R = 2
		if cc != nil {
			if r, err := cc.Evaluate(s.CPaths[i].E); err == nil {
				if r {
					s.CPaths[i].R = 1
				} else {
					s.CPaths[i].R = 0
				}
			}
		}
	}

	// template leaf: text/template + allowed sprig + file functions over the ORIGINAL files + cel
	orig := c13FilesMap(s, nil)
	outputs := map[int][]byte{}
	allParsed := true
	var templ *template.Template
	if cc != nil {
		if _, err := packagerender.VerifTemplateContext(tc); err != nil {
			panic(err)
		}
		templ = template.New("pkg").Option("missingkey=error")
		templ = templ.Funcs(transform.SprigFuncs(templ)).Funcs(transform.FileFuncs(orig))
		celFn, err := packagerender.VerifCelTemplateFunction(m.Spec.Filters.Conditions, tc)
		if err != nil {
			panic(err)
		}
		templ = templ.Funcs(celFn)
		for i := range s.Files {
			f := &s.Files[i]
			f.TP, f.TX = true, false
			if !packagetypes.IsTemplateFile(f.P) {
				continue
			}
			if _, err := templ.New(f.P).Parse(f.C); err != nil {
				f.TP = false
				allParsed = false
			}
		}
		if allParsed {
			for i := range s.Files {
				f := &s.Files[i]
				if !packagetypes.IsTemplateFile(f.P) {
					continue
				}
				// the leaf is a function of (template, context): every template gets a fresh context,
				// as RenderTemplates does since the C13-c fix
				tctx, err := packagerender.VerifTemplateContext(tc)
				if err != nil {
					panic(err)
				}
				var buf bytes.Buffer
				if err := templ.ExecuteTemplate(&buf, f.P, tctx); err == nil {
					f.TX = true
					outputs[i] = buf.Bytes()
				}
			}
		}
	} else {
		for i := range s.Files {
			s.Files[i].TP, s.Files[i].TX = true, false
		}
	}

	final := map[string]bool{}
	for i := range s.Files {
		f := &s.Files[i]
		final[f.P] = true
		f.Own = c13ReadDocs(s, m, cc, fp, f.P, []byte(f.C))
		f.Out = c13Docs{OK: true, Objs: []c13Obj{}}
		if out, ok := outputs[i]; ok {
			sp := packagetypes.StripTemplateSuffix(f.P)
			final[sp] = true
			f.Out = c13ReadDocs(s, m, cc, fp, sp, out)
		}
	}
	paths := make([]string, 0, len(final))
	for p := range final {
		paths = append(paths, p)
	}
	sort.Strings(paths)
	s.Globs = []c13Glob{}
	for _, p := range paths {
		g := c13Glob{P: p, R: make([]int, len(s.CPaths))}
		for i, cp := range s.CPaths {
			ok, err := doublestar.PathMatch(cp.G, p)
			switch {
			case err != nil:
				g.R[i] = 2
			case ok:
				g.R[i] = 1
			}
		}
		s.Globs = append(s.Globs, g)
	}
	return fp
}

// ---------------------------------------------------------------- running the real pipeline

func c13ErrKind(err error) string {
	var ve packagetypes.ViolationError
	switch {
	case errors.Is(err, packagerender.VerifErrConstructingCelCtx):
		return "celctx"
	case strings.HasPrefix(err.Error(), "parsing template from "):
		return "tmplparse"
	case strings.HasPrefix(err.Error(), "executing template from "):
		return "tmplexec"
	case errors.Is(err, packagerender.ErrInvalidConditionalPathsExpression):
		return "condpath"
	case errors.Is(err, doublestar.ErrBadPattern):
		return "filter"
	case errors.As(err, &ve):
		switch ve.Reason {
		case packagetypes.ViolationReasonInvalidYAML:
			return "yaml"
		case packagetypes.ViolationReasonInvalidCELExpression:
			return "filter"
		default:
			return "validate"
		}
	case errors.Is(err, celctx.ErrContextUnpack), errors.Is(err, celctx.ErrEnvCreation),
		errors.Is(err, celctx.ErrInvalidCELConditionName), errors.Is(err, celctx.ErrDuplicateCELConditionName),
		errors.Is(err, celctx.ErrCELConditionEvaluation):
		return "celctx"
	}
	return "other:" + verifkit.Esc(err.Error())
}

func c13ObjStr(s *c13Scn, fp *c13FP, o corev1alpha1.ObjectSetObject) string {
	id := -1
	if v, ok := fp.ids[c13Fingerprint(o.Object)]; ok {
		id = v
	}
	lab := o.Object.GetLabels()
	flag := "X"
	if lab[manifests.PackageLabel] == s.Name && lab[manifests.PackageInstanceLabel] == s.Inst {
		flag = "L"
	}
	ann := "-"
	if a := o.Object.GetAnnotations(); a != nil {
		keys := make([]string, 0, len(a))
		for k := range a {
			keys = append(keys, verifkit.Esc(k))
		}
		sort.Strings(keys)
		ann = "{" + strings.Join(keys, "+") + "}"
	}
	return fmt.Sprintf("%d|%s%d|%s", id, flag, len(lab), ann)
}

// c13Render runs the real pipeline once; returns the canonical line and a determinism key
// (canonical line + full JSON of the spec + FNV hash of the template).
func c13Render(s *c13Scn, fp *c13FP, rng *rand.Rand) (line, key string) {
	line = verifkit.Guard(func() string {
		ctx := context.Background()
		pkg := &packagetypes.Package{Manifest: c13Manifest(s), Files: c13FilesMap(s, rng)}
		var ov packagetypes.ObjectValidator
		if s.Validate {
			ov = packagevalidation.DefaultObjectValidators
		}
		inst, err := packagerender.RenderPackageInstance(ctx, pkg, c13Ctx(s), nil, ov)
		if err != nil {
			return "err " + c13ErrKind(err)
		}
		spec := packagerender.RenderObjectSetTemplateSpec(inst)
		var phases []string
		for _, ph := range spec.Phases {
			objs := make([]string, len(ph.Objects))
			for i, o := range ph.Objects {
				objs[i] = c13ObjStr(s, fp, o)
			}
			phases = append(phases, verifkit.Esc(ph.Name)+"="+strings.Join(objs, ","))
		}
		full, err := json.Marshal(spec)
		if err != nil {
			return "err marshal"
		}
		hash := utils.ComputeFNV32Hash(corev1alpha1.ObjectSetTemplate{Spec: spec}, nil)
		key = string(full) + " " + hash
		return "ok [" + strings.Join(phases, ";") + "]"
	})
	return line, line + " " + key
}

func c13Run(r *verifkit.Run, s *c13Scn, tags ...string) {
	// pkg.Files is a map: a later entry with the same path replaces an earlier one
	last := map[string]int{}
	for i, f := range s.Files {
		last[f.P] = i
	}
	files := make([]c13File, 0, len(s.Files))
	for i, f := range s.Files {
		if last[f.P] == i {
			files = append(files, f)
		}
	}
	s.Files = files
	fp := c13Leaves(s)
	if s.Renders < 20 {
		s.Renders = 20
	}
	rng := rand.New(rand.NewSource(r.Seed*7919 + int64(len(s.Files))))
	first, firstKey := c13Render(s, fp, rng)
	out := first
	distinct := map[string]string{firstKey: first}
	for i := 1; i < s.Renders; i++ {
		l, k := c13Render(s, fp, rng)
		if _, ok := distinct[k]; !ok {
			distinct[k] = l
		}
	}
	if len(distinct) > 1 {
		lines := map[string]bool{}
		for _, l := range distinct {
			lines[l] = true
		}
		ls := make([]string, 0, len(lines))
		for l := range lines {
			ls = append(ls, l)
		}
		sort.Strings(ls)
		out = fmt.Sprintf("nondet distinct=%d lines=%d %s", len(distinct), len(ls), strings.Join(ls, " || "))
		tags = append(tags, "nondet")
	}
	tags = append(tags, c13Tags(s, first)...)
	r.Emit(s, out, tags...)
}

func c13Tags(s *c13Scn, out string) []string {
	tags := []string{}
	switch {
	case strings.HasPrefix(out, "ok [] "), out == "ok []":
		tags = append(tags, "ok-empty")
	case strings.HasPrefix(out, "ok"):
		tags = append(tags, "ok")
	case strings.HasPrefix(out, "err "):
		tags = append(tags, strings.ReplaceAll(out, " ", "-"))
	default:
		tags = append(tags, "other")
	}
	nt, nobj, multi, celAnn, filtered, helper := 0, 0, false, false, false, false
	known := map[string]bool{}
	for _, p := range s.Phases {
		known[p] = true
	}
	for _, f := range s.Files {
		if strings.Contains(f.C, "package-operator.run/phase: |") || strings.Contains(f.C, "package-operator.run/phase: >") {
			tags = append(tags, "phase-blockscalar")
		}
		if strings.Contains(f.C, "package-operator.run/phase: \"") || strings.Contains(f.C, "package-operator.run/phase: '") {
			tags = append(tags, "phase-quoted")
		}
		if packagetypes.IsTemplateFile(f.P) && strings.Contains(f.C, ".config.phase") {
			tags = append(tags, "phase-templated")
		}
		if packagetypes.IsTemplateFile(f.P) {
			nt++
			if strings.Contains(f.C, "getFile") {
				tags = append(tags, "t-getfile")
			}
			if strings.Contains(f.C, "include ") || strings.Contains(f.C, "template ") {
				tags = append(tags, "t-include")
			}
		}
		if strings.HasPrefix(f.P[strings.LastIndex(f.P, "/")+1:], "_") {
			helper = true
		}
		for _, d := range [][]c13Obj{f.Own.Objs, f.Out.Objs} {
			if len(d) > 1 {
				multi = true
			}
			for _, o := range d {
				if !o.E {
					nobj++
				}
				if o.Cel != 0 {
					celAnn = true
				}
				if o.Cel == 2 {
					filtered = true
				}
				for _, kv := range o.A {
					if kv[0] != manifests.PackagePhaseAnnotation {
						continue
					}
					switch v := kv[1]; {
					case v == "":
						tags = append(tags, "phase-empty")
					case known[v]:
					case known[strings.TrimSpace(v)]:
						tags = append(tags, "phase-padded") // a phase name with surrounding white space
					default:
						tags = append(tags, "phase-unknown")
					}
				}
			}
		}
	}
	if nt > 0 {
		tags = append(tags, "templates")
	}
	if multi {
		tags = append(tags, "multidoc")
	}
	if celAnn {
		tags = append(tags, "cel-annotation")
	}
	if filtered {
		tags = append(tags, "cel-filtered")
	}
	if helper {
		tags = append(tags, "helper")
	}
	if len(s.CPaths) > 0 {
		tags = append(tags, "condpaths")
		for _, g := range s.Globs {
			for i, r := range g.R {
				if r == 1 && s.CPaths[i].R == 0 {
					tags = append(tags, "path-excluded")
				}
				if lit := s.CPaths[i].G; !strings.ContainsAny(lit, `*?[]{}\`) {
					tags = append(tags, "cpath-literal")
					if r == 1 {
						tags = append(tags, "cpath-literal-match")
					}
					// a literal that does not match a path it is a mere string prefix of
					if r == 0 && s.CPaths[i].R == 0 && strings.HasPrefix(g.P, strings.TrimSuffix(lit, "/")) {
						tags = append(tags, "cpath-literal-prefix-of-kept-path")
					}
				}
			}
		}
	}
	if !s.Validate {
		tags = append(tags, "novalidate")
	}
	if len(s.Phases) > 1 {
		tags = append(tags, "multiphase")
	}
	if nobj == 0 {
		tags = append(tags, "trivial")
	}
	// de-duplicate
	seen := map[string]bool{}
	outTags := tags[:0]
	for _, t := range tags {
		if !seen[t] {
			seen[t] = true
			outTags = append(outTags, t)
		}
	}
	return outTags
}

// ---------------------------------------------------------------- generator

type c13Gen struct {
	rng    *rand.Rand
	n      int // object counter
	h      int // helper-template counter
	phases []string
	conds  []c13Cond
	bad    map[string]bool // malformed features to inject
	data   []string        // non-YAML data files present in the package
	inTmpl bool            // the document being generated is part of a .gotmpl file
	exotic bool            // write (some) phase annotations in unusual but exact YAML forms
	ownDef string          // a `define` to be placed at the top of the next ordinary template file
}

func (g *c13Gen) pick(xs ...string) string { return xs[g.rng.Intn(len(xs))] }
func (g *c13Gen) chance(p float64) bool    { return g.rng.Float64() < p }

// c13PhaseShape is one way of writing the value of the phase annotation in YAML.  `Y` is put right
// after "package-operator.run/phase:" (%s = the phase name; continuation lines are indented by six
// blanks, i.e. below the annotation key); Exact tells whether the value read back is the name itself.
type c13PhaseShape struct {
	Name  string
	Y     string
	Exact bool
	Tmpl  bool // needs a template (uses .config.phase instead of %s)
}

var c13PhaseShapes = []c13PhaseShape{
	// exact: the annotation's value IS the phase name
	{"plain", " %s", true, false},
	{"dquoted", ` "%s"`, true, false},
	{"squoted", " '%s'", true, false},
	{"block-strip", " |-\n      %s", true, false},
	{"folded-strip", " >-\n      %s", true, false},
	{"tmpl", " {{ .config.phase }}", true, true},
	{"tmpl-quote", " {{ .config.phase | quote }}", true, true},
	{"tmpl-block-strip", " |-\n      {{ .config.phase }}", true, true},
	// padded: surrounding white space belongs to the value, which therefore names no phase
	{"pad-trailing-blank", ` "%s "`, false, false},
	{"pad-leading-blank", ` " %s"`, false, false},
	{"pad-both-squoted", " '  %s  '", false, false},
	{"pad-trailing-newline", ` "%s\n"`, false, false},
	{"pad-leading-tab", ` "\t%s"`, false, false},
	{"block-clip", " |\n      %s", false, false},
	{"folded-clip", " >\n      %s", false, false},
	{"block-keep", " |+\n      %s\n", false, false},
	{"tmpl-pad", ` "{{ .config.phase }} "`, false, true},
	{"tmpl-printf-pad", ` {{ printf " %s" .config.phase | quote }}`, false, true},
	{"tmpl-block-clip", " |\n      {{ .config.phase }}", false, true},
	{"tmpl-folded-clip", " >\n      {{ .config.phase }}", false, true},
}

func (sh c13PhaseShape) yaml(phase string) string {
	if sh.Tmpl {
		return "    package-operator.run/phase:" + sh.Y + "\n"
	}
	return "    package-operator.run/phase:" + fmt.Sprintf(sh.Y, phase) + "\n"
}

func (g *c13Gen) shape(exact bool) c13PhaseShape {
	for {
		sh := c13PhaseShapes[g.rng.Intn(len(c13PhaseShapes))]
		if sh.Exact == exact && (!sh.Tmpl || g.inTmpl) {
			return sh
		}
	}
}

// phaseAnn returns the YAML line(s) of the phase annotation ("" = no annotation).
// Templated shapes name .config.phase, which the scenario sets to the first manifest phase.
func (g *c13Gen) phaseAnn() string {
	ph := g.phases[g.rng.Intn(len(g.phases))]
	switch {
	case g.bad["unknownphase"] && g.chance(0.3):
		// names no manifest phase: another word, another case, a longer / shorter name
		ph = g.pick("nosuchphase", strings.ToUpper(ph[:1])+ph[1:], ph+"2", ph[:len(ph)-1], ph+"/"+ph)
	case g.bad["missingphase"] && g.chance(0.3):
		return g.pick("", "    package-operator.run/phase: \"\"\n", "    package-operator.run/phase: ''\n")
	case g.bad["padphase"] && g.chance(0.35):
		return g.shape(false).yaml(ph)
	}
	if g.exotic && g.chance(0.5) {
		return g.shape(true).yaml(ph)
	}
	return "    package-operator.run/phase: " + ph + "\n"
}

func (g *c13Gen) celExpr() string {
	opts := []string{"true", "false", "config.flag", "!config.flag", `config.size == "big"`, "has(config.extra)",
		`environment.kubernetes.version == "v1.29.0"`}
	for _, c := range g.conds {
		opts = append(opts, "cond."+c.N)
	}
	if g.bad["badcel"] && g.chance(0.4) {
		return g.pick("1 +", `"notbool"`, "cond.nosuch", "nosuchvar.x")
	}
	return opts[g.rng.Intn(len(opts))]
}

// objDoc returns one YAML document; nameExpr/valExpr may contain template actions.
func (g *c13Gen) objDoc(nameSuffix, valExpr string) string {
	g.n++
	kind, api := "ConfigMap", "v1"
	switch g.rng.Intn(5) {
	case 0:
		kind = "Secret"
	case 1:
		kind, api = "Deployment", "apps/v1"
	}
	if g.bad["nokind"] && g.chance(0.2) {
		kind = ""
	}
	name := fmt.Sprintf("o%d%s", g.n, nameSuffix)
	if g.bad["dupobj"] && g.chance(0.4) {
		name, kind, api = "dup", "ConfigMap", "v1"
	}
	var b strings.Builder
	fmt.Fprintf(&b, "apiVersion: %s\n", api)
	if kind != "" {
		fmt.Fprintf(&b, "kind: %s\n", kind)
	}
	fmt.Fprintf(&b, "metadata:\n  name: %s\n", name)
	if g.chance(0.5) {
		b.WriteString("  namespace: ns\n")
	}
	var ann []string
	if pa := g.phaseAnn(); pa != "" {
		ann = append(ann, pa)
	}
	if g.chance(0.3) {
		ann = append(ann, fmt.Sprintf("    package-operator.run/condition: '%s'\n", g.celExpr()))
	}
	if g.chance(0.15) {
		ann = append(ann, "    package-operator.run/collision-protection: IfNoController\n")
	}
	if g.chance(0.15) {
		ann = append(ann, "    package-operator.run/condition-map: |\n      Available => my.prefix/Available\n      Ready => my.prefix/Ready\n")
	}
	if g.chance(0.3) {
		ann = append(ann, "    example.com/owner: team-a\n")
	}
	if g.chance(0.15) {
		ann = append(ann, "    note: keep\n")
	}
	g.rng.Shuffle(len(ann), func(i, j int) { ann[i], ann[j] = ann[j], ann[i] })
	if len(ann) > 0 {
		b.WriteString("  annotations:\n" + strings.Join(ann, ""))
	} else if g.chance(0.3) {
		b.WriteString("  annotations: {}\n")
	}
	switch g.rng.Intn(4) {
	case 0:
		b.WriteString("  labels:\n    app: demo\n")
	case 1:
		b.WriteString("  labels:\n    app: demo\n    package-operator.run/package: spoofed\n    tier: \"1\"\n")
	}
	if valExpr == "" {
		valExpr = fmt.Sprintf("v%d", g.rng.Intn(100))
	}
	if kind == "Deployment" {
		fmt.Fprintf(&b, "spec:\n  replicas: %d\n  paused: false\n  note: %s\n", g.rng.Intn(3), valExpr)
	} else {
		fmt.Fprintf(&b, "data:\n  key: %s\n", valExpr)
	}
	return b.String()
}

func (g *c13Gen) plainYAML() string {
	nd := 1 + g.rng.Intn(3)
	var docs []string
	for i := 0; i < nd; i++ {
		switch {
		case g.chance(0.12):
			docs = append(docs, "") // empty document
		case g.chance(0.08):
			docs = append(docs, "# only a comment\n")
		case g.bad["badyaml"] && g.chance(0.3):
			docs = append(docs, g.pick("foo: [1, 2\n", "just a scalar\n", "a: b: c\n", "- list\n- of\n- things\n"))
		default:
			docs = append(docs, g.objDoc("", ""))
		}
	}
	sep := "---\n"
	s := strings.Join(docs, sep)
	if g.chance(0.3) {
		s = "---\n" + s
	}
	return s
}

// helper definitions live in a `_*.gotmpl` file; names are unique per package.
func (g *c13Gen) helper() (name, def string) {
	g.h++
	name = fmt.Sprintf("h%d", g.h)
	switch g.rng.Intn(3) {
	case 0:
		def = fmt.Sprintf(`{{- define "%s" -}}from-%s-{{ .package.metadata.name }}{{- end -}}`, name, name)
	case 1:
		def = fmt.Sprintf(`{{- define "%s" -}}{{ .config.greeting | upper }}{{- end -}}`, name)
	default:
		def = fmt.Sprintf(`{{- define "%s" -}}{{ default "dflt" .config.size | b64enc }}{{- end -}}`, name)
	}
	return name, def + "\n"
}

func (g *c13Gen) templateYAML(helpers []string, otherPaths []string) string {
	g.inTmpl = true
	defer func() { g.inTmpl = false }()
	var b strings.Builder
	if g.ownDef != "" {
		// a `define` in an ORDINARY template file (not a `_helper`): every template of the package may
		// use it, whichever file is parsed or executed first
		b.WriteString(g.ownDef)
		g.ownDef = ""
	}
	nd := 1 + g.rng.Intn(3)
	for i := 0; i < nd; i++ {
		if i > 0 {
			b.WriteString("---\n")
		}
		k := g.rng.Intn(14)
		switch {
		case k == 12 || k == 13:
			// templates that MODIFY the context they were handed (the C13-c shape): set / unset / merge work
			// in place, so a context shared between templates would leak from one template into the ones
			// executed after it — in map iteration order
			b.WriteString(g.objDoc("", g.pick(
				`{{ hasKey .config "mark" | quote }}{{ $_ := set .config "mark" "1" }}`,
				`{{ get .config "mark" | default "none" | quote }}{{ $_ := set .config "mark" .package.metadata.name }}`,
				`{{ keys .config | sortAlpha | join "," | quote }}{{ $_ := mergeOverwrite .config (dict "extra" "1") }}`,
				`{{ hasKey .images "probe" | quote }}{{ $_ := set .images "probe" "x" }}`,
				// ... an ELEMENT of a list, a map below it, a map in a list in a map in a list
				`"{{ range .config.backends }}{{ get . "port" | default "none" }},{{ end }}"{{ range .config.backends }}{{ $_ := set . "port" "8080" }}{{ end }}`,
				`"{{ range .config.backends }}{{ .opts.tls }},{{ end }}"{{ range .config.backends }}{{ $_ := set .opts "tls" "changed" }}{{ end }}`,
				`"{{ range .config.backends }}{{ range (get . "tags" | default list) }}{{ .k }}{{ end }},{{ end }}"{{ range .config.backends }}{{ range (get . "tags" | default list) }}{{ $_ := set . "k" "changed" }}{{ end }}{{ end }}`,
				`"{{ (index .config.backends 0).name }}"{{ $_ := unset (index .config.backends 0) "name" }}{{ $_ := set (index .config.backends 0) "name" "renamed" }}`)))
		case k == 0:
			b.WriteString(g.objDoc("-{{ .package.metadata.name }}", `{{ .config.greeting | upper | quote }}`))
		case k == 1:
			cond := g.pick(`cel "config.flag"`, `cel "!config.flag"`, ".config.flag", `eq .config.size "big"`)
			if len(g.conds) > 0 && g.chance(0.5) {
				cond = fmt.Sprintf(`cel "cond.%s"`, g.conds[g.rng.Intn(len(g.conds))].N)
			}
			b.WriteString("{{- if " + cond + " }}\n" + g.objDoc("", "") + "{{- end }}\n")
		case k == 2:
			b.WriteString("{{- range $i := until 2 }}\n---\n" + g.objDoc("-r{{ $i }}", `{{ add $i 10 | quote }}`) + "{{- end }}\n")
		case k == 3 && len(helpers) > 0:
			h := helpers[g.rng.Intn(len(helpers))]
			b.WriteString(g.objDoc("", fmt.Sprintf(`{{ include "%s" . | quote }}`, h)))
		case k == 4 && len(helpers) > 0:
			h := helpers[g.rng.Intn(len(helpers))]
			b.WriteString(g.objDoc("", fmt.Sprintf(`"{{ template "%s" . }}"`, h)))
		case k == 5:
			p := "data/notes.txt"
			if len(g.data) > 0 && g.chance(0.9) {
				p = g.data[g.rng.Intn(len(g.data))]
			}
			b.WriteString(g.objDoc("", fmt.Sprintf(`{{ getFile "%s" | b64enc | quote }}`, p)))
		case k == 6:
			pat := g.pick("data/*", "**.txt", "*.md", "data/**")
			b.WriteString(g.objDoc("", fmt.Sprintf(`"{{ range $p, $c := getFileGlob "%s" }}{{ $p }}={{ len $c }},{{ end }}"`, pat)))
		case k == 7:
			// reads paths that include other templates' outputs (the C13-a shape)
			pat := g.pick("*.yaml", "**.yaml", "**", "a/*", "{a,b,c,z}.y*ml")
			b.WriteString(g.objDoc("", fmt.Sprintf(`"{{ range $p, $c := getFileGlob "%s" }}{{ $p }},{{ end }}"`, pat)))
		case k == 8 && len(otherPaths) > 0 && g.chance(0.5):
			p := otherPaths[g.rng.Intn(len(otherPaths))]
			b.WriteString(g.objDoc("", fmt.Sprintf(`{{ getFile "%s" | sha256sum | quote }}`, p)))
		case k == 9:
			// map-order sensitive sprig functions (the C13-b shape)
			b.WriteString(g.objDoc("", g.pick(`{{ keys .config | join "," | quote }}`,
				`{{ values (dict "a" 1 "b" 2 "c" 3 "d" 4) | join "," | quote }}`,
				`{{ keys (dict "z" 1 "y" 2) .config | join "," | quote }}`)))
		default:
			b.WriteString(g.objDoc("", `{{ dict "a" .config.size "b" (len .images) | toJson | quote }}`))
		}
	}
	s := b.String()
	switch {
	case g.bad["tmplparse"] && g.chance(0.5):
		s += "{{ if }}\n"
	case g.bad["tmplexec"] && g.chance(0.5):
		s += g.pick("# {{ .config.nope.deeper }}\n", "# {{ fail \"boom\" }}\n", "# {{ getFile \"no/such/file\" }}\n")
	}
	return s
}

// c13Literals lists the globs WITHOUT any pattern syntax that can be cut out of a path: the path
// itself, every folder above it with and without trailing slash, the path without extension and the
// leading part of every path element up to a `-`, `.` or digit (`a` of `a-b.yaml`, `a/b` of `a/b-c.yaml`).
func c13Literals(path string) []string {
	seen := map[string]bool{}
	var out []string
	add := func(l string) {
		if l != "" && !seen[l] {
			seen[l] = true
			out = append(out, l)
		}
	}
	add(path)
	for i := 0; i < len(path); i++ {
		switch c := path[i]; {
		case c == '/':
			add(path[:i])
			add(path[:i+1])
		case (c == '-' || c == '.' || (c >= '0' && c <= '9')) && i > 0 && path[i-1] != '/':
			add(path[:i])
			add(path[:i] + "/")
		}
	}
	return out
}

var c13PathPool = []string{
	"a.yaml", "b.yml", "c.yaml", "a/b.yaml", "a-b.yaml", "a.b.yaml", "a/b/c.yaml", "a/c.yaml", "ab.yaml", "z.yaml",
	"d/e.yaml", "d-e.yaml", "d.yaml", "A.yaml", "0.yaml", "a/b-c.yaml", "a/b/d.yml", "a0.yaml", "a/0.yaml", "d/e/f.yaml",
}

func (g *c13Gen) scenario() *c13Scn {
	s := &c13Scn{Name: g.pick("demo", "my-pkg"), Inst: g.pick("inst-1", "prod"), Validate: !g.chance(0.15)}
	g.n, g.h = 0, 0
	g.bad = map[string]bool{}
	if g.chance(0.3) {
		feats := []string{"unknownphase", "missingphase", "badcel", "nokind", "dupobj", "badyaml", "tmplparse", "tmplexec",
			"badcond", "badcpath", "badglob", "doublesuffix", "padphase"}
		for i := 0; i < 1+g.rng.Intn(2); i++ {
			g.bad[feats[g.rng.Intn(len(feats))]] = true
		}
	}
	if g.chance(0.1) { // the ways a phase annotation can fail to name a phase get a share of their own
		g.bad[g.pick("unknownphase", "missingphase", "padphase")] = true
	}
	g.exotic = g.chance(0.3)
	np := 1 + g.rng.Intn(4)
	all := []string{"crds", "namespace", "rbac", "deploy", "post"}
	g.rng.Shuffle(len(all), func(i, j int) { all[i], all[j] = all[j], all[i] })
	g.phases = append([]string{}, all[:np]...)
	s.Phases = g.phases
	s.Config = map[string]any{"flag": g.chance(0.5), "size": g.pick("big", "small"), "greeting": g.pick("hello", "hi there")}
	if g.chance(0.3) {
		s.Config["extra"] = map[string]any{"x": 1}
	}
	s.Config["phase"] = g.phases[0] // what templated phase annotations evaluate to
	// lists of maps, maps below lists below maps: everything a template can change in place
	s.Config["backends"] = []any{
		map[string]any{"name": "a", "opts": map[string]any{"tls": false}},
		map[string]any{"name": "b", "opts": map[string]any{"tls": true}, "tags": []any{map[string]any{"k": "v"}}},
	}
	g.conds = nil
	for i := 0; i < g.rng.Intn(3); i++ {
		g.conds = append(g.conds, c13Cond{N: fmt.Sprintf("c%d", i), E: g.pick("config.flag", "!config.flag", `config.size == "big"`, "true")})
	}
	if g.bad["badcond"] {
		g.conds = append(g.conds, c13Cond{N: g.pick("bad", "1x"), E: g.pick("1 +", "config.nosuch.x", "true")})
		if g.conds[len(g.conds)-1].N == "bad" && g.conds[len(g.conds)-1].E == "true" {
			g.conds[len(g.conds)-1].E = `"str"`
		}
	}
	s.Conds = g.conds
	if s.Conds == nil {
		s.Conds = []c13Cond{}
	}
	// file tree
	idx := g.rng.Perm(len(c13PathPool))
	nf := 1 + g.rng.Intn(6)
	var yamlPaths []string
	for _, i := range idx[:nf] {
		yamlPaths = append(yamlPaths, c13PathPool[i])
	}
	// conditional paths: wildcard globs, and LITERAL globs (a file path, a folder name with or without
	// trailing slash, a stem) taken from the package's own paths / the pool, so that they sit next to
	// siblings that merely share the prefix (`a` vs `a-b.yaml`, `a/b` vs `a/b-c.yaml`, `d/` vs `d.yaml`)
	s.CPaths = []c13CPath{}
	for i := 0; i < g.rng.Intn(4); i++ {
		cp := c13CPath{G: g.pick("a/**", "a/*", "d/**", "*.yml", "**/c.yaml", "a.yaml", "**"), E: g.celExpr()}
		if g.chance(0.45) {
			from := yamlPaths[g.rng.Intn(len(yamlPaths))]
			if g.chance(0.3) {
				from = c13PathPool[g.rng.Intn(len(c13PathPool))]
			}
			lits := c13Literals(from)
			cp.G = lits[g.rng.Intn(len(lits))]
		}
		if g.chance(0.5) {
			cp.E = g.pick("false", "config.flag", "!config.flag")
		}
		if g.bad["badcpath"] && g.chance(0.5) {
			cp.E = "1 +"
		}
		if g.bad["badglob"] {
			cp.G = g.pick("a/[", "[", "a/**/[b")
			cp.E = "false"
		}
		s.CPaths = append(s.CPaths, cp)
	}
	var helpers []string
	files := []c13File{}
	for i := 0; i < g.rng.Intn(3); i++ {
		name, def := g.helper()
		helpers = append(helpers, name)
		p := g.pick("_helpers.gotmpl", "a/_defs.gotmpl", "_more.tpl.gotmpl", "lib/_h.gotmpl")
		found := false
		for j := range files {
			if files[j].P == p {
				files[j].C += def
				found = true
			}
		}
		if !found {
			files = append(files, c13File{P: p, C: def})
		}
	}
	g.data = nil
	if g.chance(0.5) {
		files = append(files, c13File{P: "data/notes.txt", C: "some notes\nline 2\n"})
		g.data = append(g.data, "data/notes.txt")
	}
	if g.chance(0.3) {
		files = append(files, c13File{P: "data/blob.bin", C: "\x01\x02binary"})
		g.data = append(g.data, "data/blob.bin")
	}
	if g.chance(0.4) {
		files = append(files, c13File{P: "README.md", C: "# readme: not yaml: [\n"})
		g.data = append(g.data, "README.md")
	}
	if g.chance(0.2) {
		files = append(files, c13File{P: g.pick("_skipped.yaml", "a/_skip.yaml"), C: g.pick("this: [is not parsed\n", g.objDoc("", ""))})
	}
	if g.chance(0.15) {
		files = append(files, c13File{P: "data/gen.txt.gotmpl", C: "generated for {{ .package.metadata.name }}\n"})
	}
	for _, p := range yamlPaths {
		switch {
		case g.chance(0.4):
			tp := p + ".gotmpl"
			if g.bad["doublesuffix"] && g.chance(0.5) {
				tp += ".gotmpl"
			}
			if g.chance(0.35) {
				name, def := g.helper()
				g.ownDef = def
				helpers = append(helpers, name) // (templates generated from here on may use it; so may earlier files' later twins)
			}
			files = append(files, c13File{P: tp, C: g.templateYAML(helpers, yamlPaths)})
			if g.chance(0.15) { // a plain file shadowed by the template output
				files = append(files, c13File{P: p, C: g.plainYAML()})
			}
		default:
			files = append(files, c13File{P: p, C: g.plainYAML()})
		}
	}
	g.rng.Shuffle(len(files), func(i, j int) { files[i], files[j] = files[j], files[i] })
	s.Files = files
	s.Perm = g.rng.Perm(len(files))
	s.Ord = make([]int, 8)
	for i := range s.Ord {
		s.Ord[i] = g.rng.Intn(16)
	}
	return s
}

// ---------------------------------------------------------------- small fixed tables (always run)

func c13Doc(name, phase, extraAnn string) string {
	return fmt.Sprintf("apiVersion: v1\nkind: ConfigMap\nmetadata:\n  name: %s\n  annotations:\n    package-operator.run/phase: %s\n%s", name, phase, extraAnn)
}

func c13Table() []*c13Scn {
	base := func(files ...c13File) *c13Scn {
		return &c13Scn{Name: "demo", Inst: "inst-1", Phases: []string{"one", "two", "three"}, Conds: []c13Cond{}, CPaths: []c13CPath{},
			Config: map[string]any{"flag": true, "size": "big", "greeting": "hi"}, Validate: true, Files: files,
			Perm: []int{}, Ord: []int{}}
	}
	var out []*c13Scn
	// every pair of paths from the pool in one phase: exercises the path order exhaustively
	for i := 0; i < len(c13PathPool); i++ {
		for j := i + 1; j < len(c13PathPool); j++ {
			out = append(out, base(
				c13File{P: c13PathPool[i], C: c13Doc("x", "one", "")},
				c13File{P: c13PathPool[j], C: c13Doc("y", "one", "") + "---\n" + c13Doc("z", "two", "")}))
		}
	}
	// the context handed to a template is its own, all the way down: four template files that each read
	// a place of the context and then change it in place (a key of a map, of a map below a map, of an
	// ELEMENT of a list, of a map in a list in a map in a list): whatever the execution order, every
	// one of them reads the original value
	deep := map[string]any{"flag": true, "size": "big", "greeting": "hi", "opts": map[string]any{"inner": map[string]any{"v": "orig"}},
		"backends": []any{map[string]any{"name": "a", "opts": map[string]any{"tls": "orig"}, "tags": []any{map[string]any{"k": "orig"}}}}}
	for _, body := range []string{
		`{{ get .config "mark" | default "orig" | quote }}{{ $_ := set .config "mark" "changed" }}`,
		`{{ .config.opts.inner.v | quote }}{{ $_ := set .config.opts.inner "v" "changed" }}`,
		`"{{ range .config.backends }}{{ get . "port" | default "orig" }}{{ end }}"{{ range .config.backends }}{{ $_ := set . "port" "changed" }}{{ end }}`,
		`"{{ range .config.backends }}{{ .opts.tls }}{{ end }}"{{ range .config.backends }}{{ $_ := set .opts "tls" "changed" }}{{ end }}`,
		`"{{ range .config.backends }}{{ range .tags }}{{ .k }}{{ end }}{{ end }}"{{ range .config.backends }}{{ range .tags }}{{ $_ := set . "k" "changed" }}{{ end }}{{ end }}`,
		`"{{ (index .config.backends 0).name }}"{{ $_ := set (index .config.backends 0) "name" "changed" }}`,
	} {
		var files []c13File
		for i, p := range []string{"a.yaml.gotmpl", "b.yaml.gotmpl", "a/c.yaml.gotmpl", "d/e.yaml.gotmpl"} {
			files = append(files, c13File{P: p, C: c13Doc(fmt.Sprintf("x%d", i), "one", "data:\n  v: "+body+"\n")})
		}
		sc := base(files...)
		sc.Config = deep
		out = append(out, sc)
	}
	// phase order: objects named for phases in every order of the manifest
	perms := [][]string{{"one", "two", "three"}, {"one", "three", "two"}, {"two", "one", "three"}, {"two", "three", "one"}, {"three", "one", "two"}, {"three", "two", "one"}}
	for _, p := range perms {
		s := base(c13File{P: "a.yaml", C: c13Doc("x", "one", "") + "---\n" + c13Doc("y", "two", "") + "---\n" + c13Doc("z", "three", "")})
		s.Phases = p
		out = append(out, s)
	}
	// control annotations: every subset
	ctrl := []string{
		"    package-operator.run/condition: 'true'\n",
		"    package-operator.run/collision-protection: IfNoController\n",
		"    package-operator.run/condition-map: 'A => B'\n",
		"    user/keep: x\n",
	}
	for m := 0; m < 16; m++ {
		extra := ""
		for b := 0; b < 4; b++ {
			if m&(1<<b) != 0 {
				extra += ctrl[b]
			}
		}
		out = append(out, base(c13File{P: "a.yaml", C: c13Doc("x", "two", extra)}))
	}
	// validation on/off with unknown and missing phase
	for _, v := range []bool{true, false} {
		s := base(c13File{P: "a.yaml", C: c13Doc("x", "nosuch", "") + "---\n" + c13Doc("y", "one", "")},
			c13File{P: "b.yaml", C: "apiVersion: v1\nkind: ConfigMap\nmetadata:\n  name: nophase\n"})
		s.Validate = v
		out = append(out, s)
	}
	// conditional paths with a LITERAL glob: every literal that can be cut out of a pool path (file path,
	// folder with / without trailing slash, stem) against a package holding the WHOLE pool, expression
	// false; a few of them with a true and with an erroring expression and next to a wildcard glob
	var lits []string
	seen := map[string]bool{}
	for _, p := range c13PathPool {
		for _, l := range c13Literals(p) {
			if !seen[l] {
				seen[l] = true
				lits = append(lits, l)
			}
		}
	}
	pool := func() []c13File {
		var fs []c13File
		for i, p := range c13PathPool {
			c := c13Doc(fmt.Sprintf("p%d", i), "one", "")
			if i%3 == 0 {
				c += "---\n" + c13Doc(fmt.Sprintf("q%d", i), "two", "")
			}
			fs = append(fs, c13File{P: p, C: c})
		}
		return fs
	}
	for i, l := range lits {
		s := base(pool()...)
		s.CPaths = []c13CPath{{G: l, E: "false"}}
		out = append(out, s)
		if i%6 == 0 {
			s = base(pool()...)
			s.CPaths = []c13CPath{{G: l, E: "config.flag"}, {G: "d/**", E: "!config.flag"}}
			out = append(out, s)
			s = base(pool()...)
			s.CPaths = []c13CPath{{G: "*.yml", E: "false"}, {G: l, E: "1 +"}}
			out = append(out, s)
		}
	}
	// phase annotation written in every shape (exact and padded; plain file and template), validation on / off
	for _, sh := range c13PhaseShapes {
		for _, v := range []bool{true, false} {
			doc := "apiVersion: v1\nkind: ConfigMap\nmetadata:\n  name: x\n  annotations:\n" + sh.yaml("two") +
				"    user/keep: x\ndata:\n  key: v\n"
			path := "a.yaml"
			if sh.Tmpl {
				path = "a.yaml.gotmpl"
			}
			s := base(c13File{P: path, C: doc + "---\n" + c13Doc("y", "one", "")},
				c13File{P: "b.yaml", C: c13Doc("z", "two", "")})
			s.Config["phase"] = "two"
			s.Validate = v
			out = append(out, s)
		}
	}
	// other values that name no phase: empty, different case, longer, shorter
	for _, val := range []string{`""`, "Two", "two2", "tw", "one/two", `"two,three"`} {
		for _, v := range []bool{true, false} {
			s := base(c13File{P: "a.yaml", C: c13Doc("x", val, "") + "---\n" + c13Doc("y", "one", "")},
				c13File{P: "b.yaml", C: c13Doc("z", "two", "")})
			s.Validate = v
			out = append(out, s)
		}
	}
	return out
}

// ---------------------------------------------------------------- test entry

func TestVerifC13(t *testing.T) {
	r := verifkit.Open(t, "C13")
	defer r.Close()
	for _, line := range r.Fixed() {
		var s c13Scn
		if err := json.Unmarshal([]byte(line), &s); err != nil {
			t.Fatalf("bad scenario line: %v", err)
		}
		c13Run(r, &s, "fixed")
	}
	if r.ReplayOnly() {
		return
	}
	for _, s := range c13Table() {
		s.Renders = r.Pick(20, 30)
		c13Run(r, s, "table")
	}
	g := &c13Gen{rng: r.Rng}
	n := r.Pick(400, 4000)
	for i := 0; i < n; i++ {
		s := g.scenario()
		s.Renders = r.Pick(24, 40)
		c13Run(r, s, "random")
	}
}
