package packagerender

// In-package shim for the C13 harness (injected by `go test -overlay`): the harness itself is an
// external test package (it needs packagevalidation, which imports packagerender), so the
// unexported leaf helpers it uses to compute per-file leaf results are re-exported here.

var (
	VerifTemplateContext        = templateContext
	VerifCelTemplateFunction    = celTemplateFunction
	VerifErrConstructingCelCtx  = errConstructingCelContext
	VerifParseObjects           = parseObjects
	VerifCommonLabels           = commonLabels
)
