// Package verifkit is injected into /repo by `go test -overlay` (never committed there).
// It is the I/O side of the correspondence harnesses: every harness test generates (or
// replays) scenarios, runs the REAL package-operator code on them and emits one scenario
// line (JSON) plus one canonical implementation-output line per scenario.
package verifkit

import (
	"bufio"
	"encoding/json"
	"fmt"
	"math/rand"
	"os"
	"path/filepath"
	"runtime"
	"runtime/debug"
	"sort"
	"strconv"
	"strings"
	"testing"
)

type Run struct {
	T      testing.TB
	ID     string
	Seed   int64
	Tier   string
	Rng    *rand.Rand
	outDir string
	scn    *bufio.Writer
	impl   *bufio.Writer
	tagw   *bufio.Writer
	files  []*os.File
	tags   map[string]int
	n      int
	fixed  []string
	replay bool
	Extra  map[string]any
}

// Open reads VERIF_SEED, VERIF_TIER, VERIF_OUT (directory), VERIF_REPLAY (file with scenario
// lines; when set only those are run) and VERIF_CORPUS (directory of *.jsonl run first).
func Open(t testing.TB, id string) *Run {
	out := os.Getenv("VERIF_OUT")
	if out == "" {
		t.Skip("VERIF_OUT not set: verification harness only runs under /verif/bin/check")
	}
	seed, _ := strconv.ParseInt(os.Getenv("VERIF_SEED"), 10, 64)
	tier := os.Getenv("VERIF_TIER")
	if tier == "" {
		tier = "quick"
	}
	r := &Run{T: t, ID: id, Seed: seed, Tier: tier, Rng: rand.New(rand.NewSource(seed)),
		outDir: out, tags: map[string]int{}, Extra: map[string]any{}}
	if err := os.MkdirAll(out, 0o755); err != nil {
		t.Fatal(err)
	}
	mk := func(name string) *bufio.Writer {
		f, err := os.Create(filepath.Join(out, name))
		if err != nil {
			t.Fatal(err)
		}
		r.files = append(r.files, f)
		return bufio.NewWriterSize(f, 1<<20)
	}
	r.scn = mk("scn.txt")
	r.impl = mk("impl.txt")
	r.tagw = mk("tags.txt")
	if rp := os.Getenv("VERIF_REPLAY"); rp != "" {
		r.replay = true
		r.fixed = append(r.fixed, readLines(t, rp)...)
	} else if cd := os.Getenv("VERIF_CORPUS"); cd != "" {
		names, _ := filepath.Glob(filepath.Join(cd, "*.jsonl"))
		sort.Strings(names)
		for _, n := range names {
			r.fixed = append(r.fixed, readLines(t, n)...)
		}
	}
	return r
}

func readLines(t testing.TB, p string) []string {
	b, err := os.ReadFile(p)
	if err != nil {
		t.Fatal(err)
	}
	var out []string
	for _, l := range strings.Split(string(b), "\n") {
		l = strings.TrimSpace(l)
		if l != "" && !strings.HasPrefix(l, "#") {
			out = append(out, l)
		}
	}
	return out
}

// Fixed returns the replay / corpus scenario lines, to be run before any generated ones.
func (r *Run) Fixed() []string { return r.fixed }

// ReplayOnly is true when VERIF_REPLAY is set: no scenarios are to be generated.
func (r *Run) ReplayOnly() bool { return r.replay }

// Thorough reports the tier.
func (r *Run) Thorough() bool { return r.Tier == "thorough" }

// Pick returns q in the quick tier and th in the thorough tier.
func (r *Run) Pick(q, th int) int {
	if r.Thorough() {
		return th
	}
	return q
}

// Emit records one scenario and the implementation's canonical output for it.
// tags feed the input-distribution statistics written to stats.json.
func (r *Run) Emit(scn any, out string, tags ...string) {
	var line []byte
	switch v := scn.(type) {
	case string:
		line = []byte(v)
	case []byte:
		line = v
	default:
		var err error
		line, err = json.Marshal(scn)
		if err != nil {
			r.T.Fatalf("marshal scenario: %v", err)
		}
	}
	if strings.ContainsAny(string(line), "\n\t") || strings.ContainsAny(out, "\n\t") {
		r.T.Fatalf("scenario/output must not contain newline or tab: %q / %q", line, out)
	}
	r.scn.Write(line)
	r.scn.WriteByte('\n')
	r.impl.WriteString(out)
	r.impl.WriteByte('\n')
	r.tagw.WriteString(strings.Join(tags, ","))
	r.tagw.WriteByte('\n')
	r.n++
	for _, tg := range tags {
		r.tags[tg]++
	}
}

// Close flushes the files and writes stats.json.
func (r *Run) Close() {
	r.scn.Flush()
	r.impl.Flush()
	r.tagw.Flush()
	for _, f := range r.files {
		f.Close()
	}
	st := map[string]any{"id": r.ID, "seed": r.Seed, "tier": r.Tier, "scenarios": r.n, "tags": r.tags, "extra": r.Extra}
	b, _ := json.MarshalIndent(st, "", " ")
	if err := os.WriteFile(filepath.Join(r.outDir, "stats.json"), b, 0o644); err != nil {
		r.T.Fatal(err)
	}
}

// Guard runs f and converts a panic into the canonical output "PANIC <file:line of the
// innermost package-operator frame> <message>".
func Guard(f func() string) (out string) {
	defer func() {
		if p := recover(); p != nil {
			out = "PANIC " + PanicSite(debug.Stack()) + " " + sanitize(fmt.Sprint(p))
		}
	}()
	return f()
}

// PanicSite extracts the innermost frame inside package-operator (non-test, non-verif) code.
func PanicSite(stack []byte) string {
	lines := strings.Split(string(stack), "\n")
	for i := 0; i+1 < len(lines); i++ {
		fn := lines[i]
		loc := strings.TrimSpace(lines[i+1])
		if !strings.HasPrefix(fn, "package-operator.run/") && !strings.HasPrefix(fn, "pkg.package-operator.run/") {
			continue
		}
		if strings.Contains(loc, "zz_verif") || strings.Contains(loc, "verifkit") || strings.Contains(loc, "verifstore") {
			continue
		}
		if j := strings.Index(loc, " +0x"); j >= 0 {
			loc = loc[:j]
		}
		if k := strings.Index(loc, "/repo/"); k >= 0 {
			loc = loc[k+len("/repo/"):]
		}
		return loc
	}
	return "unknown"
}

func sanitize(s string) string {
	s = strings.NewReplacer("\n", " ", "\t", " ").Replace(s)
	if len(s) > 200 {
		s = s[:200]
	}
	return s
}

// Esc makes an arbitrary string safe for a space separated token.
func Esc(s string) string {
	if s == "" {
		return "%e"
	}
	var b strings.Builder
	for _, c := range []byte(s) {
		if c <= ' ' || c == '%' || c >= 127 || c == ';' || c == ',' || c == '|' {
			fmt.Fprintf(&b, "%%%02x", c)
		} else {
			b.WriteByte(c)
		}
	}
	return b.String()
}

var _ = runtime.GOOS
