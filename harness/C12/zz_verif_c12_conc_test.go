package dynamiccache

// Concurrency EXPLORATION for property C12 (not a proof): two streams.
//
//   - `concurrent`  (TestVerifC12Conc): G goroutines issue random Watch/Free/Get/List/OwnersForGKV calls on
//     the REAL Cache over a goroutine-safe scripted informerMap fake (random start-up failures).  Under its
//     own mutex the fake records: an informer created through the read path; an informerMap.Delete while an
//     informerMap.Get for the same kind is in flight.  At quiescence: informer <=> owned, handlers attached;
//     after Free of every owner: no informer, no reference left.  Runs with -race in the thorough tier.
//   - `interleave` (TestVerifC12Ilv): deterministic two-party interleavings, one call parked inside the
//     informer map (the fake blocks on a channel) while a second call that must be excluded by
//     informerReferencesMux is issued: it must not return while the first is parked, must return after it
//     is released, and the final state must be the sequential one.
//
// Both print the summary `ok` or `bad <what>`; the Lean "model" is the constant `ok`.

import (
	"context"
	"encoding/json"
	"errors"
	"fmt"
	"math/rand"
	"runtime"
	"sort"
	"strings"
	"sync"
	"testing"
	"time"

	k8sruntime "k8s.io/apimachinery/pkg/runtime"
	"k8s.io/apimachinery/pkg/runtime/schema"
	"k8s.io/client-go/tools/cache"
	"sigs.k8s.io/controller-runtime/pkg/client"
	"sigs.k8s.io/controller-runtime/pkg/handler"
	"sigs.k8s.io/controller-runtime/pkg/predicate"
	"sigs.k8s.io/controller-runtime/pkg/source"

	"package-operator.run/internal/verifkit"
)

type c12cReadKey struct{}

// goroutine-safe scripted informer map
type c12cIM struct {
	mu        sync.Mutex
	informers map[schema.GroupVersionKind]*c12Informer
	inGet     map[schema.GroupVersionKind]int
	next      int
	rng       *rand.Rand // nil: never fail
	// recorded under mu
	creates, deletes, readCreates, deleteDuringGet int
	// parking: the first call that enters while the channel is set takes it and blocks until it is closed
	parkGet, parkDelete chan struct{}
	entered             chan string
}

func c12cNewIM(seed int64, fail bool) *c12cIM {
	m := &c12cIM{
		informers: map[schema.GroupVersionKind]*c12Informer{},
		inGet:     map[schema.GroupVersionKind]int{},
		entered:   make(chan string, 16),
	}
	if fail {
		m.rng = rand.New(rand.NewSource(seed))
	}
	return m
}

func (m *c12cIM) Get(ctx context.Context, gvk schema.GroupVersionKind, _ k8sruntime.Object) (cache.SharedIndexInformer, client.Reader, error) {
	m.mu.Lock()
	if p := m.parkGet; p != nil {
		m.parkGet = nil
		m.mu.Unlock()
		m.entered <- "get"
		<-p
		m.mu.Lock()
	}
	m.inGet[gvk]++
	inf, ok := m.informers[gvk]
	var err error
	if !ok {
		if ctx.Value(c12cReadKey{}) != nil {
			m.readCreates++
		}
		f := 0
		if m.rng != nil {
			f = m.rng.Intn(8)
		}
		switch f {
		case 1: // fails before creating anything
			err = errors.New("no rest mapping")
		case 2: // created and started, then sync timeout
			m.informers[gvk] = &c12Informer{kind: gvk.Kind, id: m.next}
			m.next++
			m.creates++
			err = errors.New("timeout waiting for sync")
		default:
			inf = &c12Informer{kind: gvk.Kind, id: m.next}
			m.informers[gvk] = inf
			m.next++
			m.creates++
		}
	}
	m.mu.Unlock()
	runtime.Gosched() // widen the window in which a racing Delete would be observed
	m.mu.Lock()
	m.inGet[gvk]--
	m.mu.Unlock()
	if err != nil {
		return nil, nil, err
	}
	return inf, c12Reader{}, nil
}

func (m *c12cIM) Delete(_ context.Context, gvk schema.GroupVersionKind) error {
	m.mu.Lock()
	if p := m.parkDelete; p != nil {
		m.parkDelete = nil
		m.mu.Unlock()
		m.entered <- "delete"
		<-p
		m.mu.Lock()
	}
	defer m.mu.Unlock()
	if m.inGet[gvk] > 0 {
		m.deleteDuringGet++
	}
	if _, ok := m.informers[gvk]; ok {
		m.deletes++
		delete(m.informers, gvk)
	}
	return nil
}

func (m *c12cIM) kinds() []string {
	m.mu.Lock()
	defer m.mu.Unlock()
	var ks []string
	for gvk := range m.informers {
		ks = append(ks, gvk.Kind)
	}
	sort.Strings(ks)
	return ks
}

type c12cSource struct {
	mu       sync.Mutex
	attached map[int]bool
	attaches map[int]int // how often handlers were attached to one informer
}

func (s *c12cSource) Source(handler.EventHandler, ...predicate.Predicate) source.Source { return nil }
func (s *c12cSource) blockNewRegistrations()                                            {}
func (s *c12cSource) handleNewInformer(i cache.SharedIndexInformer) error {
	s.mu.Lock()
	defer s.mu.Unlock()
	s.attached[i.(*c12Informer).id] = true
	if s.attaches != nil {
		s.attaches[i.(*c12Informer).id]++
	}
	return nil
}

func c12cNewCache(im *c12cIM) (*Cache, *c12cSource) {
	src := &c12cSource{attached: map[int]bool{}}
	return &Cache{
		scheme:             k8sruntime.NewScheme(),
		informerReferences: map[schema.GroupVersionKind]map[OwnerReference]struct{}{},
		informerMap:        im,
		cacheSource:        src,
	}, src
}

// c12cFinal checks, at quiescence: informer <=> owned (+ handlers); then frees every owner and checks that
// nothing is left; then the invariants recorded by the fake.
func c12cFinal(c *Cache, im *c12cIM, src *c12cSource, kinds, owners int) string {
	for k := 0; k < kinds; k++ {
		gvk := c12Obj(k).GroupVersionKind()
		os := c.OwnersForGKV(gvk)
		im.mu.Lock()
		inf, ok := im.informers[gvk]
		im.mu.Unlock()
		if ok != (len(os) > 0) {
			return fmt.Sprintf("bad quiescent-informer kind=%d informer=%v owners=%d", k, ok, len(os))
		}
		if ok {
			src.mu.Lock()
			att := src.attached[inf.id]
			src.mu.Unlock()
			if !att {
				return fmt.Sprintf("bad informer-without-handlers kind=%d", k)
			}
		}
	}
	for o := 0; o < owners; o++ {
		if err := c.Free(context.Background(), c12Owner(o)); err != nil {
			return "bad free-error"
		}
	}
	if ks := im.kinds(); len(ks) != 0 {
		return "bad informer-left-after-free-all " + strings.Join(ks, ",")
	}
	c.informerReferencesMux.RLock()
	n := len(c.informerReferences)
	c.informerReferencesMux.RUnlock()
	if n != 0 {
		return fmt.Sprintf("bad references-left-after-free-all %d", n)
	}
	im.mu.Lock()
	defer im.mu.Unlock()
	if im.readCreates != 0 {
		return "bad read-path-created-informer"
	}
	if im.deleteDuringGet != 0 {
		return "bad delete-during-inflight-get"
	}
	if im.creates != im.deletes {
		return "bad creates-ne-deletes"
	}
	return "ok"
}

type c12cScn struct {
	T      string `json:"t"` // "conc"
	G      int    `json:"g"`
	N      int    `json:"n"` // ops per goroutine
	Seed   int64  `json:"seed"`
	Owners int    `json:"owners"`
	Kinds  int    `json:"kinds"`
	Storm  int    `json:"storm,omitempty"` // > 0: rounds of racing FIRST watches of one kind (c12sExec)
}

// c12sExec: in every round G owners, released together by a barrier, make the first Watch of a kind
// nobody watches; once all have returned every owner must be registered, exactly one informer
// must have been started and handlers attached once, reads must work; then the owners are freed
// one after the other: the informer stays exactly until the last one is freed.
func c12sExec(s c12cScn) (string, map[string]int) {
	im := c12cNewIM(s.Seed, false)
	c, src := c12cNewCache(im)
	src.attaches = map[int]int{}
	stats := map[string]int{}
	gvk := c12Obj(0).GroupVersionKind()
	owner := c12Owner
	for round := 0; round < s.Storm; round++ {
		var ready, wg sync.WaitGroup
		start := make(chan struct{})
		errs := make([]error, s.G)
		ready.Add(s.G)
		for g := 0; g < s.G; g++ {
			wg.Add(1)
			go func(g int) {
				defer wg.Done()
				ready.Done()
				<-start
				errs[g] = c.Watch(context.Background(), owner(g), c12Obj(0))
			}(g)
		}
		ready.Wait()
		close(start)
		wg.Wait()
		stats["storm-round"]++
		for g, err := range errs {
			if err != nil {
				return fmt.Sprintf("bad storm-watch-error round=%d owner=%d", round, g), stats
			}
		}
		if n := len(c.OwnersForGKV(gvk)); n != s.G {
			return fmt.Sprintf("bad watch-lost round=%d: %d owners watched successfully, %d registered", round, s.G, n), stats
		}
		im.mu.Lock()
		inf, ok := im.informers[gvk]
		creates := im.creates
		im.mu.Unlock()
		if !ok || creates != round+1 {
			return fmt.Sprintf("bad informer-starts round=%d informer=%v starts=%d want=%d", round, ok, creates, round+1), stats
		}
		src.mu.Lock()
		att := src.attaches[inf.id]
		src.mu.Unlock()
		if att != 1 {
			return fmt.Sprintf("bad handlers-attached-%d-times round=%d", att, round), stats
		}
		for g := 0; g < s.G; g++ {
			if err := c.Get(context.Background(), client.ObjectKey{Name: "x", Namespace: "ns"}, c12Obj(0)); err != nil {
				return fmt.Sprintf("bad read-fails-while-watched round=%d owners-left=%d", round, s.G-g), stats
			}
			if err := c.Free(context.Background(), owner(g)); err != nil {
				return "bad free-error", stats
			}
			im.mu.Lock()
			_, ok := im.informers[gvk]
			im.mu.Unlock()
			if ok != (g < s.G-1) {
				return fmt.Sprintf("bad informer-lifetime round=%d freed=%d of %d informer=%v", round, g+1, s.G, ok), stats
			}
		}
	}
	return c12cFinal(c, im, src, 1, 1), stats
}

func c12cExec(s c12cScn) (string, map[string]int) {
	im := c12cNewIM(s.Seed, true)
	c, src := c12cNewCache(im)
	stats := map[string]int{}
	var smu sync.Mutex
	var wg sync.WaitGroup
	bad := make(chan string, s.G)
	for g := 0; g < s.G; g++ {
		wg.Add(1)
		go func(g int) {
			defer wg.Done()
			rng := rand.New(rand.NewSource(s.Seed*1000 + int64(g)))
			local := map[string]int{}
			rctx := context.WithValue(context.Background(), c12cReadKey{}, true)
			for i := 0; i < s.N; i++ {
				o, k := rng.Intn(s.Owners), rng.Intn(s.Kinds)
				var err error
				var op string
				switch x := rng.Intn(10); {
				case x < 3:
					op = "watch"
					err = c.Watch(context.Background(), c12Owner(o), c12Obj(k))
				case x < 5:
					op = "free"
					err = c.Free(context.Background(), c12Owner(o))
					if err != nil {
						bad <- "bad free-error"
						return
					}
				case x < 7:
					op = "get"
					err = c.Get(rctx, client.ObjectKey{Name: "x", Namespace: "ns"}, c12Obj(k))
				case x < 9:
					op = "list"
					err = c.List(rctx, c12List(k))
				default:
					op = "owners"
					if n := len(c.OwnersForGKV(c12Obj(k).GroupVersionKind())); n > s.Owners {
						bad <- "bad too-many-owners"
						return
					}
				}
				var ns *CacheNotStartedError
				switch {
				case err == nil:
					local[op+"/ok"]++
				case errors.As(err, &ns):
					local[op+"/notstarted"]++
				default:
					local[op+"/err"]++
				}
			}
			smu.Lock()
			for k, v := range local {
				stats[k] += v
			}
			smu.Unlock()
		}(g)
	}
	wg.Wait()
	select {
	case b := <-bad:
		return b, stats
	default:
	}
	return c12cFinal(c, im, src, s.Kinds, s.Owners), stats
}

func TestVerifC12Conc(t *testing.T) {
	r := verifkit.Open(t, "C12")
	defer r.Close()
	run := func(s c12cScn) {
		var stats map[string]int
		out := verifkit.Guard(func() string {
			if s.Storm > 0 {
				o, st := c12sExec(s)
				stats = st
				return o
			}
			o, st := c12cExec(s)
			stats = st
			return o
		})
		tags := []string{fmt.Sprintf("g=%d", s.G)}
		for k, v := range stats {
			if v > 0 {
				tags = append(tags, "saw="+k)
			}
		}
		sort.Strings(tags)
		r.Emit(s, out, tags...)
	}
	for _, line := range r.Fixed() {
		var s c12cScn
		if err := json.Unmarshal([]byte(line), &s); err != nil {
			t.Fatalf("bad scenario %q: %v", line, err)
		}
		if s.T == "conc" && s.G > 0 && s.G <= 64 && s.N > 0 && s.N <= 1000000 && s.Owners > 0 && s.Owners <= c12Owners && s.Kinds > 0 && s.Kinds <= c12Kinds {
			run(s)
		}
	}
	if r.ReplayOnly() {
		return
	}
	n := r.Pick(6, 30)
	for i := 0; i < n; i++ {
		g := []int{2, 4, 8, 16}[i%4]
		run(c12cScn{T: "conc", G: g, N: r.Pick(4000, 40000) / g, Seed: r.Rng.Int63n(1 << 40), Owners: 1 + i%3, Kinds: 1 + (i/3)%3})
	}
	for _, g := range []int{2, 4, 8, 16} {
		run(c12cScn{T: "conc", G: g, N: 1, Seed: r.Rng.Int63n(1 << 40), Owners: 1, Kinds: 1, Storm: r.Pick(300, 3000)})
	}
}

// ---- deterministic interleavings -------------------------------------------------------------

type c12iScn struct {
	T    string `json:"t"`    // "ilv"
	V    string `json:"v"`    // variant
	Hold int    `json:"hold"` // ms the second call is given to (wrongly) return while the first is parked
}

var c12iVariants = []string{
	"get-vs-free", "list-vs-free", "get-vs-free-2kinds", "get-vs-free-other-owner-stays",
	"free-vs-get", "free-vs-watch", "watch-vs-watch", "watch-vs-get", "get-vs-get",
}

// c12iExec: `first` is started and parks inside the informer map; then `second` is started.
func c12iExec(s c12iScn) string {
	im := c12cNewIM(0, false)
	c, src := c12cNewCache(im)
	ctx := context.Background()
	rctx := context.WithValue(ctx, c12cReadKey{}, true)
	key := client.ObjectKey{Name: "x", Namespace: "ns"}
	hold := time.Duration(s.Hold) * time.Millisecond
	if hold <= 0 || hold > 5*time.Second {
		hold = 100 * time.Millisecond
	}
	must := func(err error) {
		if err != nil {
			panic(err)
		}
	}
	isNotStarted := func(err error) bool {
		var ns *CacheNotStartedError
		return errors.As(err, &ns)
	}
	var first, second func() error
	park := "get"
	mustBlock := true
	var check func(e1, e2 error) string
	switch s.V {
	case "get-vs-free", "list-vs-free", "get-vs-free-2kinds", "get-vs-free-other-owner-stays":
		must(c.Watch(ctx, c12Owner(0), c12Obj(0)))
		if s.V == "get-vs-free-2kinds" {
			must(c.Watch(ctx, c12Owner(0), c12Obj(1)))
		}
		if s.V == "get-vs-free-other-owner-stays" {
			must(c.Watch(ctx, c12Owner(1), c12Obj(0)))
		}
		first = func() error { return c.Get(rctx, key, c12Obj(0)) }
		if s.V == "list-vs-free" {
			first = func() error { return c.List(rctx, c12List(0)) }
		}
		second = func() error { return c.Free(ctx, c12Owner(0)) }
		check = func(e1, e2 error) string {
			if e1 != nil || e2 != nil {
				return fmt.Sprintf("bad results reader=%v free=%v", e1 != nil, e2 != nil)
			}
			want := ""
			if s.V == "get-vs-free-other-owner-stays" {
				want = "K0"
			}
			if got := strings.Join(im.kinds(), ","); got != want {
				return "bad informers-after want=" + want + " got=" + got
			}
			if want == "" && !isNotStarted(c.Get(rctx, key, c12Obj(0))) {
				return "bad read-after-free-not-refused"
			}
			return "ok"
		}
	case "free-vs-get", "free-vs-watch":
		park = "delete"
		must(c.Watch(ctx, c12Owner(0), c12Obj(0)))
		first = func() error { return c.Free(ctx, c12Owner(0)) }
		if s.V == "free-vs-get" {
			second = func() error { return c.Get(rctx, key, c12Obj(0)) }
			check = func(e1, e2 error) string {
				if e1 != nil || !isNotStarted(e2) {
					return fmt.Sprintf("bad results free=%v reader-notstarted=%v", e1 != nil, isNotStarted(e2))
				}
				if got := strings.Join(im.kinds(), ","); got != "" {
					return "bad informers-after got=" + got
				}
				return "ok"
			}
		} else {
			second = func() error { return c.Watch(ctx, c12Owner(1), c12Obj(0)) }
			check = func(e1, e2 error) string {
				if e1 != nil || e2 != nil {
					return "bad results"
				}
				if got := strings.Join(im.kinds(), ","); got != "K0" {
					return "bad informers-after got=" + got
				}
				if os := c.OwnersForGKV(c12Obj(0).GroupVersionKind()); len(os) != 1 || os[0].Name != "o1" {
					return "bad owners-after"
				}
				im.mu.Lock()
				defer im.mu.Unlock()
				if im.creates != 2 || im.deletes != 1 {
					return fmt.Sprintf("bad creates=%d deletes=%d", im.creates, im.deletes)
				}
				return "ok"
			}
		}
	case "watch-vs-watch", "watch-vs-get":
		first = func() error { return c.Watch(ctx, c12Owner(0), c12Obj(0)) }
		if s.V == "watch-vs-watch" {
			second = func() error { return c.Watch(ctx, c12Owner(1), c12Obj(0)) }
		} else {
			// the reader is serialised after the Watch: it sees the kind watched
			second = func() error { return c.Get(rctx, key, c12Obj(0)) }
		}
		check = func(e1, e2 error) string {
			if e1 != nil || e2 != nil {
				return fmt.Sprintf("bad results first=%v second=%v", e1 != nil, e2 != nil)
			}
			im.mu.Lock()
			creates := im.creates
			im.mu.Unlock()
			if creates != 1 {
				return fmt.Sprintf("bad creates=%d", creates)
			}
			want := 1
			if s.V == "watch-vs-watch" {
				want = 2
			}
			if n := len(c.OwnersForGKV(c12Obj(0).GroupVersionKind())); n != want {
				return fmt.Sprintf("bad owners-after=%d", n)
			}
			return "ok"
		}
	case "get-vs-get":
		// readers share the lock: the second reader must NOT be blocked by the parked one
		mustBlock = false
		must(c.Watch(ctx, c12Owner(0), c12Obj(0)))
		first = func() error { return c.Get(rctx, key, c12Obj(0)) }
		second = func() error { return c.List(rctx, c12List(0)) }
		check = func(e1, e2 error) string {
			if e1 != nil || e2 != nil {
				return "bad results"
			}
			return "ok"
		}
	default:
		return "BAD-VARIANT"
	}
	release := make(chan struct{})
	im.mu.Lock()
	if park == "get" {
		im.parkGet = release
	} else {
		im.parkDelete = release
	}
	im.mu.Unlock()
	d1, d2 := make(chan error, 1), make(chan error, 1)
	go func() { d1 <- first() }()
	select {
	case <-im.entered:
	case <-time.After(3 * time.Second):
		close(release)
		return "bad first-call-never-reached-informer-map"
	}
	go func() { d2 <- second() }()
	var e1, e2 error
	got2 := false
	if mustBlock {
		select {
		case e2 = <-d2:
			got2 = true
		case <-time.After(hold):
		}
		if got2 {
			close(release)
			<-d1
			return "bad second-call-returned-while-first-parked-in-informer-map"
		}
	} else {
		select {
		case e2 = <-d2:
			got2 = true
		case <-time.After(3 * time.Second):
			close(release)
			return "bad second-reader-blocked-by-parked-reader"
		}
	}
	close(release)
	tm := time.After(3 * time.Second)
	select {
	case e1 = <-d1:
	case <-tm:
		return "bad first-call-never-returned"
	}
	if !got2 {
		select {
		case e2 = <-d2:
		case <-tm:
			return "bad second-call-never-returned"
		}
	}
	if r := check(e1, e2); r != "ok" {
		return r
	}
	return c12cFinal(c, im, src, 2, 2)
}

func TestVerifC12Ilv(t *testing.T) {
	r := verifkit.Open(t, "C12")
	defer r.Close()
	run := func(s c12iScn) {
		out := verifkit.Guard(func() string { return c12iExec(s) })
		r.Emit(s, out, "v="+s.V)
	}
	for _, line := range r.Fixed() {
		var s c12iScn
		if err := json.Unmarshal([]byte(line), &s); err != nil {
			t.Fatalf("bad scenario %q: %v", line, err)
		}
		if s.T == "ilv" {
			run(s)
		}
	}
	if r.ReplayOnly() {
		return
	}
	for rep := 0; rep < r.Pick(2, 6); rep++ {
		for _, v := range c12iVariants {
			run(c12iScn{T: "ilv", V: v, Hold: 100 + 25*rep})
		}
	}
}
