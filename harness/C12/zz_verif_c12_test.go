package dynamiccache

// Correspondence harness for property C12 (dynamic cache reference counting).
// Injected by `go test -overlay`; drives the REAL Cache with a scripted informerMap and a
// recording cacheSourcer, and prints what reached the informer map / handler registration.

import (
	"context"
	"encoding/json"
	"errors"
	"fmt"
	"sort"
	"strings"
	"sync"
	"testing"

	"k8s.io/apimachinery/pkg/apis/meta/v1/unstructured"
	"k8s.io/apimachinery/pkg/runtime"
	"k8s.io/apimachinery/pkg/runtime/schema"
	"k8s.io/apimachinery/pkg/types"
	"k8s.io/client-go/tools/cache"
	"sigs.k8s.io/controller-runtime/pkg/client"
	"sigs.k8s.io/controller-runtime/pkg/handler"
	"sigs.k8s.io/controller-runtime/pkg/predicate"
	"sigs.k8s.io/controller-runtime/pkg/source"

	"package-operator.run/internal/verifkit"
)

type c12Op struct {
	Op string `json:"op"` // watch | free | get | list | owners
	O  int    `json:"o"`  // owner index
	K  int    `json:"k"`  // kind index
	F  string `json:"f"`  // ok | get (informerMap.Get fails, nothing created) | sync (created, then sync timeout) | handler
}

type c12Scn struct {
	T   string  `json:"t,omitempty"` // stream tag; empty or "seq" for this stream
	Ops []c12Op `json:"ops"`
}

type c12Informer struct {
	cache.SharedIndexInformer
	kind string
	id   int
}

type c12IM struct {
	mu        sync.Mutex
	informers map[schema.GroupVersionKind]*c12Informer
	next      int
	fail      string
	log       *[]string
}

func (m *c12IM) Get(_ context.Context, gvk schema.GroupVersionKind, _ runtime.Object) (cache.SharedIndexInformer, client.Reader, error) {
	m.mu.Lock()
	defer m.mu.Unlock()
	f := m.fail
	if f != "handler" {
		m.fail = ""
	}
	if inf, ok := m.informers[gvk]; ok {
		*m.log = append(*m.log, "G"+gvk.Kind)
		return inf, c12Reader{}, nil
	}
	if f == "get" {
		*m.log = append(*m.log, "G"+gvk.Kind+"!")
		return nil, nil, errors.New("no rest mapping")
	}
	inf := &c12Informer{kind: gvk.Kind, id: m.next}
	m.next++
	m.informers[gvk] = inf
	if f == "sync" {
		*m.log = append(*m.log, "G"+gvk.Kind+"+!")
		return nil, nil, errors.New("timeout waiting for sync")
	}
	*m.log = append(*m.log, "G"+gvk.Kind+"+")
	return inf, c12Reader{}, nil
}

func (m *c12IM) Delete(_ context.Context, gvk schema.GroupVersionKind) error {
	m.mu.Lock()
	defer m.mu.Unlock()
	if _, ok := m.informers[gvk]; ok {
		*m.log = append(*m.log, "D"+gvk.Kind)
		delete(m.informers, gvk)
	} else {
		*m.log = append(*m.log, "D"+gvk.Kind+"-")
	}
	return nil
}

type c12Reader struct{}

func (c12Reader) Get(context.Context, client.ObjectKey, client.Object, ...client.GetOption) error {
	return nil
}
func (c12Reader) List(context.Context, client.ObjectList, ...client.ListOption) error { return nil }

type c12Source struct {
	fail     *string
	log      *[]string
	attached map[int]bool // informer id -> handlers attached
}

func (s *c12Source) Source(handler.EventHandler, ...predicate.Predicate) source.Source { return nil }
func (s *c12Source) blockNewRegistrations()                                            {}
func (s *c12Source) handleNewInformer(i cache.SharedIndexInformer) error {
	inf := i.(*c12Informer)
	if *s.fail == "handler" {
		*s.fail = ""
		*s.log = append(*s.log, "H"+inf.kind+"!")
		return errors.New("handler registration failed")
	}
	s.attached[inf.id] = true
	*s.log = append(*s.log, "H"+inf.kind)
	return nil
}

const c12Kinds = 3
const c12Owners = 3

func c12Obj(k int) *unstructured.Unstructured {
	u := &unstructured.Unstructured{}
	u.SetGroupVersionKind(schema.GroupVersionKind{Group: "g", Version: "v1", Kind: fmt.Sprintf("K%d", k)})
	u.SetName("x")
	u.SetNamespace("ns")
	return u
}

func c12List(k int) *unstructured.UnstructuredList {
	u := &unstructured.UnstructuredList{}
	u.SetGroupVersionKind(schema.GroupVersionKind{Group: "g", Version: "v1", Kind: fmt.Sprintf("K%dList", k)})
	return u
}

func c12Owner(o int) *unstructured.Unstructured {
	u := &unstructured.Unstructured{}
	u.SetGroupVersionKind(schema.GroupVersionKind{Group: "og", Version: "v1", Kind: "Owner"})
	u.SetName(fmt.Sprintf("o%d", o))
	u.SetNamespace("ns")
	u.SetUID(types.UID(fmt.Sprintf("uid-%d", o)))
	return u
}

func c12Exec(s c12Scn) string {
	var log []string
	im := &c12IM{informers: map[schema.GroupVersionKind]*c12Informer{}, log: &log}
	src := &c12Source{fail: &im.fail, log: &log, attached: map[int]bool{}}
	c := &Cache{
		scheme:             runtime.NewScheme(),
		informerReferences: map[schema.GroupVersionKind]map[OwnerReference]struct{}{},
		informerMap:        im,
		cacheSource:        src,
	}
	ctx := context.Background()
	var outs []string
	for _, op := range s.Ops {
		log = log[:0]
		im.fail = op.F
		if op.F == "ok" {
			im.fail = ""
		}
		var err error
		switch op.Op {
		case "watch":
			err = c.Watch(ctx, c12Owner(op.O), c12Obj(op.K))
		case "free":
			err = c.Free(ctx, c12Owner(op.O))
			sort.Strings(log) // Free ranges over a Go map: the order of informer deletions is not defined
		case "get":
			err = c.Get(ctx, client.ObjectKey{Name: "x", Namespace: "ns"}, c12Obj(op.K))
		case "list":
			err = c.List(ctx, c12List(op.K))
		case "owners":
		default:
			return "BAD-OP"
		}
		im.fail = ""
		res := "ok"
		var ns *CacheNotStartedError
		if errors.As(err, &ns) {
			res = "notstarted"
		} else if err != nil {
			res = "err"
		}
		// observable state after the op: owner sets per kind, informers, informers lacking handlers
		var st []string
		for k := 0; k < c12Kinds; k++ {
			owners := c.OwnersForGKV(c12Obj(k).GroupVersionKind())
			var os []string
			for _, o := range owners {
				os = append(os, strings.TrimPrefix(o.Name, "o"))
			}
			sort.Strings(os)
			inf := "-"
			if i, ok := im.informers[c12Obj(k).GroupVersionKind()]; ok {
				inf = "i"
				if src.attached[i.id] {
					inf = "I"
				}
			}
			st = append(st, fmt.Sprintf("%s[%s]", inf, strings.Join(os, ",")))
		}
		outs = append(outs, res+" "+strings.Join(log, ",")+" "+strings.Join(st, ""))
	}
	return strings.Join(outs, ";")
}

func c12Tags(s c12Scn, out string) []string {
	tags := []string{fmt.Sprintf("len=%d", len(s.Ops))}
	seen := map[string]bool{}
	for _, op := range s.Ops {
		k := "op=" + op.Op
		if op.F != "ok" && op.F != "" {
			k += "/" + op.F
		}
		if !seen[k] {
			seen[k] = true
			tags = append(tags, k)
		}
	}
	for _, w := range []string{"notstarted", "err", "+!", "H", "D"} {
		if strings.Contains(out, w) {
			tags = append(tags, "out~"+w)
		}
	}
	return tags
}

func TestVerifC12(t *testing.T) {
	r := verifkit.Open(t, "C12")
	defer r.Close()
	run := func(s c12Scn) {
		out := verifkit.Guard(func() string { return c12Exec(s) })
		r.Emit(s, out, c12Tags(s, out)...)
	}
	for _, line := range r.Fixed() {
		var s c12Scn
		if err := json.Unmarshal([]byte(line), &s); err != nil {
			t.Fatalf("bad scenario %q: %v", line, err)
		}
		if s.T != "" && s.T != "seq" {
			continue // a line of another C12 stream
		}
		run(s)
	}
	if r.ReplayOnly() {
		return
	}
	// alphabet: 2 owners x 2 kinds
	var alpha []c12Op
	for o := 0; o < 2; o++ {
		for k := 0; k < 2; k++ {
			for _, f := range []string{"ok", "get", "sync", "handler"} {
				alpha = append(alpha, c12Op{"watch", o, k, f})
			}
		}
		alpha = append(alpha, c12Op{"free", o, 0, "ok"})
	}
	for k := 0; k < 2; k++ {
		alpha = append(alpha, c12Op{"get", 0, k, "ok"}, c12Op{"list", 0, k, "ok"}, c12Op{"get", 0, k, "get"})
	}
	// exhaustive up to length L (24 symbols: L=3 -> 14k, L=4 -> 346k)
	L := r.Pick(3, 4)
	var rec func(prefix []c12Op, depth int)
	count := 0
	rec = func(prefix []c12Op, depth int) {
		if len(prefix) > 0 {
			run(c12Scn{Ops: append([]c12Op(nil), prefix...)})
			count++
		}
		if depth == L {
			return
		}
		for _, a := range alpha {
			rec(append(prefix, a), depth+1)
		}
	}
	rec(nil, 0)
	r.Extra["exhaustive_len"] = L
	r.Extra["exhaustive_count"] = count
	r.Extra["alphabet"] = len(alpha)
	// random long sequences over 3 owners x 3 kinds
	n := r.Pick(3000, 40000)
	for i := 0; i < n; i++ {
		l := 5 + r.Rng.Intn(36)
		var s c12Scn
		for j := 0; j < l; j++ {
			op := c12Op{O: r.Rng.Intn(c12Owners), K: r.Rng.Intn(c12Kinds), F: "ok"}
			switch x := r.Rng.Intn(10); {
			case x < 4:
				op.Op = "watch"
				if r.Rng.Intn(4) == 0 {
					op.F = []string{"get", "sync", "handler"}[r.Rng.Intn(3)]
				}
			case x < 6:
				op.Op = "free"
				op.K = 0
			case x < 8:
				op.Op = "get"
				if r.Rng.Intn(6) == 0 {
					op.F = "get"
				}
			case x < 9:
				op.Op = "list"
			default:
				op.Op = "owners"
			}
			s.Ops = append(s.Ops, op)
		}
		run(s)
	}
}
