package dynamiccache

// Correspondence harness for property C12, stream `live`:
// the REAL Cache over the REAL cacheSource (two controller handlers) over the REAL InformerMap (real
// client-go shared informers / reflectors) on top of an in-memory API server (dynamic.Interface) that
// HONOURS REQUEST CONTEXTS the way the REST client does: LIST and WATCH fail on a context that has
// ended, and an open WATCH stream is closed by the "transport" as soon as the context it was opened
// with ends.  Every Watch call carries one of a few context tokens; `cancel` ends a token (the
// reconcile / call that issued the Watch is over, or its deadline passed) while the owners stay
// registered.  `create` puts a new object into the API server: while at least one owner watches the
// kind it has to reach BOTH handlers and be readable through Cache.Get/List within a bounded wait.
//
// Output per op:  <result> <kind 0>|<kind 1>[ TIMEOUT]   with per kind, after a bounded settle,
//   <entry in informer map 0/1>.<open WATCH streams>.<create events handler 0>.<create events handler 1>.<items Cache.List returns, - = refused>[owners]

import (
	"context"
	"encoding/json"
	"errors"
	"fmt"
	"sort"
	"strconv"
	"strings"
	"sync"
	"testing"
	"time"

	apimachineryerrors "k8s.io/apimachinery/pkg/api/errors"
	apimachinerymeta "k8s.io/apimachinery/pkg/api/meta"
	metav1 "k8s.io/apimachinery/pkg/apis/meta/v1"
	"k8s.io/apimachinery/pkg/apis/meta/v1/unstructured"
	"k8s.io/apimachinery/pkg/runtime"
	"k8s.io/apimachinery/pkg/runtime/schema"
	"k8s.io/apimachinery/pkg/types"
	"k8s.io/apimachinery/pkg/watch"
	"k8s.io/client-go/dynamic"
	"k8s.io/client-go/util/workqueue"
	"sigs.k8s.io/controller-runtime/pkg/client"
	"sigs.k8s.io/controller-runtime/pkg/event"
	"sigs.k8s.io/controller-runtime/pkg/handler"
	"sigs.k8s.io/controller-runtime/pkg/reconcile"

	"package-operator.run/internal/verifkit"
)

type c12lvOp struct {
	Op string `json:"op"` // watch | free | get | cancel | create
	O  int    `json:"o"`  // owner index (watch, free)
	K  int    `json:"k"`  // kind index (watch, get, create)
	C  int    `json:"c"`  // context token (watch, cancel)
}

type c12lvScn struct {
	T   string    `json:"t"` // always "live"
	Ops []c12lvOp `json:"ops"`
}

const (
	c12lvKinds    = 2
	c12lvOwners   = 3
	c12lvCtxs     = 3
	c12lvHandlers = 2
	// bound for "delivered to the handlers and visible to Get/List" and for streams to open / close
	c12lvWait = 800 * time.Millisecond
	// grace during which nothing is expected to happen (object of an unwatched kind, end of a context)
	c12lvGrace = 25 * time.Millisecond
	// a Cache call that takes longer than this is reported as HANG
	c12lvHang = 4 * time.Second
)

// ---- in-memory API server that honours request contexts -----------------------------------------

type c12lvWatch struct {
	api     *c12lvAPI
	k       int
	ctx     context.Context
	ch      chan watch.Event
	stopped bool // guarded by api.mu
}

func (w *c12lvWatch) ResultChan() <-chan watch.Event { return w.ch }

// Stop is called by the reflector when it gives the stream up, and by the "transport" when the
// request context ends.
func (w *c12lvWatch) Stop() {
	w.api.mu.Lock()
	defer w.api.mu.Unlock()
	if w.stopped {
		return
	}
	w.stopped = true
	close(w.ch)
	w.api.kinds[w.k].open--
	delete(w.api.kinds[w.k].watchers, w)
}

type c12lvKind struct {
	objects  []*unstructured.Unstructured
	watchers map[*c12lvWatch]struct{}
	lists    int // successful LIST calls
	// non-nil: LIST requests of the kind are not answered before the channel is closed (the API server
	// does not answer in zero time: a Watch call whose context had ended before the call was made
	// cannot see a first sync; without this the outcome of such a call would be a scheduling race)
	hold chan struct{}
	opened   int // WATCH streams opened
	open     int // WATCH streams opened and not closed
}

type c12lvAPI struct {
	mu    sync.Mutex
	kinds [c12lvKinds]c12lvKind
	// create events seen by the controller handlers: [handler][kind] -> object names in arrival order
	seen [c12lvHandlers][c12lvKinds][]string
}

func (a *c12lvAPI) RESTMapping(gk schema.GroupKind, _ ...string) (*apimachinerymeta.RESTMapping, error) {
	k := c12imKindOf(gk.Kind)
	return &apimachinerymeta.RESTMapping{
		Resource:         schema.GroupVersionResource{Group: gk.Group, Version: "v1", Resource: fmt.Sprintf("k%ds", k)},
		GroupVersionKind: gk.WithVersion("v1"),
		Scope:            apimachinerymeta.RESTScopeNamespace,
	}, nil
}

func (a *c12lvAPI) Resource(r schema.GroupVersionResource) dynamic.NamespaceableResourceInterface {
	return &c12lvRes{api: a, k: c12imKindOf(r.Resource)}
}

type c12lvRes struct {
	dynamic.NamespaceableResourceInterface // nil: every method not overridden below panics
	api                                    *c12lvAPI
	k                                      int
}

func (r *c12lvRes) Namespace(string) dynamic.ResourceInterface { return r }

func (r *c12lvRes) List(ctx context.Context, _ metav1.ListOptions) (*unstructured.UnstructuredList, error) {
	if err := ctx.Err(); err != nil {
		return nil, err // the REST client does not send a request on an ended context
	}
	a := r.api
	a.mu.Lock()
	hold := a.kinds[r.k].hold
	a.mu.Unlock()
	if hold != nil {
		<-hold
	}
	a.mu.Lock()
	defer a.mu.Unlock()
	st := &a.kinds[r.k]
	st.lists++
	l := &unstructured.UnstructuredList{}
	l.SetAPIVersion("g/v1")
	l.SetKind(fmt.Sprintf("K%dList", r.k))
	l.SetResourceVersion(strconv.Itoa(len(st.objects)))
	for _, o := range st.objects {
		l.Items = append(l.Items, *o.DeepCopy())
	}
	return l, nil
}

func (r *c12lvRes) Watch(ctx context.Context, opts metav1.ListOptions) (watch.Interface, error) {
	if err := ctx.Err(); err != nil {
		return nil, err
	}
	a := r.api
	a.mu.Lock()
	defer a.mu.Unlock()
	st := &a.kinds[r.k]
	w := &c12lvWatch{api: a, k: r.k, ctx: ctx, ch: make(chan watch.Event, 256)}
	since, _ := strconv.Atoi(opts.ResourceVersion)
	for i, o := range st.objects {
		if i+1 > since { // resourceVersion of object i is i+1
			w.ch <- watch.Event{Type: watch.Added, Object: o.DeepCopy()}
		}
	}
	st.opened++
	st.open++
	st.watchers[w] = struct{}{}
	// the transport closes the response stream when the request context ends
	context.AfterFunc(ctx, w.Stop)
	return w, nil
}

// closeEnded closes, synchronously, every stream whose request context has ended (what the transport
// does; context.AfterFunc does the same asynchronously).  Called by the harness right after it ended a
// context, so that the observation that follows does not race with the closing.
func (a *c12lvAPI) closeEnded() {
	a.mu.Lock()
	var ended []*c12lvWatch
	for k := range a.kinds {
		for w := range a.kinds[k].watchers {
			if w.ctx.Err() != nil {
				ended = append(ended, w)
			}
		}
	}
	a.mu.Unlock()
	for _, w := range ended {
		w.Stop()
	}
}

// create adds object s<n> of kind k and sends it on every stream of the kind that is still open.
func (a *c12lvAPI) create(k int) string {
	a.mu.Lock()
	defer a.mu.Unlock()
	st := &a.kinds[k]
	name := fmt.Sprintf("s%d", len(st.objects))
	o := c12Obj(k)
	o.SetName(name)
	o.SetUID(types.UID("uid-" + o.GetKind() + "-" + o.GetName()))
	o.SetResourceVersion(strconv.Itoa(len(st.objects) + 1))
	st.objects = append(st.objects, o)
	for w := range st.watchers {
		if w.stopped || w.ctx.Err() != nil {
			continue // connection is gone
		}
		select {
		case w.ch <- watch.Event{Type: watch.Added, Object: o.DeepCopy()}:
		default:
			panic("c12lv: watch buffer full")
		}
	}
	return name
}

// ---- one scenario -----------------------------------------------------------------------------

type c12lvSys struct {
	api     *c12lvAPI
	im      *InformerMap
	c       *Cache
	ctxs    [c12lvCtxs]context.Context
	cancels [c12lvCtxs]context.CancelFunc
	need    [c12lvKinds]int // create events each handler is waited for (settling only; never printed)
}

func c12lvNew() *c12lvSys {
	api := &c12lvAPI{}
	for k := range api.kinds {
		api.kinds[k].watchers = map[*c12lvWatch]struct{}{}
	}
	scheme := runtime.NewScheme()
	im := &InformerMap{
		scheme:        scheme,
		mapper:        api,
		resync:        10 * time.Hour,
		selectors:     SelectorsByGVK{}.forGVK,
		indexers:      FieldIndexersByGVK{}.forGVK,
		informers:     map[schema.GroupVersionKind]mapEntry{},
		dynamicClient: api,
	}
	c := &Cache{
		scheme:             scheme,
		informerReferences: map[schema.GroupVersionKind]map[OwnerReference]struct{}{},
		informerMap:        im,
		cacheSource:        &cacheSource{},
	}
	// two controllers register their handlers the way controllers do (Source(...).Start before the
	// manager starts the cache)
	for h := 0; h < c12lvHandlers; h++ {
		h := h
		fn := handler.Funcs{
			CreateFunc: func(_ context.Context, e event.TypedCreateEvent[client.Object], _ workqueue.TypedRateLimitingInterface[reconcile.Request]) {
				k := c12imKindOf(e.Object.GetObjectKind().GroupVersionKind().Kind)
				api.mu.Lock()
				api.seen[h][k] = append(api.seen[h][k], e.Object.GetName())
				api.mu.Unlock()
			},
		}
		if err := c.Source(fn).Start(context.Background(), nil); err != nil {
			panic(err)
		}
	}
	_ = c.Start(context.Background())
	s := &c12lvSys{api: api, im: im, c: c}
	for i := range s.ctxs {
		s.ctxs[i], s.cancels[i] = context.WithCancel(context.Background())
	}
	return s
}

func (s *c12lvSys) owners(k int) []string {
	var os []string
	for _, o := range s.c.OwnersForGKV(c12Obj(k).GroupVersionKind()) {
		os = append(os, strings.TrimPrefix(o.Name, "o"))
	}
	sort.Strings(os)
	return os
}

// informer: the informer the map holds for the kind (nil if none).
func (s *c12lvSys) informer(k int) any {
	s.im.informersMux.RLock()
	defer s.im.informersMux.RUnlock()
	if e, ok := s.im.informers[c12Obj(k).GroupVersionKind()]; ok {
		return e.Informer
	}
	return nil
}

func (s *c12lvSys) objects(k int) int {
	s.api.mu.Lock()
	defer s.api.mu.Unlock()
	return len(s.api.kinds[k].objects)
}

// listed: number of items Cache.List returns for the kind; "-" if the cache refuses, "E" on another error.
func (s *c12lvSys) listed(k int) string {
	l := c12List(k)
	err := s.c.List(context.Background(), l)
	var ns *CacheNotStartedError
	switch {
	case errors.As(err, &ns):
		return "-"
	case err != nil:
		return "E"
	}
	return strconv.Itoa(len(l.Items))
}

// settle polls (2 ms steps, at most c12lvWait) until every kind has one open WATCH stream if the cache
// reports an owner for it and none otherwise, every handler got the create events waited for, and the
// objects of every watched kind are visible through Cache.List.
func (s *c12lvSys) settle() bool {
	return c12imWait(c12lvWait, func() bool {
		for k := 0; k < c12lvKinds; k++ {
			owned := len(s.owners(k)) > 0
			want := 0
			if owned {
				want = 1
			}
			s.api.mu.Lock()
			ok := s.api.kinds[k].open == want
			for h := 0; h < c12lvHandlers; h++ {
				ok = ok && len(s.api.seen[h][k]) >= s.need[k]
			}
			n := len(s.api.kinds[k].objects)
			s.api.mu.Unlock()
			if !ok {
				return false
			}
			if owned && s.listed(k) != strconv.Itoa(n) {
				return false
			}
		}
		return true
	})
}

func (s *c12lvSys) observe() string {
	var st []string
	for k := 0; k < c12lvKinds; k++ {
		s.im.informersMux.RLock()
		_, inMap := s.im.informers[c12Obj(k).GroupVersionKind()]
		s.im.informersMux.RUnlock()
		m := 0
		if inMap {
			m = 1
		}
		s.api.mu.Lock()
		open := s.api.kinds[k].open
		e0, e1 := len(s.api.seen[0][k]), len(s.api.seen[1][k])
		s.api.mu.Unlock()
		st = append(st, fmt.Sprintf("%d.%d.%d.%d.%s[%s]", m, open, e0, e1, s.listed(k), strings.Join(s.owners(k), ",")))
	}
	return strings.Join(st, "|")
}

func c12lvExec(scn c12lvScn) string {
	s := c12lvNew()
	defer func() {
		// shut everything down (also what a mutated tree may have left behind in the map); not waited
		// for longer than c12lvHang in case a call that hangs still holds the cache's lock
		done := make(chan struct{})
		go func() {
			defer close(done)
			for o := 0; o < c12lvOwners; o++ {
				_ = s.c.Free(context.Background(), c12Owner(o))
			}
			s.im.informersMux.Lock()
			for gvk, e := range s.im.informers {
				close(e.StopCh)
				delete(s.im.informers, gvk)
			}
			s.im.informersMux.Unlock()
			for _, cancel := range s.cancels {
				cancel()
			}
		}()
		select {
		case <-done:
		case <-time.After(c12lvHang):
		}
	}()
	var outs []string
	for _, op := range scn.Ops {
		if op.K < 0 || op.K >= c12lvKinds || op.C < 0 || op.C >= c12lvCtxs || op.O < 0 || op.O >= c12lvOwners {
			return "BAD-OP"
		}
		var err error
		grace := false
		// a call that does not return within c12lvHang is reported as HANG and ends the scenario
		call := func(f func() error) bool {
			done := make(chan error, 1)
			go func() { done <- f() }()
			select {
			case err = <-done:
				return true
			case <-time.After(c12lvHang):
				return false
			}
		}
		returned := true
		switch op.Op {
		case "watch":
			before := s.informer(op.K)
			var hold chan struct{}
			if s.ctxs[op.C].Err() != nil {
				hold = make(chan struct{})
				s.api.mu.Lock()
				s.api.kinds[op.K].hold = hold
				s.api.mu.Unlock()
			}
			returned = call(func() error { return s.c.Watch(s.ctxs[op.C], c12Owner(op.O), c12Obj(op.K)) })
			if hold != nil {
				s.api.mu.Lock()
				s.api.kinds[op.K].hold = nil
				s.api.mu.Unlock()
				close(hold)
			}
			if after := s.informer(op.K); returned && err == nil && after != nil && after != before {
				// a new informer synced: its handlers get the existing objects replayed
				s.need[op.K] += s.objects(op.K)
			}
		case "free":
			returned = call(func() error { return s.c.Free(context.Background(), c12Owner(op.O)) })
		case "cancel":
			s.cancels[op.C]()
			s.api.closeEnded()
			grace = true // the end of a call's context is expected to have no effect at all
		case "create":
			s.api.create(op.K)
			if len(s.owners(op.K)) > 0 {
				s.need[op.K]++
			} else {
				grace = true
			}
		case "get":
			name := "x"
			if n := s.objects(op.K); n > 0 {
				name = fmt.Sprintf("s%d", n-1)
			}
			returned = call(func() error {
				return s.c.Get(context.Background(), client.ObjectKey{Name: name, Namespace: "ns"}, c12Obj(op.K))
			})
		default:
			return "BAD-OP"
		}
		if !returned {
			outs = append(outs, "HANG")
			for _, cancel := range s.cancels {
				cancel() // release the call
			}
			time.Sleep(50 * time.Millisecond)
			return strings.Join(outs, ";")
		}
		res := "ok"
		var ns *CacheNotStartedError
		switch {
		case errors.As(err, &ns):
			res = "notstarted"
		case apimachineryerrors.IsNotFound(err):
			res = "notfound"
		case err != nil:
			res = "err"
		}
		if grace {
			time.Sleep(c12lvGrace)
		}
		settled := s.settle()
		o := res + " " + s.observe()
		if !settled {
			o += " TIMEOUT"
		}
		outs = append(outs, o)
	}
	return strings.Join(outs, ";")
}

func c12lvTags(s c12lvScn, out string) []string {
	tags := []string{fmt.Sprintf("len=%d", len(s.Ops))}
	seen := map[string]bool{}
	add := func(t string) {
		if !seen[t] {
			seen[t] = true
			tags = append(tags, t)
		}
	}
	// replay who-watches-what to classify the shapes that matter
	w := map[int]map[int]bool{}
	done := map[int]bool{}
	first := map[int]int{} // kind -> context token of the Watch that started the informer
	for _, op := range s.Ops {
		add("op=" + op.Op)
		switch op.Op {
		case "watch":
			if len(w[op.K]) == 0 {
				if done[op.C] {
					add("watch-unowned-under-ended-ctx")
					continue
				}
				w[op.K] = map[int]bool{}
				first[op.K] = op.C
			} else if done[op.C] {
				add("watch-owned-under-ended-ctx")
			}
			w[op.K][op.O] = true
		case "free":
			for k := range w {
				delete(w[k], op.O)
			}
		case "cancel":
			done[op.C] = true
			for k := range w {
				if len(w[k]) > 0 && first[k] == op.C {
					add("cancel-first-watch-ctx-while-owned")
				}
			}
		case "create":
			if len(w[op.K]) > 0 {
				if done[first[op.K]] {
					add("create-after-first-watch-ctx-ended")
				} else {
					add("create-while-owned")
				}
			} else {
				add("create-unowned")
			}
		}
	}
	for _, x := range []string{"notstarted", "err", "TIMEOUT", "notfound", "HANG"} {
		if strings.Contains(out, x) {
			add("out~" + x)
		}
	}
	return tags
}

func TestVerifC12Live(t *testing.T) {
	r := verifkit.Open(t, "C12")
	defer r.Close()
	var scns []c12lvScn
	for _, line := range r.Fixed() {
		var s c12lvScn
		if err := json.Unmarshal([]byte(line), &s); err != nil {
			t.Fatalf("bad scenario %q: %v", line, err)
		}
		if s.T != "live" {
			continue
		}
		scns = append(scns, s)
	}
	if !r.ReplayOnly() {
		enum := func(alpha []c12lvOp, L int) int {
			count := 0
			var rec func(prefix []c12lvOp)
			rec = func(prefix []c12lvOp) {
				if len(prefix) > 0 {
					scns = append(scns, c12lvScn{T: "live", Ops: append([]c12lvOp(nil), prefix...)})
					count++
				}
				if len(prefix) == L {
					return
				}
				for _, a := range alpha {
					rec(append(prefix, a))
				}
			}
			rec(nil)
			return count
		}
		// A: 2 owners x 1 kind x 2 context tokens
		var alphaA []c12lvOp
		for o := 0; o < 2; o++ {
			for c := 0; c < 2; c++ {
				alphaA = append(alphaA, c12lvOp{Op: "watch", O: o, K: 0, C: c})
			}
			alphaA = append(alphaA, c12lvOp{Op: "free", O: o})
		}
		for c := 0; c < 2; c++ {
			alphaA = append(alphaA, c12lvOp{Op: "cancel", C: c})
		}
		alphaA = append(alphaA, c12lvOp{Op: "create", K: 0}, c12lvOp{Op: "get", K: 0})
		// B: 1 owner x 2 kinds x 2 context tokens
		var alphaB []c12lvOp
		for k := 0; k < 2; k++ {
			for c := 0; c < 2; c++ {
				alphaB = append(alphaB, c12lvOp{Op: "watch", O: 0, K: k, C: c})
			}
			alphaB = append(alphaB, c12lvOp{Op: "create", K: k}, c12lvOp{Op: "get", K: k})
		}
		alphaB = append(alphaB, c12lvOp{Op: "free", O: 0}, c12lvOp{Op: "cancel", C: 0}, c12lvOp{Op: "cancel", C: 1})
		// C: the life of one kind whose first watcher's call context ends: two owners with their own
		// context tokens, only the first token can end
		alphaC := []c12lvOp{
			{Op: "watch", O: 0, K: 0, C: 0}, {Op: "watch", O: 1, K: 0, C: 1}, {Op: "cancel", C: 0},
			{Op: "create", K: 0}, {Op: "get", K: 0}, {Op: "free", O: 0},
		}
		r.Extra["exhaustive_len_C"] = r.Pick(4, 5)
		r.Extra["exhaustive_count_C"] = enum(alphaC, r.Pick(4, 5))
		r.Extra["exhaustive_len_A"] = r.Pick(3, 4)
		r.Extra["exhaustive_count_A"] = enum(alphaA, r.Pick(3, 4))
		r.Extra["exhaustive_len_B"] = 3
		r.Extra["exhaustive_count_B"] = enum(alphaB, 3)
		// random longer ones: 3 owners x 2 kinds x 3 context tokens
		n := r.Pick(200, 2000)
		for i := 0; i < n; i++ {
			l := 5 + r.Rng.Intn(12)
			s := c12lvScn{T: "live"}
			for j := 0; j < l; j++ {
				op := c12lvOp{}
				switch x := r.Rng.Intn(20); {
				case x < 6:
					op = c12lvOp{Op: "watch", O: r.Rng.Intn(c12lvOwners), K: r.Rng.Intn(c12lvKinds), C: r.Rng.Intn(c12lvCtxs)}
				case x < 9:
					op = c12lvOp{Op: "free", O: r.Rng.Intn(c12lvOwners)}
				case x < 12:
					op = c12lvOp{Op: "cancel", C: r.Rng.Intn(c12lvCtxs)}
				case x < 17:
					op = c12lvOp{Op: "create", K: r.Rng.Intn(c12lvKinds)}
				default:
					op = c12lvOp{Op: "get", K: r.Rng.Intn(c12lvKinds)}
				}
				s.Ops = append(s.Ops, op)
			}
			scns = append(scns, s)
		}
	}
	// scenarios are independent (own API server, own Cache): run them on a worker pool, emit in order
	outs := make([]string, len(scns))
	workers := 48
	var wg sync.WaitGroup
	next := make(chan int)
	for w := 0; w < workers; w++ {
		wg.Add(1)
		go func() {
			defer wg.Done()
			for i := range next {
				s := scns[i]
				outs[i] = verifkit.Guard(func() string { return c12lvExec(s) })
			}
		}()
	}
	for i := range scns {
		next <- i
	}
	close(next)
	wg.Wait()
	for i, s := range scns {
		r.Emit(s, outs[i], c12lvTags(s, outs[i])...)
	}
}
