package dynamiccache

// Correspondence harness for property C12, stream `informermap`:
// the REAL Cache over the REAL InformerMap (real client-go shared informers / reflectors) on top of
// a hand-written dynamic.Interface fake that honours request contexts (LIST/WATCH fail on an ended
// context, an open WATCH stream is closed when its context ends; every op is made with its own
// per-call context that is cancelled when the call returns), counts LIST calls and WATCH streams per kind and can
// make a kind un-mappable (no REST mapping) or make its LIST hang beyond the caller's deadline
// (=> "failed waiting for Informer to sync").  The real cacheSource carries one counting handler.
//
// Observable after every op, at quiescence, per kind:
//   <LIST calls>.<WATCH streams opened>.<WATCH streams still open>.<entry in informer map 0/1>.<create events seen by the handler>[owners]

import (
	"context"
	"encoding/json"
	"errors"
	"fmt"
	"sort"
	"strings"
	"sync"
	"testing"
	"time"

	apimachineryerrors "k8s.io/apimachinery/pkg/api/errors"
	apimachinerymeta "k8s.io/apimachinery/pkg/api/meta"
	metav1 "k8s.io/apimachinery/pkg/apis/meta/v1"
	"k8s.io/apimachinery/pkg/apis/meta/v1/unstructured"
	"k8s.io/apimachinery/pkg/runtime"
	"k8s.io/apimachinery/pkg/runtime/schema"
	"k8s.io/apimachinery/pkg/watch"
	"k8s.io/client-go/dynamic"
	"k8s.io/client-go/util/workqueue"
	"sigs.k8s.io/controller-runtime/pkg/client"
	"sigs.k8s.io/controller-runtime/pkg/event"
	"sigs.k8s.io/controller-runtime/pkg/handler"
	"sigs.k8s.io/controller-runtime/pkg/reconcile"

	"package-operator.run/internal/verifkit"
)

type c12imScn struct {
	T   string  `json:"t"`   // always "im"
	To  int     `json:"to"`  // per-call context deadline in ms
	Ops []c12Op `json:"ops"` // f: ok | nomap (no REST mapping) | slow (LIST hangs beyond the deadline)
}

const c12imKinds = 2

// ---- fake API server -------------------------------------------------------------------------

type c12imKind struct {
	lists         int           // LIST calls issued
	listsInFlight int           // LIST calls not yet returned
	opened        int           // WATCH streams opened
	open          int           // WATCH streams opened and not stopped
	events        int           // create events delivered to the controller handler
	hang          chan struct{} // non-nil: LIST blocks until closed
	nomap         bool          // RESTMapping fails
}

type c12imAPI struct {
	mu      sync.Mutex
	kinds   [c12imKinds]c12imKind
	watches []*c12imWatch // every WATCH stream ever opened
}

// closeEnded closes, synchronously, every stream whose request context has ended (what the transport
// does; context.AfterFunc does the same asynchronously).  Called right after a per-call context was
// cancelled, so that the observation that follows does not race with the closing.
func (a *c12imAPI) closeEnded() {
	a.mu.Lock()
	ws := append([]*c12imWatch(nil), a.watches...)
	a.mu.Unlock()
	for _, w := range ws {
		if w.ctx.Err() != nil {
			w.transportClose()
		}
	}
}

func c12imKindOf(name string) int {
	// "K0" / "k0s" -> 0
	name = strings.TrimSuffix(strings.ToLower(name), "s")
	var k int
	if _, err := fmt.Sscanf(name, "k%d", &k); err != nil || k < 0 || k >= c12imKinds {
		panic("c12im: unknown kind " + name)
	}
	return k
}

// restMapper
func (a *c12imAPI) RESTMapping(gk schema.GroupKind, versions ...string) (*apimachinerymeta.RESTMapping, error) {
	k := c12imKindOf(gk.Kind)
	a.mu.Lock()
	defer a.mu.Unlock()
	if a.kinds[k].nomap {
		return nil, &apimachinerymeta.NoKindMatchError{GroupKind: gk, SearchedVersions: versions}
	}
	return &apimachinerymeta.RESTMapping{
		Resource:         schema.GroupVersionResource{Group: gk.Group, Version: "v1", Resource: fmt.Sprintf("k%ds", k)},
		GroupVersionKind: gk.WithVersion("v1"),
		Scope:            apimachinerymeta.RESTScopeNamespace,
	}, nil
}

// dynamic.Interface
func (a *c12imAPI) Resource(r schema.GroupVersionResource) dynamic.NamespaceableResourceInterface {
	return &c12imRes{api: a, k: c12imKindOf(r.Resource)}
}

type c12imRes struct {
	dynamic.NamespaceableResourceInterface // nil: every method not overridden below panics
	api                                    *c12imAPI
	k                                      int
}

func (r *c12imRes) Namespace(string) dynamic.ResourceInterface { return r }

// List and Watch honour the request context the way the REST client does: no request is sent on a
// context that has ended, and an open WATCH stream is closed when the context it was opened with ends.
func (r *c12imRes) List(ctx context.Context, _ metav1.ListOptions) (*unstructured.UnstructuredList, error) {
	if err := ctx.Err(); err != nil {
		return nil, err
	}
	a := r.api
	a.mu.Lock()
	st := &a.kinds[r.k]
	st.lists++
	st.listsInFlight++
	hang := st.hang
	a.mu.Unlock()
	if hang != nil {
		<-hang
	}
	l := &unstructured.UnstructuredList{}
	l.SetAPIVersion("g/v1")
	l.SetKind(fmt.Sprintf("K%dList", r.k))
	l.SetResourceVersion("1")
	o := c12Obj(r.k)
	o.SetResourceVersion("1")
	l.Items = append(l.Items, *o)
	a.mu.Lock()
	st.listsInFlight--
	a.mu.Unlock()
	return l, nil
}

type c12imWatch struct {
	api  *c12imAPI
	k    int
	ctx  context.Context
	ch   chan watch.Event
	once sync.Once
	// closeOnce guards closing ch when the request context of the stream ends
	closeOnce sync.Once
}

func (w *c12imWatch) ResultChan() <-chan watch.Event { return w.ch }
func (w *c12imWatch) Stop() {
	w.once.Do(func() {
		w.api.mu.Lock()
		w.api.kinds[w.k].open--
		w.api.mu.Unlock()
	})
}

// transportClose: the stream ends because its request context ended.
func (w *c12imWatch) transportClose() {
	w.Stop()
	w.closeOnce.Do(func() { close(w.ch) })
}

func (r *c12imRes) Watch(ctx context.Context, _ metav1.ListOptions) (watch.Interface, error) {
	if err := ctx.Err(); err != nil {
		return nil, err
	}
	a := r.api
	w := &c12imWatch{api: a, k: r.k, ctx: ctx, ch: make(chan watch.Event)}
	a.mu.Lock()
	a.kinds[r.k].opened++
	a.kinds[r.k].open++
	a.watches = append(a.watches, w)
	a.mu.Unlock()
	context.AfterFunc(ctx, w.transportClose)
	return w, nil
}

// ---- one scenario -----------------------------------------------------------------------------

type c12imSys struct {
	api *c12imAPI
	im  *InformerMap
	c   *Cache
}

func c12imNew() *c12imSys {
	api := &c12imAPI{}
	scheme := runtime.NewScheme()
	im := &InformerMap{
		scheme:        scheme,
		mapper:        api,
		resync:        10 * time.Hour,
		selectors:     SelectorsByGVK{}.forGVK,
		indexers:      FieldIndexersByGVK{}.forGVK,
		informers:     map[schema.GroupVersionKind]mapEntry{},
		dynamicClient: api,
	}
	src := &cacheSource{}
	c := &Cache{
		scheme:             scheme,
		informerReferences: map[schema.GroupVersionKind]map[OwnerReference]struct{}{},
		informerMap:        im,
		cacheSource:        src,
	}
	// one controller handler, registered the way controllers do it (Source(...).Start before the
	// manager starts); it counts the create events per kind
	h := handler.Funcs{
		CreateFunc: func(_ context.Context, e event.TypedCreateEvent[client.Object], _ workqueue.TypedRateLimitingInterface[reconcile.Request]) {
			k := c12imKindOf(e.Object.GetObjectKind().GroupVersionKind().Kind)
			api.mu.Lock()
			api.kinds[k].events++
			api.mu.Unlock()
		},
	}
	if err := c.Source(h).Start(context.Background(), nil); err != nil {
		panic(err)
	}
	_ = c.Start(context.Background()) // blocks further registrations, as the manager does
	return &c12imSys{api: api, im: im, c: c}
}

func (s *c12imSys) owners(k int) []string {
	var os []string
	for _, o := range s.c.OwnersForGKV(c12Obj(k).GroupVersionKind()) {
		os = append(os, strings.TrimPrefix(o.Name, "o"))
	}
	sort.Strings(os)
	return os
}

func c12imWait(d time.Duration, cond func() bool) bool {
	deadline := time.Now().Add(d)
	for {
		if cond() {
			return true
		}
		if time.Now().After(deadline) {
			return false
		}
		time.Sleep(2 * time.Millisecond)
	}
}

// settle waits for quiescence after an op.  Hanging LISTs are released first (the scripted delay only
// lasts for the call); if one was released, the reflector that issued it gets a grace period to act on
// the result (a stopped reflector must not).  Then: every kind has exactly one open WATCH stream if it
// has an owner and none otherwise, and the handler saw one create event per stream ever opened.
// Returns false on timeout.
func (s *c12imSys) settle() bool {
	a := s.api
	released := false
	a.mu.Lock()
	for k := range a.kinds {
		if a.kinds[k].hang != nil {
			if a.kinds[k].listsInFlight > 0 {
				released = true
			}
			close(a.kinds[k].hang)
			a.kinds[k].hang = nil
		}
		a.kinds[k].nomap = false
	}
	a.mu.Unlock()
	ok := c12imWait(2*time.Second, func() bool {
		a.mu.Lock()
		defer a.mu.Unlock()
		for k := range a.kinds {
			if a.kinds[k].listsInFlight != 0 {
				return false
			}
		}
		return true
	})
	if released {
		time.Sleep(60 * time.Millisecond)
	}
	want := [c12imKinds]int{}
	for k := 0; k < c12imKinds; k++ {
		if len(s.owners(k)) > 0 {
			want[k] = 1
		}
	}
	return c12imWait(1500*time.Millisecond, func() bool {
		a.mu.Lock()
		defer a.mu.Unlock()
		for k := range a.kinds {
			if a.kinds[k].open != want[k] || a.kinds[k].events != a.kinds[k].opened {
				return false
			}
		}
		return true
	}) && ok
}

func (s *c12imSys) observe() string {
	var st []string
	for k := 0; k < c12imKinds; k++ {
		s.im.informersMux.RLock()
		_, inMap := s.im.informers[c12Obj(k).GroupVersionKind()]
		s.im.informersMux.RUnlock()
		m := 0
		if inMap {
			m = 1
		}
		s.api.mu.Lock()
		ks := s.api.kinds[k]
		s.api.mu.Unlock()
		st = append(st, fmt.Sprintf("%d.%d.%d.%d.%d[%s]", ks.lists, ks.opened, ks.open, m, ks.events, strings.Join(s.owners(k), ",")))
	}
	return strings.Join(st, "|")
}

func c12imExec(scn c12imScn) string {
	s := c12imNew()
	to := time.Duration(scn.To) * time.Millisecond
	if to <= 0 {
		to = 350 * time.Millisecond
	}
	var outs []string
	for _, op := range scn.Ops {
		if op.K < 0 || op.K >= c12imKinds {
			return "BAD-OP"
		}
		s.api.mu.Lock()
		switch op.F {
		case "nomap":
			s.api.kinds[op.K].nomap = true
		case "slow":
			s.api.kinds[op.K].hang = make(chan struct{})
		}
		s.api.mu.Unlock()
		ctx, cancel := context.WithTimeout(context.Background(), to)
		var err error
		switch op.Op {
		case "watch":
			err = s.c.Watch(ctx, c12Owner(op.O), c12Obj(op.K))
		case "free":
			err = s.c.Free(ctx, c12Owner(op.O))
		case "get":
			err = s.c.Get(ctx, client.ObjectKey{Name: "x", Namespace: "ns"}, c12Obj(op.K))
		case "list":
			l := c12List(op.K)
			err = s.c.List(ctx, l)
			if err == nil && len(l.Items) != 1 {
				err = fmt.Errorf("list returned %d items", len(l.Items))
			}
		case "owners":
		default:
			cancel()
			return "BAD-OP"
		}
		cancel()
		s.api.closeEnded()
		res := "ok"
		var ns *CacheNotStartedError
		switch {
		case errors.As(err, &ns):
			res = "notstarted"
		case apimachineryerrors.IsNotFound(err):
			res = "notfound"
		case err != nil:
			res = "err"
		}
		settled := s.settle()
		o := res + " " + s.observe()
		if !settled {
			o += " TIMEOUT"
		}
		outs = append(outs, o)
	}
	// shut everything down (also what a mutated tree may have left behind in the map)
	for o := 0; o < c12Owners; o++ {
		_ = s.c.Free(context.Background(), c12Owner(o))
	}
	s.im.informersMux.Lock()
	for gvk, e := range s.im.informers {
		close(e.StopCh)
		delete(s.im.informers, gvk)
	}
	s.im.informersMux.Unlock()
	return strings.Join(outs, ";")
}

func c12imTags(s c12imScn, out string) []string {
	tags := []string{fmt.Sprintf("len=%d", len(s.Ops))}
	seen := map[string]bool{}
	for _, op := range s.Ops {
		k := "op=" + op.Op
		if op.F != "ok" && op.F != "" {
			k += "/" + op.F
		}
		if !seen[k] {
			seen[k] = true
			tags = append(tags, k)
		}
	}
	for _, w := range []string{"notstarted", "err", "TIMEOUT", "notfound"} {
		if strings.Contains(out, w) {
			tags = append(tags, "out~"+w)
		}
	}
	if strings.Contains(out, ".1.1.") {
		tags = append(tags, "out~stream-open")
	}
	return tags
}

func TestVerifC12IM(t *testing.T) {
	r := verifkit.Open(t, "C12")
	defer r.Close()
	var scns []c12imScn
	for _, line := range r.Fixed() {
		var s c12imScn
		if err := json.Unmarshal([]byte(line), &s); err != nil {
			t.Fatalf("bad scenario %q: %v", line, err)
		}
		if s.T != "im" {
			continue
		}
		scns = append(scns, s)
	}
	if !r.ReplayOnly() {
		const to = 350
		slow := func(ops []c12Op) int {
			n := 0
			for _, o := range ops {
				if o.F == "slow" {
					n++
				}
			}
			return n
		}
		enum := func(alpha []c12Op, L int) int {
			count := 0
			var rec func(prefix []c12Op)
			rec = func(prefix []c12Op) {
				if len(prefix) > 0 {
					scns = append(scns, c12imScn{T: "im", To: to, Ops: append([]c12Op(nil), prefix...)})
					count++
				}
				if len(prefix) == L {
					return
				}
				for _, a := range alpha {
					if a.F == "slow" && slow(prefix) >= 1 {
						continue
					}
					rec(append(prefix, a))
				}
			}
			rec(nil)
			return count
		}
		// A: 1 owner x 2 kinds
		var alphaA []c12Op
		for k := 0; k < 2; k++ {
			for _, f := range []string{"ok", "nomap", "slow"} {
				alphaA = append(alphaA, c12Op{"watch", 0, k, f})
			}
			alphaA = append(alphaA, c12Op{"get", 0, k, "ok"})
		}
		alphaA = append(alphaA, c12Op{"free", 0, 0, "ok"})
		// B: 2 owners x 1 kind
		var alphaB []c12Op
		for o := 0; o < 2; o++ {
			for _, f := range []string{"ok", "nomap", "slow"} {
				alphaB = append(alphaB, c12Op{"watch", o, 0, f})
			}
			alphaB = append(alphaB, c12Op{"free", o, 0, "ok"})
		}
		alphaB = append(alphaB, c12Op{"get", 0, 0, "ok"}, c12Op{"list", 0, 0, "ok"})
		r.Extra["exhaustive_len_A"] = r.Pick(3, 4)
		r.Extra["exhaustive_count_A"] = enum(alphaA, r.Pick(3, 4))
		r.Extra["exhaustive_len_B"] = 3
		r.Extra["exhaustive_count_B"] = enum(alphaB, 3)
		// random longer ones: 2 owners x 2 kinds, at most 2 slow failures
		n := r.Pick(60, 600)
		for i := 0; i < n; i++ {
			l := 4 + r.Rng.Intn(9)
			s := c12imScn{T: "im", To: to}
			for j := 0; j < l; j++ {
				op := c12Op{O: r.Rng.Intn(2), K: r.Rng.Intn(c12imKinds), F: "ok"}
				switch x := r.Rng.Intn(10); {
				case x < 4:
					op.Op = "watch"
					switch y := r.Rng.Intn(8); {
					case y == 0 && slow(s.Ops) < 2:
						op.F = "slow"
					case y == 1 || y == 2:
						op.F = "nomap"
					}
				case x < 7:
					op.Op = "free"
					op.K = 0
				case x < 9:
					op.Op = "get"
				default:
					op.Op = "list"
				}
				s.Ops = append(s.Ops, op)
			}
			scns = append(scns, s)
		}
	}
	// scenarios are independent (own fake API server, own Cache): run them on a worker pool, emit in order
	outs := make([]string, len(scns))
	workers := 64
	var wg sync.WaitGroup
	next := make(chan int)
	for w := 0; w < workers; w++ {
		wg.Add(1)
		go func() {
			defer wg.Done()
			for i := range next {
				s := scns[i]
				outs[i] = verifkit.Guard(func() string { return c12imExec(s) })
			}
		}()
	}
	for i := range scns {
		next <- i
	}
	close(next)
	wg.Wait()
	for i, s := range scns {
		r.Emit(s, outs[i], c12imTags(s, outs[i])...)
	}
}
