package verifsys

// Generators of the C08 "handover" stream (see od.go): histories of ONE ObjectDeployment whose
// revisions are rolled out by the real ObjectSet / ObjectSetPhase controllers while the real
// ObjectDeployment controller pauses / archives them.

import (
	"fmt"
	"math/rand"
	"strings"

	"package-operator.run/internal/verifphase"
)

// ---- building blocks

func hoObj(s *Scn, name, payload string) verifphase.PObj {
	ns := ""
	if s.Cluster {
		ns = "ns1"
	}
	return verifphase.PObj{Kind: "NsThing", NS: ns, Name: name, CP: "Prevent", Payload: payload, DryRun: "accept"}
}

func hoReady(name string, ready bool, obsGen int64) Step {
	return Step{Op: "env", Env: []verifphase.EnvOp{{Op: "setReady", Kind: "NsThing", NS: "ns1", Name: name, Ready: ready, ObsGen: obsGen}}}
}

func hoRec(set string) Step     { return Step{Op: "reconcile", Set: set} }
func hoPhase(name string) Step  { return Step{Op: "phase", Set: name} }
func hoOD() Step                { return Step{Op: "od"} }
func hoRollout(set string) Step { return Step{Op: "rollout", Set: set} }
func hoPause(p bool) Step       { return Step{Op: "odPause", Value: fmt.Sprint(p)} }
func hoSteps(xs ...[]Step) []Step {
	var out []Step
	for _, x := range xs {
		out = append(out, x...)
	}
	return out
}

// HandoverFinding1 is the schedule of finding 1 (truncated status.controllerOf):
//
//	r1: p1 {a}  p2 {c}        r2: p1 {b}  p2 {c}
//
// r1 rolls out completely, `a` regresses (r1 reports controllerOf=[a] only), r2 is rolled out and
// waits in p1; the ObjectDeployment pauses r1 (empty intersection), r1 confirms, the ObjectDeployment
// archives it, its teardown deletes `c`.
func HandoverFinding1(cluster bool) Scn {
	s := Scn{Cluster: cluster, OD: &ODSpec{}}
	s.Sets = []SetSpec{
		{Name: "r1", Phases: []PhaseSpec{{Name: "p1", Objects: []verifphase.PObj{hoObj(&s, "a", "x")}}, {Name: "p2", Objects: []verifphase.PObj{hoObj(&s, "c", "x")}}}},
		{Name: "r2", Later: true, Previous: []string{"r1"}, Phases: []PhaseSpec{{Name: "p1", Objects: []verifphase.PObj{hoObj(&s, "b", "x")}}, {Name: "p2", Objects: []verifphase.PObj{hoObj(&s, "c", "x")}}}},
	}
	s.Steps = []Step{
		hoRec("r1"), hoReady("a", true, -1), hoRec("r1"), hoReady("c", true, -1), hoRec("r1"), hoOD(),
		hoReady("a", false, -1), hoRec("r1"),
		hoRollout("r2"), hoOD(), hoRec("r2"),
		hoOD(), hoRec("r1"), hoOD(), hoRec("r1"), hoRec("r2"),
	}
	return s
}

// HandoverFinding2 is the schedule of finding 2 (resume after pause):
//
//	r1: p1 {a (payload x)}  p2 {c}        r2: p1 {a (payload y)}  p2 {c}
//
// r1 rolled out; r2 adopts + patches `a` whose status is then outdated, r2 waits in p1; the user
// pauses the ObjectDeployment; `a` becomes ready; the PAUSED r2 reports Available=True (it reads `c`,
// which r1 controls, from the cache); the user resumes: the ObjectDeployment archives r1 in the same
// pass; r1's teardown deletes `c`.
func HandoverFinding2(cluster bool) Scn {
	s := Scn{Cluster: cluster, OD: &ODSpec{}}
	s.Sets = []SetSpec{
		{Name: "r1", Phases: []PhaseSpec{{Name: "p1", Objects: []verifphase.PObj{hoObj(&s, "a", "x")}}, {Name: "p2", Objects: []verifphase.PObj{hoObj(&s, "c", "x")}}}},
		{Name: "r2", Later: true, Previous: []string{"r1"}, Phases: []PhaseSpec{{Name: "p1", Objects: []verifphase.PObj{hoObj(&s, "a", "y")}}, {Name: "p2", Objects: []verifphase.PObj{hoObj(&s, "c", "x")}}}},
	}
	s.Steps = []Step{
		hoRec("r1"), hoReady("a", true, 1), hoRec("r1"), hoReady("c", true, -1), hoRec("r1"), hoOD(),
		hoRollout("r2"), hoOD(), hoRec("r2"), hoOD(),
		hoPause(true), hoOD(), hoRec("r1"), hoRec("r2"),
		hoReady("a", true, 2), hoRec("r2"), hoRec("r1"),
		hoPause(false), hoOD(), hoRec("r1"), hoRec("r2"),
	}
	return s
}

// HandoverTags: distribution tags of the handover stream.
func HandoverTags(s Scn, out string) []string {
	t := []string{fmt.Sprintf("sets=%d", len(s.Sets)), fmt.Sprintf("steps=%d", len(s.Steps))}
	if s.Cluster {
		t = append(t, "cluster")
	}
	nod := 0
	ops := map[string]bool{}
	for _, st := range s.Steps {
		if st.Op == "od" {
			nod++
		}
		if st.Op == "odPause" {
			ops["odPause-"+st.Value] = true
		} else {
			ops[st.Op] = true
		}
	}
	if nod == 0 {
		t = append(t, "trivial")
	}
	for _, op := range []string{"reconcile", "phase", "env", "od", "rollout", "odPause-true", "odPause-false"} {
		if ops[op] {
			t = append(t, "op:"+op)
		}
	}
	delegated := false
	for _, sp := range s.Sets {
		for _, ph := range sp.Phases {
			if ph.Class != "" {
				delegated = true
			}
		}
	}
	if delegated {
		t = append(t, "delegated")
	}
	for _, w := range []string{" Archived pbp=", " Paused pbp=0", " Paused pbp=1", " Active pbp=0", "O ok", "O err", "BAD-STEP", "C ObjectSet/", "X ",
		"D ", "Available=True", "Available=False", "Paused=True", "Paused=Unknown", "Archived=True", "ProbeFailure", "life=Archived", "life=Paused+pbp", "R err", "CollisionDetected"} {
		if strings.Contains(out, w) {
			t = append(t, "out~"+strings.TrimSpace(w))
		}
	}
	return t
}

// ---- revision chains

// hoShape describes the revisions of a chain: per revision, per phase, the objects ("name" or
// "name=payload"; payload x by default) and the phase classes.
type hoShape struct {
	Revs    [][][]string // [revision][phase] -> objects
	Classes [][]string   // [revision][phase] -> class ("" local)
	ClKind  map[string]bool
}

func (sh hoShape) build(cluster bool) Scn {
	s := Scn{Cluster: cluster, OD: &ODSpec{}}
	for i, phases := range sh.Revs {
		sp := SetSpec{Name: fmt.Sprintf("r%d", i+1), Later: i > 0}
		for j := 0; j < i; j++ {
			sp.Previous = append(sp.Previous, fmt.Sprintf("r%d", j+1))
		}
		for p, objs := range phases {
			ph := PhaseSpec{Name: fmt.Sprintf("p%d", p+1)}
			if i < len(sh.Classes) && p < len(sh.Classes[i]) {
				ph.Class = sh.Classes[i][p]
			}
			for _, o := range objs {
				name, payload := o, "x"
				if k := strings.Index(o, "="); k >= 0 {
					name, payload = o[:k], o[k+1:]
				}
				po := hoObj(&s, name, payload)
				if sh.ClKind[name] && cluster {
					po.Kind, po.NS = "ClThing", ""
				}
				ph.Objects = append(ph.Objects, po)
			}
			sp.Phases = append(sp.Phases, ph)
		}
		s.Sets = append(s.Sets, sp)
	}
	return s
}

// hoObjs: the objects of set i.
func hoObjs(s *Scn, i int) []verifphase.PObj {
	var out []verifphase.PObj
	for _, ph := range s.Sets[i].Phases {
		out = append(out, ph.Objects...)
	}
	return out
}

func hoReadyObj(p verifphase.PObj, ready bool, obsGen int64) Step {
	ns := "ns1"
	if p.Kind == "ClThing" {
		ns = ""
	}
	return Step{Op: "env", Env: []verifphase.EnvOp{{Op: "setReady", Kind: p.Kind, NS: ns, Name: p.Name, Ready: ready, ObsGen: obsGen}}}
}

// hoPhaseNames: the phase objects set i delegates to.
func hoPhaseNames(s *Scn, i int) []string {
	var out []string
	for _, ph := range s.Sets[i].Phases {
		if ph.Class != "" {
			out = append(out, s.Sets[i].Name+"-"+ph.Name)
		}
	}
	return out
}

// hoRound: one round of everybody who works for set i — its own pass, a pass of the phase
// controller on each of its phase objects, its own pass again — then all its objects turn ready.
func hoRound(s *Scn, i int, ready bool) []Step {
	out := []Step{hoRec(s.Sets[i].Name)}
	for _, pn := range hoPhaseNames(s, i) {
		out = append(out, hoPhase(pn))
	}
	if len(hoPhaseNames(s, i)) > 0 {
		out = append(out, hoRec(s.Sets[i].Name))
	}
	if ready {
		for _, p := range hoObjs(s, i) {
			out = append(out, hoReadyObj(p, true, -1))
		}
	}
	return out
}

// hoSettle: `rounds` rounds for set i (as many rounds as it has phases, plus one, roll it out).
func hoSettle(s *Scn, i, rounds int) []Step {
	var out []Step
	for k := 0; k < rounds; k++ {
		out = append(out, hoRound(s, i, true)...)
	}
	return out
}

// ---- seeded random histories

func hoBare(o string) string {
	if k := strings.Index(o, "="); k >= 0 {
		return o[:k]
	}
	return o
}

func hoRandomShape(r *rand.Rand, delegate bool) hoShape {
	names := []string{"a", "b", "c", "d", "e", "f"}
	used := 0
	fresh := func() string {
		if used < len(names) {
			used++
			return names[used-1]
		}
		return ""
	}
	sh := hoShape{ClKind: map[string]bool{}}
	nph := 2 + r.Intn(2)
	class := func() string {
		if delegate && r.Intn(2) == 0 {
			return "default"
		}
		return ""
	}
	var r1 [][]string
	var c1 []string
	for p := 0; p < nph; p++ {
		var objs []string
		for k := 0; k < 1+r.Intn(2); k++ {
			if n := fresh(); n != "" {
				objs = append(objs, n)
				if r.Intn(6) == 0 {
					sh.ClKind[n] = true
				}
			}
		}
		r1 = append(r1, objs)
		c1 = append(c1, class())
	}
	sh.Revs, sh.Classes = [][][]string{r1}, [][]string{c1}
	nrev := 2
	if r.Intn(3) == 0 {
		nrev = 3
	}
	for i := 1; i < nrev; i++ {
		prev := sh.Revs[i-1]
		var cur [][]string
		var cc []string
		changed := false
		for p := range prev {
			var objs []string
			for _, o := range prev[p] {
				switch x := r.Intn(10); {
				case x < 5: // shared unchanged
					objs = append(objs, o)
				case x < 7: // shared, payload changed (the new revision patches it)
					objs = append(objs, fmt.Sprintf("%s=v%d", hoBare(o), i+1))
					changed = true
				default: // dropped
					changed = true
				}
			}
			if r.Intn(3) == 0 {
				if n := fresh(); n != "" {
					objs = append(objs, n)
					changed = true
				}
			}
			cur = append(cur, objs)
			if r.Intn(4) == 0 {
				cc = append(cc, class())
			} else {
				cc = append(cc, sh.Classes[i-1][p])
			}
		}
		if !changed { // templates of consecutive revisions differ
			p := r.Intn(len(cur))
			if len(cur[p]) > 0 {
				cur[p][0] = fmt.Sprintf("%s=v%d", hoBare(cur[p][0]), i+1)
			} else if n := fresh(); n != "" {
				cur[p] = append(cur[p], n)
			} else {
				cur[p] = append(cur[p], fmt.Sprintf("z%d", i))
			}
		}
		for p := range cur { // a phase without objects is legal but rare
			if len(cur[p]) == 0 && r.Intn(2) == 0 {
				if n := fresh(); n != "" {
					cur[p] = append(cur[p], n)
				}
			}
		}
		sh.Revs = append(sh.Revs, cur)
		sh.Classes = append(sh.Classes, cc)
	}
	return sh
}

// Handover: seeded random histories — revision 1 rolled out (completely or not), probe
// regressions, roll-outs of 1-2 further revisions sharing / dropping / adding / changing objects in
// early and late phases, local and delegated phases, ObjectDeployment passes at every point,
// pause / resume of the ObjectDeployment, probe changes while paused.
func Handover(r *rand.Rand) Scn {
	if r.Intn(12) == 0 { // neighbourhood of the two finding schedules
		var s Scn
		if r.Intn(2) == 0 {
			s = HandoverFinding1(r.Intn(4) == 0)
		} else {
			s = HandoverFinding2(r.Intn(4) == 0)
		}
		return hoPerturb(r, s)
	}
	sh := hoRandomShape(r, r.Intn(2) == 0)
	s := sh.build(r.Intn(5) == 0)
	live := 1 // sets rolled out so far
	paused := false
	add := func(sts ...Step) {
		for _, st := range sts {
			s.Steps = append(s.Steps, st)
			if r.Intn(5) == 0 {
				s.Steps = append(s.Steps, hoOD())
			}
		}
	}
	// revision 1: mostly rolled out completely
	rounds := len(s.Sets[0].Phases) + 1
	if r.Intn(4) == 0 {
		rounds = r.Intn(rounds)
	}
	add(hoSettle(&s, 0, rounds)...)
	n := 8 + r.Intn(18)
	for k := 0; k < n; k++ {
		i := r.Intn(live)
		if r.Intn(2) == 0 {
			i = live - 1
		}
		switch x := r.Intn(30); {
		case x < 7:
			add(hoRec(s.Sets[i].Name))
		case x < 10:
			if pn := hoPhaseNames(&s, i); len(pn) > 0 {
				add(hoPhase(pick(r, pn)))
			} else {
				add(hoRec(s.Sets[i].Name))
			}
		case x < 13:
			if objs := hoObjs(&s, i); len(objs) > 0 {
				add(hoReadyObj(pick(r, objs), true, int64(r.Intn(4))-1))
			}
		case x < 15:
			if objs := hoObjs(&s, i); len(objs) > 0 {
				add(hoReadyObj(pick(r, objs), false, -1))
			}
		case x < 17:
			for _, p := range hoObjs(&s, i) {
				s.Steps = append(s.Steps, hoReadyObj(p, true, -1))
			}
		case x < 21:
			s.Steps = append(s.Steps, hoOD())
		case x < 24:
			if live < len(s.Sets) {
				add(hoRollout(s.Sets[live].Name))
				live++
				if r.Intn(3) != 0 {
					add(hoRec(s.Sets[live-1].Name))
				}
			} else {
				add(hoRound(&s, i, r.Intn(2) == 0)...)
			}
		case x < 26:
			if paused || r.Intn(3) == 0 {
				paused = !paused
				s.Steps = append(s.Steps, hoPause(paused), hoOD())
			} else {
				add(hoRec(s.Sets[i].Name))
			}
		default:
			add(hoRound(&s, i, r.Intn(3) != 0)...)
		}
	}
	// the history mostly ends with everybody getting their turn
	if r.Intn(3) != 0 {
		for k := 0; k < 2; k++ {
			s.Steps = append(s.Steps, hoOD())
			for i := 0; i < live; i++ {
				s.Steps = append(s.Steps, hoRound(&s, i, false)...)
			}
		}
	}
	return s
}

// hoPerturb drops, repeats and swaps a few steps of a scripted history.
func hoPerturb(r *rand.Rand, s Scn) Scn {
	steps := append([]Step{}, s.Steps...)
	for k := 0; k < 1+r.Intn(3); k++ {
		if len(steps) < 3 {
			break
		}
		i := r.Intn(len(steps))
		switch r.Intn(4) {
		case 0: // drop (never a roll-out)
			if steps[i].Op != "rollout" {
				steps = append(steps[:i:i], steps[i+1:]...)
			}
		case 1: // repeat
			if steps[i].Op != "rollout" {
				steps = append(steps[:i+1:i+1], steps[i:]...)
			}
		case 2: // swap with the next
			if i+1 < len(steps) {
				steps[i], steps[i+1] = steps[i+1], steps[i]
			}
		default: // an ObjectDeployment pass here
			steps = append(steps[:i:i], append([]Step{hoOD()}, steps[i:]...)...)
		}
	}
	s.Steps = steps
	return s
}

// ---- exhaustive small histories

// hoAlphabet: the moves of a two-revision handover.
func hoAlphabet(s *Scn, early verifphase.PObj) [][]Step {
	var readyAll []Step
	seen := map[string]bool{}
	for i := range s.Sets {
		for _, p := range hoObjs(s, i) {
			if !seen[p.Kind+"/"+p.Name] {
				seen[p.Kind+"/"+p.Name] = true
				readyAll = append(readyAll, hoReadyObj(p, true, -1))
			}
		}
	}
	al := [][]Step{
		{hoOD()},
		{hoRec("r1")},
		{hoRec("r2")},
		readyAll,
		{hoReadyObj(early, false, -1)},
		{hoPause(true), hoOD()},
		{hoPause(false), hoOD()},
	}
	for i := range s.Sets {
		for _, pn := range hoPhaseNames(s, i) {
			al = append(al, []Step{hoPhase(pn), hoRec(s.Sets[i].Name)})
		}
	}
	return al
}

// HandoverExhaustive: every move sequence of length <= 3 (quick) / 4 (thorough) — delegated shapes: 2 / 3 — over the alphabet {ObjectDeployment
// pass; pass of r1; pass of r2; all objects ready; the early-phase object of r1 regresses; pause +
// pass; resume + pass; (delegated phases: pass of the phase controller + pass of its ObjectSet)} after
// the prefixes {r1 rolled out; r1 rolled out and its early object regressed} + roll-out of r2 + its first
// pass {; then the ObjectDeployment paused and the pause confirmed by both revisions}, for the object shapes of a two-revision handover (disjoint early objects / shared changed early
// object / dropped early object / added late object; shared late object), local and delegated.
func HandoverExhaustive(tier int) []Scn {
	var out []Scn
	shapes := []hoShape{
		{Revs: [][][]string{{{"a"}, {"c"}}, {{"b"}, {"c"}}}},                                                          // finding-1 shape: disjoint early, shared late
		{Revs: [][][]string{{{"a"}, {"c"}}, {{"a=y"}, {"c"}}}},                                                        // finding-2 shape: early object changed, shared late
		{Revs: [][][]string{{{"a", "b"}, {"c"}}, {{"a=y"}, {"c"}}}},                                                   // upgrade dropping an early object
		{Revs: [][][]string{{{"a"}, {"c"}}, {{"a"}, {"c", "d"}}}},                                                     // late object added
		{Revs: [][][]string{{{"a"}, {"c"}}, {{"b"}, {"c"}}}, Classes: [][]string{{"", "default"}, {"", "default"}}},   // shared late object in a delegated phase
		{Revs: [][][]string{{{"a"}, {"c"}}, {{"a=y"}, {"c"}}}, Classes: [][]string{{"default", ""}, {"default", ""}}}, // early phase delegated
	}
	for si, sh := range shapes {
		depth := 3 + tier
		if si >= 4 { // delegated shapes: larger alphabet
			depth = 2 + tier
		}
		base := sh.build(false)
		early := base.Sets[0].Phases[0].Objects[0]
		al := hoAlphabet(&base, early)
		rolled := hoSteps(hoSettle(&base, 0, 3), []Step{hoOD()})
		r2 := []Step{hoRollout("r2"), hoRec("r2")}
		prefixes := [][]Step{
			hoSteps(rolled, r2),
			hoSteps(rolled, []Step{hoReadyObj(early, false, -1), hoRec("r1")}, r2),
			// the ObjectDeployment is paused in the middle of the roll-out, both revisions confirm
			hoSteps(rolled, r2, []Step{hoPause(true), hoOD()}, hoRound(&base, 0, false), hoRound(&base, 1, false)),
		}
		for _, pre := range prefixes {
			var rec func(seq []Step, k int)
			rec = func(seq []Step, k int) {
				s := base
				s.Steps = hoSteps(pre, seq, []Step{hoRec("r1"), hoRec("r2")})
				out = append(out, s)
				if k == 0 {
					return
				}
				for _, mv := range al {
					rec(hoSteps(seq, mv), k-1)
				}
			}
			rec(nil, depth)
		}
	}
	return out
}
