package verifsys

// Generators of the sys stream for environment behaviour beyond third-party edits of single
// objects: API errors answering PKO's writes on managed objects (Faulted), passes working on a
// stale read of their ObjectSet (Stale), kinds served under several API versions (Versioned)
// and kinds whose API is re-registered with another scope while the controllers keep running
// (Rescoped).  Each one perturbs a history of Random / Scripted, so everything those reach is
// reached here too — with the new disturbance at an arbitrary point.

import (
	"fmt"
	"math/rand"
	"regexp"
	"strings"

	"package-operator.run/internal/verifphase"
)

// base picks the history to perturb: mostly the scripted, mostly successful lifecycles (they get
// revisions to Available / Succeeded / Archived), otherwise fully random ones.
func base(r *rand.Rand) Scn {
	if r.Intn(3) == 0 {
		return Random(r, r.Intn(2) == 0)
	}
	return Scripted(r, r.Intn(3) == 0)
}

func passSteps(s Scn, ops ...string) []int {
	var out []int
	for i, st := range s.Steps {
		for _, op := range ops {
			if st.Op == op {
				out = append(out, i)
			}
		}
	}
	return out
}

// WFaultClasses are the API error classes a refused write is answered with.
var WFaultClasses = []string{"Conflict", "Conflict", "Conflict", "Forbidden", "Error", "Invalid", "BadRequest"}

// Faulted: in 1-3 passes (ObjectSet or ObjectSetPhase controller) one write on a managed object —
// create, patch, ownership patch or delete, of any phase — is refused by the API.
func Faulted(r *rand.Rand) Scn {
	s := base(r)
	passes := passSteps(s, "reconcile", "phase")
	if len(passes) == 0 {
		return s
	}
	for k := 1 + r.Intn(3); k > 0; k-- {
		st := &s.Steps[pick(r, passes)]
		st.SetEnv = nil
		st.WFault = &WFault{At: pick(r, []int{0, 0, 0, 1, 1, 2, 3}), Class: pick(r, WFaultClasses)}
	}
	return s
}

// Stale: 1-2 ObjectSet passes work on a read of their ObjectSet that the store is ahead of when
// the pass writes: between the read and the n-th write on the ObjectSet the outcome of the
// controller's own previous pass becomes visible (Succeeded recorded / archival completed);
// often an object regresses in the same pass, so that the pass computes less than is stored.
func Stale(r *rand.Rand) Scn {
	s := base(r)
	passes := passSteps(s, "reconcile")
	if len(passes) == 0 {
		return s
	}
	names := []string{"a", "b", "c"}
	for k := 1 + r.Intn(2); k > 0; k-- {
		st := &s.Steps[pick(r, passes)]
		st.WFault = nil
		st.SetEnv = append(st.SetEnv, SetEnv{At: pick(r, []int{0, 0, 0, 1}), Op: "status", Set: st.Set,
			Value: pick(r, []string{"Succeeded", "Succeeded", "Archived"})})
		if r.Intn(2) == 0 {
			ns := "ns1"
			st.Env = append(st.Env, verifphase.EnvOp{At: r.Intn(2), Op: "setReady", Kind: "NsThing", NS: ns, Name: pick(r, names), Ready: false, ObsGen: -1})
		}
	}
	return s
}

func otherVer(v string) string {
	if v == "" || v == "v1" {
		return "v2"
	}
	return ""
}

// Versioned: some objects are listed under the second served version of their kind, and 0-2
// times an object of an ObjectSet is listed once more — under the other version (or, rarely, the
// same) — in the same phase or in another phase of that ObjectSet.
func Versioned(r *rand.Rand) Scn {
	s := base(r)
	for i := range s.Sets {
		for j := range s.Sets[i].Phases {
			for k := range s.Sets[i].Phases[j].Objects {
				if r.Intn(6) == 0 {
					s.Sets[i].Phases[j].Objects[k].Ver = "v2"
				}
			}
		}
	}
	for k := r.Intn(3); k > 0; k-- {
		sp := &s.Sets[r.Intn(len(s.Sets))]
		src := sp.Phases[r.Intn(len(sp.Phases))]
		if len(src.Objects) == 0 {
			continue
		}
		d := src.Objects[r.Intn(len(src.Objects))]
		if r.Intn(6) != 0 {
			d.Ver = otherVer(d.Ver)
		}
		if r.Intn(3) == 0 {
			d.Payload = pick(r, []string{"x", "y"})
		}
		dst := &sp.Phases[r.Intn(len(sp.Phases))]
		at := r.Intn(len(dst.Objects) + 1)
		objs := append([]verifphase.PObj{}, dst.Objects[:at]...)
		objs = append(objs, d)
		dst.Objects = append(objs, dst.Objects[at:]...)
	}
	return s
}

// Rescoped: 1-2 times during the history the API of a managed kind is re-registered with another
// scope (or removed); passes of every ObjectSet follow.
func Rescoped(r *rand.Rand) Scn {
	s := base(r)
	for k := 1 + r.Intn(2); k > 0; k-- {
		st := Step{Op: "rescope", Set: pick(r, []string{"NsThing", "NsThing", "NsThing", "ClThing"}),
			Value: pick(r, []string{"cluster", "cluster", "cluster", "namespaced", "unknown"})}
		at := 0
		if len(s.Steps) > 0 {
			at = 1 + r.Intn(len(s.Steps))
		}
		steps := append([]Step{}, s.Steps[:at]...)
		steps = append(steps, st)
		s.Steps = append(steps, s.Steps[at:]...)
	}
	for k := 1 + r.Intn(3); k > 0; k-- {
		s.Steps = append(s.Steps, Step{Op: "reconcile", Set: pick(r, s.Sets).Name})
	}
	return s
}

// MapErrSets are the sets of kinds whose REST-mapper lookups fail during a pass.
var MapErrSets = [][]string{{"NsThing"}, {"ClThing"}, {"NsThing", "ClThing"}, {"NsThing", "ClThing", "Ghost"}}

// MapFaulted: API discovery is degraded during some passes — the REST mapper answers the lookups
// of some kinds with a transient error that is NOT NoMatch.  Either a history of Random / Scripted
// in which 1-3 passes (ObjectSet or ObjectSetPhase controller) run with such a mapper, usually
// followed by a teardown (archival / deletion) whose first passes run with it too; or (Trespass)
// an ObjectSet that lists an object it may never touch, which exists all the same.
func MapFaulted(r *rand.Rand) Scn {
	if r.Intn(2) == 0 {
		return Trespass(r)
	}
	s := base(r)
	passes := passSteps(s, "reconcile", "phase")
	for k := 1 + r.Intn(3); k > 0 && len(passes) > 0; k-- {
		st := &s.Steps[pick(r, passes)]
		st.MapErr, st.MapErrClass = pick(r, MapErrSets), pick(r, verifphase.MapErrClasses)
	}
	if r.Intn(3) != 0 {
		sp := pick(r, s.Sets)
		if r.Intn(2) == 0 {
			s.Steps = append(s.Steps, Step{Op: "lifecycle", Set: sp.Name, Value: "Archived"})
		} else {
			s.Steps = append(s.Steps, Step{Op: "delete", Set: sp.Name})
		}
		faulty := r.Intn(3)
		for k := 0; k < 4; k++ {
			st := Step{Op: "reconcile", Set: sp.Name}
			if k < faulty {
				st.MapErr, st.MapErrClass = pick(r, MapErrSets), pick(r, verifphase.MapErrClasses)
			}
			s.Steps = append(s.Steps, st)
			for _, ph := range sp.Phases {
				if ph.Class != "" {
					pst := Step{Op: "phase", Set: sp.Name + "-" + ph.Name}
					if k < faulty && r.Intn(2) == 0 {
						pst.MapErr, pst.MapErrClass = pick(r, MapErrSets), pick(r, verifphase.MapErrClasses)
					}
					s.Steps = append(s.Steps, pst)
				}
			}
		}
	}
	return s
}

// Trespass: a (mostly namespaced) ObjectSet whose phases list, next to regular objects, an object
// outside of what it may touch — in another namespace, or of a cluster-scoped kind (with / without
// namespace) — which roll-out refuses with PreflightError for ever.  An object of that name EXISTS,
// and a third party has put an ownerReference to the ObjectSet (its uid; controller or plain) on it.
// Roll-out passes and, after archival / deletion, teardown passes follow; in some of them the REST
// mapper cannot answer for some kinds (so that the checks that would tell cannot be evaluated).
func Trespass(r *rand.Rand) Scn {
	s := Scn{Cluster: r.Intn(6) == 0}
	os1 := SetSpec{Name: "os1", Revision: 1, FinCached: true}
	if r.Intn(4) == 0 {
		os1.Revision, os1.FinCached = 0, false // a revision that never got anywhere
	}
	objNS := ""
	if s.Cluster {
		objNS = "ns1"
	}
	reg := func(name string) verifphase.PObj {
		return verifphase.PObj{Kind: "NsThing", NS: objNS, Name: name, CP: "Prevent", Payload: "x", DryRun: "accept"}
	}
	tres := reg("t")
	switch r.Intn(4) {
	case 0:
		tres.NS = "ns2"
	case 1:
		tres.Kind, tres.NS = "ClThing", ""
	case 2:
		tres.Kind, tres.NS = "ClThing", "ns1"
	case 3:
		tres.Kind, tres.NS = "ClThing", "ns2"
	}
	names := []string{"a", "b", "c"}
	nph := 1 + r.Intn(2)
	at := r.Intn(nph)
	used := 0
	for i := 0; i < nph; i++ {
		ph := PhaseSpec{Name: fmt.Sprintf("p%d", i+1)}
		cnt := r.Intn(3)
		if i != at && cnt == 0 {
			cnt = 1
		}
		for k := cnt; k > 0 && used < len(names); k-- {
			ph.Objects = append(ph.Objects, reg(names[used]))
			used++
		}
		if i == at {
			pos := r.Intn(len(ph.Objects) + 1)
			objs := append([]verifphase.PObj{}, ph.Objects[:pos]...)
			objs = append(objs, tres)
			ph.Objects = append(objs, ph.Objects[pos:]...)
		}
		os1.Phases = append(os1.Phases, ph)
	}
	s.Sets = []SetSpec{os1}
	for _, ph := range os1.Phases {
		for _, p := range ph.Objects {
			ns := p.NS
			if ns == "" {
				ns = s.ns()
			}
			if p.Kind == "ClThing" {
				ns = ""
			}
			so := verifphase.SObj{Kind: p.Kind, NS: ns, Name: p.Name, Cache: r.Intn(4) != 0, Payload: "x", ObsGen: -1, Ready: true}
			if p.Name == "t" {
				switch r.Intn(5) {
				case 0: // a stranger's object
					so.Owners = []verifphase.Ref{{Group: "apps", Kind: "Deployment", Name: "dep", UID: "u-dep", Ctrl: true}}
				case 1, 2:
					so.Owners = []verifphase.Ref{s.setRef(0, true)}
					so.Rev = "1"
				default:
					so.Owners = []verifphase.Ref{s.setRef(0, false)}
					if r.Intn(2) == 0 {
						so.Owners = append(so.Owners, verifphase.Ref{Group: "apps", Kind: "Deployment", Name: "dep", UID: "u-dep", Ctrl: true})
					}
				}
			} else {
				if r.Intn(4) == 0 {
					continue
				}
				so.Owners = []verifphase.Ref{s.setRef(0, true)}
				so.Rev = "1"
			}
			s.Store = append(s.Store, so)
		}
	}
	pass := func(p float64) Step {
		st := Step{Op: "reconcile", Set: "os1"}
		if r.Float64() < p {
			st.MapErr = pick(r, [][]string{{tres.Kind}, {tres.Kind}, {"NsThing", "ClThing"}, {"NsThing"}, {"ClThing"}})
			st.MapErrClass = pick(r, verifphase.MapErrClasses)
		}
		return st
	}
	for k := r.Intn(3); k > 0; k-- {
		s.Steps = append(s.Steps, pass(0.4))
	}
	if r.Intn(2) == 0 {
		s.Steps = append(s.Steps, Step{Op: "lifecycle", Set: "os1", Value: "Archived"})
	} else {
		s.Steps = append(s.Steps, Step{Op: "delete", Set: "os1"})
	}
	s.Steps = append(s.Steps, pass(0.7), pass(0.4), pass(0.1), pass(0))
	return s
}

var refusedRe = regexp.MustCompile(`(A|M) \S+ !(Conflict|Forbidden|Error|Invalid|BadRequest)|D \S+ \S+ \S+ (Forbidden|Error|Invalid|BadRequest)`)

// EnvTags: input-distribution tags of the generators above.
func EnvTags(s Scn, out string) []string {
	var t []string
	seen := map[string]bool{}
	add := func(x string) {
		if !seen[x] {
			seen[x] = true
			t = append(t, x)
		}
	}
	for _, st := range s.Steps {
		if st.WFault != nil {
			add("wfault")
		}
		if len(st.MapErr) > 0 {
			add("mapErr")
			add("mapErr-" + st.Op)
		}
		if st.Op == "rescope" {
			add("rescope")
			add("rescope-" + st.Value)
		}
		for _, e := range st.SetEnv {
			if e.Op == "status" {
				add("stale-" + e.Value)
			}
		}
	}
	if refusedRe.MatchString(out) {
		add("write-refused")
	}
	for _, sp := range s.Sets {
		keys := map[string]string{}
		for _, ph := range sp.Phases {
			for _, o := range ph.Objects {
				if o.Ver != "" {
					add("ver2")
				}
				k := o.Kind + "/" + o.NS + "/" + o.Name
				if v, ok := keys[k]; ok {
					if v != o.Ver {
						add("dup-across-versions")
					} else {
						add("dup-same-version")
					}
				}
				keys[k] = o.Ver
			}
		}
	}
	if strings.Contains(out, "NsThing//") {
		add("out~NsThing-cluster-scoped")
	}
	return t
}

// LostStatus builds roll-outs of an ObjectSet with several delegated phases in which the status
// update of some ObjectSet passes is lost (a third party touches the ObjectSet right before the
// write: Conflict) — so that phase objects exist that the status never got to list — and tears
// the ObjectSet down (archival / deletion) at a random point, possibly right after such a pass.
func LostStatus(r *rand.Rand) Scn {
	s := Scn{Cluster: r.Intn(5) == 0}
	objNS := ""
	if s.Cluster {
		objNS = "ns1"
	}
	mk := func(name string) verifphase.PObj {
		return verifphase.PObj{Kind: "NsThing", NS: objNS, Name: name, CP: "Prevent", Payload: "x", DryRun: "accept"}
	}
	names := []string{"a", "b", "c"}
	nph := 2 + r.Intn(2)
	os1 := SetSpec{Name: "os1"}
	for i := 0; i < nph; i++ {
		cls := "default"
		if r.Intn(4) == 0 {
			cls = ""
		}
		os1.Phases = append(os1.Phases, PhaseSpec{Name: fmt.Sprintf("p%d", i+1), Class: cls, Objects: []verifphase.PObj{mk(names[i])}})
	}
	s.Sets = []SetSpec{os1}
	rec := func() Step {
		st := Step{Op: "reconcile", Set: "os1"}
		if r.Intn(3) == 0 { // the status update of this pass is lost
			st.SetEnv = []SetEnv{{At: r.Intn(2), Op: "touch", Set: "os1"}}
		}
		return st
	}
	var steps []Step
	for i, ph := range os1.Phases {
		steps = append(steps, rec(), rec())
		if ph.Class != "" {
			steps = append(steps, Step{Op: "phase", Set: "os1-" + ph.Name})
		}
		steps = append(steps, Step{Op: "env", Env: []verifphase.EnvOp{{Op: "setReady", Kind: "NsThing", NS: "ns1", Name: names[i], Ready: true, ObsGen: -1}}})
		if ph.Class != "" {
			steps = append(steps, Step{Op: "phase", Set: "os1-" + ph.Name})
		}
	}
	steps = append(steps, rec())
	// the teardown starts at a random point of the roll-out
	cut := 1 + r.Intn(len(steps))
	steps = steps[:cut]
	if r.Intn(3) == 0 {
		// a third party deletes a phase object; the ObjectSet re-creates it (new uid) in a pass whose status
		// update may be lost too: status.remotePhases then still names the OLD uid when the teardown starts
		var del []string
		for _, ph := range os1.Phases {
			if ph.Class != "" {
				del = append(del, "os1-"+ph.Name)
			}
		}
		if len(del) > 0 {
			pn := del[r.Intn(len(del))]
			steps = append(steps, Step{Op: "delPhase", Set: pn, Value: "force"})
			for k := r.Intn(3); k > 0; k-- {
				steps = append(steps, rec())
				if r.Intn(2) == 0 {
					steps = append(steps, Step{Op: "phase", Set: pn})
				}
			}
		}
	}
	if r.Intn(2) == 0 {
		steps = append(steps, Step{Op: "lifecycle", Set: "os1", Value: "Archived"})
	} else {
		steps = append(steps, Step{Op: "delete", Set: "os1"})
	}
	for k := 0; k < nph+2; k++ {
		steps = append(steps, Step{Op: "reconcile", Set: "os1"})
		for _, ph := range os1.Phases {
			if ph.Class != "" {
				steps = append(steps, Step{Op: "phase", Set: "os1-" + ph.Name})
			}
		}
	}
	s.Steps = steps
	return s
}

// PauseRace: an ObjectSet with delegated phases is paused at a random point of its roll-out — also
// before the phase controller has looked at a phase object for the first time, or while the phase
// object has not reported for its current generation — then the ObjectSet and every phase
// controller run again (the phase controllers must not write any more), then it is released.
func PauseRace(r *rand.Rand) Scn {
	s := Scn{Cluster: r.Intn(5) == 0}
	objNS := ""
	if s.Cluster {
		objNS = "ns1"
	}
	names := []string{"a", "b", "c"}
	nph := 1 + r.Intn(3)
	os1 := SetSpec{Name: "os1"}
	for i := 0; i < nph; i++ {
		cls := "default"
		if r.Intn(4) == 0 {
			cls = ""
		}
		os1.Phases = append(os1.Phases, PhaseSpec{Name: fmt.Sprintf("p%d", i+1), Class: cls,
			Objects: []verifphase.PObj{{Kind: "NsThing", NS: objNS, Name: names[i], CP: "Prevent", Payload: "x", DryRun: "accept"}}})
	}
	// the first phase breaks while the ObjectSet is paused: its kind is re-registered cluster-scoped, so
	// every pass of the (namespaced) ObjectSet from then on ends in a preflight violation in phase 1 —
	// the delegated phases behind it must be handed the pause all the same
	breakEarly := !s.Cluster && nph > 1 && os1.Phases[0].Class == "" && r.Intn(3) == 0
	if breakEarly {
		os1.Phases[0].Objects[0].Kind = "ClThing"
	}
	s.Sets = []SetSpec{os1}
	phasePasses := func(p float64) (out []Step) {
		for _, ph := range os1.Phases {
			if ph.Class != "" && r.Float64() < p {
				out = append(out, Step{Op: "phase", Set: "os1-" + ph.Name})
			}
		}
		return
	}
	var steps []Step
	if breakEarly {
		steps = append(steps, Step{Op: "rescope", Set: "ClThing", Value: "namespaced"})
	}
	for i := range os1.Phases {
		steps = append(steps, Step{Op: "reconcile", Set: "os1"})
		steps = append(steps, phasePasses(0.5)...)
		if r.Intn(3) != 0 || breakEarly {
			steps = append(steps, Step{Op: "env", Env: []verifphase.EnvOp{{Op: "setReady", Kind: os1.Phases[i].Objects[0].Kind, NS: "ns1", Name: names[i], Ready: true, ObsGen: -1}}})
			steps = append(steps, phasePasses(0.5)...)
		}
	}
	cut := 1 + r.Intn(len(steps))
	if breakEarly {
		cut = len(steps) - r.Intn(2)
	}
	steps = steps[:cut:cut]
	if breakEarly {
		steps = append(steps, Step{Op: "rescope", Set: "ClThing", Value: "cluster"})
	}
	steps = append(steps, Step{Op: "lifecycle", Set: "os1", Value: "Paused"})
	for k := 0; k < 2; k++ {
		steps = append(steps, Step{Op: "reconcile", Set: "os1"})
		steps = append(steps, phasePasses(1)...)
	}
	if r.Intn(2) == 0 { // someone edits an object while everything is paused: nobody may repair it
		steps = append(steps, Step{Op: "env", Env: []verifphase.EnvOp{{Op: "setPayload", Kind: "NsThing", NS: "ns1", Name: names[r.Intn(nph)], Payload: "drift", ObsGen: -1}}})
		steps = append(steps, phasePasses(1)...)
		steps = append(steps, Step{Op: "reconcile", Set: "os1"})
	}
	if r.Intn(2) == 0 {
		steps = append(steps, Step{Op: "lifecycle", Set: "os1", Value: "Active"})
		for k := 0; k < 2; k++ {
			steps = append(steps, Step{Op: "reconcile", Set: "os1"})
			steps = append(steps, phasePasses(1)...)
		}
	}
	s.Steps = steps
	return s
}
