package verifsys

// C10 — convergence stream.  A scenario is a "mostly successful" lifecycle (rollout, handover,
// archival / deletion) with a FIXED desired state, disturbed by API faults at chosen calls of chosen
// passes (error before effect, effect with lost response, process crash + restart) and by drift
// (third-party edits / deletions of managed objects).  After the scripted steps both the disturbed
// run and the undisturbed reference run (same steps without faults and drift) are driven by a fair
// schedule ("settle": every controller reconciles every object round-robin, workloads become
// ready, foreign finalizers are removed) and their projected end states are compared; one more
// round must change nothing.

import (
	"encoding/json"
	"fmt"
	"math/rand"
	"sort"
	"strings"
	"sync"

	"k8s.io/apimachinery/pkg/apis/meta/v1/unstructured"

	"package-operator.run/internal/verifphase"
	"package-operator.run/internal/verifstore"
)

// managedKeys lists every managed-object key a scenario can touch, in the order the model uses
// (initial store first, then the objects of the ObjectSets' phases), without duplicates.
func (s Scn) managedKeys() []verifstore.Key {
	var out []verifstore.Key
	seen := map[verifstore.Key]bool{}
	add := func(kind, ns, name string) {
		k := verifstore.Key{Group: verifphase.Group, Kind: kind, Namespace: ns, Name: name}
		if !seen[k] {
			seen[k] = true
			out = append(out, k)
		}
	}
	for _, o := range s.Store {
		add(o.Kind, o.NS, o.Name)
	}
	for _, sp := range s.Sets {
		for _, ph := range sp.Phases {
			for _, p := range ph.Objects {
				ns := p.NS
				if ns == "" {
					ns = s.ns()
				}
				if p.Kind == "ClThing" {
					ns = ""
				}
				add(p.Kind, ns, p.Name)
			}
		}
	}
	return out
}

func (s Scn) phaseNames() []string {
	var out []string
	for _, sp := range s.Sets {
		for _, ph := range sp.Phases {
			if ph.Class != "" {
				out = append(out, sp.Name+"-"+ph.Name)
			}
		}
	}
	return out
}

// settleRound: the environment does its part (workloads become ready, foreign finalizers go
// away), then every ObjectSet and every delegated phase is reconciled once.
func (y *sys) settleRound() {
	for _, k := range y.scn.managedKeys() {
		verifphase.ApplyEnv(y.env, verifphase.EnvOp{Op: "setReady", Kind: k.Kind, NS: k.Namespace, Name: k.Name, Ready: true, ObsGen: -1})
		verifphase.ApplyEnv(y.env, verifphase.EnvOp{Op: "removeFinalizer", Kind: k.Kind, NS: k.Namespace, Name: k.Name})
	}
	for _, sp := range y.scn.Sets {
		y.doStep(Step{Op: "reconcile", Set: sp.Name})
	}
	for _, pn := range y.scn.phaseNames() {
		y.doStep(Step{Op: "phase", Set: pn})
	}
}

// snapshotStr is the full state (incl. uid / resourceVersion) used to count what an extra round changed.
func (y *sys) stateMap() map[string]string {
	out := map[string]string{}
	for _, u := range y.env.Store.Snapshot() {
		g := u.GroupVersionKind().Group
		if g != verifphase.Group && g != verifphase.PkoGroup {
			continue
		}
		key := u.GetKind() + "/" + u.GetNamespace() + "/" + u.GetName()
		switch {
		case g == verifphase.Group:
			out[key] = verifphase.ObjStr(u) + " rv=" + u.GetResourceVersion()
		case strings.HasSuffix(u.GetKind(), "ObjectSet"):
			out[key] = y.setStr(u) + " rv=" + u.GetResourceVersion()
		default:
			out[key] = y.phaseStr(u) + " rv=" + u.GetResourceVersion()
		}
	}
	return out
}

// projRefs: "group/Kind:name:uid:ctrl,..." -> only CONTROLLER references are compared, without the uid
// (phase objects are re-created with fresh uids).  Non-controller references of superseded
// revisions record history — a revision is a former owner only if it happened to control the object
// before the handover — so they are not a function of the desired state (C02 / C05 speak about them).
func projRefs(s string) string {
	if s == "" {
		return ""
	}
	var out []string
	for _, r := range strings.Split(s, ",") {
		f := strings.Split(r, ":")
		if len(f) == 4 {
			if f[3] != "1" {
				continue
			}
			out = append(out, f[0]+":"+f[1]+":"+f[3])
		} else {
			out = append(out, r)
		}
	}
	return strings.Join(out, ",")
}

func fieldOf(objStr, tag string) string {
	i := strings.Index(objStr, tag)
	if i < 0 {
		return ""
	}
	rest := objStr[i+len(tag):]
	if j := strings.IndexAny(rest, ",}"); j >= 0 {
		return rest[:j]
	}
	return rest
}

// projection: the end state the property speaks about — managed objects with their controller,
// recorded revision, labels and payload; ObjectSets / phase objects with deletion state,
// finalizers, lifecycle, revision, conditions and controllerOf.  Server-assigned identifiers
// (uid, resourceVersion, generation of managed objects) are dropped.
func (y *sys) projection() string {
	var objs, sets []string
	for _, u := range y.env.Store.Snapshot() {
		switch u.GroupVersionKind().Group {
		case verifphase.Group:
			full := verifphase.ObjStr(u)
			objs = append(objs, fmt.Sprintf("%s/%s/%s{o=[%s],r=%s,l=%s,k=%s,p=%s,d=%s}", u.GetKind(), u.GetNamespace(), u.GetName(),
				projRefs(refsOf(full)), fieldOf(full, ",r="), fieldOf(full, ",l="), fieldOf(full, ",k="), fieldOf(full, ",p="), fieldOf(full, ",d=")))
		case verifphase.PkoGroup:
			if strings.HasSuffix(u.GetKind(), "ObjectSet") {
				sets = append(sets, y.projSet(u))
			} else if strings.HasSuffix(u.GetKind(), "ObjectSetPhase") {
				sets = append(sets, y.projPhase(u))
			}
		}
	}
	sort.Strings(objs)
	sort.Strings(sets)
	return strings.Join(sets, ";") + " @ " + strings.Join(objs, ";")
}

// projPhase prints a phase object for the end-state comparison.  Its generation counts PKO's own
// pause patches, which depends on whether the phase object already existed when the ObjectSet was
// paused — history; what matters is whether each condition refers to the CURRENT generation.
func (y *sys) projPhase(u *unstructured.Unstructured) string {
	c := u.DeepCopy()
	gen := c.GetGeneration()
	conds, _, _ := unstructured.NestedSlice(c.Object, "status", "conditions")
	for _, x := range conds {
		if m, ok := x.(map[string]interface{}); ok {
			og := int64(0)
			switch v := m["observedGeneration"].(type) {
			case int64:
				og = v
			case float64:
				og = int64(v)
			}
			if og == gen {
				m["observedGeneration"] = int64(1)
			} else {
				m["observedGeneration"] = int64(0)
			}
		}
	}
	_ = unstructured.SetNestedSlice(c.Object, conds, "status", "conditions")
	c.SetGeneration(0)
	return y.phaseStr(c)
}

func refsOf(objStr string) string {
	i := strings.Index(objStr, "o=[")
	if i < 0 {
		return ""
	}
	rest := objStr[i+3:]
	j := strings.Index(rest, "]")
	if j < 0 {
		return ""
	}
	return rest[:j]
}

// projSet prints an ObjectSet for the end-state comparison.  Two kinds of condition record
// HISTORY rather than state and are therefore not part of the projection:
//   - Succeeded is a latch (set once, never withdrawn - C06): a revision that is superseded before it
//     reported success never reports it.  It is compared only for revisions nobody lists as previous,
//     and without the generation at which it happened to be set first.
//   - an archived revision's status is frozen at the moment of archival (the controller never touches
//     it again): only Archived itself is compared.
func (y *sys) projSet(u *unstructured.Unstructured) string {
	superseded := false
	for _, sp := range y.scn.Sets {
		for _, p := range sp.Previous {
			if p == u.GetName() {
				superseded = true
			}
		}
	}
	c := u.DeepCopy()
	conds, _, _ := unstructured.NestedSlice(c.Object, "status", "conditions")
	archived := false
	for _, x := range conds {
		if m, ok := x.(map[string]interface{}); ok && m["type"] == "Archived" && m["status"] == "True" {
			archived = true
		}
	}
	var keep []interface{}
	for _, x := range conds {
		m, ok := x.(map[string]interface{})
		if !ok {
			continue
		}
		if m["type"] == "Succeeded" && superseded {
			continue
		}
		if archived && m["type"] != "Archived" {
			continue
		}
		if m["type"] == "Succeeded" {
			m["observedGeneration"] = int64(0)
		}
		keep = append(keep, x)
	}
	_ = unstructured.SetNestedSlice(c.Object, keep, "status", "conditions")
	if archived { // frozen at archival like the conditions: which phases had been reached by then is history
		unstructured.RemoveNestedField(c.Object, "status", "remotePhases")
	}
	if rps, ok, _ := unstructured.NestedSlice(c.Object, "status", "remotePhases"); ok {
		for _, x := range rps {
			if m, ok := x.(map[string]interface{}); ok {
				// the uid itself is the identity of an incarnation (history); what is state is whether the
				// entry refers to the phase object that exists now (the next revision's adoption check
				// recognises the objects of this revision's delegated phases by exactly this uid)
				m["uid"] = y.rpState(u.GetNamespace(), fmt.Sprint(m["name"]), fmt.Sprint(m["uid"]))
			}
		}
		_ = unstructured.SetNestedSlice(c.Object, rps, "status", "remotePhases")
	}
	return y.setStr(c)
}

// rpState: "live" when the ObjectSetPhase of that name exists with that uid, "stale" otherwise.
func (y *sys) rpState(ns, name, uid string) string {
	for _, u := range y.env.Store.Snapshot() {
		if u.GroupVersionKind().Group == verifphase.PkoGroup && strings.HasSuffix(u.GetKind(), "ObjectSetPhase") &&
			u.GetNamespace() == ns && u.GetName() == name && string(u.GetUID()) == uid {
			return "live"
		}
	}
	return "stale"
}

func (s Scn) rounds() int {
	if s.Rounds > 0 {
		return s.Rounds
	}
	return 10
}

// runConv executes the steps (optionally without disturbances), settles and returns
// (step outputs, sets, objs, projection, number of objects an extra round changed, what the operator
// process has registered with its dynamic cache at the end).
func runConv(scn Scn, disturbed bool) ([]string, string, string, string, int, string) {
	y := newSys(scn)
	var outs []string
	for _, st := range scn.Steps {
		if !disturbed {
			if st.Drift {
				continue
			}
			st.Fault = nil
		}
		outs = append(outs, y.doStep(st))
	}
	for i := 0; i < scn.rounds(); i++ {
		y.settleRound()
	}
	sets, objs := y.finalStrs()
	proj := y.projection()
	regs := strings.Join(y.env.Cache.Registrations(), ";")
	before := y.stateMap()
	y.settleRound()
	after := y.stateMap()
	changed := 0
	for k, v := range before {
		if after[k] != v {
			changed++
		}
	}
	for k := range after {
		if _, ok := before[k]; !ok {
			changed++
		}
	}
	return outs, sets, objs, proj, changed, regs
}

// refResult is what ExecConv needs of the undisturbed reference run.
type refResult struct {
	proj  string
	extra int
	regs  string
}

// refCache: undisturbed scenario (JSON) -> its result.  The reference run is a deterministic function
// of the scenario without faults and drift steps, and whole families of scenarios (every single
// fault of one lifecycle) share it.
var refCache sync.Map

func referenceOf(scn Scn) refResult {
	u := scn
	u.Steps = nil
	for _, st := range scn.Steps {
		if st.Drift {
			continue
		}
		st.Fault = nil
		u.Steps = append(u.Steps, st)
	}
	b, err := json.Marshal(u)
	if err != nil {
		panic(err)
	}
	if v, ok := refCache.Load(string(b)); ok {
		return v.(refResult)
	}
	_, _, _, ref, refExtra, refRegs := runConv(scn, false)
	res := refResult{proj: ref, extra: refExtra, regs: refRegs}
	refCache.Store(string(b), res)
	return res
}

// ExecConv runs the disturbed scenario and its undisturbed reference.  RW / EW: the registrations
// (kind: owners) the operator process holds with its dynamic cache at the end of the reference /
// the disturbed run - in-memory state that every restart wipes and the passes have to rebuild.
func ExecConv(scn Scn) string {
	outs, sets, objs, end, extra, endRegs := runConv(scn, true)
	ref := referenceOf(scn)
	return strings.Join(outs, " ## ") + " ## " + sets + " ## " + objs + " ## REF " + ref.proj + " ## END " + end +
		fmt.Sprintf(" ## EXTRA %d %d", extra, ref.extra) + " ## RW [" + ref.regs + "] ## EW [" + endRegs + "]"
}

// callsOfStep runs the scenario up to step i (with the faults of the earlier steps) and returns the
// API calls step i issues when it is not disturbed.
func callsOfStep(scn Scn, i int) []callInfo {
	y := newSys(scn)
	for j := 0; j < i; j++ {
		y.doStep(scn.Steps[j])
	}
	st := scn.Steps[i]
	st.Fault = nil
	y.doStep(st)
	return y.lastCalls
}

// faultAt builds the fault for call j of a pass whose undisturbed calls are `calls`.
func faultAt(calls []callInfo, j int, mode string) *Fault {
	b := 0
	for _, c := range calls[:j] {
		if c.Write {
			b++
		}
	}
	if mode == "after" && calls[j].Write {
		b++
	}
	return &Fault{Call: j, Mode: mode, Budget: b}
}

var faultModes = []string{"before", "after", "crash"}

// ConvBase builds an undisturbed lifecycle with a fixed desired state: one or two revisions,
// local and (optionally) delegated phases, rollout step by step, handover, then the old revision
// is archived, deleted or left alone.  Everything ends un-paused.
func ConvBase(r *rand.Rand, delegated bool) Scn {
	s := Scn{Cluster: r.Intn(5) == 0, Rounds: 10}
	objNS := ""
	if s.Cluster {
		objNS = "ns1"
	}
	// in cluster-scoped scenarios some objects are cluster-scoped kinds (the choice is per name, so that
	// every revision lists the same object)
	clusterKind := map[string]bool{}
	if s.Cluster {
		for _, n := range []string{"a", "b", "c", "d"} {
			clusterKind[n] = r.Intn(3) == 0
		}
	}
	mk := func(name, payload string) verifphase.PObj {
		o := verifphase.PObj{Kind: "NsThing", NS: objNS, Name: name, CP: pick(r, []string{"Prevent", "Prevent", "IfNoController", "None"}), Payload: payload, DryRun: "accept"}
		if clusterKind[name] {
			o.Kind, o.NS = "ClThing", ""
		}
		return o
	}
	class := func(i int) string {
		if delegated && (i == 0 || r.Intn(3) == 0) {
			return "default"
		}
		return ""
	}
	two := r.Intn(3) != 0
	c0, c1 := class(0), class(1)
	os1 := SetSpec{Name: "os1", Phases: []PhaseSpec{{Name: "p1", Class: c0, Objects: []verifphase.PObj{mk("a", "x")}}, {Name: "p2", Class: c1, Objects: []verifphase.PObj{mk("b", "x")}}}}
	if r.Intn(3) == 0 {
		os1.Phases[1].Objects = append(os1.Phases[1].Objects, mk("d", "x"))
	}
	pkg := pick(r, []string{"", "pkg"})
	os1.PkgLabel = pkg
	s.Sets = []SetSpec{os1}
	if two {
		// the next revision keeps a, changes or keeps b, adds c, drops d
		os2 := SetSpec{Name: "os2", Previous: []string{"os1"}, Phases: []PhaseSpec{
			{Name: "p1", Class: class(0), Objects: []verifphase.PObj{mk("a", pick(r, []string{"x", "y"}))}},
			{Name: "p2", Class: class(1), Objects: []verifphase.PObj{mk("b", "x"), mk("c", "x")}}}}
		os2.PkgLabel = pkg
		s.Sets = append(s.Sets, os2)
	}
	ready := func(name string) Step {
		e := verifphase.EnvOp{Op: "setReady", Kind: "NsThing", NS: "ns1", Name: name, Ready: true, ObsGen: -1}
		if clusterKind[name] {
			e.Kind, e.NS = "ClThing", ""
		}
		return Step{Op: "env", Env: []verifphase.EnvOp{e}}
	}
	add := func(st ...Step) { s.Steps = append(s.Steps, st...) }
	touchPhases := func(sp SetSpec) {
		for _, ph := range sp.Phases {
			if ph.Class != "" {
				add(Step{Op: "phase", Set: sp.Name + "-" + ph.Name})
			}
		}
	}
	rollout := func(sp SetSpec) {
		add(Step{Op: "reconcile", Set: sp.Name})
		for _, ph := range sp.Phases {
			if ph.Class != "" {
				pn := sp.Name + "-" + ph.Name
				add(Step{Op: "reconcile", Set: sp.Name}, Step{Op: "phase", Set: pn})
				for _, o := range ph.Objects {
					add(ready(o.Name))
				}
				add(Step{Op: "phase", Set: pn}, Step{Op: "reconcile", Set: sp.Name})
			} else {
				add(Step{Op: "reconcile", Set: sp.Name})
				for _, o := range ph.Objects {
					add(ready(o.Name))
				}
				add(Step{Op: "reconcile", Set: sp.Name})
			}
		}
		add(Step{Op: "reconcile", Set: sp.Name})
	}
	pauseCycle := func(sp SetSpec) {
		add(Step{Op: "lifecycle", Set: sp.Name, Value: "Paused"}, Step{Op: "reconcile", Set: sp.Name})
		touchPhases(sp)
		add(Step{Op: "reconcile", Set: sp.Name}, Step{Op: "lifecycle", Set: sp.Name, Value: "Active"}, Step{Op: "reconcile", Set: sp.Name})
		touchPhases(sp)
		add(Step{Op: "reconcile", Set: sp.Name})
	}
	end := func(sp SetSpec) {
		if r.Intn(2) == 0 {
			add(Step{Op: "lifecycle", Set: sp.Name, Value: "Archived"})
		} else {
			add(Step{Op: "delete", Set: sp.Name})
		}
		for i := 0; i < 3; i++ {
			add(Step{Op: "reconcile", Set: sp.Name})
			touchPhases(sp)
		}
		add(Step{Op: "reconcile", Set: sp.Name})
	}
	rollout(os1)
	if r.Intn(3) == 0 {
		pauseCycle(os1)
	}
	if two {
		rollout(s.Sets[1])
		if r.Intn(3) != 0 {
			end(os1)
		}
		add(Step{Op: "reconcile", Set: "os2"})
	} else if r.Intn(3) == 0 {
		end(os1)
	}
	return s
}

// ConvPaused builds an undisturbed lifecycle whose FIXED desired state contains a PAUSED revision
// (spec.lifecycleState = Paused: a user's maintenance pause, or what the ObjectDeployment controller
// does with an old revision right before it archives it).  A paused revision is hands-off (C09): it
// repairs nothing, so what it is frozen in is part of the history - the steps before the pause are
// an undisturbed "prefix" (no injection points).  Everything after the pause is: the paused revision
// (and the other one) are reconciled a few times - every API call of these passes is an injection
// point, and DisturbPaused restarts the operator in between - and then the revision either STAYS
// paused (it has to keep reporting Paused=True and the objects it controls, whatever happened to the
// operator process), or is un-paused again, or (old revision) is archived.
func ConvPaused(r *rand.Rand, delegated, two bool) Scn {
	s := Scn{Cluster: r.Intn(5) == 0, Rounds: 10}
	objNS := ""
	if s.Cluster {
		objNS = "ns1"
	}
	clusterKind := map[string]bool{}
	if s.Cluster {
		for _, n := range []string{"a", "b", "c", "d"} {
			clusterKind[n] = r.Intn(3) == 0
		}
	}
	mk := func(name, payload string) verifphase.PObj {
		o := verifphase.PObj{Kind: "NsThing", NS: objNS, Name: name, CP: pick(r, []string{"Prevent", "Prevent", "IfNoController", "None"}), Payload: payload, DryRun: "accept"}
		if clusterKind[name] {
			o.Kind, o.NS = "ClThing", ""
		}
		return o
	}
	class := func(i int) string {
		if delegated && (i == 0 || r.Intn(3) == 0) {
			return "default"
		}
		return ""
	}
	os1 := SetSpec{Name: "os1", Phases: []PhaseSpec{
		{Name: "p1", Class: class(0), Objects: []verifphase.PObj{mk("a", "x")}},
		{Name: "p2", Class: class(1), Objects: []verifphase.PObj{mk("b", "x")}}}}
	if r.Intn(3) == 0 {
		os1.Phases[1].Objects = append(os1.Phases[1].Objects, mk("d", "x"))
	}
	pkg := pick(r, []string{"", "pkg"})
	os1.PkgLabel = pkg
	s.Sets = []SetSpec{os1}
	if two {
		os2 := SetSpec{Name: "os2", Previous: []string{"os1"}, PkgLabel: pkg, Phases: []PhaseSpec{
			{Name: "p1", Class: class(0), Objects: []verifphase.PObj{mk("a", pick(r, []string{"x", "y"}))}},
			{Name: "p2", Class: class(1), Objects: []verifphase.PObj{mk("b", "x"), mk("c", "x")}}}}
		s.Sets = append(s.Sets, os2)
	}
	ready := func(name string) Step {
		e := verifphase.EnvOp{Op: "setReady", Kind: "NsThing", NS: "ns1", Name: name, Ready: true, ObsGen: -1}
		if clusterKind[name] {
			e.Kind, e.NS = "ClThing", ""
		}
		return Step{Op: "env", Env: []verifphase.EnvOp{e}}
	}
	add := func(st ...Step) { s.Steps = append(s.Steps, st...) }
	touchPhases := func(sp SetSpec) {
		for _, ph := range sp.Phases {
			if ph.Class != "" {
				add(Step{Op: "phase", Set: sp.Name + "-" + ph.Name})
			}
		}
	}
	rollout := func(sp SetSpec) {
		add(Step{Op: "reconcile", Set: sp.Name})
		for _, ph := range sp.Phases {
			if ph.Class != "" {
				pn := sp.Name + "-" + ph.Name
				add(Step{Op: "reconcile", Set: sp.Name}, Step{Op: "phase", Set: pn})
				for _, o := range ph.Objects {
					add(ready(o.Name))
				}
				add(Step{Op: "phase", Set: pn}, Step{Op: "reconcile", Set: sp.Name})
			} else {
				add(Step{Op: "reconcile", Set: sp.Name})
				for _, o := range ph.Objects {
					add(ready(o.Name))
				}
				add(Step{Op: "reconcile", Set: sp.Name})
			}
		}
		add(Step{Op: "reconcile", Set: sp.Name})
	}
	// which revision is paused: the old one (before archival) or the latest (maintenance)
	paused := s.Sets[0]
	if two && r.Intn(3) == 0 {
		paused = s.Sets[1]
	}
	for _, sp := range s.Sets {
		rollout(sp)
	}
	last := s.Sets[len(s.Sets)-1]
	lastDelegates := false
	for _, ph := range last.Phases {
		lastDelegates = lastDelegates || ph.Class != ""
	}
	// (not for a paused revision that delegates phases: the pause reaches a phase object only with
	// the ObjectSet's next pass, until then the phase controller keeps rolling out - how far a
	// revision paused in mid-rollout gets is decided by the schedule, not by the desired state)
	if r.Intn(4) == 0 && !(last.Name == paused.Name && lastDelegates) {
		// the pause comes while the latest revision is still rolling out: it stays where it is
		cut := 0
		for i, st := range s.Steps {
			if st.Set == last.Name && st.Op == "reconcile" {
				cut = i
				break
			}
		}
		if n := len(s.Steps) - cut; n > 2 {
			s.Steps = s.Steps[:cut+1+r.Intn(n-1)]
		}
	}
	for i := range s.Steps {
		if isPass(s.Steps[i]) {
			s.Steps[i].Value = "prefix"
		}
	}
	add(Step{Op: "lifecycle", Set: paused.Name, Value: "Paused"})
	rounds := func(n int) {
		for i := 0; i < n; i++ {
			for _, sp := range s.Sets {
				add(Step{Op: "reconcile", Set: sp.Name})
				touchPhases(sp)
			}
		}
	}
	rounds(2 + r.Intn(2))
	switch end := r.Intn(4); {
	case end == 0: // un-paused again
		add(Step{Op: "lifecycle", Set: paused.Name, Value: "Active"})
		rounds(2)
	case end == 1 && two && paused.Name == "os1": // the paused old revision is archived
		add(Step{Op: "lifecycle", Set: "os1", Value: "Archived"})
		rounds(3)
	default: // stays paused
	}
	return s
}

// DisturbPaused disturbs a ConvPaused lifecycle after the pause: nRestarts operator restarts at
// random positions behind the pause step, then nFaults faults at random API calls of random passes
// behind it (Disturb; passes of the prefix are no injection points).
func DisturbPaused(r *rand.Rand, base Scn, nFaults, nRestarts int) Scn {
	s := base
	s.Steps = append([]Step(nil), base.Steps...)
	from := 0
	for i, st := range s.Steps {
		if st.Op == "lifecycle" && st.Value == "Paused" {
			from = i + 1
			break
		}
	}
	for k := 0; k < nRestarts; k++ {
		i := from + r.Intn(len(s.Steps)-from+1)
		s.Steps = append(s.Steps[:i], append([]Step{{Op: "restart", Drift: true}}, s.Steps[i:]...)...)
	}
	return placeFaults(r, s, nFaults)
}

// driftStep is a third-party edit / deletion of a managed object.
func driftStep(r *rand.Rand, s Scn) Step {
	name := pick(r, []string{"a", "b", "c", "d"})
	e := verifphase.EnvOp{Kind: "NsThing", NS: "ns1", Name: name, ObsGen: -1}
	for _, sp := range s.Sets {
		for _, ph := range sp.Phases {
			for _, o := range ph.Objects {
				if o.Name == name && o.Kind == "ClThing" {
					e.Kind, e.NS = "ClThing", ""
				}
			}
		}
	}
	e.Op = pick(r, []string{"setPayload", "setPayload", "delete", "delete", "setReady", "relabel"})
	if e.Op == "relabel" && s.Sets[0].PkgLabel == "" {
		e.Op = "setPayload" // without a package label PKO does not manage that label: nothing to repair
	}
	// someone strips the ownerReferences: repaired (re-adopted) only where collision protection allows
	// adopting an object without controller; with Prevent PKO refuses by design (C01), which is not drift
	adoptable := true
	for _, sp := range s.Sets {
		for _, ph := range sp.Phases {
			for _, o := range ph.Objects {
				if o.Name == name && o.CP != "IfNoController" && o.CP != "None" {
					adoptable = false
				}
			}
		}
	}
	if adoptable && r.Intn(3) == 0 {
		e.Op, e.Owners = "reown", nil
	}
	switch e.Op {
	case "setPayload":
		e.Payload = pick(r, []string{"drift", "drift2"})
	case "setReady":
		e.Ready = false
	case "relabel":
		e.Pkg = pick(r, []string{"", "other"})
	}
	return Step{Op: "env", Env: []verifphase.EnvOp{e}, Drift: true}
}

func isPass(st Step) bool { return st.Op == "reconcile" || st.Op == "phase" }

// injectable: the pass is an injection point for faults.  Passes carrying a Value are not:
// "repair" (the passes a third-party edit triggers, see Disturb) and "prefix" (the undisturbed
// history that establishes the state a paused revision is frozen in, see ConvPaused).
func injectable(st Step) bool { return isPass(st) && st.Value == "" }

// Disturb injects nFaults faults at random API calls of random passes (each followed by the
// retry a real controller would schedule) and nDrift drift steps at random positions.
func Disturb(r *rand.Rand, base Scn, nFaults, nDrift int) Scn {
	s := base
	s.Steps = append([]Step(nil), base.Steps...)
	for d := 0; d < nDrift; d++ {
		i := r.Intn(len(s.Steps) + 1)
		ds := []Step{driftStep(r, s)}
		if pns := s.phaseNames(); len(pns) > 0 && r.Intn(5) == 0 {
			// a third party deletes the phase object of a delegated phase: its controller tears the phase's
			// objects down, the ObjectSet creates a new phase object (new uid), which creates the objects again
			ds = []Step{{Op: "delPhase", Set: pick(r, pns), Drift: true}}
			// ... not while a revision is paused: a paused revision does not roll the phase out again (C09)
			for j, st := range s.Steps {
				if st.Op == "lifecycle" && st.Value == "Paused" && i > j {
					i = r.Intn(j + 1)
					break
				}
			}
		} else if ds[0].Env[0].Op == "reown" {
			// ... and only while every revision is still alive: once a revision is deleted or archived its
			// teardown must NOT touch an object it no longer controls (C05), so the object would stay behind
			for j, st := range s.Steps {
				if st.Op == "delete" || (st.Op == "lifecycle" && st.Value == "Archived") {
					if i > j {
						i = r.Intn(j + 1)
					}
					break
				}
			}
			// stripped ownerReferences can only be repaired while the owner still wants the object: the
			// edit triggers a reconcile of every revision before anything else happens (a revision
			// deleted right after the edit could never learn that the object was its own)
			// ... and not while a revision is paused (hands-off by design, C09)
			paused := map[string]bool{}
			for _, st := range s.Steps[:i] {
				if st.Op == "lifecycle" {
					paused[st.Set] = st.Value == "Paused"
				}
			}
			for _, v := range paused {
				if v {
					ds = nil
				}
			}
			// the edit triggers reconciles of every revision and every delegated phase until the pause
			// state and the adoption have propagated; these repair passes are not themselves disturbed
			for k := 0; k < 3 && ds != nil; k++ {
				for _, sp := range s.Sets {
					ds = append(ds, Step{Op: "reconcile", Set: sp.Name, Value: "repair"})
				}
				for _, pn := range s.phaseNames() {
					ds = append(ds, Step{Op: "phase", Set: pn, Value: "repair"})
				}
			}
			if ds == nil {
				continue
			}
		}
		s.Steps = append(s.Steps[:i], append(ds, s.Steps[i:]...)...)
	}
	if r.Intn(6) == 0 {
		i := r.Intn(len(s.Steps) + 1)
		s.Steps = append(s.Steps[:i], append([]Step{{Op: "restart", Drift: true}}, s.Steps[i:]...)...)
	}
	return placeFaults(r, s, nFaults)
}

// placeFaults injects nFaults faults at random API calls of random injectable passes, each
// (mostly) followed by the retry a real controller would schedule.
func placeFaults(r *rand.Rand, s Scn, nFaults int) Scn {
	// faults are placed left to right: the calls of a pass depend on everything before it
	var passes []int
	for i, st := range s.Steps {
		if injectable(st) {
			passes = append(passes, i)
		}
	}
	r.Shuffle(len(passes), func(i, j int) { passes[i], passes[j] = passes[j], passes[i] })
	if nFaults < len(passes) {
		passes = passes[:nFaults]
	}
	sort.Ints(passes)
	shift := 0
	for _, i0 := range passes {
		i := i0 + shift
		calls := callsOfStep(s, i)
		if len(calls) == 0 {
			continue
		}
		s.Steps[i].Fault = faultAt(calls, r.Intn(len(calls)), pick(r, faultModes))
		if r.Intn(4) != 0 { // the failed pass is retried
			retry := s.Steps[i]
			retry.Fault = nil
			s.Steps = append(s.Steps[:i+1], append([]Step{retry}, s.Steps[i+1:]...)...)
			shift++
		}
	}
	return s
}

// AllSingleFaults enumerates every API call of every pass of the base scenario as an injection
// point, in every mode (the quantifier of C10 for single faults).
func AllSingleFaults(base Scn, each func(Scn)) int {
	n := 0
	for i, st := range base.Steps {
		if !injectable(st) {
			continue
		}
		calls := callsOfStep(base, i)
		for j := range calls {
			for _, mode := range faultModes {
				s := base
				s.Steps = append([]Step(nil), base.Steps...)
				s.Steps[i].Fault = faultAt(calls, j, mode)
				each(s)
				n++
			}
		}
	}
	return n
}

func ConvTags(s Scn, out string) []string {
	t := []string{fmt.Sprintf("sets=%d", len(s.Sets))}
	nf, nd := 0, 0
	life := map[string]string{}
	anyPaused := func() bool {
		for _, v := range life {
			if v == "Paused" {
				return true
			}
		}
		return false
	}
	for _, st := range s.Steps {
		if st.Op == "lifecycle" {
			life[st.Set] = st.Value
		}
		// the operator process is replaced while a revision is paused
		if anyPaused() && (st.Op == "restart" || (st.Fault != nil && st.Fault.Mode == "crash")) {
			t = append(t, "restart-while-paused")
		}
		if st.Fault != nil {
			nf++
			t = append(t, "fault-"+st.Fault.Mode, "fault-in-"+st.Op)
		}
		if st.Drift {
			nd++
			if len(st.Env) > 0 {
				t = append(t, "drift-"+st.Env[0].Op)
			} else {
				t = append(t, "drift-"+st.Op)
			}
		}
		if st.Op == "delete" {
			t = append(t, "deleted")
		}
		if st.Op == "lifecycle" {
			t = append(t, "lifecycle-"+st.Value)
		}
	}
	t = append(t, fmt.Sprintf("faults=%d", nf), fmt.Sprintf("drift=%d", nd))
	if anyPaused() {
		t = append(t, "ends-paused")
	}
	if len(s.phaseNames()) > 0 {
		t = append(t, "delegated")
	}
	if nf == 0 && nd == 0 {
		t = append(t, "undisturbed", "trivial") // exercises model equality and quiescence only: trivial for C10
	}
	if strings.Contains(out, "R fault") {
		t = append(t, "fault-hit")
	}
	for _, w := range []string{"Available=True", "Succeeded=True", "Archived=True", "InTransition=True", "Paused=True", "CacheNotStarted", "budget-mismatch"} {
		if strings.Contains(out, w) {
			t = append(t, "out~"+w)
		}
	}
	return t
}
