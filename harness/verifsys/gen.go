package verifsys

import (
	"fmt"
	"math/rand"
	"strings"

	"package-operator.run/internal/verifphase"
)

func pick[T any](r *rand.Rand, xs []T) T { return xs[r.Intn(len(xs))] }

func (s Scn) ns() string {
	if s.Cluster {
		return ""
	}
	return NS
}

func (s Scn) setKind() string {
	if s.Cluster {
		return "ClusterObjectSet"
	}
	return "ObjectSet"
}

// ref to the i-th ObjectSet of the scenario (they are created first: uid-1, uid-2, ...)
func (s Scn) setRef(i int, ctrl bool) verifphase.Ref {
	return verifphase.Ref{Group: verifphase.PkoGroup, Kind: s.setKind(), Name: s.Sets[i].Name, UID: fmt.Sprintf("uid-%d", i+1), Ctrl: ctrl}
}

// Random builds a revision chain of 1-3 ObjectSets sharing / adding / dropping objects and a
// random schedule of reconciles, third-party operations, lifecycle changes and deletions.
func Random(r *rand.Rand, local bool) Scn {
	s := Scn{Cluster: r.Intn(4) == 0}
	delegate := !local && r.Intn(3) != 0 // scenarios with delegated phases
	nsets := 1 + r.Intn(3)
	names := []string{"a", "b", "c", "d"}
	for i := 0; i < nsets; i++ {
		sp := SetSpec{Name: fmt.Sprintf("os%d", i+1)}
		for j := 0; j < i; j++ {
			if r.Intn(5) != 0 {
				sp.Previous = append(sp.Previous, s.Sets[j].Name)
			}
		}
		// sets start either fresh (revision 0) or as already rolled-out revisions
		if r.Intn(3) != 0 {
			sp.Revision = int64(i + 1)
			sp.FinCached = true
		}
		switch r.Intn(8) {
		case 0:
			sp.Lifecycle = "Paused"
		case 1:
			if i < nsets-1 {
				sp.Lifecycle = "Archived"
			}
		}
		nph := 1 + r.Intn(3)
		used := 0
		for p := 0; p < nph && used < len(names); p++ {
			ph := PhaseSpec{Name: fmt.Sprintf("p%d", p+1)}
			if delegate && r.Intn(2) == 0 {
				ph.Class = "default"
			}
			nobj := 1 + r.Intn(2)
			for o := 0; o < nobj && used < len(names); o++ {
				po := verifphase.PObj{Kind: "NsThing", Name: names[used], CP: pick(r, []string{"Prevent", "Prevent", "IfNoController", "None", ""}),
					Payload: pick(r, []string{"x", "y"}), DryRun: "accept"}
				used++
				if s.Cluster {
					po.NS = pick(r, []string{"ns1", "ns2"})
					if r.Intn(4) == 0 {
						po.Kind, po.NS = "ClThing", ""
					}
				}
				switch r.Intn(25) {
				case 0:
					po.Kind = "Ghost"
				case 1:
					po.Preset = true
				case 2:
					po.DryRun = pick(r, verifphase.DryRunVerdicts)
				case 3:
					if !s.Cluster {
						po.NS = "ns2"
					}
				case 5, 6:
					if !s.Cluster { // a cluster-scoped kind listed by a namespaced ObjectSet (with / without namespace)
						po.Kind = "ClThing"
						po.NS = pick(r, []string{"", "ns1"})
					}
				case 4:
					if used >= 2 { // duplicate of an earlier object
						po.Name = names[0]
					}
				}
				ph.Objects = append(ph.Objects, po)
			}
			sp.Phases = append(sp.Phases, ph)
		}
		s.Sets = append(s.Sets, sp)
	}
	// the scripted admission verdict is a property of the object (kind/name), not of the revision listing it
	verdict := map[string]string{}
	for i := range s.Sets {
		for j := range s.Sets[i].Phases {
			for k := range s.Sets[i].Phases[j].Objects {
				o := &s.Sets[i].Phases[j].Objects[k]
				if v, ok := verdict[o.Kind+"/"+o.Name]; ok {
					o.DryRun = v
				} else {
					verdict[o.Kind+"/"+o.Name] = o.DryRun
				}
			}
		}
	}
	// pre-existing objects
	seen := map[string]bool{}
	for i, sp := range s.Sets {
		for _, ph := range sp.Phases {
			for _, p := range ph.Objects {
				if ph.Class != "" && r.Intn(3) != 0 {
					continue // objects of delegated phases mostly start absent (they are created by the phase controller)
				}
				ns := p.NS
				if ns == "" {
					ns = s.ns()
				}
				if p.Kind == "ClThing" {
					ns = ""
				}
				key := p.Kind + "/" + ns + "/" + p.Name
				if seen[key] || p.Kind == "Ghost" || r.Intn(2) == 0 {
					continue
				}
				seen[key] = true
				so := verifphase.SObj{Kind: p.Kind, NS: ns, Name: p.Name, Cache: r.Intn(5) != 0, Payload: pick(r, []string{p.Payload, p.Payload, "drift"}), ObsGen: -1}
				switch r.Intn(6) {
				case 0: // foreign
					so.Owners = []verifphase.Ref{{Group: "apps", Kind: "Deployment", Name: "dep", UID: "u-dep", Ctrl: true}}
				case 1: // nobody
				default: // controlled by one of the revisions
					if ph.Class != "" {
						break // never directly by an ObjectSet: a delegated phase's objects belong to the phase object
					}
					j := r.Intn(len(s.Sets))
					so.Owners = []verifphase.Ref{s.setRef(j, true)}
					so.Rev = fmt.Sprint(j + 1)
					// a revision that controls something has been reconciled before:
					// it carries the finalizer and has reported its revision
					s.Sets[j].FinCached = true
					if s.Sets[j].Revision == 0 {
						s.Sets[j].Revision = int64(j + 1)
					}
					if r.Intn(3) == 0 && j != i {
						so.Owners = append(so.Owners, s.setRef(i, false))
					}
				}
				if r.Intn(8) == 0 {
					so.Rev = pick(r, verifphase.RevClasses)
				}
				so.Ready = r.Intn(3) != 0
				if r.Intn(4) == 0 {
					so.ObsGen = int64(r.Intn(3))
				}
				so.Finalizer = r.Intn(8) == 0
				s.Store = append(s.Store, so)
			}
		}
	}
	// schedule
	nsteps := 3 + r.Intn(8)
	allObjs := func() []verifphase.PObj {
		var out []verifphase.PObj
		for _, sp := range s.Sets {
			for _, ph := range sp.Phases {
				out = append(out, ph.Objects...)
			}
		}
		return out
	}()
	envOp := func() verifphase.EnvOp {
		p := pick(r, allObjs)
		ns := p.NS
		if ns == "" {
			ns = s.ns()
		}
		if p.Kind == "ClThing" {
			ns = ""
		}
		e := verifphase.EnvOp{Kind: p.Kind, NS: ns, Name: p.Name, ObsGen: -1}
		e.Op = pick(r, []string{"setReady", "setReady", "setReady", "reown", "setRev", "setPayload", "delete", "recreate", "removeFinalizer"})
		switch e.Op {
		case "reown":
			switch r.Intn(3) {
			case 0:
				e.Owners = []verifphase.Ref{{Group: "apps", Kind: "Deployment", Name: "dep", UID: "u-dep", Ctrl: true}}
			case 1:
				e.Owners = []verifphase.Ref{s.setRef(r.Intn(len(s.Sets)), true)}
			}
		case "setRev":
			e.Rev = pick(r, verifphase.RevClasses)
		case "setPayload":
			e.Payload = pick(r, []string{"x", "drift2"})
		case "setReady":
			e.Ready = r.Intn(4) != 0
			e.ObsGen = int64(r.Intn(4)) - 1
		}
		return e
	}
	var phaseNames []string
	for _, sp := range s.Sets {
		for _, ph := range sp.Phases {
			if ph.Class != "" {
				phaseNames = append(phaseNames, sp.Name+"-"+ph.Name)
			}
		}
	}
	if len(phaseNames) > 0 {
		nsteps += 4
	}
	for i := 0; i < nsteps; i++ {
		set := pick(r, s.Sets).Name
		if len(phaseNames) > 0 && r.Intn(3) == 0 {
			st := Step{Op: "phase", Set: pick(r, phaseNames)}
			if r.Intn(8) == 0 {
				e := envOp()
				e.At = r.Intn(3)
				st.Env = []verifphase.EnvOp{e}
			}
			s.Steps = append(s.Steps, st)
			continue
		}
		if len(phaseNames) > 0 && r.Intn(14) == 0 { // (S1B) a third party deletes a phase object / the GC finishes an orphan deletion
			s.Steps = append(s.Steps, phaseLossStep(r, pick(r, phaseNames)))
			continue
		}
		switch x := r.Intn(20); {
		case x < 11:
			st := Step{Op: "reconcile", Set: set}
			if r.Intn(6) == 0 {
				e := envOp()
				e.At = r.Intn(3)
				st.Env = []verifphase.EnvOp{e}
			}
			if r.Intn(8) == 0 {
				st.SetEnv = []SetEnv{{At: r.Intn(3), Op: pick(r, []string{"touch", "lifecycle"}), Set: set, Value: pick(r, []string{"Paused", "Active", "Archived"})}}
			}
			s.Steps = append(s.Steps, st)
		case x < 14:
			s.Steps = append(s.Steps, Step{Op: "env", Env: []verifphase.EnvOp{envOp()}})
		case x < 16:
			s.Steps = append(s.Steps, Step{Op: "lifecycle", Set: set, Value: pick(r, []string{"Paused", "Active", "Archived"})})
		case x < 17:
			s.Steps = append(s.Steps, Step{Op: "delete", Set: set, Orphan: r.Intn(4) == 0})
		case x < 18:
			s.Steps = append(s.Steps, Step{Op: "editPayload", Set: set, Phase: r.Intn(2), Obj: r.Intn(2), Value: pick(r, []string{"x", "y", "z"})})
		case x < 19:
			s.Steps = append(s.Steps, Step{Op: "touch", Set: set})
		default:
			s.Steps = append(s.Steps, Step{Op: "restart"})
		}
	}
	return s
}

func Tags(s Scn, out string) []string {
	t := []string{fmt.Sprintf("sets=%d", len(s.Sets)), fmt.Sprintf("steps=%d", len(s.Steps))}
	if s.Cluster {
		t = append(t, "cluster")
	}
	for _, st := range s.Steps {
		if st.Op == "phase" {
			t = append(t, "phase-step")
			break
		}
	}
	seenOp := map[string]bool{} // (S1B) third-party operations on phase objects
	for _, st := range s.Steps {
		op := ""
		switch {
		case st.Op == "gcPhase":
			op = "gcPhase"
		case st.Op == "delPhase" && st.Value == "force":
			op = "delPhase-force"
		case st.Op == "delPhase" && st.Orphan:
			op = "delPhase-orphan"
		case st.Op == "delPhase":
			op = "delPhase"
		}
		if op != "" && !seenOp[op] {
			seenOp[op] = true
			t = append(t, op)
		}
	}
	for _, pk := range []string{"C ObjectSetPhase/", "C ClusterObjectSetPhase/"} { // a phase object created twice in one history
		for _, part := range strings.Split(out, pk)[1:] {
			name := strings.SplitN(part, " ", 2)[0]
			if strings.Count(out, pk+name+" ok") > 1 {
				t = append(t, "phase-object-recreated")
				break
			}
		}
	}
	for _, w := range []string{"C ObjectSetPhase", "C ClusterObjectSetPhase", "X ", "P ", "PartiallyPaused", "R ok", "R err", "R requeue", "A ", "M ", "D ", "Conflict", "CollisionDetected", "PreflightError", "ProbeFailure",
		"Available=True", "Succeeded=True", "InTransition=True", "Archived=True", "Archived=False", "Paused=True", "F os", "!Conflict"} {
		if strings.Contains(out, w) {
			t = append(t, "out~"+strings.TrimSpace(w))
		}
	}
	return t
}

// Scripted builds "mostly successful" histories — rollout to Available/Succeeded, pause and
// un-pause, handover to a second revision, archival / deletion — and then perturbs them (dropped,
// repeated and swapped steps, a few third-party operations).  Random() alone rarely gets a
// revision to Available, so the interesting transitions after that would stay unexplored.
func Scripted(r *rand.Rand, delegated bool) Scn {
	s := Scn{Cluster: r.Intn(5) == 0}
	objNS := ""
	if s.Cluster {
		objNS = "ns1"
	}
	mk := func(name, payload string) verifphase.PObj {
		return verifphase.PObj{Kind: "NsThing", NS: objNS, Name: name, CP: "Prevent", Payload: payload, DryRun: "accept"}
	}
	class := func(i int) string {
		if delegated && (i == 0 || r.Intn(3) == 0) {
			return "default"
		}
		return ""
	}
	two := r.Intn(2) == 0
	os1 := SetSpec{Name: "os1", Phases: []PhaseSpec{{Name: "p1", Class: class(0), Objects: []verifphase.PObj{mk("a", "x")}}, {Name: "p2", Class: class(1), Objects: []verifphase.PObj{mk("b", "x")}}}}
	s.Sets = []SetSpec{os1}
	if two {
		os2 := SetSpec{Name: "os2", Previous: []string{"os1"}, Phases: []PhaseSpec{{Name: "p1", Class: class(0), Objects: []verifphase.PObj{mk("a", pick(r, []string{"x", "y"}))}}, {Name: "p2", Class: class(1), Objects: []verifphase.PObj{mk("b", "x"), mk("c", "x")}}}}
		s.Sets = append(s.Sets, os2)
	}
	ready := func(name string) Step {
		return Step{Op: "env", Env: []verifphase.EnvOp{{Op: "setReady", Kind: "NsThing", NS: "ns1", Name: name, Ready: true, ObsGen: -1}}}
	}
	var ideal []Step
	rollout := func(sp SetSpec) {
		ideal = append(ideal, Step{Op: "reconcile", Set: sp.Name})
		for _, ph := range sp.Phases {
			if ph.Class != "" {
				pn := sp.Name + "-" + ph.Name
				ideal = append(ideal, Step{Op: "reconcile", Set: sp.Name}, Step{Op: "phase", Set: pn})
				for _, o := range ph.Objects {
					ideal = append(ideal, ready(o.Name))
				}
				ideal = append(ideal, Step{Op: "phase", Set: pn}, Step{Op: "reconcile", Set: sp.Name})
			} else {
				ideal = append(ideal, Step{Op: "reconcile", Set: sp.Name})
				for _, o := range ph.Objects {
					ideal = append(ideal, ready(o.Name))
				}
				ideal = append(ideal, Step{Op: "reconcile", Set: sp.Name})
			}
		}
		ideal = append(ideal, Step{Op: "reconcile", Set: sp.Name})
	}
	touchPhases := func(sp SetSpec) {
		for _, ph := range sp.Phases {
			if ph.Class != "" {
				ideal = append(ideal, Step{Op: "phase", Set: sp.Name + "-" + ph.Name})
			}
		}
	}
	pauseCycle := func(sp SetSpec) {
		ideal = append(ideal, Step{Op: "lifecycle", Set: sp.Name, Value: "Paused"}, Step{Op: "reconcile", Set: sp.Name})
		touchPhases(sp)
		ideal = append(ideal, Step{Op: "reconcile", Set: sp.Name})
		if r.Intn(2) == 0 { // something regresses while paused
			ideal = append(ideal, Step{Op: "env", Env: []verifphase.EnvOp{{Op: "setReady", Kind: "NsThing", NS: "ns1", Name: pick(r, []string{"a", "b"}), Ready: false, ObsGen: -1}}})
			if r.Intn(2) == 0 {
				touchPhases(sp)
			}
		}
		ideal = append(ideal, Step{Op: "lifecycle", Set: sp.Name, Value: "Active"}, Step{Op: "reconcile", Set: sp.Name})
		if r.Intn(2) == 0 {
			touchPhases(sp)
			ideal = append(ideal, Step{Op: "reconcile", Set: sp.Name})
		}
	}
	end := func(sp SetSpec) {
		if r.Intn(2) == 0 {
			ideal = append(ideal, Step{Op: "lifecycle", Set: sp.Name, Value: "Archived"})
		} else {
			ideal = append(ideal, Step{Op: "delete", Set: sp.Name, Orphan: r.Intn(5) == 0})
		}
		for i := 0; i < 3; i++ {
			ideal = append(ideal, Step{Op: "reconcile", Set: sp.Name})
			touchPhases(sp)
		}
		ideal = append(ideal, Step{Op: "reconcile", Set: sp.Name})
	}
	rollout(os1)
	if r.Intn(2) == 0 {
		pauseCycle(os1)
	}
	if two {
		rollout(s.Sets[1])
		if r.Intn(3) == 0 {
			pauseCycle(s.Sets[1])
		}
		if r.Intn(3) != 0 {
			end(os1)
		}
		ideal = append(ideal, Step{Op: "reconcile", Set: "os2"})
	} else if r.Intn(2) == 0 {
		end(os1)
	}
	// perturb
	names := []string{"a", "b", "c"}
	for _, st := range ideal {
		x := r.Intn(100)
		switch {
		case x < 8: // dropped
		case x < 14: // repeated
			s.Steps = append(s.Steps, st, st)
		case x < 18: // third-party operation first
			e := verifphase.EnvOp{Kind: "NsThing", NS: "ns1", Name: pick(r, names), ObsGen: -1}
			e.Op = pick(r, []string{"setReady", "setPayload", "delete", "reown", "setRev"})
			switch e.Op {
			case "setReady":
				e.Ready = r.Intn(2) == 0
				e.ObsGen = int64(r.Intn(4)) - 1
			case "setPayload":
				e.Payload = "drift"
			case "setRev":
				e.Rev = pick(r, verifphase.RevClasses)
			}
			s.Steps = append(s.Steps, Step{Op: "env", Env: []verifphase.EnvOp{e}}, st)
		default:
			s.Steps = append(s.Steps, st)
		}
	}
	if len(s.Steps) > 1 && r.Intn(4) == 0 { // one swap
		i := r.Intn(len(s.Steps) - 1)
		s.Steps[i], s.Steps[i+1] = s.Steps[i+1], s.Steps[i]
	}
	return s
}

// ---- (S1B) loss of a delegated phase's API object

// phaseLossStep: one third-party operation on the phase object `pn`.
func phaseLossStep(r *rand.Rand, pn string) Step {
	switch x := r.Intn(10); {
	case x < 4:
		return Step{Op: "delPhase", Set: pn}
	case x < 7:
		return Step{Op: "delPhase", Set: pn, Orphan: true}
	case x < 8:
		return Step{Op: "delPhase", Set: pn, Value: "force"}
	default:
		return Step{Op: "gcPhase", Set: pn}
	}
}

// PhaseLoss builds histories around the loss of a delegated phase's API object: revision os1 rolls
// out with delegated phases; a third party deletes a phase object — plainly (the phase controller
// tears the phase down and lets the object go), with orphan propagation (nothing may be deleted;
// the garbage collector releases the dependents and then the object) or by force (the object
// vanishes, its dependents keep a dangling controller reference); the ObjectSet controller
// re-creates the phase object under the same name with a new uid and the phase controller rolls
// the phase out again; revision os2 (previous = [os1]) then takes the objects over.  Perturbed
// like Scripted (dropped / repeated / swapped steps, a few third-party operations).
func PhaseLoss(r *rand.Rand) Scn {
	s := Scn{Cluster: r.Intn(5) == 0}
	objNS := ""
	if s.Cluster {
		objNS = "ns1"
	}
	mk := func(name, payload string) verifphase.PObj {
		return verifphase.PObj{Kind: "NsThing", NS: objNS, Name: name, CP: pick(r, []string{"Prevent", "Prevent", "Prevent", "IfNoController", "None"}),
			Payload: payload, DryRun: "accept"}
	}
	cls := func(always bool) string {
		if always || r.Intn(2) == 0 {
			return "default"
		}
		return ""
	}
	os1 := SetSpec{Name: "os1", Phases: []PhaseSpec{
		{Name: "p1", Class: cls(true), Objects: []verifphase.PObj{mk("a", "x")}},
		{Name: "p2", Class: cls(false), Objects: []verifphase.PObj{mk("b", "x")}}}}
	if r.Intn(4) == 0 { // a local phase in front: the delegated ones are reached only while it passes
		os1.Phases = append([]PhaseSpec{{Name: "p0", Objects: []verifphase.PObj{mk("z", "x")}}}, os1.Phases...)
	}
	os2 := SetSpec{Name: "os2", Previous: []string{"os1"}, Phases: []PhaseSpec{
		{Name: "p1", Class: cls(false), Objects: []verifphase.PObj{mk("a", pick(r, []string{"x", "y"}))}},
		{Name: "p2", Class: cls(false), Objects: []verifphase.PObj{mk("b", "x"), mk("c", "x")}}}}
	s.Sets = []SetSpec{os1, os2}
	ready := func(name string) Step {
		return Step{Op: "env", Env: []verifphase.EnvOp{{Op: "setReady", Kind: "NsThing", NS: "ns1", Name: name, Ready: true, ObsGen: -1}}}
	}
	var ideal []Step
	rolloutPhase := func(sp SetSpec, ph PhaseSpec) {
		if ph.Class != "" {
			pn := sp.Name + "-" + ph.Name
			ideal = append(ideal, Step{Op: "reconcile", Set: sp.Name}, Step{Op: "phase", Set: pn})
			for _, o := range ph.Objects {
				ideal = append(ideal, ready(o.Name))
			}
			ideal = append(ideal, Step{Op: "phase", Set: pn}, Step{Op: "reconcile", Set: sp.Name})
		} else {
			ideal = append(ideal, Step{Op: "reconcile", Set: sp.Name})
			for _, o := range ph.Objects {
				ideal = append(ideal, ready(o.Name))
			}
			ideal = append(ideal, Step{Op: "reconcile", Set: sp.Name})
		}
	}
	rollout := func(sp SetSpec) {
		ideal = append(ideal, Step{Op: "reconcile", Set: sp.Name})
		for _, ph := range sp.Phases {
			rolloutPhase(sp, ph)
		}
		ideal = append(ideal, Step{Op: "reconcile", Set: sp.Name})
	}
	var delegated []PhaseSpec
	for _, ph := range os1.Phases {
		if ph.Class != "" {
			delegated = append(delegated, ph)
		}
	}
	loss := func() {
		ph := pick(r, delegated)
		pn := "os1-" + ph.Name
		switch x := r.Intn(10); {
		case x < 5: // plain deletion: the phase controller cleans up, then lets the object go
			ideal = append(ideal, Step{Op: "delPhase", Set: pn})
			if r.Intn(3) == 0 { // the ObjectSet controller meets the phase object in deletion
				ideal = append(ideal, Step{Op: "reconcile", Set: "os1"})
			}
			ideal = append(ideal, Step{Op: "phase", Set: pn}, Step{Op: "phase", Set: pn})
		case x < 8: // orphan propagation: hands off; the GC finishes
			ideal = append(ideal, Step{Op: "delPhase", Set: pn, Orphan: true}, Step{Op: "phase", Set: pn})
			if r.Intn(3) == 0 {
				ideal = append(ideal, Step{Op: "reconcile", Set: "os1"})
			}
			if r.Intn(3) == 0 {
				ideal = append(ideal, Step{Op: "phase", Set: pn})
			}
			ideal = append(ideal, Step{Op: "gcPhase", Set: pn})
		default: // forced removal
			ideal = append(ideal, Step{Op: "delPhase", Set: pn, Value: "force"})
		}
		// recovery: re-created by the ObjectSet controller, rolled out again by the phase controller
		rec := Step{Op: "reconcile", Set: "os1"}
		if r.Intn(6) == 0 { // the status update of the re-creating pass is lost to a concurrent edit
			rec.SetEnv = []SetEnv{{At: r.Intn(2), Op: "touch", Set: "os1"}}
		}
		ideal = append(ideal, rec, Step{Op: "phase", Set: pn})
		for _, o := range ph.Objects {
			ideal = append(ideal, ready(o.Name))
		}
		ideal = append(ideal, Step{Op: "phase", Set: pn}, Step{Op: "reconcile", Set: "os1"})
	}
	rollout(os1)
	loss()
	if r.Intn(4) == 0 {
		loss()
	}
	if r.Intn(3) == 0 {
		ideal = append(ideal, Step{Op: "reconcile", Set: "os1"})
	}
	rollout(os2)
	if r.Intn(2) == 0 { // the old revision goes away
		if r.Intn(2) == 0 {
			ideal = append(ideal, Step{Op: "lifecycle", Set: "os1", Value: "Archived"})
		} else {
			ideal = append(ideal, Step{Op: "delete", Set: "os1"})
		}
		for i := 0; i < 3; i++ {
			ideal = append(ideal, Step{Op: "reconcile", Set: "os1"})
			for _, ph := range delegated {
				ideal = append(ideal, Step{Op: "phase", Set: "os1-" + ph.Name})
			}
		}
		ideal = append(ideal, Step{Op: "reconcile", Set: "os1"}, Step{Op: "reconcile", Set: "os2"})
	}
	// perturb
	names := []string{"a", "b", "c"}
	for _, st := range ideal {
		x := r.Intn(100)
		switch {
		case x < 6: // dropped
		case x < 11: // repeated
			s.Steps = append(s.Steps, st, st)
		case x < 14: // third-party operation first
			e := verifphase.EnvOp{Kind: "NsThing", NS: "ns1", Name: pick(r, names), ObsGen: -1}
			e.Op = pick(r, []string{"setReady", "setPayload", "delete", "reown", "setRev"})
			switch e.Op {
			case "setReady":
				e.Ready = r.Intn(2) == 0
				e.ObsGen = int64(r.Intn(4)) - 1
			case "setPayload":
				e.Payload = "drift"
			case "setRev":
				e.Rev = pick(r, verifphase.RevClasses)
			}
			s.Steps = append(s.Steps, Step{Op: "env", Env: []verifphase.EnvOp{e}}, st)
		default:
			s.Steps = append(s.Steps, st)
		}
	}
	if len(s.Steps) > 1 && r.Intn(5) == 0 { // one swap
		i := r.Intn(len(s.Steps) - 1)
		s.Steps[i], s.Steps[i+1] = s.Steps[i+1], s.Steps[i]
	}
	return s
}
