package verifsys

// Generator of the C04 "teardown" stream: third parties racing the teardown of a rolled-out
// ObjectSet at the one point where a race matters — between the uncached GET of an object and
// the write (preconditioned DELETE / owner-reference PATCH) of that very object's teardown.
//
// Which write of a pass hits which object depends on everything that happened before, so the
// generator is guided by the code under test: it runs the undisturbed history once (Exec), reads
// the write sequence of every teardown pass off the trace and schedules a third-party operation
// right before the i-th write of a pass ON THE OBJECT THAT WRITE IS ABOUT (or, less often, on
// another object of the ObjectSet / as a refused write).  The probe only places disturbances; it
// never judges anything — the model and the monitor see the finished scenario like any other.

import (
	"fmt"
	"math/rand"
	"strings"

	"package-operator.run/internal/verifphase"
)

// parseRefs reads the `o=[group/Kind:name:uid:ctrl,...]` field of a printed object (ObjStr).
func parseRefs(objStr string) []verifphase.Ref {
	i := strings.Index(objStr, "o=[")
	if i < 0 {
		return nil
	}
	rest := objStr[i+3:]
	j := strings.Index(rest, "]")
	if j <= 0 {
		return nil
	}
	var out []verifphase.Ref
	for _, x := range strings.Split(rest[:j], ",") {
		parts := strings.Split(x, ":")
		if len(parts) != 4 {
			continue
		}
		gk := strings.SplitN(parts[0], "/", 2)
		if len(gk) != 2 {
			continue
		}
		out = append(out, verifphase.Ref{Group: gk[0], Kind: gk[1], Name: parts[1], UID: parts[2], Ctrl: parts[3] == "1"})
	}
	return out
}

// storeOf returns the printed managed objects of a trace by key ("Kind/ns/name").
func storeOf(out string) map[string]string {
	toks := strings.Split(out, " ## ")
	m := map[string]string{}
	if len(toks) == 0 {
		return m
	}
	for _, o := range strings.Split(toks[len(toks)-1], ";") {
		if i := strings.Index(o, "{"); i > 0 {
			m[o[:i]] = o
		}
	}
	return m
}

// passWrites lists the keys of the writes on managed objects a pass issued, in order, with the verb.
func passWrites(tok string) (verbs, keys []string) {
	parts := strings.Split(tok, " | ")
	if len(parts) != 4 || parts[1] == "" {
		return nil, nil
	}
	for _, e := range strings.Split(parts[1], ";") {
		f := strings.Split(e, " ")
		if len(f) >= 2 {
			verbs = append(verbs, f[0])
			keys = append(keys, f[1])
		}
	}
	return verbs, keys
}

func envOn(key string) verifphase.EnvOp {
	f := strings.SplitN(key, "/", 3)
	for len(f) < 3 {
		f = append(f, "")
	}
	return verifphase.EnvOp{Kind: f[0], NS: f[1], Name: f[2], ObsGen: -1}
}

// probe runs a history on the code under test to learn what its passes write (a panic of the
// code under test is the final run's to report).
func probe(s Scn) (out string) {
	defer func() {
		if recover() != nil {
			out = ""
		}
	}()
	return Exec(s)
}

var foreignCtrl = verifphase.Ref{Group: "apps", Kind: "Deployment", Name: "dep", UID: "u-dep", Ctrl: true}

// TeardownRace: a rolled-out (Cluster)ObjectSet os1 with 1-3 phases of 1-3 objects, local and
// delegated, some objects held by foreign finalizers; optionally a successor revision os2 listing
// the same objects.  After the roll-out third parties take some objects over (os1 / its phase
// object stays behind as a non-controlling owner), re-own or delete them; then os1 is archived or
// deleted and torn down pass by pass (ObjectSet controller and the phase controller of every
// delegated phase), with 1-2 disturbances placed as described above and enough passes afterwards
// for the consequences to show.
func TeardownRace(r *rand.Rand) Scn {
	s := Scn{Cluster: r.Intn(4) == 0}
	objNS := ""
	if s.Cluster {
		objNS = "ns1"
	}
	names := []string{"a", "b", "c", "d", "e", "f", "g", "h", "i"}
	used := 0
	os1 := SetSpec{Name: "os1", Revision: 1, FinCached: true}
	nph := 1 + r.Intn(3)
	delegate := r.Intn(5) < 2
	for p := 0; p < nph; p++ {
		ph := PhaseSpec{Name: fmt.Sprintf("p%d", p+1)}
		if delegate && r.Intn(2) == 0 {
			ph.Class = "default"
		}
		for n := 1 + r.Intn(3); n > 0; n-- {
			ph.Objects = append(ph.Objects, verifphase.PObj{Kind: "NsThing", NS: objNS, Name: names[used], CP: "Prevent", Payload: "x", DryRun: "accept"})
			used++
		}
		os1.Phases = append(os1.Phases, ph)
	}
	s.Sets = []SetSpec{os1}
	successor := r.Intn(3) == 0
	if successor { // the next revision lists the objects of os1 (all local)
		os2 := SetSpec{Name: "os2", Previous: []string{"os1"}}
		for _, ph := range os1.Phases {
			q := PhaseSpec{Name: ph.Name}
			for _, o := range ph.Objects {
				if r.Intn(4) != 0 {
					q.Objects = append(q.Objects, o)
				}
			}
			if len(q.Objects) > 0 {
				os2.Phases = append(os2.Phases, q)
			}
		}
		if len(os2.Phases) == 0 {
			successor = false
		} else {
			s.Sets = append(s.Sets, os2)
		}
	}
	hasDelegated := false
	var finalizers []string
	for _, ph := range os1.Phases {
		if ph.Class != "" {
			hasDelegated = true
			continue // created by the phase controller during the roll-out below
		}
		for _, p := range ph.Objects {
			so := verifphase.SObj{Kind: p.Kind, NS: "ns1", Name: p.Name, Cache: true, Payload: p.Payload, Ready: true, ObsGen: -1,
				Owners: []verifphase.Ref{s.setRef(0, true)}, Rev: "1"}
			switch x := r.Intn(20); {
			case x < 2: // not there (yet): the roll-out creates it, or it stays absent
				continue
			case x < 4:
				so.Finalizer = true
				finalizers = append(finalizers, p.Kind+"/ns1/"+p.Name)
			}
			s.Store = append(s.Store, so)
		}
	}
	var all []verifphase.PObj
	for _, ph := range os1.Phases {
		all = append(all, ph.Objects...)
	}
	readyAll := func() Step {
		st := Step{Op: "env"}
		for _, p := range all {
			st.Env = append(st.Env, verifphase.EnvOp{Op: "setReady", Kind: p.Kind, NS: "ns1", Name: p.Name, Ready: true, ObsGen: -1})
		}
		return st
	}
	phaseSteps := func(reverse bool) []Step {
		var out []Step
		for _, ph := range os1.Phases {
			if ph.Class != "" {
				st := Step{Op: "phase", Set: "os1-" + ph.Name}
				if reverse {
					out = append([]Step{st}, out...)
				} else {
					out = append(out, st)
				}
			}
		}
		return out
	}
	// roll-out
	if hasDelegated {
		for k := 0; k < nph+1; k++ {
			s.Steps = append(s.Steps, Step{Op: "reconcile", Set: "os1"})
			s.Steps = append(s.Steps, phaseSteps(false)...)
			s.Steps = append(s.Steps, readyAll())
		}
		s.Steps = append(s.Steps, phaseSteps(false)...)
		s.Steps = append(s.Steps, Step{Op: "reconcile", Set: "os1"})
	} else if r.Intn(2) == 0 {
		s.Steps = append(s.Steps, Step{Op: "reconcile", Set: "os1"}, readyAll(), Step{Op: "reconcile", Set: "os1"})
	}
	if successor && r.Intn(2) == 0 { // the successor takes (some of) the objects over
		s.Steps = append(s.Steps, Step{Op: "reconcile", Set: "os2"})
		if r.Intn(2) == 0 {
			s.Steps = append(s.Steps, readyAll(), Step{Op: "reconcile", Set: "os2"})
		}
	}
	// drift: what third parties did to the objects since
	var cur map[string]string // the store after the roll-out (probed when first needed)
	for _, p := range all {
		if r.Intn(10) >= 3 {
			continue
		}
		key := p.Kind + "/ns1/" + p.Name
		e := envOn(key)
		switch x := r.Intn(20); {
		case x < 10: // taken over: the present owners stay behind as non-controlling owners
			if cur == nil {
				cur = storeOf(probe(s))
			}
			obj, ok := cur[key]
			if !ok {
				continue
			}
			e.Op = "reown"
			for _, ref := range parseRefs(obj) {
				ref.Ctrl = false
				e.Owners = append(e.Owners, ref)
			}
			if successor && r.Intn(2) == 0 {
				e.Owners = append(e.Owners, s.setRef(1, true))
			} else {
				e.Owners = append(e.Owners, foreignCtrl)
			}
		case x < 13:
			e.Op = "reown"
			e.Owners = []verifphase.Ref{foreignCtrl}
		case x < 15:
			e.Op = "reown"
		default:
			e.Op = "delete"
		}
		s.Steps = append(s.Steps, Step{Op: "env", Env: []verifphase.EnvOp{e}})
	}
	// teardown
	if r.Intn(2) == 0 {
		s.Steps = append(s.Steps, Step{Op: "lifecycle", Set: "os1", Value: "Archived"})
	} else {
		s.Steps = append(s.Steps, Step{Op: "delete", Set: "os1", Orphan: r.Intn(16) == 0})
	}
	first := len(s.Steps)
	rounds := nph + 3 + len(finalizers)
	// the namespace of the ObjectSet as the controller's client sees it while delegated phases are
	// torn down: in deletion (the whole namespace is being removed) or not found (a cache that does
	// not hold it); a cache may catch up later
	nsAt, nsBack := -1, -1
	if hasDelegated && !s.Cluster && r.Intn(3) == 0 {
		nsAt = r.Intn(rounds)
		if r.Intn(2) == 0 {
			nsBack = nsAt + 1 + r.Intn(2)
		}
	}
	nsState := pick(r, []string{"terminating", "gone", "gone"})
	for k := 0; k < rounds; k++ {
		if k == nsAt {
			s.Steps = append(s.Steps, Step{Op: "namespace", Value: nsState})
		}
		if k == nsBack && nsState == "gone" {
			s.Steps = append(s.Steps, Step{Op: "namespace", Value: "live"})
		}
		s.Steps = append(s.Steps, Step{Op: "reconcile", Set: "os1"})
		s.Steps = append(s.Steps, phaseSteps(true)...)
		if len(finalizers) > 0 && r.Intn(2) == 0 { // whoever held an object lets it go
			e := envOn(pick(r, finalizers))
			e.Op = "removeFinalizer"
			s.Steps = append(s.Steps, Step{Op: "env", Env: []verifphase.EnvOp{e}})
		}
		if successor && r.Intn(6) == 0 {
			s.Steps = append(s.Steps, Step{Op: "reconcile", Set: "os2"})
		}
		if r.Intn(12) == 0 {
			s.Steps = append(s.Steps, Step{Op: "restart"})
		}
	}
	// disturbances, placed on the write sequence the passes really issue
	from := first
	for n := 1 + r.Intn(3)/2; n > 0 && from < len(s.Steps); n-- {
		toks := strings.Split(probe(s), " ## ")
		var cand []int
		for i := from; i < len(s.Steps) && i < len(toks); i++ {
			if s.Steps[i].Op != "reconcile" && s.Steps[i].Op != "phase" {
				continue
			}
			if _, keys := passWrites(toks[i]); len(keys) > 0 {
				cand = append(cand, i)
			}
		}
		if len(cand) == 0 {
			break
		}
		i := cand[0] // mostly the first pass that writes: later ones depend on it
		if r.Intn(3) == 0 {
			i = pick(r, cand)
		}
		verbs, keys := passWrites(toks[i])
		at := r.Intn(len(keys))
		if r.Intn(4) == 0 { // prefer an ownership patch when the pass issues one
			for j, v := range verbs {
				if v == "M" {
					at = j
				}
			}
		}
		st := &s.Steps[i]
		if r.Intn(10) == 0 {
			st.WFault = &WFault{At: at, Class: pick(r, WFaultClasses)}
		} else {
			target := keys[at]
			if r.Intn(10) < 3 {
				p := pick(r, all)
				target = p.Kind + "/ns1/" + p.Name
			}
			e := envOn(target)
			e.At = at
			switch x := r.Intn(20); {
			case x < 3:
				e.Op, e.Ready, e.ObsGen = "setReady", r.Intn(2) == 0, int64(r.Intn(3))-1
			case x < 6:
				e.Op, e.Payload = "setPayload", "drift"
			case x < 8:
				e.Op, e.Rev = "setRev", pick(r, verifphase.RevClasses)
			case x < 14:
				e.Op = "delete"
			case x < 16:
				e.Op = "recreate"
			case x < 18:
				e.Op, e.Owners = "reown", []verifphase.Ref{foreignCtrl}
			case x < 19:
				e.Op = "reown"
			default:
				e.Op = "removeFinalizer"
			}
			st.Env = append(st.Env, e)
		}
		from = i + 1
	}
	return s
}

// TeardownTags: input-distribution facts of the "teardown" stream.
func TeardownTags(s Scn, out string) []string {
	t := Tags(s, out)
	toks := strings.Split(out, " ## ")
	seen := map[string]bool{}
	add := func(x string) {
		if !seen[x] {
			seen[x] = true
			t = append(t, x)
		}
	}
	for _, sp := range s.Sets {
		for _, ph := range sp.Phases {
			if ph.Class != "" {
				add("delegated")
			}
		}
	}
	if len(s.Sets) > 1 {
		add("successor")
	}
	disturbed := false
	for i, st := range s.Steps {
		if st.Op != "reconcile" && st.Op != "phase" || i >= len(toks) {
			continue
		}
		if st.WFault != nil {
			disturbed = true
			add("race-refused-write")
		}
		verbs, keys := passWrites(toks[i])
		for _, e := range st.Env {
			disturbed = true
			if e.At >= len(keys) {
				add("race-missed")
				continue
			}
			self := keys[e.At] == e.Kind+"/"+e.NS+"/"+e.Name
			where := "other"
			if self {
				where = "self"
			}
			add("race-" + st.Op + "-" + verbs[e.At] + "-" + where + "-" + e.Op)
			if self {
				add("race-on-own-write")
			}
		}
	}
	for _, st := range s.Steps {
		if st.Op == "namespace" {
			disturbed = true
			add("namespace-" + st.Value)
		}
	}
	if !disturbed {
		add("undisturbed")
	}
	if strings.Contains(out, "U ObjectSetPhase/") {
		add("out~U phase-finalizers-stripped")
	}
	if strings.Contains(out, "!NotFound") {
		add("out~patch-NotFound")
	}
	return t
}
