package verifsys

// Cross-level histories (property C08, stream "handover"): the REAL ObjectDeployment controller
// (objectdeployments.NewObjectDeploymentController / NewClusterObjectDeploymentController) runs on
// the SAME store the scenario's ObjectSets, phase objects and managed objects live in, interleaved
// with the real ObjectSet / ObjectSetPhase controllers.
//
// The scenario's sets are the revisions of ONE ObjectDeployment `od1`: they carry the label its
// selector matches, a controller ownerReference to it and the template-hash annotation the real
// hashing code computes for their own template (what newRevisionReconciler stamps on an ObjectSet
// it creates).  The ObjectDeployment's template is the template of the revision rolled out last, so
// the new-revision reconciler finds its current ObjectSet and creates nothing.  A roll-out
// (`rollout` step) is the user's template update + the ObjectSet the controller would create for it
// in one step (hand-made: the name is the scenario's, not od1-<hash>).
//
// The ObjectDeployment object itself is kept outside the store (the controller's client is wrapped:
// Get / Status().Update of the ObjectDeployment are answered from memory, everything else goes to
// the store), so that it consumes no uid / resourceVersion numbers.  Mirrored by `odStep` of
// lean/Pko/Drv/SysCommon.lean.

import (
	"context"
	"strings"

	"github.com/go-logr/logr"
	metav1 "k8s.io/apimachinery/pkg/apis/meta/v1"
	"k8s.io/apimachinery/pkg/types"
	ctrl "sigs.k8s.io/controller-runtime"
	"sigs.k8s.io/controller-runtime/pkg/client"

	corev1alpha1 "package-operator.run/apis/core/v1alpha1"
	"package-operator.run/internal/controllers/objectdeployments"
	"package-operator.run/internal/utils"
	"package-operator.run/internal/verifstore"
)

// ODSpec makes the scenario's sets the revisions of one ObjectDeployment.
type ODSpec struct {
	Paused bool `json:"paused"` // spec.paused at the start
}

const (
	odName          = "od1"
	odUID           = "od-uid"
	odSelectorLabel = "verif.io/od"
	pbpAnnotation   = "package-operator.run/paused-by-parent"
)

type odState struct {
	ctl *objectdeployments.GenericObjectDeploymentController
	obj client.Object // *ObjectDeployment | *ClusterObjectDeployment, lives outside the store
}

func (y *sys) odKind() string {
	if y.scn.Cluster {
		return "ClusterObjectDeployment"
	}
	return "ObjectDeployment"
}

// template of a revision: what the ObjectDeployment's spec.template is while it is the current one.
func odTemplate(sp SetSpec) corev1alpha1.ObjectSetTemplate {
	return corev1alpha1.ObjectSetTemplate{
		Metadata: metav1.ObjectMeta{Labels: map[string]string{odSelectorLabel: odName}},
		Spec:     corev1alpha1.ObjectSetTemplateSpec{Phases: templatePhases(sp.Phases), AvailabilityProbes: probes()},
	}
}

// odHash is the hash the real hashReconciler computes for that template (collisionCount nil).
func odHash(sp SetSpec) string { return utils.ComputeFNV32Hash(odTemplate(sp), nil) }

// odMeta: labels, annotations and owner reference newObjectSetFromDeployment gives an ObjectSet.
func (y *sys) odMeta(sp SetSpec, om *metav1.ObjectMeta) {
	if om.Labels == nil {
		om.Labels = map[string]string{}
	}
	om.Labels[odSelectorLabel] = odName
	om.Labels[objectdeployments.ObjectSetObjectDeploymentLabel] = odName
	om.Annotations = map[string]string{objectdeployments.ObjectSetHashAnnotation: odHash(sp)}
	t := true
	om.OwnerReferences = []metav1.OwnerReference{{
		APIVersion: corev1alpha1.GroupVersion.String(), Kind: y.odKind(), Name: odName, UID: odUID,
		Controller: &t, BlockOwnerDeletion: &t,
	}}
}

type odClient struct {
	*verifstore.Client
	y *sys
}

func (c odClient) isOD(obj client.Object) bool {
	switch obj.(type) {
	case *corev1alpha1.ObjectDeployment, *corev1alpha1.ClusterObjectDeployment:
		return true
	}
	return false
}

func (c odClient) Get(ctx context.Context, key client.ObjectKey, obj client.Object, opts ...client.GetOption) error {
	if c.isOD(obj) {
		switch o := obj.(type) {
		case *corev1alpha1.ObjectDeployment:
			c.y.od.obj.(*corev1alpha1.ObjectDeployment).DeepCopyInto(o)
		case *corev1alpha1.ClusterObjectDeployment:
			c.y.od.obj.(*corev1alpha1.ClusterObjectDeployment).DeepCopyInto(o)
		}
		return nil
	}
	return c.Client.Get(ctx, key, obj, opts...)
}

type odStatusWriter struct {
	client.SubResourceWriter
	c odClient
}

func (c odClient) Status() client.SubResourceWriter { return odStatusWriter{c.Client.Status(), c} }

func (w odStatusWriter) Update(ctx context.Context, obj client.Object, opts ...client.SubResourceUpdateOption) error {
	switch o := obj.(type) {
	case *corev1alpha1.ObjectDeployment:
		o.Status.DeepCopyInto(&w.c.y.od.obj.(*corev1alpha1.ObjectDeployment).Status)
		return nil
	case *corev1alpha1.ClusterObjectDeployment:
		o.Status.DeepCopyInto(&w.c.y.od.obj.(*corev1alpha1.ClusterObjectDeployment).Status)
		return nil
	}
	return w.SubResourceWriter.Update(ctx, obj, opts...)
}

// newOD builds the ObjectDeployment (template of the newest set present at the start) and the
// real controller on the wrapped client.
func (y *sys) newOD() {
	var cur *SetSpec
	for i := range y.scn.Sets {
		if !y.scn.Sets[i].Later {
			cur = &y.scn.Sets[i]
		}
	}
	od := &odState{}
	om := metav1.ObjectMeta{Name: odName, Namespace: y.ns(), UID: odUID, Generation: 1}
	sel := metav1.LabelSelector{MatchLabels: map[string]string{odSelectorLabel: odName}}
	var tmpl corev1alpha1.ObjectSetTemplate
	if cur != nil {
		tmpl = odTemplate(*cur)
	}
	c := odClient{y.env.Store.Client(), y}
	if y.scn.Cluster {
		od.obj = &corev1alpha1.ClusterObjectDeployment{ObjectMeta: om, Spec: corev1alpha1.ClusterObjectDeploymentSpec{
			Selector: sel, Template: tmpl, Paused: y.scn.OD.Paused}}
		od.ctl = objectdeployments.NewClusterObjectDeploymentController(c, logr.Discard(), y.scheme)
	} else {
		od.obj = &corev1alpha1.ObjectDeployment{ObjectMeta: om, Spec: corev1alpha1.ObjectDeploymentSpec{
			Selector: sel, Template: tmpl, Paused: y.scn.OD.Paused}}
		od.ctl = objectdeployments.NewObjectDeploymentController(c, logr.Discard(), y.scheme)
	}
	y.od = od
}

func (y *sys) odSetTemplate(t corev1alpha1.ObjectSetTemplate) {
	switch o := y.od.obj.(type) {
	case *corev1alpha1.ObjectDeployment:
		o.Spec.Template = t
		o.Generation++
	case *corev1alpha1.ClusterObjectDeployment:
		o.Spec.Template = t
		o.Generation++
	}
}

func (y *sys) odSetPaused(p bool) {
	switch o := y.od.obj.(type) {
	case *corev1alpha1.ObjectDeployment:
		if o.Spec.Paused != p {
			o.Spec.Paused = p
			o.Generation++
		}
	case *corev1alpha1.ClusterObjectDeployment:
		if o.Spec.Paused != p {
			o.Spec.Paused = p
			o.Generation++
		}
	}
}

// odEventsStr prints the writes of an ObjectDeployment pass on ObjectSets: what the update leaves
// in spec.lifecycleState / the paused-by-parent annotation, creates, deletes.
func (y *sys) odEventsStr(log []*verifstore.Request) string {
	var out []string
	for _, r := range log {
		if r.DryRun || r.Key.Group != "package-operator.run" {
			continue
		}
		switch r.Verb {
		case "update":
			life, _ := nestedString(r.Body, "spec", "lifecycleState")
			if life == "" {
				life = "Active"
			}
			pbp := "0"
			if v, _ := nestedString(r.Body, "metadata", "annotations", pbpAnnotation); v == "true" {
				pbp = "1"
			}
			out = append(out, "U "+r.Key.Name+" "+life+" pbp="+pbp+" "+errOr(r.Err, "ok"))
		case "delete":
			out = append(out, "X "+r.Key.Name+" "+errOr(r.Err, "ok"))
		case "create":
			out = append(out, "C "+r.Key.Kind+"/"+r.Key.Name+" "+errOr(r.Err, "ok"))
		default:
			out = append(out, strings.ToUpper(r.Verb)+" "+r.Key.Kind+"/"+r.Key.Name+" "+errOr(r.Err, "ok"))
		}
	}
	return strings.Join(out, ";")
}

func nestedString(m map[string]interface{}, path ...string) (string, bool) {
	var cur interface{} = m
	for _, p := range path {
		mm, ok := cur.(map[string]interface{})
		if !ok {
			return "", false
		}
		cur = mm[p]
	}
	s, ok := cur.(string)
	return s, ok
}

// odStep executes the ObjectDeployment-level steps; ok=false: not one of them.
func (y *sys) odStep(st Step) (string, bool) {
	switch st.Op {
	case "od", "odPause", "rollout":
	default:
		return "", false
	}
	if y.od == nil {
		return "BAD-STEP", true
	}
	switch st.Op {
	case "od": // one pass of the real ObjectDeployment controller
		from := len(y.env.Store.Log)
		res, err := y.od.ctl.Reconcile(context.Background(),
			ctrl.Request{NamespacedName: types.NamespacedName{Namespace: y.ns(), Name: odName}})
		r := "ok"
		if err != nil {
			r = "err"
		} else if res.Requeue || res.RequeueAfter > 0 {
			r = "requeue"
		}
		return "O " + r + " | " + y.odEventsStr(y.env.Store.Log[from:]), true
	case "odPause": // the user sets spec.paused
		y.odSetPaused(st.Value == "true")
		return "-", true
	case "rollout": // template update + the ObjectSet of the new revision
		for _, sp := range y.scn.Sets {
			if sp.Name == st.Set && sp.Later && y.env.Store.Peek(y.setKey(sp.Name)) == nil {
				y.odSetTemplate(odTemplate(sp))
				y.putSet(sp)
				return "-", true
			}
		}
		return "BAD-STEP", true
	}
	return "BAD-STEP", true
}
