// Package verifsys is the controller-level ("system") correspondence harness: it wires the REAL
// ObjectSet / ObjectSetPhase / ObjectDeployment controllers, built by their exported
// constructors, onto verifstore and drives `Reconcile` in the order a scenario dictates
// (schedules are inputs).  Injected by overlay; mirrored by lean/Pko/Model/ObjectSet.lean and
// lean/Pko/Drv/SysCommon.lean.
package verifsys

import (
	"context"
	"errors"
	"fmt"
	"sort"
	"strings"
	"time"

	"github.com/go-logr/logr"
	corev1 "k8s.io/api/core/v1"
	apierrors "k8s.io/apimachinery/pkg/api/errors"
	metav1 "k8s.io/apimachinery/pkg/apis/meta/v1"
	"k8s.io/apimachinery/pkg/apis/meta/v1/unstructured"
	"k8s.io/apimachinery/pkg/runtime"
	"k8s.io/apimachinery/pkg/runtime/schema"
	"k8s.io/apimachinery/pkg/types"
	ctrl "sigs.k8s.io/controller-runtime"
	"sigs.k8s.io/controller-runtime/pkg/client"

	corev1alpha1 "package-operator.run/apis/core/v1alpha1"
	"package-operator.run/internal/controllers/objectsetphases"
	"package-operator.run/internal/controllers/objectsets"
	"package-operator.run/internal/dynamiccache"
	"package-operator.run/internal/verifphase"
	"package-operator.run/internal/verifstore"
)

type PhaseSpec struct {
	Name    string            `json:"name"`
	Class   string            `json:"class"`
	Objects []verifphase.PObj `json:"objects"`
	Slices  []SliceSpec       `json:"slices,omitempty"` // C04 "slices" stream: ObjectSlices referenced by the phase
}

type SetSpec struct {
	Name      string      `json:"name"`
	Lifecycle string      `json:"lifecycle"` // "" (Active) | Paused | Archived
	Previous  []string    `json:"previous"`
	Phases    []PhaseSpec `json:"phases"`
	Revision  int64       `json:"revision"`
	FinCached bool        `json:"finCached"`
	PkgLabel  string      `json:"pkgLabel"`
	// handover stream (od.go): the ObjectSet does not exist at the start, a `rollout` step creates it
	Later bool `json:"later,omitempty"`
}

type SetEnv struct {
	At    int    `json:"at"` // right before the n-th write on an ObjectSet / ObjectSetPhase in this step
	Op    string `json:"op"` // lifecycle | touch | status (value Succeeded | Archived: see applySetEnv)
	Set   string `json:"set"`
	Value string `json:"value"`
}

// (S1B) third-party operations on a delegated phase's API object, Set = name of the phase object:
//
//	delPhase — delete request; Orphan: with orphan propagation (the API adds the "orphan" finalizer);
//	           Value "force": all finalizers are stripped first (namespace / force cleanup);
//	gcPhase  — the garbage collector's half of an orphan deletion: dependents lose their owner
//	           reference to the phase object, then the "orphan" finalizer is released.
type Step struct {
	Op     string             `json:"op"` // reconcile | phase | env | lifecycle | delete | editPayload | restart | delSlice | rescope (set = kind, value = namespaced | cluster | unknown) | namespace (value = terminating | gone | live)
	Set    string             `json:"set"`
	Value  string             `json:"value"`
	Orphan bool               `json:"orphan"`
	Phase  int                `json:"phase"`
	Obj    int                `json:"obj"`
	Env    []verifphase.EnvOp `json:"env"`    // op=env: applied now (At ignored); op=reconcile: before managed-object write At
	SetEnv []SetEnv           `json:"setEnv"` // op=reconcile only
	// C10 (convergence stream) only:
	Fault *Fault `json:"fault,omitempty"` // op=reconcile|phase: one API call of this pass fails
	Drift bool   `json:"drift,omitempty"` // a disturbance: the undisturbed reference run skips this step
	// sys stream: the At-th write on a managed object of this pass is answered with an API error
	WFault *WFault `json:"wfault,omitempty"` // op=reconcile|phase
	// sys stream: every REST-mapper lookup of the listed kinds is answered with a transient
	// (non-NoMatch) error during this pass — API discovery is degraded while the controller runs;
	// MapErrClass picks the concrete error (verifphase.MapperError), the model does not read it
	MapErr      []string `json:"mapErr,omitempty"`      // op=reconcile|phase
	MapErrClass string   `json:"mapErrClass,omitempty"` // op=reconcile|phase
}

// WFault makes the At-th (0-based, counted like Step.Env's At) non-dry-run write on a managed
// object of a pass fail WITHOUT effect with an API error of the given class: Conflict | Forbidden |
// Invalid | BadRequest | Error (InternalError).  Any other class name injects nothing — in
// particular NotFound and AlreadyExists, which the phase reconciler does not treat as an error of
// the pass ("don't error, just observe": the object counts as missing and the phase goes on).  Third-party edits of the ObjectSet (Step.SetEnv) are not applied in such a step.
type WFault struct {
	At    int    `json:"at"`
	Class string `json:"class"`
}

// wfaultError builds the API error of a fault class (nil = class not supported).
func wfaultError(class string, k verifstore.Key) error {
	gr := schema.GroupResource{Group: k.Group, Resource: strings.ToLower(k.Kind) + "s"}
	switch class {
	case "Conflict":
		return apierrors.NewConflict(gr, k.Name, fmt.Errorf("injected"))
	case "Forbidden":
		return apierrors.NewForbidden(gr, k.Name, fmt.Errorf("injected"))
	case "Invalid":
		return apierrors.NewInvalid(schema.GroupKind{Group: k.Group, Kind: k.Kind}, k.Name, nil)
	case "BadRequest":
		return apierrors.NewBadRequest("injected")
	case "Error":
		return apierrors.NewInternalError(fmt.Errorf("injected"))
	}
	return nil
}

// Fault makes the Call-th API call (0-based; reads, dry runs and writes all count) of a pass
// fail.  Mode "before": the call fails without effect; "after": a write takes effect but its
// response is lost; "crash": the process dies right before the call (every later call of the
// pass fails too, the dynamic cache is lost).  Budget = number of write requests of the pass that
// reach the API and take effect (filled in by the generator; the model truncates the pass there).
type Fault struct {
	Call   int    `json:"call"`
	Mode   string `json:"mode"`
	Budget int    `json:"budget"`
}

type Scn struct {
	Cluster bool              `json:"cluster"` // ClusterObjectSets instead of ObjectSets
	Sets    []SetSpec         `json:"sets"`
	Store   []verifphase.SObj `json:"store"`
	Steps   []Step            `json:"steps"`
	Rounds  int               `json:"rounds,omitempty"` // C10: settle rounds after the steps
	// handover stream (od.go): the sets are the revisions of one ObjectDeployment, reconciled by the
	// REAL ObjectDeployment controller in `od` steps
	OD *ODSpec `json:"od,omitempty"`
}

const NS = "ns1"

func Scheme() *runtime.Scheme {
	s := runtime.NewScheme()
	if err := corev1alpha1.AddToScheme(s); err != nil {
		panic(err)
	}
	if err := corev1.AddToScheme(s); err != nil { // the remote-phase teardown looks at the Namespace
		panic(err)
	}
	return s
}

var errInjected = fmt.Errorf("injected API failure")

type sys struct {
	lastCalls []callInfo
	scn       Scn
	scheme    *runtime.Scheme
	env       *verifphase.Env
	os        *objectsets.GenericObjectSetController
	ph        *objectsetphases.GenericObjectSetPhaseController
	od        *odState // handover stream only
}

func (y *sys) ns() string {
	if y.scn.Cluster {
		return ""
	}
	return NS
}

func (y *sys) setKind() string {
	if y.scn.Cluster {
		return "ClusterObjectSet"
	}
	return "ObjectSet"
}

func probes() []corev1alpha1.ObjectSetProbe {
	mk := func(kind string) corev1alpha1.ObjectSetProbe {
		return corev1alpha1.ObjectSetProbe{
			Selector: corev1alpha1.ProbeSelector{Kind: &corev1alpha1.PackageProbeKindSpec{Group: verifphase.Group, Kind: kind}},
			Probes:   []corev1alpha1.Probe{{Condition: &corev1alpha1.ProbeConditionSpec{Type: "Ready", Status: "True"}}},
		}
	}
	return []corev1alpha1.ObjectSetProbe{mk("NsThing"), mk("ClThing")}
}

func templatePhases(ps []PhaseSpec) []corev1alpha1.ObjectSetTemplatePhase {
	var out []corev1alpha1.ObjectSetTemplatePhase
	for _, p := range ps {
		tp := corev1alpha1.ObjectSetTemplatePhase{Name: p.Name, Class: p.Class}
		for _, o := range p.Objects {
			tp.Objects = append(tp.Objects, o.Build())
		}
		for _, sl := range p.Slices {
			tp.Slices = append(tp.Slices, sl.Name)
		}
		out = append(out, tp)
	}
	return out
}

func (y *sys) putSet(sp SetSpec) {
	if sp.Lifecycle == "" {
		sp.Lifecycle = "Active" // what the CRD default would store
	}
	spec := corev1alpha1.ObjectSetSpec{
		LifecycleState: corev1alpha1.ObjectSetLifecycleState(sp.Lifecycle),
		ObjectSetTemplateSpec: corev1alpha1.ObjectSetTemplateSpec{
			Phases: templatePhases(sp.Phases), AvailabilityProbes: probes(),
		},
	}
	for _, p := range sp.Previous {
		spec.Previous = append(spec.Previous, corev1alpha1.PreviousRevisionReference{Name: p})
	}
	om := metav1.ObjectMeta{Name: sp.Name, Namespace: y.ns()}
	if sp.PkgLabel != "" {
		om.Labels = map[string]string{verifphase.PkgLabel: sp.PkgLabel}
	}
	if sp.FinCached {
		om.Finalizers = []string{"package-operator.run/cached"}
	}
	if y.scn.OD != nil {
		y.odMeta(sp, &om)
	}
	var obj runtime.Object
	if y.scn.Cluster {
		obj = &corev1alpha1.ClusterObjectSet{ObjectMeta: om, Spec: corev1alpha1.ClusterObjectSetSpec{
			LifecycleState: spec.LifecycleState, Previous: spec.Previous, ObjectSetTemplateSpec: spec.ObjectSetTemplateSpec,
		}, Status: corev1alpha1.ClusterObjectSetStatus{Revision: sp.Revision}}
	} else {
		obj = &corev1alpha1.ObjectSet{ObjectMeta: om, Spec: spec, Status: corev1alpha1.ObjectSetStatus{Revision: sp.Revision}}
	}
	m, err := runtime.DefaultUnstructuredConverter.ToUnstructured(obj)
	if err != nil {
		panic(err)
	}
	u := &unstructured.Unstructured{Object: m}
	u.SetGroupVersionKind(corev1alpha1.GroupVersion.WithKind(y.setKind()))
	y.env.Store.Put(u)
}

func (y *sys) setKey(name string) verifstore.Key {
	return verifstore.Key{Group: verifphase.PkoGroup, Kind: y.setKind(), Namespace: y.ns(), Name: name}
}

func condStr(conds []interface{}) string {
	var out []string
	for _, c := range conds {
		m, ok := c.(map[string]interface{})
		if !ok {
			continue
		}
		og := int64(0)
		switch v := m["observedGeneration"].(type) {
		case int64:
			og = v
		case float64:
			og = int64(v)
		}
		s := fmt.Sprintf("%v=%v/%v/%d", m["type"], m["status"], m["reason"], og)
		if m["type"] == "Available" && m["reason"] == "ProbeFailure" {
			msg, _ := m["message"].(string)
			if strings.HasPrefix(msg, "Phase \"") { // ObjectSet level: the failing phase is named
				rest := msg[len("Phase \""):]
				if j := strings.Index(rest, "\""); j >= 0 {
					s += "/" + rest[:j]
				}
			}
		}
		out = append(out, s)
	}
	sort.Strings(out)
	return strings.Join(out, ",")
}

func controllerOfStr(refs []interface{}) string {
	var out []string
	for _, r := range refs {
		m, ok := r.(map[string]interface{})
		if !ok {
			continue
		}
		ns, _ := m["namespace"].(string)
		out = append(out, fmt.Sprintf("%v/%s/%v", m["kind"], ns, m["name"]))
	}
	return strings.Join(out, ",")
}

// remotePhasesStr prints status.remotePhases as name:uid, in the order of the status list.
func remotePhasesStr(body map[string]interface{}) string {
	st, _ := body["status"].(map[string]interface{})
	rps, _ := st["remotePhases"].([]interface{})
	var out []string
	for _, r := range rps {
		m, ok := r.(map[string]interface{})
		if !ok {
			continue
		}
		out = append(out, fmt.Sprintf("%v:%v", m["name"], m["uid"]))
	}
	return "rp=[" + strings.Join(out, ",") + "]"
}

func statusStr(body map[string]interface{}) string {
	st, _ := body["status"].(map[string]interface{})
	rev := int64(0)
	switch v := st["revision"].(type) {
	case int64:
		rev = v
	case float64:
		rev = int64(v)
	}
	conds, _ := st["conditions"].([]interface{})
	co, _ := st["controllerOf"].([]interface{})
	return fmt.Sprintf("rev=%d conds=[%s] co=[%s]", rev, condStr(conds), controllerOfStr(co))
}

func errOr(e, ok string) string {
	if e != "" {
		return "!" + e
	}
	return ok
}

// setEventsStr prints the writes on ObjectSets / ObjectSetPhases issued since log index `from`.
func (y *sys) setEventsStr(log []*verifstore.Request, phases bool) string {
	var out []string
	for _, r := range log {
		if r.DryRun || r.Key.Group != verifphase.PkoGroup || strings.HasSuffix(r.Key.Kind, "Phase") != phases {
			continue
		}
		switch r.Verb {
		case "merge":
			md, _ := r.Body["metadata"].(map[string]interface{})
			if fins, ok := md["finalizers"]; ok {
				add := "-"
				if l, ok := fins.([]interface{}); ok {
					for _, f := range l {
						if f == "package-operator.run/cached" {
							add = "+"
						}
					}
				}
				out = append(out, "F "+r.Key.Name+" "+add+" "+errOr(r.Err, "ok"))
			} else {
				out = append(out, "P "+r.Key.Kind+"/"+r.Key.Name+" "+errOr(r.Err, "ok"))
			}
		case "status":
			ev := "S " + r.Key.Name + " " + errOr(r.Err, "ok") + " " + statusStr(r.Body)
			if !phases { // ObjectSets report the phase objects they delegate to
				ev += " " + remotePhasesStr(r.Body)
			}
			out = append(out, ev)
		case "create":
			out = append(out, "C "+r.Key.Kind+"/"+r.Key.Name+" "+errOr(r.Err, "ok"))
		case "delete":
			out = append(out, "X "+r.Key.Kind+"/"+r.Key.Name+" "+errOr(r.Err, "ok"))
		case "update":
			out = append(out, "U "+r.Key.Kind+"/"+r.Key.Name+" "+errOr(r.Err, "ok"))
		default:
			out = append(out, strings.ToUpper(r.Verb)+" "+r.Key.Kind+"/"+r.Key.Name+" "+r.Err)
		}
	}
	return strings.Join(out, ";")
}

func managedOnly(log []*verifstore.Request) []*verifstore.Request {
	var out []*verifstore.Request
	for _, r := range log {
		if r.Key.Group == verifphase.Group {
			out = append(out, r)
		}
	}
	return out
}

func (y *sys) setStr(u *unstructured.Unstructured) string {
	fin := ""
	for _, f := range u.GetFinalizers() {
		switch f {
		case "package-operator.run/cached":
			fin += "c"
		case "orphan":
			fin += "o"
		default:
			fin += "?"
		}
	}
	d := "0"
	if u.GetDeletionTimestamp() != nil {
		d = "1"
	}
	life, _, _ := unstructured.NestedString(u.Object, "spec", "lifecycleState")
	if life == "" {
		life = "Active"
	}
	if u.GetAnnotations()[pbpAnnotation] == "true" { // paused-by-parent marker of the ObjectDeployment controller
		life += "+pbp"
	}
	return fmt.Sprintf("%s{g=%d,d=%s,f=%s,life=%s,%s %s}", u.GetName(), u.GetGeneration(), d, fin, life, statusStr(u.Object), remotePhasesStr(u.Object))
}

func (y *sys) phaseStr(u *unstructured.Unstructured) string {
	fin := ""
	for _, f := range u.GetFinalizers() {
		if f == "package-operator.run/cached" {
			fin += "c"
		} else if f == "orphan" { // (S1B) orphan propagation of a phase object
			fin += "o"
		} else {
			fin += "?"
		}
	}
	d := "0"
	if u.GetDeletionTimestamp() != nil {
		d = "1"
	}
	paused, _, _ := unstructured.NestedBool(u.Object, "spec", "paused")
	p := "0"
	if paused {
		p = "1"
	}
	rev, _, _ := unstructured.NestedInt64(u.Object, "spec", "revision")
	st, _ := u.Object["status"].(map[string]interface{})
	conds, _ := st["conditions"].([]interface{})
	co, _ := st["controllerOf"].([]interface{})
	return fmt.Sprintf("%s{g=%d,d=%s,f=%s,paused=%s,rev=%d conds=[%s] co=[%s]}", u.GetName(), u.GetGeneration(), d, fin, p, rev, condStr(conds), controllerOfStr(co))
}

func (y *sys) applySetEnv(e SetEnv) {
	k := y.setKey(e.Set)
	switch e.Op {
	case "lifecycle":
		y.env.Store.Mutate(k, func(u *unstructured.Unstructured) {
			_ = unstructured.SetNestedField(u.Object, e.Value, "spec", "lifecycleState")
		})
	case "touch": // a spec edit that changes nothing the controller looks at (generation bump)
		y.env.Store.Mutate(k, func(u *unstructured.Unstructured) {
			v, _, _ := unstructured.NestedInt64(u.Object, "spec", "successDelaySeconds")
			_ = v
			ann, _, _ := unstructured.NestedString(u.Object, "spec", "verifTouch")
			_ = unstructured.SetNestedField(u.Object, ann+"x", "spec", "verifTouch")
		})
	case "status":
		// The store gets AHEAD of what the running pass has read: the controller's own previous pass
		// (whose write the pass's informer cache had not shown yet) recorded Succeeded, or completed
		// archival after a lifecycle change.  Nothing happens if that is recorded already.
		y.env.Store.Mutate(k, func(u *unstructured.Unstructured) {
			st, _ := u.Object["status"].(map[string]interface{})
			if st == nil {
				st = map[string]interface{}{}
			}
			conds, _ := st["conditions"].([]interface{})
			gen := u.GetGeneration()
			switch e.Value {
			case "Archived":
				if condIsTrue(conds, "Archived") {
					return
				}
				_ = unstructured.SetNestedField(u.Object, "Archived", "spec", "lifecycleState")
				st["conditions"] = setCondU(removeCondU(conds, "Available"), "Archived", "True", "Archived", gen)
				delete(st, "controllerOf")
			default: // Succeeded
				if condIsTrue(conds, "Succeeded") {
					return
				}
				st["conditions"] = setCondU(conds, "Succeeded", "True", "RolloutSuccess", gen)
			}
			u.Object["status"] = st
		})
	}
}

func condIsTrue(conds []interface{}, typ string) bool {
	for _, c := range conds {
		if m, ok := c.(map[string]interface{}); ok && m["type"] == typ && m["status"] == "True" {
			return true
		}
	}
	return false
}

func removeCondU(conds []interface{}, typ string) []interface{} {
	var out []interface{}
	for _, c := range conds {
		if m, ok := c.(map[string]interface{}); ok && m["type"] == typ {
			continue
		}
		out = append(out, c)
	}
	return out
}

// setCondU is meta.SetStatusCondition on the unstructured form: update in place or append.
func setCondU(conds []interface{}, typ, status, reason string, gen int64) []interface{} {
	n := map[string]interface{}{"type": typ, "status": status, "reason": reason, "observedGeneration": gen,
		"message": "", "lastTransitionTime": "2020-01-01T00:00:00Z"}
	for i, c := range conds {
		if m, ok := c.(map[string]interface{}); ok && m["type"] == typ {
			conds[i] = n
			return conds
		}
	}
	return append(conds, n)
}

// startProcess is the start of an operator process: a NEW, empty dynamic cache (nothing is
// watched: reading any kind through it fails with CacheNotStartedError until somebody calls Watch)
// and NEW controllers built by the real constructors - whatever the previous process held in
// memory is gone.  The API server (store) is the only thing that survives.
func (y *sys) startProcess() {
	y.env.Cache = y.env.Store.NewCache()
	c := y.env.Store.Client()
	scheme := y.scheme
	if y.scn.Cluster {
		y.os = objectsets.NewClusterObjectSetController(c, logr.Discard(), scheme, y.env.Cache, c, nil, y.env.Store.Mapper())
		y.ph = objectsetphases.NewSameClusterClusterObjectSetPhaseController(logr.Discard(), scheme, y.env.Cache, c, "default", c, y.env.Store.Mapper())
	} else {
		y.os = objectsets.NewObjectSetController(c, logr.Discard(), scheme, y.env.Cache, c, nil, y.env.Store.Mapper())
		y.ph = objectsetphases.NewSameClusterObjectSetPhaseController(logr.Discard(), scheme, y.env.Cache, c, "default", c, y.env.Store.Mapper())
	}
}

// newSys builds the store, the cache and the REAL controllers for a scenario.
func newSys(scn Scn) *sys {
	scheme := Scheme()
	y := &sys{scn: scn, scheme: scheme, env: verifphase.NewEnv(scheme)}
	y.startProcess()
	y.env.Store.RegisterKind(schema.GroupKind{Group: "", Kind: "Namespace"}, false)
	for _, sp := range scn.Sets {
		if !sp.Later {
			y.putSet(sp)
		}
	}
	for _, sp := range scn.Sets {
		y.putSlices(sp)
	}
	if scn.OD != nil {
		y.newOD()
	}
	nsObj := &unstructured.Unstructured{Object: map[string]interface{}{"apiVersion": "v1", "kind": "Namespace"}}
	nsObj.SetName(NS)
	y.env.Store.PutQuiet(nsObj)
	for _, o := range scn.Store {
		y.env.Store.Put(o.BuildFor(y.ns()))
	}
	verdicts := map[string]string{}
	for _, sp := range scn.Sets {
		for _, ph := range sp.Phases {
			for _, p := range ph.Objects {
				verdicts[p.Kind+"/"+p.Name] = p.DryRun
			}
			for _, sl := range ph.Slices {
				for _, p := range sl.Objects {
					verdicts[p.Kind+"/"+p.Name] = p.DryRun
				}
			}
		}
	}
	y.env.Store.DryRunVerdict = func(u *unstructured.Unstructured) error {
		return verifphase.DryRunError(verdicts[u.GetKind()+"/"+u.GetName()], u)
	}
	return y
}

// callInfo describes one API call of a step (C10: injection points).
type callInfo struct {
	Write bool // non-dry-run mutating request
}

// doStep executes one schedule step and returns its output token.  If the step carries a fault
// (C10) the chosen API call fails; y.lastCalls lists the API calls the step issued.
func (y *sys) doStep(st Step) string {
	ctx := context.Background()
	from := len(y.env.Store.Log)
	if out, ok := y.odStep(st); ok {
		return out
	}
	switch st.Op {
	case "reconcile", "phase":
		mw, sw := 0, 0
		y.env.Store.BeforeWrite = func(r *verifstore.Request) {
			if r.Key.Group == verifphase.Group {
				for _, e := range st.Env {
					if e.At == mw {
						verifphase.ApplyEnv(y.env, e)
					}
				}
				mw++
			} else if strings.HasSuffix(r.Key.Kind, "ObjectSet") {
				// third-party edits of the ObjectSet are scheduled relative to writes on ObjectSets
				for _, e := range st.SetEnv {
					if e.At == sw && st.WFault == nil {
						y.applySetEnv(e)
					}
				}
				sw++
			}
		}
		// --- fault injection (C10)
		base := y.env.Store.Calls
		y.lastCalls = nil
		hit, crashed := false, false
		y.env.Store.CallFault = func(idx int, r *verifstore.Request) verifstore.Fault {
			y.lastCalls = append(y.lastCalls, callInfo{Write: r != nil && !r.DryRun})
			if st.Fault == nil {
				return verifstore.Fault{}
			}
			if crashed {
				return verifstore.Fault{Before: errInjected}
			}
			if idx-base != st.Fault.Call {
				return verifstore.Fault{}
			}
			hit = true
			switch st.Fault.Mode {
			case "crash": // the process dies right before this call: nothing it would do afterwards happens
				crashed = true
				return verifstore.Fault{Before: errInjected}
			case "after": // the request takes effect, the response is lost
				if r != nil && !r.DryRun {
					return verifstore.Fault{After: errInjected}
				}
				return verifstore.Fault{Before: errInjected}
			default: // "before": the request fails without effect
				return verifstore.Fault{Before: errInjected}
			}
		}
		// --- write faults (sys stream): the At-th write on a managed object is refused by the API
		var refused []*verifstore.Request
		if st.WFault != nil {
			fw := 0
			y.env.Store.InjectFault = func(r *verifstore.Request) verifstore.Fault {
				if r.DryRun || r.Key.Group != verifphase.Group {
					return verifstore.Fault{}
				}
				fw++
				if fw-1 != st.WFault.At {
					return verifstore.Fault{}
				}
				if e := wfaultError(st.WFault.Class, r.Key); e != nil {
					refused = append(refused, r)
					return verifstore.Fault{Before: e}
				}
				return verifstore.Fault{}
			}
		}
		// --- REST-mapper faults (sys stream): lookups of the listed kinds fail during this pass
		y.env.Store.MapperFault = verifphase.MapperFaultFor(st.MapErr, st.MapErrClass)
		var res ctrl.Result
		var err error
		req := ctrl.Request{NamespacedName: types.NamespacedName{Namespace: y.ns(), Name: st.Set}}
		if st.Op == "reconcile" {
			res, err = y.os.Reconcile(ctx, req)
		} else {
			res, err = y.ph.Reconcile(ctx, req)
		}
		y.env.Store.BeforeWrite = nil
		y.env.Store.CallFault = nil
		y.env.Store.InjectFault = nil
		y.env.Store.MapperFault = nil
		for _, r := range refused { // the trace names the error class the API answered with
			r.Err = st.WFault.Class
		}
		log := y.env.Store.Log[from:]
		if hit {
			// a restart follows a crash: a new process, the dynamic cache is in-memory only
			if st.Fault.Mode == "crash" {
				y.startProcess()
			}
			eff := 0
			for _, r := range log {
				if !r.DryRun && r.Err != "Injected" {
					eff++
				}
			}
			if eff != st.Fault.Budget {
				return fmt.Sprintf("R fault budget-mismatch effective-writes=%d", eff)
			}
			return "R fault"
		}
		r := "ok"
		var notStarted *dynamiccache.CacheNotStartedError
		if errors.As(err, &notStarted) {
			// the pass read a kind through the dynamic cache that nobody in this process watches
			r = "err:CacheNotStarted"
		} else if err != nil {
			r = "err"
		} else if res.Requeue || res.RequeueAfter > 0 {
			r = "requeue"
		}
		return "R " + r + " | " + verifphase.EventsStr(managedOnly(log)) + " | " + y.setEventsStr(log, false) + " | " + y.setEventsStr(log, true)
	case "env":
		for _, e := range st.Env {
			verifphase.ApplyEnv(y.env, e)
		}
		return "-"
	case "lifecycle":
		y.applySetEnv(SetEnv{Op: "lifecycle", Set: st.Set, Value: st.Value})
		return "-"
	case "touch":
		y.applySetEnv(SetEnv{Op: "touch", Set: st.Set})
		return "-"
	case "delete":
		if st.Orphan {
			y.env.Store.Mutate(y.setKey(st.Set), func(u *unstructured.Unstructured) {
				for _, f := range u.GetFinalizers() {
					if f == "orphan" {
						return
					}
				}
				u.SetFinalizers(append(u.GetFinalizers(), "orphan"))
			})
		}
		y.env.Store.Remove(y.setKey(st.Set))
		return "-"
	case "editPayload":
		y.env.Store.Mutate(y.setKey(st.Set), func(u *unstructured.Unstructured) {
			phases, _, _ := unstructured.NestedSlice(u.Object, "spec", "phases")
			if st.Phase < len(phases) {
				ph := phases[st.Phase].(map[string]interface{})
				objs, _ := ph["objects"].([]interface{})
				if st.Obj < len(objs) {
					o := objs[st.Obj].(map[string]interface{})
					_ = unstructured.SetNestedField(o, st.Value, "object", "spec", "v")
					_ = unstructured.SetNestedSlice(u.Object, phases, "spec", "phases")
				}
			}
		})
		return "-"
	case "restart": // the operator process is replaced (crash between passes, upgrade, eviction)
		y.startProcess()
		return "-"
	case "delSlice": // a third party (garbage collector, user) deletes an ObjectSlice
		y.env.Store.Remove(y.sliceKey(st.Set))
		return "-"
	case "delPhase": // (S1B) a third party deletes an ObjectSetPhase / ClusterObjectSetPhase object
		y.deletePhaseObject(st)
		return "-"
	case "gcPhase": // (S1B) the garbage collector finishes an orphan deletion of a phase object
		y.gcPhaseObject(st.Set)
		return "-"
	case "namespace":
		// The scenario's Namespace as the controllers' client sees it from now on (only the
		// remote-phase teardown looks at it): "terminating" = in deletion, "gone" = the client
		// answers NotFound, anything else = there again.
		y.setNamespace(st.Value)
		return "-"
	case "rescope":
		// The API of a managed kind is removed / registered again with another scope while the
		// controllers keep running (CRD deleted and re-created): its objects are gone, the REST
		// mapper answers differently from now on.
		if st.Set != "NsThing" && st.Set != "ClThing" {
			return "BAD-STEP"
		}
		gk := schema.GroupKind{Group: verifphase.Group, Kind: st.Set}
		y.env.Store.DropKind(gk)
		switch st.Value {
		case "namespaced":
			y.env.Store.RegisterKind(gk, true)
		case "cluster":
			y.env.Store.RegisterKind(gk, false)
		default:
			y.env.Store.UnregisterKind(gk)
		}
		return "-"
	}
	return "BAD-STEP"
}

// setNamespace replaces the Namespace fixture (no uid / resourceVersion of the store's counters is used).
func (y *sys) setNamespace(state string) {
	nsObj := &unstructured.Unstructured{Object: map[string]interface{}{"apiVersion": "v1", "kind": "Namespace"}}
	nsObj.SetName(NS)
	y.env.Store.PutQuiet(nsObj)
	switch state {
	case "terminating":
		t := metav1.NewTime(time.Date(2020, 1, 1, 0, 0, 0, 0, time.UTC))
		nsObj.SetDeletionTimestamp(&t)
		nsObj.SetFinalizers([]string{"kubernetes"})
		y.env.Store.PutQuiet(nsObj)
	case "gone":
		y.env.Store.Remove(verifstore.Key{Group: "", Kind: "Namespace", Name: NS})
	}
}

// ---- (S1B) third-party operations on phase objects

func (y *sys) phaseKey(name string) verifstore.Key {
	return verifstore.Key{Group: verifphase.PkoGroup, Kind: y.setKind() + "Phase", Namespace: y.ns(), Name: name}
}

func hasFinalizer(u *unstructured.Unstructured, fin string) bool {
	for _, f := range u.GetFinalizers() {
		if f == fin {
			return true
		}
	}
	return false
}

// deletePhaseObject is a delete request of a third party (kubectl, a cleanup job, the namespace
// controller) on a phase object.  Orphan propagation makes the API server add the "orphan"
// finalizer.  Value "force" strips every finalizer first, so that the object is gone at once
// without the phase controller having a say; the garbage collector then finds dangling owner
// references: it removes them and deletes the dependents that have no owner left.
func (y *sys) deletePhaseObject(st Step) {
	k := y.phaseKey(st.Set)
	if st.Value == "force" {
		ph := y.env.Store.Peek(k)
		if ph == nil {
			return
		}
		y.env.Store.Mutate(k, func(u *unstructured.Unstructured) { u.SetFinalizers(nil) })
		y.env.Store.Remove(k) // (already gone if it was in deletion)
		y.gcDependents(ph.GetUID(), true)
		return
	}
	if st.Orphan {
		y.env.Store.Mutate(k, func(u *unstructured.Unstructured) {
			if !hasFinalizer(u, "orphan") {
				u.SetFinalizers(append(u.GetFinalizers(), "orphan"))
			}
		})
	}
	y.env.Store.Remove(k)
}

// gcDependents: every managed object (in key order) referring to the owner `uid` loses that
// owner reference; with deleteUnowned a dependent left without any owner is deleted.
func (y *sys) gcDependents(uid types.UID, deleteUnowned bool) {
	for _, u := range y.env.Store.Snapshot() {
		if u.GroupVersionKind().Group != verifphase.Group {
			continue
		}
		var keep []metav1.OwnerReference
		for _, r := range u.GetOwnerReferences() {
			if r.UID != uid {
				keep = append(keep, r)
			}
		}
		if len(keep) == len(u.GetOwnerReferences()) {
			continue
		}
		ok := verifstore.Key{Group: verifphase.Group, Kind: u.GetKind(), Namespace: u.GetNamespace(), Name: u.GetName()}
		y.env.Store.Mutate(ok, func(o *unstructured.Unstructured) { o.SetOwnerReferences(keep) })
		if deleteUnowned && len(keep) == 0 {
			y.env.Store.Remove(ok)
		}
	}
}

// gcPhaseObject plays the garbage collector for a phase object in orphan deletion: every
// dependent loses its owner reference to the phase object, then the "orphan" finalizer is
// released (the object disappears with its last finalizer).
func (y *sys) gcPhaseObject(name string) {
	k := y.phaseKey(name)
	ph := y.env.Store.Peek(k)
	if ph == nil || ph.GetDeletionTimestamp() == nil || !hasFinalizer(ph, "orphan") {
		return
	}
	y.gcDependents(ph.GetUID(), false)
	y.env.Store.Mutate(k, func(u *unstructured.Unstructured) {
		var keep []string
		for _, f := range u.GetFinalizers() {
			if f != "orphan" {
				keep = append(keep, f)
			}
		}
		u.SetFinalizers(keep)
	})
}

// finalStrs prints the ObjectSets / phase objects and the managed objects of the store.
func (y *sys) finalStrs() (string, string) {
	var objs, sets []string
	for _, u := range y.env.Store.Snapshot() {
		switch u.GroupVersionKind().Group {
		case verifphase.Group:
			objs = append(objs, verifphase.ObjStr(u))
		case verifphase.PkoGroup:
			if strings.HasSuffix(u.GetKind(), "ObjectSet") {
				sets = append(sets, y.setStr(u))
			} else if strings.HasSuffix(u.GetKind(), "ObjectSetPhase") {
				sets = append(sets, y.phaseStr(u))
			} else {
				sets = append(sets, u.GetKind()+"/"+u.GetName())
			}
		}
	}
	sort.Strings(objs)
	sort.Strings(sets)
	return strings.Join(sets, ";"), strings.Join(objs, ";")
}

// Exec runs a scenario and returns the canonical output line.
func Exec(scn Scn) string {
	y := newSys(scn)
	var outs []string
	for _, st := range scn.Steps {
		outs = append(outs, y.doStep(st))
	}
	sets, objs := y.finalStrs()
	return strings.Join(outs, " ## ") + " ## " + sets + " ## " + objs
}

var _ client.Object = (*corev1alpha1.ObjectSet)(nil)
