// Package verifsys is the controller-level ("system") correspondence harness: it wires the REAL
// ObjectSet / ObjectSetPhase / ObjectDeployment controllers, built by their exported
// constructors, onto verifstore and drives `Reconcile` in the order a scenario dictates
// (schedules are inputs).  Injected by overlay; mirrored by lean/Pko/Model/ObjectSet.lean and
// lean/Pko/Drv/SysCommon.lean.
package verifsys

import (
	"context"
	"fmt"
	"sort"
	"strings"

	"github.com/go-logr/logr"
	corev1 "k8s.io/api/core/v1"
	metav1 "k8s.io/apimachinery/pkg/apis/meta/v1"
	"k8s.io/apimachinery/pkg/apis/meta/v1/unstructured"
	"k8s.io/apimachinery/pkg/runtime"
	"k8s.io/apimachinery/pkg/runtime/schema"
	"k8s.io/apimachinery/pkg/types"
	ctrl "sigs.k8s.io/controller-runtime"
	"sigs.k8s.io/controller-runtime/pkg/client"

	corev1alpha1 "package-operator.run/apis/core/v1alpha1"
	"package-operator.run/internal/controllers/objectsetphases"
	"package-operator.run/internal/controllers/objectsets"
	"package-operator.run/internal/verifphase"
	"package-operator.run/internal/verifstore"
)

type PhaseSpec struct {
	Name    string            `json:"name"`
	Class   string            `json:"class"`
	Objects []verifphase.PObj `json:"objects"`
	Slices  []SliceSpec       `json:"slices,omitempty"` // C04 "slices" stream: ObjectSlices referenced by the phase
}

type SetSpec struct {
	Name      string      `json:"name"`
	Lifecycle string      `json:"lifecycle"` // "" (Active) | Paused | Archived
	Previous  []string    `json:"previous"`
	Phases    []PhaseSpec `json:"phases"`
	Revision  int64       `json:"revision"`
	FinCached bool        `json:"finCached"`
	PkgLabel  string      `json:"pkgLabel"`
}

type SetEnv struct {
	At    int    `json:"at"` // right before the n-th write on an ObjectSet / ObjectSetPhase in this step
	Op    string `json:"op"` // lifecycle | touch
	Set   string `json:"set"`
	Value string `json:"value"`
}

type Step struct {
	Op     string             `json:"op"` // reconcile | phase | env | lifecycle | delete | editPayload | restart | delSlice
	Set    string             `json:"set"`
	Value  string             `json:"value"`
	Orphan bool               `json:"orphan"`
	Phase  int                `json:"phase"`
	Obj    int                `json:"obj"`
	Env    []verifphase.EnvOp `json:"env"`    // op=env: applied now (At ignored); op=reconcile: before managed-object write At
	SetEnv []SetEnv           `json:"setEnv"` // op=reconcile only
	// C10 (convergence stream) only:
	Fault *Fault `json:"fault,omitempty"` // op=reconcile|phase: one API call of this pass fails
	Drift bool   `json:"drift,omitempty"` // a disturbance: the undisturbed reference run skips this step
}

// Fault makes the Call-th API call (0-based; reads, dry runs and writes all count) of a pass
// fail.  Mode "before": the call fails without effect; "after": a write takes effect but its
// response is lost; "crash": the process dies right before the call (every later call of the
// pass fails too, the dynamic cache is lost).  Budget = number of write requests of the pass that
// reach the API and take effect (filled in by the generator; the model truncates the pass there).
type Fault struct {
	Call   int    `json:"call"`
	Mode   string `json:"mode"`
	Budget int    `json:"budget"`
}

type Scn struct {
	Cluster bool              `json:"cluster"` // ClusterObjectSets instead of ObjectSets
	Sets    []SetSpec         `json:"sets"`
	Store   []verifphase.SObj `json:"store"`
	Steps   []Step            `json:"steps"`
	Rounds  int               `json:"rounds,omitempty"` // C10: settle rounds after the steps
}

const NS = "ns1"

func Scheme() *runtime.Scheme {
	s := runtime.NewScheme()
	if err := corev1alpha1.AddToScheme(s); err != nil {
		panic(err)
	}
	if err := corev1.AddToScheme(s); err != nil { // the remote-phase teardown looks at the Namespace
		panic(err)
	}
	return s
}

var errInjected = fmt.Errorf("injected API failure")

type sys struct {
	lastCalls []callInfo
	scn       Scn
	scheme    *runtime.Scheme
	env       *verifphase.Env
	os        *objectsets.GenericObjectSetController
	ph        *objectsetphases.GenericObjectSetPhaseController
}

func (y *sys) ns() string {
	if y.scn.Cluster {
		return ""
	}
	return NS
}

func (y *sys) setKind() string {
	if y.scn.Cluster {
		return "ClusterObjectSet"
	}
	return "ObjectSet"
}

func probes() []corev1alpha1.ObjectSetProbe {
	mk := func(kind string) corev1alpha1.ObjectSetProbe {
		return corev1alpha1.ObjectSetProbe{
			Selector: corev1alpha1.ProbeSelector{Kind: &corev1alpha1.PackageProbeKindSpec{Group: verifphase.Group, Kind: kind}},
			Probes:   []corev1alpha1.Probe{{Condition: &corev1alpha1.ProbeConditionSpec{Type: "Ready", Status: "True"}}},
		}
	}
	return []corev1alpha1.ObjectSetProbe{mk("NsThing"), mk("ClThing")}
}

func templatePhases(ps []PhaseSpec) []corev1alpha1.ObjectSetTemplatePhase {
	var out []corev1alpha1.ObjectSetTemplatePhase
	for _, p := range ps {
		tp := corev1alpha1.ObjectSetTemplatePhase{Name: p.Name, Class: p.Class}
		for _, o := range p.Objects {
			tp.Objects = append(tp.Objects, o.Build())
		}
		for _, sl := range p.Slices {
			tp.Slices = append(tp.Slices, sl.Name)
		}
		out = append(out, tp)
	}
	return out
}

func (y *sys) putSet(sp SetSpec) {
	if sp.Lifecycle == "" {
		sp.Lifecycle = "Active" // what the CRD default would store
	}
	spec := corev1alpha1.ObjectSetSpec{
		LifecycleState: corev1alpha1.ObjectSetLifecycleState(sp.Lifecycle),
		ObjectSetTemplateSpec: corev1alpha1.ObjectSetTemplateSpec{
			Phases: templatePhases(sp.Phases), AvailabilityProbes: probes(),
		},
	}
	for _, p := range sp.Previous {
		spec.Previous = append(spec.Previous, corev1alpha1.PreviousRevisionReference{Name: p})
	}
	om := metav1.ObjectMeta{Name: sp.Name, Namespace: y.ns()}
	if sp.PkgLabel != "" {
		om.Labels = map[string]string{verifphase.PkgLabel: sp.PkgLabel}
	}
	if sp.FinCached {
		om.Finalizers = []string{"package-operator.run/cached"}
	}
	var obj runtime.Object
	if y.scn.Cluster {
		obj = &corev1alpha1.ClusterObjectSet{ObjectMeta: om, Spec: corev1alpha1.ClusterObjectSetSpec{
			LifecycleState: spec.LifecycleState, Previous: spec.Previous, ObjectSetTemplateSpec: spec.ObjectSetTemplateSpec,
		}, Status: corev1alpha1.ClusterObjectSetStatus{Revision: sp.Revision}}
	} else {
		obj = &corev1alpha1.ObjectSet{ObjectMeta: om, Spec: spec, Status: corev1alpha1.ObjectSetStatus{Revision: sp.Revision}}
	}
	m, err := runtime.DefaultUnstructuredConverter.ToUnstructured(obj)
	if err != nil {
		panic(err)
	}
	u := &unstructured.Unstructured{Object: m}
	u.SetGroupVersionKind(corev1alpha1.GroupVersion.WithKind(y.setKind()))
	y.env.Store.Put(u)
}

func (y *sys) setKey(name string) verifstore.Key {
	return verifstore.Key{Group: verifphase.PkoGroup, Kind: y.setKind(), Namespace: y.ns(), Name: name}
}

func condStr(conds []interface{}) string {
	var out []string
	for _, c := range conds {
		m, ok := c.(map[string]interface{})
		if !ok {
			continue
		}
		og := int64(0)
		switch v := m["observedGeneration"].(type) {
		case int64:
			og = v
		case float64:
			og = int64(v)
		}
		s := fmt.Sprintf("%v=%v/%v/%d", m["type"], m["status"], m["reason"], og)
		if m["type"] == "Available" && m["reason"] == "ProbeFailure" {
			msg, _ := m["message"].(string)
			if strings.HasPrefix(msg, "Phase \"") { // ObjectSet level: the failing phase is named
				rest := msg[len("Phase \""):]
				if j := strings.Index(rest, "\""); j >= 0 {
					s += "/" + rest[:j]
				}
			}
		}
		out = append(out, s)
	}
	sort.Strings(out)
	return strings.Join(out, ",")
}

func controllerOfStr(refs []interface{}) string {
	var out []string
	for _, r := range refs {
		m, ok := r.(map[string]interface{})
		if !ok {
			continue
		}
		ns, _ := m["namespace"].(string)
		out = append(out, fmt.Sprintf("%v/%s/%v", m["kind"], ns, m["name"]))
	}
	return strings.Join(out, ",")
}

// remotePhasesStr prints status.remotePhases as name:uid, in the order of the status list.
func remotePhasesStr(body map[string]interface{}) string {
	st, _ := body["status"].(map[string]interface{})
	rps, _ := st["remotePhases"].([]interface{})
	var out []string
	for _, r := range rps {
		m, ok := r.(map[string]interface{})
		if !ok {
			continue
		}
		out = append(out, fmt.Sprintf("%v:%v", m["name"], m["uid"]))
	}
	return "rp=[" + strings.Join(out, ",") + "]"
}

func statusStr(body map[string]interface{}) string {
	st, _ := body["status"].(map[string]interface{})
	rev := int64(0)
	switch v := st["revision"].(type) {
	case int64:
		rev = v
	case float64:
		rev = int64(v)
	}
	conds, _ := st["conditions"].([]interface{})
	co, _ := st["controllerOf"].([]interface{})
	return fmt.Sprintf("rev=%d conds=[%s] co=[%s]", rev, condStr(conds), controllerOfStr(co))
}

func errOr(e, ok string) string {
	if e != "" {
		return "!" + e
	}
	return ok
}

// setEventsStr prints the writes on ObjectSets / ObjectSetPhases issued since log index `from`.
func (y *sys) setEventsStr(log []*verifstore.Request, phases bool) string {
	var out []string
	for _, r := range log {
		if r.DryRun || r.Key.Group != verifphase.PkoGroup || strings.HasSuffix(r.Key.Kind, "Phase") != phases {
			continue
		}
		switch r.Verb {
		case "merge":
			md, _ := r.Body["metadata"].(map[string]interface{})
			if fins, ok := md["finalizers"]; ok {
				add := "-"
				if l, ok := fins.([]interface{}); ok {
					for _, f := range l {
						if f == "package-operator.run/cached" {
							add = "+"
						}
					}
				}
				out = append(out, "F "+r.Key.Name+" "+add+" "+errOr(r.Err, "ok"))
			} else {
				out = append(out, "P "+r.Key.Kind+"/"+r.Key.Name+" "+errOr(r.Err, "ok"))
			}
		case "status":
			ev := "S " + r.Key.Name + " " + errOr(r.Err, "ok") + " " + statusStr(r.Body)
			if !phases { // ObjectSets report the phase objects they delegate to
				ev += " " + remotePhasesStr(r.Body)
			}
			out = append(out, ev)
		case "create":
			out = append(out, "C "+r.Key.Kind+"/"+r.Key.Name+" "+errOr(r.Err, "ok"))
		case "delete":
			out = append(out, "X "+r.Key.Kind+"/"+r.Key.Name+" "+errOr(r.Err, "ok"))
		case "update":
			out = append(out, "U "+r.Key.Kind+"/"+r.Key.Name+" "+errOr(r.Err, "ok"))
		default:
			out = append(out, strings.ToUpper(r.Verb)+" "+r.Key.Kind+"/"+r.Key.Name+" "+r.Err)
		}
	}
	return strings.Join(out, ";")
}

func managedOnly(log []*verifstore.Request) []*verifstore.Request {
	var out []*verifstore.Request
	for _, r := range log {
		if r.Key.Group == verifphase.Group {
			out = append(out, r)
		}
	}
	return out
}

func (y *sys) setStr(u *unstructured.Unstructured) string {
	fin := ""
	for _, f := range u.GetFinalizers() {
		switch f {
		case "package-operator.run/cached":
			fin += "c"
		case "orphan":
			fin += "o"
		default:
			fin += "?"
		}
	}
	d := "0"
	if u.GetDeletionTimestamp() != nil {
		d = "1"
	}
	life, _, _ := unstructured.NestedString(u.Object, "spec", "lifecycleState")
	if life == "" {
		life = "Active"
	}
	return fmt.Sprintf("%s{g=%d,d=%s,f=%s,life=%s,%s %s}", u.GetName(), u.GetGeneration(), d, fin, life, statusStr(u.Object), remotePhasesStr(u.Object))
}

func (y *sys) phaseStr(u *unstructured.Unstructured) string {
	fin := ""
	for _, f := range u.GetFinalizers() {
		if f == "package-operator.run/cached" {
			fin += "c"
		} else {
			fin += "?"
		}
	}
	d := "0"
	if u.GetDeletionTimestamp() != nil {
		d = "1"
	}
	paused, _, _ := unstructured.NestedBool(u.Object, "spec", "paused")
	p := "0"
	if paused {
		p = "1"
	}
	rev, _, _ := unstructured.NestedInt64(u.Object, "spec", "revision")
	st, _ := u.Object["status"].(map[string]interface{})
	conds, _ := st["conditions"].([]interface{})
	co, _ := st["controllerOf"].([]interface{})
	return fmt.Sprintf("%s{g=%d,d=%s,f=%s,paused=%s,rev=%d conds=[%s] co=[%s]}", u.GetName(), u.GetGeneration(), d, fin, p, rev, condStr(conds), controllerOfStr(co))
}

func (y *sys) applySetEnv(e SetEnv) {
	k := y.setKey(e.Set)
	switch e.Op {
	case "lifecycle":
		y.env.Store.Mutate(k, func(u *unstructured.Unstructured) {
			_ = unstructured.SetNestedField(u.Object, e.Value, "spec", "lifecycleState")
		})
	case "touch": // a spec edit that changes nothing the controller looks at (generation bump)
		y.env.Store.Mutate(k, func(u *unstructured.Unstructured) {
			v, _, _ := unstructured.NestedInt64(u.Object, "spec", "successDelaySeconds")
			_ = v
			ann, _, _ := unstructured.NestedString(u.Object, "spec", "verifTouch")
			_ = unstructured.SetNestedField(u.Object, ann+"x", "spec", "verifTouch")
		})
	}
}

// newSys builds the store, the cache and the REAL controllers for a scenario.
func newSys(scn Scn) *sys {
	scheme := Scheme()
	y := &sys{scn: scn, scheme: scheme, env: verifphase.NewEnv(scheme)}
	c := y.env.Store.Client()
	if scn.Cluster {
		y.os = objectsets.NewClusterObjectSetController(c, logr.Discard(), scheme, y.env.Cache, c, nil, y.env.Store.Mapper())
		y.ph = objectsetphases.NewSameClusterClusterObjectSetPhaseController(logr.Discard(), scheme, y.env.Cache, c, "default", c, y.env.Store.Mapper())
	} else {
		y.os = objectsets.NewObjectSetController(c, logr.Discard(), scheme, y.env.Cache, c, nil, y.env.Store.Mapper())
		y.ph = objectsetphases.NewSameClusterObjectSetPhaseController(logr.Discard(), scheme, y.env.Cache, c, "default", c, y.env.Store.Mapper())
	}
	y.env.Store.RegisterKind(schema.GroupKind{Group: "", Kind: "Namespace"}, false)
	for _, sp := range scn.Sets {
		y.putSet(sp)
	}
	for _, sp := range scn.Sets {
		y.putSlices(sp)
	}
	nsObj := &unstructured.Unstructured{Object: map[string]interface{}{"apiVersion": "v1", "kind": "Namespace"}}
	nsObj.SetName(NS)
	y.env.Store.PutQuiet(nsObj)
	for _, o := range scn.Store {
		y.env.Store.Put(o.BuildFor(y.ns()))
	}
	verdicts := map[string]string{}
	for _, sp := range scn.Sets {
		for _, ph := range sp.Phases {
			for _, p := range ph.Objects {
				verdicts[p.Kind+"/"+p.Name] = p.DryRun
			}
			for _, sl := range ph.Slices {
				for _, p := range sl.Objects {
					verdicts[p.Kind+"/"+p.Name] = p.DryRun
				}
			}
		}
	}
	y.env.Store.DryRunVerdict = func(u *unstructured.Unstructured) error {
		return verifphase.DryRunError(verdicts[u.GetKind()+"/"+u.GetName()], u)
	}
	return y
}

// callInfo describes one API call of a step (C10: injection points).
type callInfo struct {
	Write bool // non-dry-run mutating request
}

// doStep executes one schedule step and returns its output token.  If the step carries a fault
// (C10) the chosen API call fails; y.lastCalls lists the API calls the step issued.
func (y *sys) doStep(st Step) string {
	ctx := context.Background()
	from := len(y.env.Store.Log)
	switch st.Op {
	case "reconcile", "phase":
		mw, sw := 0, 0
		y.env.Store.BeforeWrite = func(r *verifstore.Request) {
			if r.Key.Group == verifphase.Group {
				for _, e := range st.Env {
					if e.At == mw {
						verifphase.ApplyEnv(y.env, e)
					}
				}
				mw++
			} else if strings.HasSuffix(r.Key.Kind, "ObjectSet") {
				// third-party edits of the ObjectSet are scheduled relative to writes on ObjectSets
				for _, e := range st.SetEnv {
					if e.At == sw {
						y.applySetEnv(e)
					}
				}
				sw++
			}
		}
		// --- fault injection (C10)
		base := y.env.Store.Calls
		y.lastCalls = nil
		hit, crashed := false, false
		y.env.Store.CallFault = func(idx int, r *verifstore.Request) verifstore.Fault {
			y.lastCalls = append(y.lastCalls, callInfo{Write: r != nil && !r.DryRun})
			if st.Fault == nil {
				return verifstore.Fault{}
			}
			if crashed {
				return verifstore.Fault{Before: errInjected}
			}
			if idx-base != st.Fault.Call {
				return verifstore.Fault{}
			}
			hit = true
			switch st.Fault.Mode {
			case "crash": // the process dies right before this call: nothing it would do afterwards happens
				crashed = true
				return verifstore.Fault{Before: errInjected}
			case "after": // the request takes effect, the response is lost
				if r != nil && !r.DryRun {
					return verifstore.Fault{After: errInjected}
				}
				return verifstore.Fault{Before: errInjected}
			default: // "before": the request fails without effect
				return verifstore.Fault{Before: errInjected}
			}
		}
		var res ctrl.Result
		var err error
		req := ctrl.Request{NamespacedName: types.NamespacedName{Namespace: y.ns(), Name: st.Set}}
		if st.Op == "reconcile" {
			res, err = y.os.Reconcile(ctx, req)
		} else {
			res, err = y.ph.Reconcile(ctx, req)
		}
		y.env.Store.BeforeWrite = nil
		y.env.Store.CallFault = nil
		log := y.env.Store.Log[from:]
		if hit {
			// a restart follows a crash: the dynamic cache is in-memory only
			if st.Fault.Mode == "crash" {
				y.env.Cache.Restart()
			}
			eff := 0
			for _, r := range log {
				if !r.DryRun && r.Err != "Injected" {
					eff++
				}
			}
			if eff != st.Fault.Budget {
				return fmt.Sprintf("R fault budget-mismatch effective-writes=%d", eff)
			}
			return "R fault"
		}
		r := "ok"
		if err != nil {
			r = "err"
		} else if res.Requeue || res.RequeueAfter > 0 {
			r = "requeue"
		}
		return "R " + r + " | " + verifphase.EventsStr(managedOnly(log)) + " | " + y.setEventsStr(log, false) + " | " + y.setEventsStr(log, true)
	case "env":
		for _, e := range st.Env {
			verifphase.ApplyEnv(y.env, e)
		}
		return "-"
	case "lifecycle":
		y.applySetEnv(SetEnv{Op: "lifecycle", Set: st.Set, Value: st.Value})
		return "-"
	case "touch":
		y.applySetEnv(SetEnv{Op: "touch", Set: st.Set})
		return "-"
	case "delete":
		if st.Orphan {
			y.env.Store.Mutate(y.setKey(st.Set), func(u *unstructured.Unstructured) {
				for _, f := range u.GetFinalizers() {
					if f == "orphan" {
						return
					}
				}
				u.SetFinalizers(append(u.GetFinalizers(), "orphan"))
			})
		}
		y.env.Store.Remove(y.setKey(st.Set))
		return "-"
	case "editPayload":
		y.env.Store.Mutate(y.setKey(st.Set), func(u *unstructured.Unstructured) {
			phases, _, _ := unstructured.NestedSlice(u.Object, "spec", "phases")
			if st.Phase < len(phases) {
				ph := phases[st.Phase].(map[string]interface{})
				objs, _ := ph["objects"].([]interface{})
				if st.Obj < len(objs) {
					o := objs[st.Obj].(map[string]interface{})
					_ = unstructured.SetNestedField(o, st.Value, "object", "spec", "v")
					_ = unstructured.SetNestedSlice(u.Object, phases, "spec", "phases")
				}
			}
		})
		return "-"
	case "restart":
		y.env.Cache.Restart()
		return "-"
	case "delSlice": // a third party (garbage collector, user) deletes an ObjectSlice
		y.env.Store.Remove(y.sliceKey(st.Set))
		return "-"
	}
	return "BAD-STEP"
}

// finalStrs prints the ObjectSets / phase objects and the managed objects of the store.
func (y *sys) finalStrs() (string, string) {
	var objs, sets []string
	for _, u := range y.env.Store.Snapshot() {
		switch u.GroupVersionKind().Group {
		case verifphase.Group:
			objs = append(objs, verifphase.ObjStr(u))
		case verifphase.PkoGroup:
			if strings.HasSuffix(u.GetKind(), "ObjectSet") {
				sets = append(sets, y.setStr(u))
			} else if strings.HasSuffix(u.GetKind(), "ObjectSetPhase") {
				sets = append(sets, y.phaseStr(u))
			} else {
				sets = append(sets, u.GetKind()+"/"+u.GetName())
			}
		}
	}
	sort.Strings(objs)
	sort.Strings(sets)
	return strings.Join(sets, ";"), strings.Join(objs, ";")
}

// Exec runs a scenario and returns the canonical output line.
func Exec(scn Scn) string {
	y := newSys(scn)
	var outs []string
	for _, st := range scn.Steps {
		outs = append(outs, y.doStep(st))
	}
	sets, objs := y.finalStrs()
	return strings.Join(outs, " ## ") + " ## " + sets + " ## " + objs
}

var _ client.Object = (*corev1alpha1.ObjectSet)(nil)
