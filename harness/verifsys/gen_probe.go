package verifsys

// Generators of the sys stream for what the availability probes look at and for what the
// Available=False/ProbeFailure condition says (property C03):
//
//   - manifests that carry a `.status` stanza of their own (a CR exported from a live cluster with
//     its status left in) — satisfying the probes, failing them, with / without observedGeneration.
//     The managed kinds have a status subresource: the API (verifstore) ignores the stanza on every
//     write to the main resource and answers with the STORED object, so the probes of a pass may only
//     ever see status that was observed on the cluster;
//   - phase names that occur inside the ProbeFailure message written for ANOTHER phase: names of
//     objects, kinds, the API group, the namespace, words of the probe output, prefixes of other
//     phase names — so that "which phase does the condition name" is decided by the condition alone,
//     not by an accident of the naming scheme p1, p2, p3;
//   - the first failing phase moving from pass to pass, forwards (an earlier phase becomes available)
//     and backwards (an earlier phase regresses), with no Available=True pass in between.
//
// Decorated perturbs a history of Random / Scripted / PhaseLoss (so everything those reach is reached
// here too); Gated builds histories around the gate itself.

import (
	"math/rand"
	"regexp"
	"strings"

	"package-operator.run/internal/verifphase"
)

// ManifestStatuses are the `.status` stanzas a manifest may carry (PObj.Status).
var ManifestStatuses = []string{"True", "True", "True", "True:1", "True:1", "False", "True:0", "True:2", "False:1"}

// ConfusableNames: phase names that occur in the ProbeFailure message of other phases
// (`Phase "<name>" failed: verif.io NsThing ns1/a: condition "Ready" == "True": …`).
// None contains a character the canonical trace uses as a separator.
var ConfusableNames = []string{
	"a", "b", "c", "d", "e", "f", // object names
	"ns1", "ns2", "Thing", "NsThing", "ClThing", "verif", "verif.io", "io", "s", // group / kind / namespace
	"p", "p1", "p2", "p12", "p21", "1", "2", // (prefixes of) other phase names
	"Phase", "failed", "condition", "Ready", "True", "status", "conditions", "missing", // words of the message
}

// phaseObjectSteps are the step kinds whose Set names a phase OBJECT (<set>-<phase>).
var phaseObjectSteps = map[string]bool{"phase": true, "delPhase": true, "gcPhase": true}

// renamePhases gives every phase name of the scenario (consistently across revisions, in the order
// of first appearance) a distinct name drawn from ConfusableNames and rewrites the steps that
// address phase objects.
func renamePhases(r *rand.Rand, s *Scn) {
	var order []string
	seen := map[string]bool{}
	for _, sp := range s.Sets {
		for _, ph := range sp.Phases {
			if !seen[ph.Name] {
				seen[ph.Name] = true
				order = append(order, ph.Name)
			}
		}
	}
	pool := append([]string(nil), ConfusableNames...)
	r.Shuffle(len(pool), func(i, j int) { pool[i], pool[j] = pool[j], pool[i] })
	ren := map[string]string{}
	for i, n := range order {
		ren[n] = pool[i%len(pool)]
	}
	objRen := map[string]string{}
	for i := range s.Sets {
		for j := range s.Sets[i].Phases {
			old := s.Sets[i].Phases[j].Name
			objRen[s.Sets[i].Name+"-"+old] = s.Sets[i].Name + "-" + ren[old]
			s.Sets[i].Phases[j].Name = ren[old]
		}
	}
	for i := range s.Steps {
		if phaseObjectSteps[s.Steps[i].Op] {
			if n, ok := objRen[s.Steps[i].Set]; ok {
				s.Steps[i].Set = n
			}
		}
	}
}

// manifestStatuses puts a `.status` stanza into about half of the manifests.
func manifestStatuses(r *rand.Rand, s *Scn) {
	for i := range s.Sets {
		for j := range s.Sets[i].Phases {
			for k := range s.Sets[i].Phases[j].Objects {
				if r.Intn(2) == 0 {
					s.Sets[i].Phases[j].Objects[k].Status = pick(r, ManifestStatuses)
				}
				if r.Intn(4) == 0 { // ... and PKO's own revision annotation / cache label, stale
					s.Sets[i].Phases[j].Objects[k].MAnn = pick(r, []string{"0", "1", "1", "2", "7"})
				}
			}
		}
	}
}

// Decorated: a history of Random / Scripted / PhaseLoss whose manifests carry `.status` stanzas
// and / or whose phases are named confusably.
func Decorated(r *rand.Rand) Scn {
	var s Scn
	switch r.Intn(6) {
	case 0:
		s = Random(r, r.Intn(2) == 0)
	case 1:
		s = PhaseLoss(r)
	default:
		s = Scripted(r, r.Intn(3) == 0)
	}
	switch r.Intn(3) {
	case 0:
		manifestStatuses(r, &s)
	case 1:
		renamePhases(r, &s)
	default:
		manifestStatuses(r, &s)
		renamePhases(r, &s)
	}
	return s
}

// Gated builds histories around the gate between phases: one revision (sometimes followed by a
// second one) with 2-4 phases of 1-2 objects, most objects existing already under the control of
// the revision in arbitrary readiness states; then reconciles interleaved with the workload
// controllers' status changes (becoming ready, regressing, stale observedGeneration), deletions and
// re-creations, so that the first failing phase moves forwards and backwards from pass to pass.
// Phase names are confusable, manifests carry `.status` stanzas.
func Gated(r *rand.Rand) Scn {
	s := Scn{Cluster: r.Intn(6) == 0}
	objNS := ""
	if s.Cluster {
		objNS = "ns1"
	}
	nph := 2 + r.Intn(3)
	var phaseNames []string
	if r.Intn(5) == 0 {
		phaseNames = []string{"p1", "p2", "p3", "p4"}
	} else {
		phaseNames = append([]string(nil), ConfusableNames...)
		r.Shuffle(len(phaseNames), func(i, j int) { phaseNames[i], phaseNames[j] = phaseNames[j], phaseNames[i] })
	}
	objNames := []string{"a", "b", "c", "d", "e", "f"}
	os1 := SetSpec{Name: "os1"}
	used := 0
	for i := 0; i < nph; i++ {
		ph := PhaseSpec{Name: phaseNames[i]}
		if r.Intn(6) == 0 {
			ph.Class = "default"
		}
		for k := 1 + r.Intn(2); k > 0 && used < len(objNames); k-- {
			po := verifphase.PObj{Kind: "NsThing", NS: objNS, Name: objNames[used], CP: "Prevent", Payload: "x", DryRun: "accept"}
			used++
			if r.Intn(3) == 0 {
				po.Status = pick(r, ManifestStatuses)
			}
			ph.Objects = append(ph.Objects, po)
		}
		os1.Phases = append(os1.Phases, ph)
	}
	s.Sets = []SetSpec{os1}
	if r.Intn(5) == 0 { // a second revision taking the objects over, some manifests changed
		os2 := SetSpec{Name: "os2", Previous: []string{"os1"}}
		for _, ph := range os1.Phases {
			np := PhaseSpec{Name: ph.Name, Class: ph.Class}
			for _, o := range ph.Objects {
				if r.Intn(3) == 0 {
					o.Payload = "y"
				}
				if r.Intn(3) == 0 {
					o.Status = pick(r, append([]string{""}, ManifestStatuses...))
				}
				np.Objects = append(np.Objects, o)
			}
			os2.Phases = append(os2.Phases, np)
		}
		s.Sets = append(s.Sets, os2)
	}
	// objects that exist already: rolled out by os1 earlier
	var locals []verifphase.PObj
	for _, ph := range os1.Phases {
		for _, o := range ph.Objects {
			if ph.Class == "" {
				locals = append(locals, o)
			}
			if ph.Class != "" || r.Intn(3) == 0 {
				continue // absent (objects of a delegated phase belong to the phase object)
			}
			so := verifphase.SObj{Kind: o.Kind, NS: "ns1", Name: o.Name, Cache: r.Intn(8) != 0, Payload: pick(r, []string{"x", "x", "x", "drift"}),
				Owners: []verifphase.Ref{s.setRef(0, true)}, Rev: "1", Ready: r.Intn(3) != 0, ObsGen: -1}
			if r.Intn(5) == 0 {
				so.ObsGen = int64(r.Intn(3))
			}
			s.Store = append(s.Store, so)
		}
	}
	if len(s.Store) > 0 || r.Intn(2) == 0 {
		s.Sets[0].Revision, s.Sets[0].FinCached = 1, true
	}
	var phaseObjs []string
	for _, sp := range s.Sets {
		for _, ph := range sp.Phases {
			if ph.Class != "" {
				phaseObjs = append(phaseObjs, sp.Name+"-"+ph.Name)
			}
		}
	}
	all := append([]verifphase.PObj(nil), locals...)
	for _, ph := range os1.Phases {
		if ph.Class != "" {
			all = append(all, ph.Objects...)
		}
	}
	statusChange := func() verifphase.EnvOp {
		o := pick(r, all)
		e := verifphase.EnvOp{Op: "setReady", Kind: o.Kind, NS: "ns1", Name: o.Name, Ready: r.Intn(5) < 3, ObsGen: -1}
		if r.Intn(6) == 0 {
			e.ObsGen = int64(r.Intn(3))
		}
		return e
	}
	set := "os1"
	nsteps := 6 + r.Intn(9)
	for i := 0; i < nsteps; i++ {
		if len(s.Sets) > 1 && i == nsteps/2 {
			set = "os2"
		}
		switch x := r.Intn(20); {
		case x < 9:
			st := Step{Op: "reconcile", Set: set}
			if r.Intn(10) == 0 { // the workload controller reports while the pass is running
				e := statusChange()
				e.At = r.Intn(3)
				st.Env = []verifphase.EnvOp{e}
			}
			s.Steps = append(s.Steps, st)
		case x < 16:
			st := Step{Op: "env", Env: []verifphase.EnvOp{statusChange()}}
			if r.Intn(4) == 0 {
				st.Env = append(st.Env, statusChange())
			}
			s.Steps = append(s.Steps, st)
		case x < 17:
			o := pick(r, all)
			s.Steps = append(s.Steps, Step{Op: "env", Env: []verifphase.EnvOp{{Op: pick(r, []string{"delete", "recreate"}), Kind: o.Kind, NS: "ns1", Name: o.Name, ObsGen: -1}}})
		case x < 18:
			s.Steps = append(s.Steps, Step{Op: "lifecycle", Set: set, Value: pick(r, []string{"Paused", "Active", "Active"})})
		default:
			if len(phaseObjs) > 0 {
				s.Steps = append(s.Steps, Step{Op: "phase", Set: pick(r, phaseObjs)})
			} else {
				s.Steps = append(s.Steps, Step{Op: "reconcile", Set: set})
			}
		}
		if len(phaseObjs) > 0 && r.Intn(3) == 0 {
			s.Steps = append(s.Steps, Step{Op: "phase", Set: pick(r, phaseObjs)})
		}
	}
	return s
}

var namedRe = regexp.MustCompile(`S (\S+) ok rev=\d+ conds=\[([^\]]*)\]`)

// ProbeTags: input-distribution tags of the generators above.
func ProbeTags(s Scn, out string) []string {
	var t []string
	seen := map[string]bool{}
	add := func(x string) {
		if !seen[x] {
			seen[x] = true
			t = append(t, x)
		}
	}
	defaultName := regexp.MustCompile(`^p\d$`)
	for _, sp := range s.Sets {
		for _, ph := range sp.Phases {
			if !defaultName.MatchString(ph.Name) {
				add("confusable-phase-names")
			}
			for _, o := range ph.Objects {
				if o.Status != "" {
					add("manifest-status")
					if strings.HasPrefix(o.Status, "True") {
						add("manifest-status-ready")
					}
				}
			}
		}
	}
	// the phase named by ProbeFailure moves between two consecutive status updates of an ObjectSet
	last := map[string]string{}
	idx := map[string]int{}
	for _, sp := range s.Sets {
		for i, ph := range sp.Phases {
			idx[sp.Name+"/"+ph.Name] = i
		}
	}
	for _, m := range namedRe.FindAllStringSubmatch(out, -1) {
		name, conds := m[1], m[2]
		named := ""
		for _, c := range strings.Split(conds, ",") {
			if strings.HasPrefix(c, "Available=False/ProbeFailure/") {
				if parts := strings.SplitN(c, "/", 4); len(parts) == 4 {
					named = parts[3]
				}
			}
		}
		if prev, ok := last[name]; ok && prev != "" && named != "" && prev != named {
			if idx[name+"/"+named] > idx[name+"/"+prev] {
				add("named-phase-moves-forward")
			} else {
				add("named-phase-moves-back")
			}
		}
		last[name] = named
	}
	return t
}
