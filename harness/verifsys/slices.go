package verifsys

// Sliced ObjectSets (property C04, stream "slices"): ObjectSets whose phases keep (part of) their
// objects in ObjectSlices, torn down (archived / deleted) while third parties delete slices at
// arbitrary points of the schedule.

import (
	"fmt"
	"math/rand"
	"strings"

	metav1 "k8s.io/apimachinery/pkg/apis/meta/v1"
	"k8s.io/apimachinery/pkg/apis/meta/v1/unstructured"
	"k8s.io/apimachinery/pkg/runtime"
	"sigs.k8s.io/controller-runtime/pkg/client"
	"sigs.k8s.io/controller-runtime/pkg/controller/controllerutil"

	corev1alpha1 "package-operator.run/apis/core/v1alpha1"
	"package-operator.run/internal/verifphase"
	"package-operator.run/internal/verifstore"
)

// SliceSpec is one (Cluster)ObjectSlice referenced by a phase.
type SliceSpec struct {
	Name    string            `json:"name"`
	Objects []verifphase.PObj `json:"objects"`
}

func (y *sys) sliceKind() string {
	if y.scn.Cluster {
		return "ClusterObjectSlice"
	}
	return "ObjectSlice"
}

func (y *sys) sliceKey(name string) verifstore.Key {
	return verifstore.Key{Group: verifphase.PkoGroup, Kind: y.sliceKind(), Namespace: y.ns(), Name: name}
}

// putSlices stores the ObjectSlices of an ObjectSet, already listing the ObjectSet as owner (as the
// slice loader leaves them after the first rollout pass).  They are fixtures: no uid /
// resourceVersion numbers are consumed.
func (y *sys) putSlices(sp SetSpec) {
	owner := y.env.Store.Peek(y.setKey(sp.Name))
	for _, ph := range sp.Phases {
		for _, sl := range ph.Slices {
			var objs []corev1alpha1.ObjectSetObject
			for _, o := range sl.Objects {
				objs = append(objs, o.Build())
			}
			om := metav1.ObjectMeta{Name: sl.Name, Namespace: y.ns()}
			var obj client.Object
			if y.scn.Cluster {
				obj = &corev1alpha1.ClusterObjectSlice{ObjectMeta: om, Objects: objs}
			} else {
				obj = &corev1alpha1.ObjectSlice{ObjectMeta: om, Objects: objs}
			}
			if owner != nil {
				if err := controllerutil.SetOwnerReference(owner, obj, y.scheme); err != nil {
					panic(err)
				}
			}
			m, err := runtime.DefaultUnstructuredConverter.ToUnstructured(obj)
			if err != nil {
				panic(err)
			}
			u := &unstructured.Unstructured{Object: m}
			u.SetGroupVersionKind(corev1alpha1.GroupVersion.WithKind(y.sliceKind()))
			y.env.Store.PutQuiet(u)
		}
	}
}

// Sliced builds one rolled-out (Cluster)ObjectSet with 2-3 local phases holding their objects
// inline and / or in 1-2 ObjectSlices each, the objects mostly present and controlled by the
// ObjectSet, and a schedule: (optionally a pass while active,) archival or deletion, then
// reconciles interleaved with third parties deleting slices and touching objects.
func Sliced(r *rand.Rand) Scn {
	s := Scn{Cluster: r.Intn(5) == 0}
	objNS := ""
	if s.Cluster {
		objNS = "ns1"
	}
	names := []string{"a", "b", "c", "d", "e", "f", "g", "h", "i", "j", "k", "l", "m", "n", "o", "p"} // >= 3 phases x (1 + 2x2)
	used := 0
	mk := func() verifphase.PObj {
		p := verifphase.PObj{Kind: "NsThing", NS: objNS, Name: names[used], CP: "Prevent", Payload: "x", DryRun: "accept"}
		used++
		return p
	}
	sp := SetSpec{Name: "os1", Revision: 1, FinCached: true}
	if r.Intn(3) == 0 {
		sp.Lifecycle = "Archived"
	}
	nph := 2 + r.Intn(2)
	var sliceNames []string
	for p := 0; p < nph; p++ {
		ph := PhaseSpec{Name: fmt.Sprintf("p%d", p+1)}
		if r.Intn(3) != 0 {
			ph.Objects = append(ph.Objects, mk())
		}
		nsl := r.Intn(3)
		if p == nph-1 && len(sliceNames) == 0 && nsl == 0 {
			nsl = 1
		}
		for k := 0; k < nsl; k++ {
			sl := SliceSpec{Name: fmt.Sprintf("os1-s%d", len(sliceNames)+1)}
			for n := 1 + r.Intn(2); n > 0; n-- {
				sl.Objects = append(sl.Objects, mk())
			}
			sliceNames = append(sliceNames, sl.Name)
			ph.Slices = append(ph.Slices, sl)
		}
		sp.Phases = append(sp.Phases, ph)
	}
	s.Sets = []SetSpec{sp}
	var all []verifphase.PObj
	for _, ph := range sp.Phases {
		all = append(all, ph.Objects...)
		for _, sl := range ph.Slices {
			all = append(all, sl.Objects...)
		}
	}
	for _, p := range all {
		so := verifphase.SObj{Kind: p.Kind, NS: "ns1", Name: p.Name, Cache: true, Payload: p.Payload, Ready: true, ObsGen: -1}
		switch x := r.Intn(12); {
		case x == 0: // never created / already gone
			continue
		case x == 1: // taken over by somebody else
			so.Owners = []verifphase.Ref{{Group: "apps", Kind: "Deployment", Name: "dep", UID: "u-dep", Ctrl: true}}
		default:
			so.Owners = []verifphase.Ref{s.setRef(0, true)}
			so.Rev = "1"
		}
		so.Finalizer = r.Intn(8) == 0
		s.Store = append(s.Store, so)
	}
	envOp := func() verifphase.EnvOp {
		p := pick(r, all)
		e := verifphase.EnvOp{Kind: p.Kind, NS: "ns1", Name: p.Name, ObsGen: -1}
		e.Op = pick(r, []string{"removeFinalizer", "removeFinalizer", "delete", "reown", "recreate", "setReady"})
		switch e.Op {
		case "reown":
			if r.Intn(2) == 0 {
				e.Owners = []verifphase.Ref{{Group: "apps", Kind: "Deployment", Name: "dep", UID: "u-dep", Ctrl: true}}
			} else {
				e.Owners = []verifphase.Ref{s.setRef(0, true)}
			}
		case "setReady":
			e.Ready = r.Intn(2) == 0
		}
		return e
	}
	delSlice := func() Step { return Step{Op: "delSlice", Set: pick(r, sliceNames)} }
	if sp.Lifecycle == "" {
		if r.Intn(8) == 0 {
			s.Steps = append(s.Steps, delSlice()) // a pass of the ACTIVE ObjectSet meets the missing slice
		}
		if r.Intn(2) == 0 {
			s.Steps = append(s.Steps, Step{Op: "reconcile", Set: "os1"})
		}
		if r.Intn(2) == 0 {
			s.Steps = append(s.Steps, Step{Op: "lifecycle", Set: "os1", Value: "Archived"})
		} else {
			s.Steps = append(s.Steps, Step{Op: "delete", Set: "os1", Orphan: r.Intn(6) == 0})
		}
	}
	for n := 3 + r.Intn(6); n > 0; n-- {
		switch x := r.Intn(20); {
		case x < 11:
			st := Step{Op: "reconcile", Set: "os1"}
			if r.Intn(8) == 0 {
				e := envOp()
				e.At = r.Intn(3)
				st.Env = []verifphase.EnvOp{e}
			}
			s.Steps = append(s.Steps, st)
		case x < 15:
			s.Steps = append(s.Steps, delSlice())
		case x < 18:
			s.Steps = append(s.Steps, Step{Op: "env", Env: []verifphase.EnvOp{envOp()}})
		case x < 19:
			s.Steps = append(s.Steps, Step{Op: "lifecycle", Set: "os1", Value: pick(r, []string{"Archived", "Active", "Paused"})})
		default:
			s.Steps = append(s.Steps, Step{Op: "restart"})
		}
	}
	return s
}

// SlicedTags adds the distribution facts of the "slices" stream to Tags.
func SlicedTags(s Scn, out string) []string {
	t := Tags(s, out)
	nsl, deleted := 0, map[string]bool{}
	for _, sp := range s.Sets {
		for _, ph := range sp.Phases {
			nsl += len(ph.Slices)
		}
	}
	t = append(t, fmt.Sprintf("slices=%d", nsl))
	toks := strings.Split(out, " ## ")
	for i, st := range s.Steps {
		if st.Op == "delSlice" {
			deleted[st.Set] = true
		}
		if st.Op == "reconcile" && len(deleted) > 0 && i < len(toks) {
			t = append(t, "pass-with-missing-slice")
			if strings.HasPrefix(toks[i], "R err |  |  | ") {
				t = append(t, "pass-aborted-untouched")
			}
		}
	}
	if len(deleted) == 0 {
		t = append(t, "no-slice-deleted")
	}
	seen := map[string]bool{}
	var u []string
	for _, x := range t {
		if !seen[x] {
			seen[x] = true
			u = append(u, x)
		}
	}
	return u
}
