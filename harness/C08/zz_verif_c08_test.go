package objectdeployments

// Correspondence harness for property C08 (a): "Rollouts never archive or delete what is still
// serving" — the ObjectDeployment controller's archival / history-pruning decision logic.
// Injected by `go test -overlay`.  Builds REAL adapters around real corev1alpha1.ObjectSet objects
// and calls the REAL archiveReconciler.Reconcile (via=arch) or the REAL objectSetReconciler.Reconcile
// of a controller built by NewObjectDeploymentController with the archive reconciler as its only
// sub-reconciler (via=ctrl; listing, sorting, current/previous split and pause propagation are the
// real code).  A recording in-memory client.Client captures the ordered writes.
// Revisions can be terminating (deletionTimestamp set by an earlier pruning round, finalizer held,
// still listed) in any position.  Multi-round histories (prune, revision still terminating, prune
// again, ...) are in zz_verif_c08_hist_test.go (stream "hist").
// The objects of a revision live inline in spec.phases[*].objects and/or in REAL (Cluster)ObjectSlice
// objects of the in-memory store that spec.phases[*].slices reference by name (what package-operator
// produces for packages > 1 MiB or with the EachObject chunking strategy); a referenced slice may be
// missing (Get returns NotFound).  Scenarios can be cluster-scoped (ClusterObjectDeployment /
// ClusterObjectSet / ClusterObjectSlice through NewClusterObjectDeploymentController).

import (
	"context"
	"encoding/json"
	"fmt"
	"math"
	"strconv"
	"strings"
	"testing"

	"github.com/go-logr/logr"
	apierrors "k8s.io/apimachinery/pkg/api/errors"
	metav1 "k8s.io/apimachinery/pkg/apis/meta/v1"
	"k8s.io/apimachinery/pkg/apis/meta/v1/unstructured"
	"k8s.io/apimachinery/pkg/runtime"
	"k8s.io/apimachinery/pkg/runtime/schema"
	"sigs.k8s.io/controller-runtime/pkg/client"

	corev1alpha1 "package-operator.run/apis/core/v1alpha1"
	"package-operator.run/internal/adapters"
	"package-operator.run/internal/verifkit"
)

type c08Rev struct {
	Rev int64  `json:"rev"`          // status.revision
	Av  bool   `json:"av"`           // Available=True
	Sp  bool   `json:"sp"`           // Paused=True
	Lc  string `json:"lc"`           // A | P | X  (spec.lifecycleState)
	Pbp bool   `json:"pbp"`          // paused-by-parent annotation
	Co  []int  `json:"co"`           // status.controllerOf keys; null = nil slice, [] = empty non-nil slice
	Obj []int  `json:"obj"`          // keys of the objects INLINE in spec.phases[*].objects
	Hm  bool   `json:"hm"`           // hash annotation equals the deployment's status.templateHash
	Dt  bool   `json:"dt"`           // deletionTimestamp set: deleted in an earlier round, teardown pending, still listed
	Sl  []int  `json:"sl,omitempty"` // keys of the objects that live in ObjectSlices referenced by spec.phases[*].slices
	Sm  bool   `json:"sm,omitempty"` // the phases also reference an ObjectSlice that does not exist
	// Shape of the Paused / Available status condition (optional; "" = the legacy rule of c08SetStatus:
	// True when sp / av, otherwise Unknown / False or absent by the parity of the index, observedGeneration 0).
	// Two characters: status T | F | U (Unknown; Paused: reason PartiallyPaused) | - (condition absent),
	// then observedGeneration c (current: equals metadata.generation) | s (stale).  The adapters read the
	// status only (IsStatusPaused / IsAvailable = status True, observedGeneration is not consulted), so
	// sp / av — what the model is given — are (status == T); c08Norm enforces that.
	Pc string `json:"pc,omitempty"`
	Ac string `json:"ac,omitempty"`
}

// c08CondShapes: every status value x observedGeneration current / stale, and the condition absent.
var c08CondShapes = []string{"Tc", "Ts", "Fc", "Fs", "Uc", "Us", "-c"}

// c08Cond builds the condition a shape code describes (nil: absent).
func c08Cond(typ, shape string, generation int64) *metav1.Condition {
	if len(shape) != 2 || shape[0] == '-' {
		return nil
	}
	c := metav1.Condition{Type: typ, Reason: "x"}
	switch shape[0] {
	case 'T':
		c.Status = metav1.ConditionTrue
	case 'F':
		c.Status = metav1.ConditionFalse
	default:
		c.Status = metav1.ConditionUnknown
		if typ == corev1alpha1.ObjectSetPaused {
			c.Reason = "PartiallyPaused"
		}
	}
	if shape[1] == 'c' {
		c.ObservedGeneration = generation
	} else {
		c.ObservedGeneration = generation - 1
	}
	return &c
}

type c08Scn struct {
	Via   string   `json:"via"` // arch | ctrl
	Revs  []c08Rev `json:"revs"`
	Cur   bool     `json:"cur"`          // arch: last element is currentObjectSet (else nil is passed)
	Odp   bool     `json:"odp"`          // ctrl: deployment spec.paused
	Limit *int32   `json:"limit"`        // spec.revisionHistoryLimit
	Fin   bool     `json:"fin"`          // ObjectSets carry a finalizer
	Cl    bool     `json:"cl,omitempty"` // cluster-scoped kinds (ClusterObjectDeployment / ClusterObjectSet / ClusterObjectSlice)
}

const (
	c08Hash   = "h"
	c08PbpAnn = "package-operator.run/paused-by-parent"
	c08NS     = "ns"
)

// c08Obj is the object with key k as it is written into an ObjectSet phase or an ObjectSlice: the
// namespace is left empty for even keys (defaulted to the ObjectSet's namespace by the reader).
func c08Obj(k int) corev1alpha1.ObjectSetObject {
	u := unstructured.Unstructured{}
	u.SetGroupVersionKind(schema.GroupVersionKind{Version: "v1", Kind: "ConfigMap"})
	u.SetName("k" + strconv.Itoa(k))
	if k%2 == 1 {
		u.SetNamespace(c08NS)
	}
	return corev1alpha1.ObjectSetObject{Object: u}
}

// c08ObjectSet builds the ObjectSet of revision i and the ObjectSlice objects its phases reference.
// The store keeps both as namespaced kinds; a cluster-scoped scenario (ns == "") is served as
// ClusterObjectSet / ClusterObjectSlice by the client.
func c08ObjectSet(i int, r c08Rev, ns string) (*corev1alpha1.ObjectSet, []*corev1alpha1.ObjectSlice) {
	os := &corev1alpha1.ObjectSet{}
	os.Name = "r" + strconv.Itoa(i)
	os.Namespace = ns
	os.Generation = 1
	os.Status.Revision = r.Rev
	ann := map[string]string{}
	if r.Hm {
		ann[ObjectSetHashAnnotation] = c08Hash
	} else if i%2 == 0 {
		ann[ObjectSetHashAnnotation] = "other"
	}
	if r.Pbp {
		ann[c08PbpAnn] = "true"
	}
	if len(ann) > 0 {
		os.Annotations = ann
	}
	switch r.Lc {
	case "P":
		os.Spec.LifecycleState = corev1alpha1.ObjectSetLifecycleStatePaused
	case "X":
		os.Spec.LifecycleState = corev1alpha1.ObjectSetLifecycleStateArchived
	default:
		if i%2 == 0 {
			os.Spec.LifecycleState = corev1alpha1.ObjectSetLifecycleStateActive
		} // else: left empty, which is neither paused nor archived
	}
	c08SetStatus(os, i, r.Av, r.Sp, r.Co)
	c08SetCondShapes(os, r.Pc, r.Ac)
	// inline objects: first key in phase "a", the rest in phase "b"; namespace left empty for even
	// keys (getObjects defaults it to the ObjectSet's namespace).
	var phases []corev1alpha1.ObjectSetTemplatePhase
	phase := func(j int) *corev1alpha1.ObjectSetTemplatePhase {
		for len(phases) <= j {
			phases = append(phases, corev1alpha1.ObjectSetTemplatePhase{Name: []string{"a", "b"}[len(phases)]})
		}
		return &phases[j]
	}
	for j, k := range r.Obj {
		p := phase(min(j, 1))
		p.Objects = append(p.Objects, c08Obj(k))
	}
	// sliced objects: first key in ObjectSlice "<name>-s0" referenced by phase "a", the rest in
	// "<name>-s1" referenced by phase "b" (a phase may hold inline objects and slices, or slices only).
	var slices []*corev1alpha1.ObjectSlice
	for j, k := range r.Sl {
		j = min(j, 1)
		name := os.Name + "-s" + strconv.Itoa(j)
		p := phase(j)
		if len(p.Slices) == 0 || p.Slices[len(p.Slices)-1] != name {
			p.Slices = append(p.Slices, name)
			sl := &corev1alpha1.ObjectSlice{}
			sl.Name = name
			sl.Namespace = ns
			slices = append(slices, sl)
		}
		sl := slices[len(slices)-1]
		sl.Objects = append(sl.Objects, c08Obj(k))
	}
	if r.Sm {
		// a referenced ObjectSlice that does not exist: in front of the existing ones (even i) or
		// behind them (odd i)
		if i%2 == 0 {
			p := phase(0)
			p.Slices = append([]string{os.Name + "-sx"}, p.Slices...)
		} else {
			p := phase(max(len(phases)-1, 0))
			p.Slices = append(p.Slices, os.Name+"-sx")
		}
	}
	os.Spec.Phases = phases
	if r.Dt {
		// deleted by an earlier pruning round (or by anybody else); the teardown has not finished,
		// so the finalizer keeps the object around and it is still listed.
		ts := metav1.Unix(1, 0)
		os.DeletionTimestamp = &ts
		os.Finalizers = []string{"package-operator.run/cached"}
	}
	return os, slices
}

// c08RefNS: namespace of key k in a status.controllerOf entry of an ObjectSet living in ns.
func c08RefNS(k int, ns string) string {
	if k%2 == 1 {
		return c08NS
	}
	return ns
}

// c08SetStatus writes what the ObjectSet controller reports: Available / Paused conditions and
// status.controllerOf (the encodings of "false" vary with the parity of i).
func c08SetStatus(os *corev1alpha1.ObjectSet, i int, av, sp bool, co []int) {
	os.Status.Conditions = nil
	os.Status.ControllerOf = nil
	if av {
		os.Status.Conditions = append(os.Status.Conditions, metav1.Condition{
			Type: corev1alpha1.ObjectSetAvailable, Status: metav1.ConditionTrue, Reason: "x",
		})
	} else if i%2 == 0 {
		os.Status.Conditions = append(os.Status.Conditions, metav1.Condition{
			Type: corev1alpha1.ObjectSetAvailable, Status: metav1.ConditionFalse, Reason: "x",
		})
	}
	if sp {
		os.Status.Conditions = append(os.Status.Conditions, metav1.Condition{
			Type: corev1alpha1.ObjectSetPaused, Status: metav1.ConditionTrue, Reason: "x",
		})
	} else if i%2 == 1 {
		os.Status.Conditions = append(os.Status.Conditions, metav1.Condition{
			Type: corev1alpha1.ObjectSetPaused, Status: metav1.ConditionUnknown, Reason: "x",
		})
	}
	if co != nil {
		os.Status.ControllerOf = make([]corev1alpha1.ControlledObjectReference, 0, len(co))
		for _, k := range co {
			os.Status.ControllerOf = append(os.Status.ControllerOf, corev1alpha1.ControlledObjectReference{
				Kind: "ConfigMap", Group: "", Name: "k" + strconv.Itoa(k), Namespace: c08RefNS(k, os.Namespace),
			})
		}
	}
}

// c08SetCondShapes replaces the Paused / Available condition by the one the shape code describes.
func c08SetCondShapes(os *corev1alpha1.ObjectSet, pc, ac string) {
	set := func(typ, shape string) {
		if shape == "" {
			return
		}
		var out []metav1.Condition
		for _, c := range os.Status.Conditions {
			if c.Type != typ {
				out = append(out, c)
			}
		}
		if c := c08Cond(typ, shape, os.Generation); c != nil {
			out = append(out, *c)
		}
		os.Status.Conditions = out
	}
	set(corev1alpha1.ObjectSetAvailable, ac)
	set(corev1alpha1.ObjectSetPaused, pc)
}

// c08Client is a minimal recording client.Client.  Methods not overridden panic (nil embedded
// interface), which verifkit.Guard turns into a PANIC line.
type c08Client struct {
	client.Client
	fin     bool
	cluster bool                      // serve the store as cluster-scoped kinds
	items   []*corev1alpha1.ObjectSet // API listing order
	store   map[string]*corev1alpha1.ObjectSet
	gone    map[string]bool
	slices  map[string]*corev1alpha1.ObjectSlice // the ObjectSlice objects that exist, by name
	gets    int                                  // ObjectSlice reads
	log     []string
}

func c08NewClient(fin, cluster bool) *c08Client {
	return &c08Client{fin: fin, cluster: cluster, store: map[string]*corev1alpha1.ObjectSet{}, gone: map[string]bool{},
		slices: map[string]*corev1alpha1.ObjectSlice{}}
}

func (c *c08Client) ns() string {
	if c.cluster {
		return ""
	}
	return c08NS
}

// add puts a new ObjectSet and its ObjectSlices into the store.
func (c *c08Client) add(os *corev1alpha1.ObjectSet, slices []*corev1alpha1.ObjectSlice) {
	c.items = append(c.items, os)
	c.store[os.Name] = os
	for _, sl := range slices {
		c.slices[sl.Name] = sl
	}
}

func c08ToCluster(os *corev1alpha1.ObjectSet) *corev1alpha1.ClusterObjectSet {
	cp := os.DeepCopy()
	return &corev1alpha1.ClusterObjectSet{ObjectMeta: cp.ObjectMeta,
		Spec: corev1alpha1.ClusterObjectSetSpec(cp.Spec), Status: corev1alpha1.ClusterObjectSetStatus(cp.Status)}
}

func c08FromCluster(os *corev1alpha1.ClusterObjectSet) *corev1alpha1.ObjectSet {
	cp := os.DeepCopy()
	return &corev1alpha1.ObjectSet{ObjectMeta: cp.ObjectMeta,
		Spec: corev1alpha1.ObjectSetSpec(cp.Spec), Status: corev1alpha1.ObjectSetStatus(cp.Status)}
}

// Get serves (Cluster)ObjectSlice reads only: NotFound for a slice that does not exist, and for the
// kind / namespace that does not match the scope of the scenario.
func (c *c08Client) Get(_ context.Context, key client.ObjectKey, obj client.Object, _ ...client.GetOption) error {
	notFound := apierrors.NewNotFound(schema.GroupResource{Group: "package-operator.run", Resource: "objectslices"}, key.Name)
	sl, ok := c.slices[key.Name]
	switch o := obj.(type) {
	case *corev1alpha1.ObjectSlice:
		c.gets++
		if !ok || c.cluster || key.Namespace != c08NS {
			return notFound
		}
		sl.DeepCopyInto(o)
	case *corev1alpha1.ClusterObjectSlice:
		c.gets++
		if !ok || !c.cluster || key.Namespace != "" {
			return notFound
		}
		cp := sl.DeepCopy()
		*o = corev1alpha1.ClusterObjectSlice{ObjectMeta: cp.ObjectMeta, Objects: cp.Objects}
	default:
		panic(fmt.Sprintf("unexpected Get of %T", obj))
	}
	return nil
}

func c08Idx(name string) string { return strings.TrimPrefix(name, "r") }

func (c *c08Client) write(obj client.Object) error {
	os, ok := obj.(*corev1alpha1.ObjectSet)
	if cos, isCluster := obj.(*corev1alpha1.ClusterObjectSet); isCluster && c.cluster {
		os, ok = c08FromCluster(cos), true
	}
	if !ok || c.cluster != (os.Namespace == "") {
		c.log = append(c.log, "x"+obj.GetName())
		return nil
	}
	var tok string
	switch os.Spec.LifecycleState {
	case corev1alpha1.ObjectSetLifecycleStateArchived:
		tok = "a"
	case corev1alpha1.ObjectSetLifecycleStatePaused:
		tok = "p"
		if os.Annotations[c08PbpAnn] == "true" {
			tok = "pp"
		}
	default:
		tok = "u"
	}
	c.log = append(c.log, tok+c08Idx(os.Name))
	if _, known := c.store[os.Name]; !known || c.gone[os.Name] {
		return apierrors.NewNotFound(schema.GroupResource{Group: "package-operator.run", Resource: "objectsets"}, os.Name)
	}
	// metadata.deletionTimestamp / finalizers of a terminating object are not the writer's to change
	old := c.store[os.Name]
	cp := os.DeepCopy()
	cp.DeletionTimestamp = old.DeletionTimestamp
	if old.DeletionTimestamp != nil {
		cp.Finalizers = old.Finalizers
	}
	c.store[os.Name] = cp
	return nil
}

func (c *c08Client) Update(_ context.Context, obj client.Object, _ ...client.UpdateOption) error {
	return c.write(obj)
}

func (c *c08Client) Patch(_ context.Context, obj client.Object, _ client.Patch, _ ...client.PatchOption) error {
	return c.write(obj)
}

func (c *c08Client) Delete(_ context.Context, obj client.Object, _ ...client.DeleteOption) error {
	name := obj.GetName()
	c.log = append(c.log, "d"+c08Idx(name))
	st, known := c.store[name]
	if !known || c.gone[name] {
		return apierrors.NewNotFound(schema.GroupResource{Group: "package-operator.run", Resource: "objectsets"}, name)
	}
	if c.fin {
		if st.DeletionTimestamp == nil {
			now := metav1.Unix(1, 0)
			st.DeletionTimestamp = &now
		}
	} else {
		c.gone[name] = true
	}
	return nil
}

func (c *c08Client) List(_ context.Context, list client.ObjectList, _ ...client.ListOption) error {
	switch l := list.(type) {
	case *corev1alpha1.ObjectSetList:
		l.Items = l.Items[:0]
		for _, it := range c.items {
			if !c.gone[it.Name] && !c.cluster {
				l.Items = append(l.Items, *c.store[it.Name].DeepCopy())
			}
		}
	case *corev1alpha1.ClusterObjectSetList:
		l.Items = l.Items[:0]
		for _, it := range c.items {
			if !c.gone[it.Name] && c.cluster {
				l.Items = append(l.Items, *c08ToCluster(c.store[it.Name]))
			}
		}
	default:
		panic(fmt.Sprintf("unexpected list type %T", list))
	}
	return nil
}

// c08Controller: the REAL ObjectDeployment controller of the scenario's scope with the archive
// reconciler (as the constructor wires it) as the only sub-reconciler of its objectSetReconciler.
func c08Controller(c *c08Client) (*objectSetReconciler, *archiveReconciler) {
	var ctl *GenericObjectDeploymentController
	if c.cluster {
		ctl = NewClusterObjectDeploymentController(c, logr.Discard(), c08Scheme)
	} else {
		ctl = NewObjectDeploymentController(c, logr.Discard(), c08Scheme)
	}
	osr := ctl.reconciler[1].(*objectSetReconciler)
	ar := osr.reconcilers[1].(*archiveReconciler)
	osr.reconcilers = []objectSetSubReconciler{ar}
	return osr, ar
}

// c08Deployment: the (Cluster)ObjectDeployment the pass runs for.
func c08Deployment(c *c08Client, limit *int32, paused bool) adapters.ObjectDeploymentAccessor {
	if c.cluster {
		od := &adapters.ClusterObjectDeployment{}
		od.Name = "od"
		od.Generation = 1
		od.Spec.RevisionHistoryLimit = limit
		od.Spec.Paused = paused
		od.Status.TemplateHash = c08Hash
		return od
	}
	od := &adapters.ObjectDeployment{}
	od.Name = "od"
	od.Namespace = c08NS
	od.Generation = 1
	od.Spec.RevisionHistoryLimit = limit
	od.Spec.Paused = paused
	od.Status.TemplateHash = c08Hash
	return od
}

var c08Scheme = func() *runtime.Scheme {
	s := runtime.NewScheme()
	if err := corev1alpha1.AddToScheme(s); err != nil {
		panic(err)
	}
	return s
}()

func c08Exec(s c08Scn) string {
	c := c08NewClient(s.Fin, s.Cl)
	for i, r := range s.Revs {
		os, slices := c08ObjectSet(i, r, c.ns())
		if s.Fin || r.Dt {
			os.Finalizers = []string{"package-operator.run/cached"}
		}
		c.add(os, slices)
	}
	ctx := logr.NewContext(context.Background(), logr.Discard())
	od := c08Deployment(c, s.Limit, s.Odp)
	osr, ar := c08Controller(c)
	var err error
	switch s.Via {
	case "arch":
		// exactly the shapes objectset_reconciler.go l.56-70 passes: one backing array,
		// prev = objectSets[0:n-1], current = objectSets[n-1]
		n := len(s.Revs)
		objectSets := make([]adapters.ObjectSetAccessor, n)
		for i := range s.Revs {
			if c.cluster {
				objectSets[i] = &adapters.ClusterObjectSetAdapter{ClusterObjectSet: *c08ToCluster(c.items[i])}
			} else {
				objectSets[i] = &adapters.ObjectSetAdapter{ObjectSet: *c.items[i].DeepCopy()}
			}
		}
		var cur adapters.ObjectSetAccessor
		prev := objectSets
		if s.Cur && n > 0 {
			cur = objectSets[n-1]
			prev = objectSets[0 : n-1]
		}
		// the archive reconciler exactly as the controller's constructor wires it
		_, err = ar.Reconcile(ctx, cur, prev, od)
	case "ctrl":
		_, err = osr.Reconcile(ctx, od)
	default:
		return "BAD-VIA"
	}
	res := ";ok"
	if err != nil {
		res = ";err"
	}
	return strings.Join(c.log, ",") + res
}

func c08Tags(s c08Scn, out string) []string {
	tags := []string{"via=" + s.Via, fmt.Sprintf("len=%d", len(s.Revs))}
	switch {
	case s.Limit == nil:
		tags = append(tags, "limit=nil")
	case *s.Limit < 0:
		tags = append(tags, "limit<0")
	case *s.Limit == 0:
		tags = append(tags, "limit=0")
	case int(*s.Limit) < len(s.Revs)-1:
		tags = append(tags, "limit<prev")
	default:
		tags = append(tags, "limit>=prev")
	}
	sorted := true
	for i := 1; i < len(s.Revs); i++ {
		if s.Revs[i-1].Rev >= s.Revs[i].Rev {
			sorted = false
		}
	}
	if sorted {
		tags = append(tags, "strictly-ascending")
	} else {
		tags = append(tags, "unsorted-or-ties")
	}
	if !s.Fin {
		tags = append(tags, "nofinalizer")
	}
	for _, rv := range s.Revs {
		if rv.Dt {
			tags = append(tags, "terminating-listed")
			break
		}
	}
	sliced, missing := false, false
	for _, rv := range s.Revs {
		sliced = sliced || len(rv.Sl) > 0
		missing = missing || rv.Sm
	}
	if sliced {
		tags = append(tags, "objects-in-slices")
	}
	if missing {
		tags = append(tags, "slice-missing")
	}
	if s.Cl {
		tags = append(tags, "cluster-scoped")
	}
	body := strings.SplitN(out, ";", 2)[0]
	seen := map[string]bool{}
	if body == "" {
		tags = append(tags, "w=none")
	} else {
		for _, w := range strings.Split(body, ",") {
			k := "w=" + strings.TrimRight(w, "0123456789")
			if !seen[k] {
				seen[k] = true
				tags = append(tags, k)
			}
		}
	}
	if strings.HasSuffix(out, ";err") {
		tags = append(tags, "err")
	}
	if strings.HasPrefix(out, "PANIC") {
		tags = append(tags, "panic")
	}
	if len(s.Revs) == 0 || (s.Via == "arch" && !s.Cur) {
		tags = append(tags, "trivial")
	}
	return tags
}

func c08Norm(s *c08Scn) {
	if s.Revs == nil {
		s.Revs = []c08Rev{}
	}
	for i := range s.Revs {
		if s.Revs[i].Obj == nil {
			s.Revs[i].Obj = []int{}
		}
		// what the adapters read of a shaped condition
		if pc := s.Revs[i].Pc; pc != "" {
			s.Revs[i].Sp = pc[0] == 'T'
		}
		if ac := s.Revs[i].Ac; ac != "" {
			s.Revs[i].Av = ac[0] == 'T'
		}
	}
}

var c08Flags = func() [][3]interface{} {
	var out [][3]interface{}
	for _, lc := range []string{"A", "P", "X"} {
		for _, av := range []bool{false, true} {
			for _, sp := range []bool{false, true} {
				out = append(out, [3]interface{}{lc, av, sp})
			}
		}
	}
	return out
}()

func c08P(v int32) *int32 { return &v }

// c08Split moves a random subset of the keys (often all of them) into ObjectSlices.
func c08Split(intn func(int) int, keys []int) (inline, sliced []int) {
	inline = []int{}
	all := intn(2) == 0
	for _, k := range keys {
		if all || intn(2) == 0 {
			sliced = append(sliced, k)
		} else {
			inline = append(inline, k)
		}
	}
	return inline, sliced
}

// limits worth trying for n listed revisions
func c08Limits(n int) []*int32 {
	out := []*int32{nil, c08P(math.MinInt32), c08P(-1), c08P(math.MaxInt32)}
	for l := 0; l <= n; l++ {
		out = append(out, c08P(int32(l)))
	}
	return out
}

// controllerOf of revision i relative to the objects of revision i+1 ([ (i+1)%3 ]):
// 0 nil, 1 empty, 2 own key only (disjoint), 3 overlapping the next revision's objects
func c08Co(i, class int) []int {
	switch class {
	case 0:
		return nil
	case 1:
		return []int{}
	case 2:
		return []int{i % 3}
	default:
		return []int{i % 3, (i + 1) % 3}
	}
}

func TestVerifC08(t *testing.T) {
	r := verifkit.Open(t, "C08")
	defer r.Close()
	run := func(s c08Scn) string {
		c08Norm(&s)
		out := verifkit.Guard(func() string { return c08Exec(s) })
		r.Emit(s, out, c08Tags(s, out)...)
		return out
	}
	// runs s; when the pass both archives and deletes, also run it without finalizers
	runBoth := func(s c08Scn) {
		s.Fin = true
		out := run(s)
		if strings.Contains(out, "a") && strings.Contains(out, "d") {
			s.Fin = false
			run(s)
		}
	}
	for _, line := range r.Fixed() {
		var s c08Scn
		if err := json.Unmarshal([]byte(line), &s); err != nil {
			t.Fatalf("bad scenario %q: %v", line, err)
		}
		run(s)
	}
	if r.ReplayOnly() {
		return
	}

	// ---- 1. exhaustive, direct call: strictly ascending chains, every flag combination of every
	// revision, every controllerOf/objects relation of every adjacent pair.
	L := r.Pick(3, 4)
	count := 0
	cyc := 0
	for n := 1; n <= L; n++ {
		limits := c08Limits(n)
		nf := len(c08Flags)
		fl := make([]int, n)
		co := make([]int, n)
		var recCo func(i int)
		emit := func() {
			revs := make([]c08Rev, n)
			for i := 0; i < n; i++ {
				f := c08Flags[fl[i]]
				revs[i] = c08Rev{Rev: int64(i + 1), Lc: f[0].(string), Av: f[1].(bool), Sp: f[2].(bool),
					Obj: []int{i % 3}, Hm: i == n-1}
				if i < n-1 {
					revs[i].Co = c08Co(i, co[i])
				}
			}
			if n <= 3 {
				for _, l := range limits {
					runBoth(c08Scn{Via: "arch", Revs: revs, Cur: true, Limit: l})
					count++
				}
			} else {
				// length 4: the limit table is cycled through instead of crossed
				runBoth(c08Scn{Via: "arch", Revs: revs, Cur: true, Limit: limits[cyc%len(limits)]})
				cyc++
				count++
			}
		}
		recCo = func(i int) {
			if i >= n-1 {
				emit()
				return
			}
			for c := 0; c < 4; c++ {
				co[i] = c
				recCo(i + 1)
			}
		}
		var recFl func(i int)
		recFl = func(i int) {
			if i == n {
				recCo(0)
				return
			}
			for f := 0; f < nf; f++ {
				fl[i] = f
				recFl(i + 1)
			}
		}
		recFl(0)
	}
	r.Extra["exhaustive_arch_len"] = L
	r.Extra["exhaustive_arch_count"] = count

	// ---- 1b. terminating revisions (deletionTimestamp set, still listed) in ANY position: every
	// non-empty subset of positions of strictly ascending chains of length <= 4 (quick) / 5
	// (thorough) x a reduced flag table of every revision x every revisionHistoryLimit x
	// controllerOf empty / overlapping, through both entry points.
	{
		type fl struct {
			lc     string
			av, sp bool
		}
		red := []fl{{"X", false, true}, {"P", false, true}, {"A", true, false}, {"A", false, false}}
		LT := r.Pick(4, 5)
		count = 0
		cyc = 0
		for n := 1; n <= LT; n++ {
			limits := c08Limits(n)
			total := 1
			for i := 0; i < n; i++ {
				total *= len(red)
			}
			for a := 0; a < total; a++ {
				for mask := 1; mask < 1<<n; mask++ {
					for _, cls := range []int{1, 3} {
						revs := make([]c08Rev, n)
						x := a
						for i := 0; i < n; i++ {
							f := red[x%len(red)]
							x /= len(red)
							revs[i] = c08Rev{Rev: int64(i + 1), Lc: f.lc, Av: f.av, Sp: f.sp, Obj: []int{i % 3},
								Hm: i == n-1, Dt: mask&(1<<i) != 0}
							if i < n-1 {
								revs[i].Co = c08Co(i, cls)
							}
						}
						if n <= 4 {
							for _, l := range limits {
								via := "arch"
								if cyc%2 == 1 {
									via = "ctrl"
								}
								cyc++
								if n <= 3 {
									runBoth(c08Scn{Via: "arch", Revs: revs, Cur: true, Limit: l})
									runBoth(c08Scn{Via: "ctrl", Revs: revs, Limit: l})
									count += 2
								} else {
									runBoth(c08Scn{Via: via, Revs: revs, Cur: true, Limit: l})
									count++
								}
							}
						} else {
							via := "arch"
							if cyc%2 == 1 {
								via = "ctrl"
							}
							runBoth(c08Scn{Via: via, Revs: revs, Cur: true, Limit: limits[cyc%len(limits)]})
							cyc++
							count++
						}
					}
				}
			}
		}
		r.Extra["exhaustive_terminating_len"] = LT
		r.Extra["exhaustive_terminating_count"] = count
	}

	// ---- 1c. objects in ObjectSlices: strictly ascending chains of length 2..3, a 4-row flag table of
	// every revision x every controllerOf relation of every adjacent pair (nil / empty / disjoint /
	// overlapping the next revision's own key) x WHERE the objects of every revision live (inline /
	// in a slice / mixed with the shared key inline / mixed with the shared key in a slice / two
	// slices, each with and without a missing slice) x both entry points, namespaced and
	// cluster-scoped kinds.
	{
		type fl struct {
			lc     string
			av, sp bool
		}
		red := []fl{{"X", false, true}, {"P", false, true}, {"A", true, false}, {"A", false, false}}
		// placement of the objects of revision j (own key k = j%3, extra key 3+j)
		place := func(j, pl int) (obj, sl []int, sm bool) {
			k, x := j%3, 3+j
			sm = pl >= 5
			switch pl % 5 {
			case 0:
				obj = []int{k}
			case 1:
				sl = []int{k}
			case 2:
				obj, sl = []int{x}, []int{k}
			case 3:
				obj, sl = []int{k}, []int{x}
			default:
				sl = []int{x, k}
			}
			if obj == nil {
				obj = []int{}
			}
			return
		}
		count = 0
		cyc = 0
		limits := []*int32{nil, c08P(0), c08P(1)}
		for n := 2; n <= 3; n++ {
			// placements tried for the revisions 1..n-1 (those that are a "next newer" revision)
			pls := []int{0, 1, 2, 3, 4, 5, 6, 7, 8, 9}
			if n == 3 {
				pls = [][]int{{0, 1, 2, 6}, {0, 1, 2, 4, 6, 9}}[r.Pick(0, 1)]
			}
			total := 1
			for i := 0; i < n; i++ {
				total *= len(red)
			}
			npl := 2
			for i := 1; i < n; i++ {
				npl *= len(pls)
			}
			nco := 1
			for i := 0; i < n-1; i++ {
				nco *= 4
			}
			for a := 0; a < total; a++ {
				for cc := 0; cc < nco; cc++ {
					for pp := 0; pp < npl; pp++ {
						revs := make([]c08Rev, n)
						x, y, z := a, cc, pp
						for i := 0; i < n; i++ {
							f := red[x%len(red)]
							x /= len(red)
							revs[i] = c08Rev{Rev: int64(i + 1), Lc: f.lc, Av: f.av, Sp: f.sp, Hm: i == n-1}
							if i < n-1 {
								revs[i].Co = c08Co(i, y%4)
								y /= 4
							}
							if i == 0 {
								revs[i].Obj, revs[i].Sl, revs[i].Sm = place(i, z%2)
								z /= 2
							} else {
								revs[i].Obj, revs[i].Sl, revs[i].Sm = place(i, pls[z%len(pls)])
								z /= len(pls)
							}
						}
						// both entry points for every combination; limit and scope cycled on
						// counters that share no period with any dimension above; length 2: both scopes
						l := limits[cyc%len(limits)]
						for _, cl := range []bool{false, true} {
							if n > 2 && cl != ((cyc/3)%2 == 1) {
								continue
							}
							runBoth(c08Scn{Via: "arch", Revs: revs, Cur: true, Limit: l, Cl: cl})
							runBoth(c08Scn{Via: "ctrl", Revs: revs, Limit: l, Cl: cl})
							count += 2
						}
						cyc++
					}
				}
			}
		}
		r.Extra["exhaustive_sliced_count"] = count
	}

	// ---- 2. malformed direct calls: every assignment of revisions {0..n}^n (ties, unsorted, zero)
	// for n <= 3 with every flag combination; relations, limit and current drawn at random.
	count = 0
	for n := 1; n <= 3; n++ {
		total := 1
		for i := 0; i < n; i++ {
			total *= n + 1
		}
		for a := 0; a < total; a++ {
			fl := make([]int, n)
			var recFl func(i int)
			recFl = func(i int) {
				if i == n {
					revs := make([]c08Rev, n)
					x := a
					for j := 0; j < n; j++ {
						f := c08Flags[fl[j]]
						revs[j] = c08Rev{Rev: int64(x % (n + 1)), Lc: f[0].(string), Av: f[1].(bool), Sp: f[2].(bool),
							Obj: []int{j % 3}, Hm: r.Rng.Intn(2) == 0, Co: c08Co(j, r.Rng.Intn(4))}
						x /= n + 1
					}
					lim := c08Limits(n)
					runBoth(c08Scn{Via: "arch", Revs: revs, Cur: r.Rng.Intn(8) != 0, Limit: lim[r.Rng.Intn(len(lim))]})
					count++
					return
				}
				for f := 0; f < len(c08Flags); f++ {
					fl[i] = f
					recFl(i + 1)
				}
			}
			recFl(0)
		}
	}
	r.Extra["malformed_arch_count"] = count

	// ---- 3. exhaustive through the controller, n <= 2: lifecycle x annotation x conditions of
	// every revision, deployment paused or not, hash match of the newest, listing order, relations.
	count = 0
	type lcp struct {
		lc  string
		pbp bool
	}
	lcs := []lcp{{"A", false}, {"A", true}, {"P", false}, {"P", true}, {"X", false}}
	for n := 1; n <= 2; n++ {
		var per []c08Rev
		for _, l := range lcs {
			for _, av := range []bool{false, true} {
				for _, sp := range []bool{false, true} {
					per = append(per, c08Rev{Lc: l.lc, Pbp: l.pbp, Av: av, Sp: sp})
				}
			}
		}
		idx := make([]int, n)
		var rec func(i int)
		rec = func(i int) {
			if i == n {
				for _, odp := range []bool{false, true} {
					for _, hm := range []bool{false, true} {
						for cls := 0; cls < 4; cls++ {
							for _, desc := range []bool{false, true} {
								if n == 1 && (cls > 0 || desc) {
									continue
								}
								for _, l := range []*int32{nil, c08P(0), c08P(1), c08P(-1)} {
									revs := make([]c08Rev, n)
									for j := 0; j < n; j++ {
										revs[j] = per[idx[j]]
										revs[j].Rev = int64(j + 1)
										revs[j].Obj = []int{j % 3}
										revs[j].Hm = hm && j == n-1
										if j < n-1 {
											revs[j].Co = c08Co(j, cls)
										}
									}
									if desc {
										revs[0], revs[1] = revs[1], revs[0]
									}
									runBoth(c08Scn{Via: "ctrl", Revs: revs, Odp: odp, Limit: l})
									count++
								}
							}
						}
					}
				}
				return
			}
			for k := range per {
				idx[i] = k
				rec(i + 1)
			}
		}
		rec(0)
	}
	r.Extra["exhaustive_ctrl_count"] = count

	// ---- 3b. condition shapes: the Paused condition of the OUTGOING revision and the Available condition
	// of both revisions take every status value (True / False / Unknown-PartiallyPaused / absent) with
	// observedGeneration current or stale; two-revision chains, every lifecycle of the outgoing revision,
	// every controllerOf relation, both entry points, deployment paused or not.
	count = 0
	for _, lc := range []string{"A", "P", "X"} {
		for _, pc := range c08CondShapes {
			for _, ac := range c08CondShapes {
				for _, ac2 := range []string{"Tc", "Ts", "Fc", "Uc", "-c"} {
					for cls := 0; cls < 4; cls++ {
						for _, pbp := range []bool{false, true} {
							revs := []c08Rev{
								{Rev: 1, Lc: lc, Pbp: pbp, Pc: pc, Ac: ac, Obj: []int{0}, Co: c08Co(0, cls)},
								{Rev: 2, Lc: "A", Pc: "-c", Ac: ac2, Obj: []int{1}, Hm: true},
							}
							runBoth(c08Scn{Via: "arch", Revs: revs, Cur: true})
							runBoth(c08Scn{Via: "ctrl", Revs: revs})
							if pbp {
								runBoth(c08Scn{Via: "ctrl", Revs: revs, Odp: true})
							}
							count += 2
						}
					}
				}
			}
		}
	}
	r.Extra["exhaustive_condshape_count"] = count

	// ---- 4. random chains up to length 8 (both entry points), keys from a 3-key universe
	randKeys := func() []int {
		out := []int{}
		for k := 0; k < 3; k++ {
			if r.Rng.Intn(2) == 0 {
				out = append(out, k)
			}
		}
		return out
	}
	nrand := r.Pick(30000, 400000)
	for it := 0; it < nrand; it++ {
		n := 1 + r.Rng.Intn(8)
		s := c08Scn{Via: "arch", Cur: r.Rng.Intn(20) != 0, Fin: r.Rng.Intn(3) != 0}
		if r.Rng.Intn(2) == 0 {
			s.Via = "ctrl"
			s.Odp = r.Rng.Intn(6) == 0
		}
		shape := r.Rng.Intn(10) // 0: ties possible, 1: a zero revision may occur, else distinct
		perm := r.Rng.Perm(n)
		for i := 0; i < n; i++ {
			f := c08Flags[r.Rng.Intn(len(c08Flags))]
			rv := c08Rev{Rev: int64(i + 1), Lc: f[0].(string), Av: f[1].(bool), Sp: f[2].(bool),
				Obj: randKeys(), Hm: r.Rng.Intn(4) != 0, Pbp: r.Rng.Intn(5) == 0}
			// old revisions are mostly archived / paused, as in a real history
			if i < n-2 && r.Rng.Intn(2) == 0 {
				rv.Lc, rv.Sp, rv.Av = "X", true, false
			}
			switch r.Rng.Intn(4) {
			case 0:
				rv.Co = nil
			default:
				rv.Co = randKeys()
			}
			switch {
			case s.Via == "ctrl" || r.Rng.Intn(10) == 0:
				rv.Rev = int64(perm[i] + 1) // API listing order is arbitrary; direct: malformed
			}
			if shape == 0 && r.Rng.Intn(3) == 0 {
				rv.Rev = int64(1 + r.Rng.Intn(n))
			}
			if shape == 1 && r.Rng.Intn(n+1) == 0 {
				rv.Rev = 0
			}
			// pruned (or otherwise deleted) in an earlier round, teardown pending, still listed
			if s.Fin && r.Rng.Intn(5) == 0 {
				rv.Dt = true
			}
			// some or all of the objects live in ObjectSlices; now and then a slice is missing
			if r.Rng.Intn(3) == 0 {
				rv.Obj, rv.Sl = c08Split(r.Rng.Intn, rv.Obj)
				rv.Sm = r.Rng.Intn(8) == 0
			}
			// a third of the revisions: explicit condition shapes (every status value, current / stale generation)
			if r.Rng.Intn(3) == 0 {
				rv.Pc = c08CondShapes[r.Rng.Intn(len(c08CondShapes))]
				rv.Ac = c08CondShapes[r.Rng.Intn(len(c08CondShapes))]
				rv.Sp, rv.Av = rv.Pc[0] == 'T', rv.Ac[0] == 'T'
			}
			s.Revs = append(s.Revs, rv)
		}
		s.Cl = r.Rng.Intn(4) == 0
		lim := c08Limits(n)
		s.Limit = lim[r.Rng.Intn(len(lim))]
		run(s)
	}

	// ---- 5. long histories (11..14 revisions) so that the default limit of 10 prunes
	for it := 0; it < r.Pick(300, 3000); it++ {
		n := 11 + r.Rng.Intn(4)
		s := c08Scn{Via: []string{"arch", "ctrl"}[r.Rng.Intn(2)], Cur: true, Fin: r.Rng.Intn(2) == 0}
		for i := 0; i < n; i++ {
			f := c08Flags[r.Rng.Intn(len(c08Flags))]
			rv := c08Rev{Rev: int64(2*i + 1), Lc: f[0].(string), Av: f[1].(bool), Sp: f[2].(bool),
				Obj: randKeys(), Hm: true, Co: randKeys()}
			if i < n-2 && r.Rng.Intn(4) != 0 {
				rv.Lc, rv.Sp, rv.Av = "X", true, false
			}
			if s.Fin && i < n-1 && r.Rng.Intn(4) == 0 {
				rv.Dt = true
			}
			if r.Rng.Intn(4) == 0 {
				rv.Obj, rv.Sl = c08Split(r.Rng.Intn, rv.Obj)
			}
			s.Revs = append(s.Revs, rv)
		}
		if r.Rng.Intn(3) != 0 {
			s.Limit = nil
		} else {
			s.Limit = c08P(int32(r.Rng.Intn(n + 1)))
		}
		run(s)
	}
}
