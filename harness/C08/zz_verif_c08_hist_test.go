package objectdeployments

// Multi-round histories of one ObjectDeployment and its revisions (properties C08 and C09 at the
// ObjectDeployment level).  Injected by `go test -overlay`.
//
// A history is executed on real corev1alpha1.ObjectSet objects held by the recording in-memory
// client of zz_verif_c08_test.go.  Every "od" operation is one call of the REAL
// objectSetReconciler.Reconcile of a controller built by NewObjectDeploymentController (archive
// reconciler as its only sub-reconciler); its writes change the store the way an API server would
// (Delete of an ObjectSet carrying a finalizer only sets deletionTimestamp: the ObjectSet stays
// listed, terminating, until a "fin" operation finishes its teardown).  Everything else is the
// environment: roll-outs ("new"), status reports of the ObjectSet controllers ("st"), third
// parties editing spec.lifecycleState / the paused-by-parent annotation independently ("edit"),
// deleting revisions ("del"), pausing the deployment ("pause"), changing revisionHistoryLimit.
//
// A revision's objects live inline in its ObjectSet and/or in real ObjectSlice objects of the store
// that its phases reference ("sl" of a revision / a roll-out; "sm": a referenced slice is missing).
//
// The output line is what the harness OBSERVES: for every pass the ObjectSets in the store right
// before it (with the objects of the ObjectSlices they reference, read from the store), the ordered
// writes, the result, and the ObjectSets right after it.

import (
	"context"
	"encoding/json"
	"fmt"
	"strconv"
	"strings"
	"testing"

	"github.com/go-logr/logr"
	"k8s.io/apimachinery/pkg/api/meta"
	metav1 "k8s.io/apimachinery/pkg/apis/meta/v1"

	corev1alpha1 "package-operator.run/apis/core/v1alpha1"
	"package-operator.run/internal/adapters"
	"package-operator.run/internal/verifkit"
)

type c08Op struct {
	Op   string  `json:"op"` // od | new | st | edit | del | fin | pause | limit
	I    *int    `json:"i,omitempty"`
	Rev0 *bool   `json:"rev0,omitempty"`
	Av   *bool   `json:"av,omitempty"`
	Sp   *bool   `json:"sp,omitempty"`
	Pc   string  `json:"pc,omitempty"` // st: shape of the Paused condition (see c08Rev.Pc); sp = (status True)
	Ac   string  `json:"ac,omitempty"` // st: shape of the Available condition; av = (status True)
	Co   *[]int  `json:"co,omitempty"` // absent = nil slice
	Obj  *[]int  `json:"obj,omitempty"`
	Sl   *[]int  `json:"sl,omitempty"`  // new: keys of the objects that live in ObjectSlices
	Sm   *bool   `json:"sm,omitempty"`  // new: a referenced ObjectSlice does not exist
	Lc   *string `json:"lc,omitempty"`  // edit: absent = lifecycleState untouched
	Pbp  *bool   `json:"pbp,omitempty"` // edit: absent = annotation untouched
	B    *bool   `json:"b,omitempty"`
	L    *int32  `json:"l,omitempty"` // limit: absent = nil
}

type c08Hist struct {
	Fin   bool     `json:"fin"` // ObjectSets carry a finalizer
	Odp   bool     `json:"odp"`
	Limit *int32   `json:"limit"`
	Init  []c08Rev `json:"init"`
	Ops   []c08Op  `json:"ops"`
}

func c08B(p *bool) bool { return p != nil && *p }

func c08Keys(p *[]int) []int {
	if p == nil {
		return nil
	}
	if *p == nil {
		return []int{}
	}
	return *p
}

// c08Snap prints the ObjectSets in the store as the API lists them (creation order).
func c08Snap(c *c08Client, od *adapters.ObjectDeployment) string {
	var parts []string
	for _, it := range c.items {
		if c.gone[it.Name] {
			continue
		}
		os := c.store[it.Name]
		lc := "A"
		switch os.Spec.LifecycleState {
		case corev1alpha1.ObjectSetLifecycleStatePaused:
			lc = "P"
		case corev1alpha1.ObjectSetLifecycleStateArchived:
			lc = "X"
		}
		b := func(v bool) string {
			if v {
				return "1"
			}
			return "0"
		}
		hash, hasHash := os.Annotations[ObjectSetHashAnnotation]
		co := "-"
		if os.Status.ControllerOf != nil {
			ks := make([]string, 0, len(os.Status.ControllerOf))
			for _, r := range os.Status.ControllerOf {
				ks = append(ks, strings.TrimPrefix(r.Name, "k"))
			}
			co = strings.Join(ks, ".")
		}
		var objs, sliced []string
		missing := false
		for _, ph := range os.Spec.Phases {
			for _, o := range ph.Objects {
				objs = append(objs, strings.TrimPrefix(o.Object.GetName(), "k"))
			}
			// the ObjectSlice objects the phase names, as they are in the store
			for _, name := range ph.Slices {
				sl, ok := c.slices[name]
				if !ok {
					missing = true
					continue
				}
				for _, o := range sl.Objects {
					sliced = append(sliced, strings.TrimPrefix(o.Object.GetName(), "k"))
				}
			}
		}
		parts = append(parts, fmt.Sprintf("%s/%d/%s%s%s%s%s%s%s/%s/%s/%s", c08Idx(os.Name), os.Status.Revision, lc,
			b(os.Annotations[c08PbpAnn] == "true"),
			b(meta.IsStatusConditionTrue(os.Status.Conditions, corev1alpha1.ObjectSetAvailable)),
			b(meta.IsStatusConditionTrue(os.Status.Conditions, corev1alpha1.ObjectSetPaused)),
			b(os.DeletionTimestamp != nil),
			b(hasHash && hash == od.Status.TemplateHash),
			b(missing),
			co, strings.Join(objs, "."), strings.Join(sliced, ".")))
	}
	return strings.Join(parts, ",")
}

// c08Remove is what a Delete request does to the store.
func (c *c08Client) remove(name string) {
	st, known := c.store[name]
	if !known || c.gone[name] {
		return
	}
	if c.fin {
		if st.DeletionTimestamp == nil {
			now := metav1.Unix(1, 0)
			st.DeletionTimestamp = &now
		}
	} else {
		c.gone[name] = true
	}
}

func c08HistExec(h c08Hist) string {
	c := c08NewClient(h.Fin, false)
	var hi int64
	for i, r := range h.Init {
		os, slices := c08ObjectSet(i, r, c.ns())
		if h.Fin || r.Dt {
			os.Finalizers = []string{"package-operator.run/cached"}
		}
		c.add(os, slices)
		if r.Rev > hi {
			hi = r.Rev
		}
	}
	next := len(h.Init)
	ctx := logr.NewContext(context.Background(), logr.Discard())
	od := c08Deployment(c, h.Limit, h.Odp).(*adapters.ObjectDeployment)
	osr, _ := c08Controller(c)

	live := func(i *int) *corev1alpha1.ObjectSet {
		if i == nil {
			z := 0
			i = &z
		}
		name := "r" + strconv.Itoa(*i)
		if st, ok := c.store[name]; ok && !c.gone[name] {
			return st
		}
		return nil
	}
	var segs []string
	for _, op := range h.Ops {
		switch op.Op {
		case "od":
			pre := c08Snap(c, od)
			c.log = nil
			limit := "n"
			if od.Spec.RevisionHistoryLimit != nil {
				limit = strconv.Itoa(int(*od.Spec.RevisionHistoryLimit))
			}
			paused := "0"
			if od.Spec.Paused {
				paused = "1"
			}
			_, err := osr.Reconcile(ctx, od)
			res := "ok"
			if err != nil {
				res = "err"
			}
			segs = append(segs, "S"+pre+";"+paused+";"+limit+";"+strings.Join(c.log, ",")+";"+res+";S"+c08Snap(c, od))
		case "new":
			id := next
			next++
			r := c08Rev{Av: c08B(op.Av), Sp: c08B(op.Sp), Lc: "A", Co: c08Keys(op.Co), Obj: c08Keys(op.Obj), Hm: true,
				Sl: c08Keys(op.Sl), Sm: c08B(op.Sm)}
			if !c08B(op.Rev0) {
				hi++
				r.Rev = hi
			}
			os, slices := c08ObjectSet(id, r, c.ns())
			if h.Fin {
				os.Finalizers = []string{"package-operator.run/cached"}
			}
			// the roll-out moves the deployment's template hash to the new revision
			hash := "h" + strconv.Itoa(id)
			os.Annotations[ObjectSetHashAnnotation] = hash
			od.Status.TemplateHash = hash
			c.add(os, slices)
		case "st":
			if st := live(op.I); st != nil {
				idx, _ := strconv.Atoi(c08Idx(st.Name))
				c08SetStatus(st, idx, c08B(op.Av), c08B(op.Sp), c08Keys(op.Co))
				c08SetCondShapes(st, op.Pc, op.Ac)
				if st.Status.Revision == 0 {
					hi++
					st.Status.Revision = hi
				}
			}
		case "edit":
			if st := live(op.I); st != nil {
				idx, _ := strconv.Atoi(c08Idx(st.Name))
				if op.Lc != nil {
					switch *op.Lc {
					case "P":
						st.Spec.LifecycleState = corev1alpha1.ObjectSetLifecycleStatePaused
					case "X":
						st.Spec.LifecycleState = corev1alpha1.ObjectSetLifecycleStateArchived
					default:
						st.Spec.LifecycleState = ""
						if idx%2 == 0 {
							st.Spec.LifecycleState = corev1alpha1.ObjectSetLifecycleStateActive
						}
					}
				}
				if op.Pbp != nil {
					if st.Annotations == nil {
						st.Annotations = map[string]string{}
					}
					switch {
					case *op.Pbp:
						st.Annotations[c08PbpAnn] = "true"
					case idx%3 == 0:
						st.Annotations[c08PbpAnn] = "false" // any value but "true" marks nothing
					default:
						delete(st.Annotations, c08PbpAnn)
					}
				}
			}
		case "del":
			if st := live(op.I); st != nil {
				c.remove(st.Name)
			}
		case "fin":
			if st := live(op.I); st != nil && st.DeletionTimestamp != nil {
				c.gone[st.Name] = true
			}
		case "pause":
			od.Spec.Paused = c08B(op.B)
		case "limit":
			od.Spec.RevisionHistoryLimit = op.L
		default:
			return "BAD-OP"
		}
	}
	segs = append(segs, "F"+c08Snap(c, od))
	return strings.Join(segs, "|")
}

// c08HistTags: input-distribution tags of a history and its observed trace.
func c08HistTags(h c08Hist, out string) []string {
	tags := []string{}
	passes, prunes, prunesWithTerm, termListed, pausedPasses, slicedPasses := 0, 0, 0, 0, 0, 0
	kinds := map[string]bool{}
	for _, seg := range strings.Split(out, "|") {
		f := strings.Split(seg, ";")
		if len(f) != 6 {
			continue
		}
		passes++
		term := false
		slicedListed := false
		for _, r := range strings.Split(strings.TrimPrefix(f[0], "S"), ",") {
			p := strings.Split(r, "/")
			if len(p) == 6 && len(p[2]) == 7 && p[2][4] == '1' {
				term = true
			}
			if len(p) == 6 && (p[5] != "" || (len(p[2]) == 7 && p[2][6] == '1')) {
				slicedListed = true
			}
		}
		if term {
			termListed++
		}
		if slicedListed {
			slicedPasses++
		}
		if f[1] == "1" {
			pausedPasses++
		}
		del := false
		if f[3] != "" {
			for _, w := range strings.Split(f[3], ",") {
				k := strings.TrimRight(w, "0123456789")
				kinds[k] = true
				if k == "d" {
					del = true
				}
			}
		}
		if del {
			prunes++
			if term {
				prunesWithTerm++
			}
		}
		if f[4] == "err" {
			kinds["err"] = true
		}
	}
	tags = append(tags, fmt.Sprintf("passes=%d", min(passes, 6)))
	if prunes >= 2 {
		tags = append(tags, "prune-rounds>=2")
	}
	if termListed > 0 {
		tags = append(tags, "pass-lists-terminating")
	}
	if prunesWithTerm > 0 {
		tags = append(tags, "prune-while-terminating-listed")
	}
	if pausedPasses > 0 {
		tags = append(tags, "paused-pass")
	}
	if slicedPasses > 0 {
		tags = append(tags, "pass-lists-sliced-revision")
	}
	for k := range kinds {
		tags = append(tags, "w="+k)
	}
	if !h.Fin {
		tags = append(tags, "nofinalizer")
	}
	if strings.HasPrefix(out, "PANIC") {
		tags = append(tags, "panic")
	}
	if passes == 0 {
		tags = append(tags, "trivial")
	}
	return tags
}

func c08HistNorm(h *c08Hist) {
	if h.Init == nil {
		h.Init = []c08Rev{}
	}
	for i := range h.Init {
		if h.Init[i].Obj == nil {
			h.Init[i].Obj = []int{}
		}
	}
	if h.Ops == nil {
		h.Ops = []c08Op{}
	}
}

// ---- operation constructors
func c08pi(v int) *int       { return &v }
func c08pb(v bool) *bool     { return &v }
func c08ps(v string) *string { return &v }
func c08pk(v []int) *[]int   { return &v }

func c08OpOD() c08Op { return c08Op{Op: "od"} }
func c08OpNew(av bool, obj []int) c08Op {
	return c08Op{Op: "new", Av: c08pb(av), Sp: c08pb(false), Co: c08pk([]int{}), Obj: c08pk(obj)}
}

// c08OpNewSl: roll-out of a revision whose objects live (partly) in ObjectSlices.
func c08OpNewSl(av bool, obj, sl []int, sm bool) c08Op {
	o := c08OpNew(av, obj)
	if sl != nil {
		o.Sl = c08pk(sl)
	}
	if sm {
		o.Sm = c08pb(true)
	}
	return o
}
func c08OpSt(i int, av, sp bool, co []int) c08Op {
	o := c08Op{Op: "st", I: c08pi(i), Av: c08pb(av), Sp: c08pb(sp)}
	if co != nil {
		o.Co = c08pk(co)
	}
	return o
}

// c08Shaped gives a status report explicit condition shapes (every status value, observedGeneration
// current / stale); av / sp stay what the adapters read of them.
func c08Shaped(o c08Op, intn func(int) int) c08Op {
	o.Pc = c08CondShapes[intn(len(c08CondShapes))]
	o.Ac = c08CondShapes[intn(len(c08CondShapes))]
	o.Sp, o.Av = c08pb(o.Pc[0] == 'T'), c08pb(o.Ac[0] == 'T')
	return o
}

func c08OpEdit(i int, lc string, pbp *bool) c08Op {
	o := c08Op{Op: "edit", I: c08pi(i), Pbp: pbp}
	if lc != "" {
		o.Lc = c08ps(lc)
	}
	return o
}
func c08OpDel(i int) c08Op      { return c08Op{Op: "del", I: c08pi(i)} }
func c08OpFin(i int) c08Op      { return c08Op{Op: "fin", I: c08pi(i)} }
func c08OpPause(b bool) c08Op   { return c08Op{Op: "pause", B: c08pb(b)} }
func c08OpLimit(l *int32) c08Op { return c08Op{Op: "limit", L: l} }

// c08HistRunner emits histories on a verifkit run; shared by TestVerifC08Hist and TestVerifC09Od.
type c08HistRunner struct {
	r    *verifkit.Run
	seen map[string]bool
}

func (x *c08HistRunner) run(h c08Hist) string {
	c08HistNorm(&h)
	line, err := json.Marshal(h)
	if err != nil {
		x.r.T.Fatal(err)
	}
	if x.seen[string(line)] {
		return ""
	}
	x.seen[string(line)] = true
	out := verifkit.Guard(func() string { return c08HistExec(h) })
	x.r.Emit(string(line), out, c08HistTags(h, out)...)
	return out
}

func (x *c08HistRunner) fixed(t *testing.T) {
	for _, line := range x.r.Fixed() {
		var h c08Hist
		if err := json.Unmarshal([]byte(line), &h); err != nil {
			t.Fatalf("bad scenario %q: %v", line, err)
		}
		delete(x.seen, line)
		c08HistNorm(&h)
		out := verifkit.Guard(func() string { return c08HistExec(h) })
		x.r.Emit(h, out, c08HistTags(h, out)...)
	}
}

// a history prefix as a real deployment would have it: archived old revisions, then the revision
// that is being replaced, then the current one.
func c08Chain(nArchived int, prevLc string, prevSp, prevAv, curAv bool) []c08Rev {
	var revs []c08Rev
	for i := 0; i < nArchived; i++ {
		revs = append(revs, c08Rev{Rev: int64(i + 1), Lc: "X", Sp: true, Co: []int{}, Obj: []int{i % 3}})
	}
	n := nArchived
	revs = append(revs, c08Rev{Rev: int64(n + 1), Lc: prevLc, Sp: prevSp, Av: prevAv, Co: []int{}, Obj: []int{n % 3}})
	revs = append(revs, c08Rev{Rev: int64(n + 2), Lc: "A", Av: curAv, Co: []int{(n + 1) % 3}, Obj: []int{(n + 1) % 3}, Hm: true})
	return revs
}

// random history of a deployment that keeps rolling out
func c08RandHist(x *c08HistRunner, pauseHeavy bool) c08Hist {
	rng := x.r.Rng
	randKeys := func() []int {
		out := []int{}
		for k := 0; k < 3; k++ {
			if rng.Intn(2) == 0 {
				out = append(out, k)
			}
		}
		return out
	}
	h := c08Hist{Fin: rng.Intn(5) != 0, Odp: rng.Intn(6) == 0}
	if pauseHeavy {
		h.Odp = rng.Intn(2) == 0
	}
	switch rng.Intn(4) {
	case 0:
		h.Limit = nil
	default:
		h.Limit = c08P(int32(rng.Intn(4)))
	}
	n := 1 + rng.Intn(4)
	for i := 0; i < n; i++ {
		f := c08Flags[rng.Intn(len(c08Flags))]
		rv := c08Rev{Rev: int64(i + 1), Lc: f[0].(string), Av: f[1].(bool), Sp: f[2].(bool), Obj: randKeys(),
			Hm: i == n-1 && rng.Intn(5) != 0, Pbp: rng.Intn(4) == 0}
		if i < n-2 && rng.Intn(3) != 0 {
			rv.Lc, rv.Sp, rv.Av = "X", true, false
		}
		if rng.Intn(4) != 0 {
			rv.Co = randKeys()
		}
		if h.Fin && rng.Intn(6) == 0 {
			rv.Dt = true
		}
		if rng.Intn(3) == 0 {
			rv.Obj, rv.Sl = c08Split(rng.Intn, rv.Obj)
			rv.Sm = rng.Intn(10) == 0
		}
		if pauseHeavy && rng.Intn(2) == 0 {
			rv.Lc = []string{"A", "P", "P", "X"}[rng.Intn(4)]
			rv.Pbp = rng.Intn(2) == 0
		}
		h.Init = append(h.Init, rv)
	}
	next := n
	steps := 4 + rng.Intn(x.r.Pick(10, 16))
	lcs := []string{"A", "P", "X"}
	for k := 0; k < steps; k++ {
		any := func() int { return rng.Intn(next + 1) } // may name a revision that does not exist
		p := rng.Intn(100)
		if pauseHeavy {
			switch {
			case p < 35:
				h.Ops = append(h.Ops, c08OpOD())
			case p < 50:
				h.Ops = append(h.Ops, c08OpPause(rng.Intn(2) == 0))
			case p < 75:
				var pbp *bool
				lc := ""
				switch rng.Intn(3) {
				case 0:
					lc = lcs[rng.Intn(3)]
				case 1:
					pbp = c08pb(rng.Intn(2) == 0)
				default:
					lc = lcs[rng.Intn(3)]
					pbp = c08pb(rng.Intn(2) == 0)
				}
				h.Ops = append(h.Ops, c08OpEdit(any(), lc, pbp))
			case p < 83:
				o := c08OpNew(rng.Intn(3) != 0, randKeys())
				if rng.Intn(8) == 0 {
					o.Rev0 = c08pb(true)
				}
				if rng.Intn(3) == 0 {
					in, sl := c08Split(rng.Intn, *o.Obj)
					o.Obj, o.Sl = c08pk(in), c08pk(sl)
				}
				h.Ops = append(h.Ops, o)
				next++
			case p < 93:
				o := c08OpSt(any(), rng.Intn(2) == 0, rng.Intn(2) == 0, randKeys())
				if rng.Intn(3) == 0 {
					o = c08Shaped(o, rng.Intn)
				}
				h.Ops = append(h.Ops, o)
			case p < 96:
				h.Ops = append(h.Ops, c08OpDel(any()))
			default:
				h.Ops = append(h.Ops, c08OpFin(any()))
			}
			continue
		}
		switch {
		case p < 35:
			h.Ops = append(h.Ops, c08OpOD())
		case p < 50:
			o := c08OpNew(rng.Intn(4) != 0, randKeys())
			if rng.Intn(10) == 0 {
				o.Rev0 = c08pb(true)
			}
			// a big package: (some of) the objects of the new revision live in ObjectSlices
			if rng.Intn(3) == 0 {
				in, sl := c08Split(rng.Intn, *o.Obj)
				o.Obj, o.Sl = c08pk(in), c08pk(sl)
				if rng.Intn(10) == 0 {
					o.Sm = c08pb(true)
				}
			}
			h.Ops = append(h.Ops, o)
			next++
		case p < 68:
			// mostly: a replaced revision confirms it is paused and lets go of its objects
			i := any()
			if rng.Intn(3) != 0 && next >= 2 {
				i = next - 2
			}
			var co []int
			if rng.Intn(5) != 0 {
				co = []int{}
				if rng.Intn(3) == 0 {
					co = randKeys()
				}
			}
			o := c08OpSt(i, rng.Intn(4) == 0, rng.Intn(4) != 0, co)
			if rng.Intn(3) == 0 {
				o = c08Shaped(o, rng.Intn)
			}
			h.Ops = append(h.Ops, o)
		case p < 78:
			h.Ops = append(h.Ops, c08OpFin(any()))
		case p < 83:
			h.Ops = append(h.Ops, c08OpDel(any()))
		case p < 90:
			var pbp *bool
			lc := ""
			if rng.Intn(2) == 0 {
				lc = lcs[rng.Intn(3)]
			} else {
				pbp = c08pb(rng.Intn(2) == 0)
			}
			h.Ops = append(h.Ops, c08OpEdit(any(), lc, pbp))
		case p < 94:
			h.Ops = append(h.Ops, c08OpPause(rng.Intn(3) == 0))
		default:
			if rng.Intn(4) == 0 {
				h.Ops = append(h.Ops, c08OpLimit(nil))
			} else {
				h.Ops = append(h.Ops, c08OpLimit(c08P(int32(rng.Intn(4)))))
			}
		}
	}
	h.Ops = append(h.Ops, c08OpOD())
	return h
}

func TestVerifC08Hist(t *testing.T) {
	r := verifkit.Open(t, "C08")
	defer r.Close()
	x := &c08HistRunner{r: r, seen: map[string]bool{}}
	x.fixed(t)
	if r.ReplayOnly() {
		return
	}

	// ---- 1. exhaustive: every operation sequence up to length L over a roll-out alphabet, after
	// every prefix (a deployment about to prune; one that pruned once and whose pruned revision is
	// still terminating; one with a third-party-deleted revision in the middle of the history),
	// for every small revisionHistoryLimit.
	L := r.Pick(4, 5)
	type prefix struct {
		init []c08Rev
		ops  []c08Op
	}
	term := func(revs []c08Rev, idx ...int) []c08Rev {
		for _, i := range idx {
			revs[i].Dt = true
		}
		return revs
	}
	prefixes := []prefix{
		// replaced revision has confirmed its pause: the first pass archives it and prunes
		{c08Chain(1, "P", true, false, true), nil},
		// ... that first round has happened; whatever it deleted is still terminating
		{c08Chain(2, "P", true, false, true), []c08Op{c08OpOD()}},
		// the oldest revision is terminating from the start; the replaced one still has to be paused
		{term(c08Chain(2, "A", false, true, true), 0), nil},
		// a revision in the middle of the history is terminating (third-party delete)
		{term(c08Chain(3, "P", true, false, false), 1), nil},
	}
	count := 0
	for pi, p := range prefixes {
		n0 := len(p.init)
		for _, limit := range []*int32{c08P(0), c08P(1), c08P(2), nil} {
			if limit == nil && pi != 1 {
				continue
			}
			var rec func(ops []c08Op, next int)
			rec = func(ops []c08Op, next int) {
				if len(ops) > 0 {
					h := c08Hist{Fin: true, Limit: limit, Init: p.init}
					h.Ops = append(append(append([]c08Op{}, p.ops...), ops...), c08OpOD())
					x.run(h)
					count++
				}
				if len(ops) == L || (len(ops) == 4 && pi%2 == 0) {
					return // depth 5 (thorough) only after the prefixes that already list a terminating revision
				}
				alpha := []c08Op{
					c08OpOD(),
					c08OpNew(true, []int{next % 3}),
					c08OpNew(false, []int{next % 3}),
					// the revision before the newest confirms its pause and controls nothing
					c08OpSt(next-2, false, true, []int{}),
					// the newest becomes Available
					c08OpSt(next-1, true, false, []int{(next - 1) % 3}),
					c08OpFin(0),
					c08OpFin(1),
					c08OpDel(next - 2),
				}
				for _, o := range alpha {
					if len(ops) > 0 && ops[len(ops)-1].Op == "od" && o.Op == "od" {
						continue // two passes on the same store: the second repeats the first
					}
					nx := next
					if o.Op == "new" {
						nx++
					}
					rec(append(append([]c08Op{}, ops...), o), nx)
				}
			}
			rec(nil, n0)
		}
	}
	r.Extra["exhaustive_hist_len"] = L
	r.Extra["exhaustive_hist_count"] = count

	// ---- 1b. roll-outs of revisions whose objects live in ObjectSlices: every operation sequence up
	// to length L over {pass; roll-out of an unavailable revision that contains the object the
	// replaced revision serves — in a slice / inline / in a slice next to inline objects / in no
	// known place while one of its slices is missing; the replaced revision turns unavailable /
	// confirms its pause still controlling the object / having released it; the newest revision
	// becomes Available having adopted it}, starting from one serving revision and from a chain.
	{
		serving := c08Rev{Rev: 1, Lc: "A", Av: true, Co: []int{0}, Obj: []int{0}, Hm: true}
		chain := c08Chain(1, "P", true, false, true)
		chain[2].Co, chain[2].Obj = []int{0}, []int{0}
		count = 0
		for ii, init := range [][]c08Rev{{serving}, chain} {
			for _, limit := range []*int32{nil, c08P(1)} {
				var rec func(ops []c08Op, next int)
				rec = func(ops []c08Op, next int) {
					if len(ops) > 0 {
						h := c08Hist{Fin: true, Limit: limit, Init: init}
						h.Ops = append(append([]c08Op{}, ops...), c08OpOD())
						x.run(h)
						count++
					}
					if len(ops) == L || (len(ops) == 4 && (ii > 0 || limit != nil)) {
						return // depth 5 (thorough) only from the single serving revision with the default limit
					}
					alpha := []c08Op{
						c08OpOD(),
						c08OpNewSl(false, []int{}, []int{0}, false),
						c08OpNewSl(false, []int{1}, []int{2, 0}, false),
						c08OpNewSl(false, []int{0}, nil, false),
						c08OpNewSl(false, []int{1}, []int{2}, true),
						c08OpSt(next-2, false, false, []int{0}),
						c08OpSt(next-2, false, true, []int{0}),
						c08OpSt(next-2, false, true, []int{}),
						c08OpSt(next-1, true, false, []int{0}),
					}
					for _, o := range alpha {
						if len(ops) > 0 && ops[len(ops)-1].Op == "od" && o.Op == "od" {
							continue
						}
						if o.Op == "st" && *o.I < 0 {
							continue
						}
						nx := next
						if o.Op == "new" {
							nx++
						}
						rec(append(append([]c08Op{}, ops...), o), nx)
					}
				}
				rec(nil, len(init))
			}
		}
		r.Extra["exhaustive_sliced_hist_count"] = count
	}

	// ---- 2. every subset of terminating revisions in an archived history of length 2..5, every
	// limit: one pruning round, teardown of some of them finishes, a roll-out, a second round.
	count = 0
	for n := 2; n <= r.Pick(4, 5); n++ {
		for mask := 0; mask < 1<<n; mask++ {
			for l := 0; l <= n; l++ {
				for variant := 0; variant < 3; variant++ {
					init := c08Chain(n-1, "P", true, false, true)
					for i := 0; i < n; i++ {
						if mask&(1<<i) != 0 {
							init[i].Dt = true
						}
					}
					next := len(init)
					ops := []c08Op{c08OpOD()}
					switch variant {
					case 1:
						ops = append(ops, c08OpFin(0))
					case 2:
						ops = append(ops, c08OpFin(1), c08OpLimit(c08P(int32(max(l-1, 0)))))
					}
					ops = append(ops, c08OpNew(true, []int{next % 3}), c08OpOD(),
						c08OpSt(next-1, false, true, []int{}), c08OpOD())
					x.run(c08Hist{Fin: true, Limit: c08P(int32(l)), Init: init, Ops: ops})
					count++
				}
			}
		}
	}
	r.Extra["terminating_subsets_count"] = count

	// ---- 3. seeded random histories of a deployment that keeps rolling out
	for it := 0; it < r.Pick(6000, 60000); it++ {
		x.run(c08RandHist(x, false))
	}
}
